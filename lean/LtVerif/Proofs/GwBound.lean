/-
  C11 helper lemmas, part 4: statistics entries keyed by config label, history-level
  dispatch safety, what the trigger leaves behind, the per-request dispatch bound.
-/
import LtVerif.Proofs.GwRetry
set_option linter.unusedSimpArgs false
set_option linter.unusedVariables false
namespace LtVerif.Gw

/-! ### reported figures: `gw.backend.<label>.load` -/

/-- no two hosts share a statistics label -/
def LabelInj (w : World) : Prop := ∀ h h', (w.host h).label = (w.host h').label → h = h'

/-- the statistics entries hold the struct fields -/
def StatExact (w : World) : Prop :=
  (∀ h, w.hstat (w.host h).label = (w.host h).load) ∧
  (∀ h p, w.pstat (w.host h).label p = (w.proc h p).load)

theorem setPState_stat (w : World) (h p : Nat) (st : PState) :
    (setPState w h p st).hstat = w.hstat ∧ (setPState w h p st).pstat = w.pstat ∧
    (∀ h', ((setPState w h p st).host h').label = (w.host h').label ∧
           ((setPState w h p st).host h').load = (w.host h').load) := by
  unfold setPState
  split
  · exact ⟨rfl, rfl, fun _ => ⟨rfl, rfl⟩⟩
  · dsimp only
    split
    · refine ⟨rfl, rfl, fun h' => ?_⟩
      simp only [World.updProc, World.updHost]; by_cases e : h' = h <;> simp [e]
    · split
      · refine ⟨rfl, rfl, fun h' => ?_⟩
        simp only [World.updProc, World.updHost]; by_cases e : h' = h <;> simp [e]
      · exact ⟨rfl, rfl, fun _ => ⟨rfl, rfl⟩⟩

theorem label_prim {a b : World} (pr : Prim a b) (h : Nat) : (b.host h).label = (a.host h).label := by
  cases pr with
  | misc => rfl
  | host h' f hf hl => simp only [World.updHost]; by_cases e : h = h' <;> simp [e, (hl _).2]
  | proc => rfl
  | hostLoad h' v => simp only [setHostLoad, World.updHost]; by_cases e : h = h' <;> simp [e]
  | procLoad => rfl
  | disable h' p hp => exact ((setPState_stat _ h' p .overloaded).2.2 h).1
  | enable h' p hp hs ht => exact ((setPState_stat _ h' p .running).2.2 h).1
  | killedTick => rfl
  | emit => rfl
  | dispatch => rfl
  | tick => rfl

theorem labelInj_prim {a b : World} (pr : Prim a b) : LabelInj b ↔ LabelInj a := by
  unfold LabelInj
  constructor
  · intro hb h h' e; exact hb h h' (by rw [label_prim pr, label_prim pr]; exact e)
  · intro ha h h' e; exact ha h h' (by rw [← label_prim pr h, ← label_prim pr h']; exact e)

theorem labelInj_reach {a b : World} (hr : Reach a b) : LabelInj b ↔ LabelInj a := by
  induction hr with
  | refl => exact Iff.rfl
  | step _ pr ih => exact (labelInj_prim pr).trans ih

theorem stat_prim {a b : World} (pr : Prim a b) (hi : LabelInj a) (hS : StatExact a) : StatExact b := by
  obtain ⟨hh, hp⟩ := hS
  cases pr with
  | misc => exact ⟨hh, hp⟩
  | host h f hf hl =>
    refine ⟨fun h' => ?_, fun h' p' => ?_⟩
    · have := hh h'
      simp only [World.updHost]
      by_cases e : h' = h
      · subst e; simp [(hl _).1, (hl _).2]; exact this
      · simp [e]; exact this
    · have := hp h' p'
      simp only [World.updHost]
      by_cases e : h' = h
      · subst e; simp [(hl _).2]; exact this
      · simp [e]; exact this
  | proc h p f hf hl =>
    refine ⟨hh, fun h' p' => ?_⟩
    have := hp h' p'
    simp only [World.updProc]
    by_cases e : h' = h ∧ p' = p
    · obtain ⟨rfl, rfl⟩ := e; simp [hl]; exact this
    · simp [e]; exact this
  | hostLoad h v =>
    refine ⟨fun h' => ?_, fun h' p' => ?_⟩
    · simp only [setHostLoad, World.updHost]
      by_cases e : h' = h
      · subst e; simp
      · have hne : (a.host h').label ≠ (a.host h).label := fun e2 => e (hi h' h e2)
        simp [e, hne]; exact hh h'
    · have := hp h' p'
      simp only [setHostLoad, World.updHost]
      by_cases e : h' = h
      · subst e; simp; exact this
      · simp [e]; exact this
  | procLoad h p v =>
    refine ⟨hh, fun h' p' => ?_⟩
    simp only [setProcLoad, World.updProc]
    by_cases e : h' = h ∧ p' = p
    · obtain ⟨rfl, rfl⟩ := e; simp
    · have hne : ¬((a.host h').label = (a.host h).label ∧ p' = p) := by
        rintro ⟨e1, e2⟩; exact e ⟨hi h' h e1, e2⟩
      simp [e, hne]; exact hp h' p'
  | disable h p hp' =>
    have T := setPState_stat (a.updProc h p fun P => { P with disabledUntil := a.now + (a.host h).disableTime }) h p .overloaded
    have P := setPState_proc (a.updProc h p fun P => { P with disabledUntil := a.now + (a.host h).disableTime }) h p .overloaded
    refine ⟨fun h' => ?_, fun h' p' => ?_⟩
    · rw [T.1, (T.2.2 h').1, (T.2.2 h').2]; exact hh h'
    · rw [T.2.1, (T.2.2 h').1, (P h' p').2.2.2.1]
      have := hp h' p'
      simp only [World.updProc]; by_cases e : h' = h ∧ p' = p
      · obtain ⟨rfl, rfl⟩ := e; simp; exact this
      · simp [e]; exact this
  | enable h p hp' hs ht =>
    have T := setPState_stat a h p .running
    have P := setPState_proc a h p .running
    refine ⟨fun h' => ?_, fun h' p' => ?_⟩
    · rw [T.1, (T.2.2 h').1, (T.2.2 h').2]; exact hh h'
    · rw [T.2.1, (T.2.2 h').1, (P h' p').2.2.2.1]; exact hp h' p'
  | killedTick h p hs =>
    refine ⟨hh, fun h' p' => ?_⟩
    have := hp h' p'
    simp only [World.updProc]; by_cases e : h' = h ∧ p' = p
    · obtain ⟨rfl, rfl⟩ := e; simp; exact this
    · simp [e]; exact this
  | emit => exact ⟨hh, hp⟩
  | dispatch => exact ⟨hh, hp⟩
  | tick => exact ⟨hh, hp⟩

theorem stat_reach {a b : World} (hr : Reach a b) (hi : LabelInj a) (hS : StatExact a) : StatExact b := by
  induction hr with
  | refl => exact hS
  | step hr' pr ih => exact stat_prim pr ((labelInj_reach hr').mpr hi) ih

theorem labelInj_init (balance : Nat) (wkr : Bool) (nslots : Nat) (specs : List HostSpec) :
    LabelInj (initWorld balance wkr nslots specs) := by
  intro h h' e
  simp only [initWorld] at e
  omega

theorem stat_init (balance : Nat) (wkr : Bool) (nslots : Nat) (specs : List HostSpec) :
    StatExact (initWorld balance wkr nslots specs) := by
  refine ⟨fun h => ?_, fun h p => ?_⟩
  · simp only [initWorld]
    have : ∀ o : Option HostSpec, (specHost h o).load = 0 := by intro o; cases o <;> rfl
    exact (this _).symm
  · simp only [initWorld]
    have : ∀ o : Option HostSpec, (specProc h p o).load = 0 := by intro o; cases o <;> rfl
    exact (this _).symm

/-! ### history-level dispatch safety -/

theorem prim_log {a b : World} (pr : Prim a b) :
    b.log = a.log ∨ ∃ e, b.log = e :: a.log ∧
      (isDispatch e = false ∨ ∃ s h p, e = .dispatch s h p ∧ p < (a.host h).nprocs ∧ (a.proc h p).state = .running) := by
  cases pr with
  | misc => exact Or.inl rfl
  | host => exact Or.inl rfl
  | proc => exact Or.inl rfl
  | hostLoad => exact Or.inl rfl
  | procLoad => exact Or.inl rfl
  | disable h p hp => exact Or.inl (setPState_other _ h p .overloaded).2.2.2.2.2.1
  | enable h p hp hs ht => exact Or.inl (setPState_other _ h p .running).2.2.2.2.2.1
  | killedTick => exact Or.inl rfl
  | emit e he => exact Or.inr ⟨e, rfl, Or.inl he⟩
  | dispatch s h p hp hs => exact Or.inr ⟨_, rfl, Or.inr ⟨s, h, p, rfl, hp, hs⟩⟩
  | tick => exact Or.inl rfl

/-- every connect() logged between two worlds was issued from the world whose log is exactly
    what precedes the entry — and in that world the proc was RUNNING -/
theorem reach_dispatch_running {a b : World} (hr : Reach a b) :
    ∃ new, b.log = new ++ a.log ∧ ∀ post pre s h p, new = post ++ Ev.dispatch s h p :: pre →
      ∃ w', Reach a w' ∧ Reach w' b ∧ w'.log = pre ++ a.log ∧
        p < (w'.host h).nprocs ∧ (w'.proc h p).state = .running := by
  induction hr with
  | refl => exact ⟨[], rfl, by intro post pre s h p e; cases post <;> cases e⟩
  | step hr' pr ih =>
    rename_i w' w''
    obtain ⟨new, hlog, hnew⟩ := ih
    rcases prim_log pr with hl | ⟨e, hl, he⟩
    · refine ⟨new, by rw [hl, hlog], ?_⟩
      intro post pre s h p hm
      obtain ⟨v, r1, r2, c0, c1, c2⟩ := hnew post pre s h p hm
      exact ⟨v, r1, Reach.step r2 pr, c0, c1, c2⟩
    · refine ⟨e :: new, by rw [hl, hlog]; rfl, ?_⟩
      intro post pre s h p hm
      cases post with
      | nil =>
        simp only [List.nil_append, List.cons.injEq] at hm
        obtain ⟨rfl, rfl⟩ := hm
        rcases he with he | ⟨s', h', p', e1, c1, c2⟩
        · simp [isDispatch] at he
        · cases e1
          exact ⟨w', hr', Reach.one pr, hlog, c1, c2⟩
      | cons x post' =>
        simp only [List.cons_append, List.cons.injEq] at hm
        obtain ⟨v, r1, r2, c0, c1, c2⟩ := hnew post' pre s h p hm.2
        exact ⟨v, r1, Reach.step r2 pr, c0, c1, c2⟩

/-! ### what the trigger leaves behind -/

theorem restartDeadProc_frame (w : World) (h : Nat) (tr : Bool) (q p : Nat) (hne : q ≠ p) :
    ((restartDeadProc w h tr q).proc h p).state = (w.proc h p).state ∧
    ((restartDeadProc w h tr q).proc h p).disabledUntil = (w.proc h p).disabledUntil ∧
    (restartDeadProc w h tr q).now = w.now := by
  have hne' : ¬(h = h ∧ p = q) := fun ⟨_, h2⟩ => hne h2.symm
  unfold restartDeadProc
  split
  · exact ⟨rfl, rfl, rfl⟩
  · exact checkEnable_frame w h q h p hne'
  · split
    · have hpq : p ≠ q := fun h2 => hne h2.symm
      simp [World.updProc, hpq]
    · exact ⟨rfl, rfl, rfl⟩
  · exact ⟨rfl, rfl, rfl⟩
  · exact ⟨rfl, rfl, rfl⟩

/-- after the visit an OVERLOADED proc is one whose time is not up -/
def Settled (h p : Nat) (w : World) : Prop :=
  (w.proc h p).state = .overloaded → w.now ≤ (w.proc h p).disabledUntil

theorem restartDeadProc_settles (w : World) (h : Nat) (tr : Bool) (p : Nat) :
    Settled h p (restartDeadProc w h tr p) := by
  unfold Settled restartDeadProc
  cases hs : (w.proc h p).state with
  | running => simp [hs]
  | overloaded =>
    simp only [hs]
    unfold checkEnable
    by_cases h1 : w.now ≤ (w.proc h p).disabledUntil
    · rw [if_pos h1]; intro _; exact h1
    · rw [if_neg h1, if_neg (by simp [hs])]
      have P := setPState_proc w h p .running h p
      intro h2; rw [P.2.2.2.2] at h2; simp at h2
  | killed =>
    simp only [hs]
    split
    · simp [World.updProc, hs]
    · simp [hs]
  | diedWait => simp [hs]
  | died => simp [hs]

theorem restartDeadProc_keeps_settled (w : World) (h : Nat) (tr : Bool) (q p : Nat) (hne : q ≠ p)
    (hS : Settled h p w) : Settled h p (restartDeadProc w h tr q) := by
  have F := restartDeadProc_frame w h tr q p hne
  unfold Settled; rw [F.1, F.2.1, F.2.2]; exact hS

theorem fold_settled (h p : Nat) (f : World → Nat → World) (l : List Nat) (w : World)
    (hnd : l.Nodup)
    (hself : ∀ w, Settled h p (f w p))
    (hoth : ∀ w q, q ≠ p → Settled h p w → Settled h p (f w q))
    (hp : p ∈ l) : Settled h p (l.foldl f w) := by
  induction l generalizing w with
  | nil => simp at hp
  | cons q l ih =>
    simp only [List.foldl_cons]
    have hnd' := List.nodup_cons.mp hnd
    rcases List.mem_cons.mp hp with rfl | hp
    · -- p handled now; the rest of the list does not contain it
      have : ∀ (l : List Nat) (w : World), p ∉ l → Settled h p w → Settled h p (l.foldl f w) := by
        intro l
        induction l with
        | nil => intro w _ hw; exact hw
        | cons a l ih2 =>
          intro w hn hw
          simp only [List.foldl_cons]
          exact ih2 _ (fun hm => hn (List.mem_cons_of_mem _ hm))
            (hoth w a (fun e => hn (by rw [e]; exact List.mem_cons_self)) hw)
      exact this l _ hnd'.1 (hself w)
    · exact ih _ hnd'.2 hp

theorem restartDeadProcs_settles (w : World) (h : Nat) (tr : Bool) (p : Nat) (hp : p < (w.host h).nprocs) :
    Settled h p (restartDeadProcs w h tr) := by
  unfold restartDeadProcs
  exact fold_settled h p _ _ w List.nodup_range (fun w => restartDeadProc_settles w h tr p)
    (fun w q hne hS => restartDeadProc_keeps_settled w h tr q p hne hS) (by simpa using hp)

theorem checkOverloaded_settles (w : World) (h : Nat) (p : Nat) (hp : p < (w.host h).nprocs) :
    Settled h p (checkOverloaded w h) := by
  unfold checkOverloaded
  refine fold_settled h p _ _ w List.nodup_range ?_ ?_ (by simpa using hp)
  · intro w
    by_cases ho : (w.proc h p).state = .overloaded
    · simp only [ho, if_true]
      have e : restartDeadProc w h false p = checkEnable w h p := by unfold restartDeadProc; simp [ho]
      rw [← e]; exact restartDeadProc_settles w h false p
    · simp only [ho, if_false]; intro h2; exact absurd h2 ho
  · intro w q hne hS
    by_cases ho : (w.proc h q).state = .overloaded
    · simp only [ho, if_true]
      have e : restartDeadProc w h false q = checkEnable w h q := by unfold restartDeadProc; simp [ho]
      rw [← e]; exact restartDeadProc_keeps_settled w h false q p hne hS
    · simp only [ho, if_false]; exact hS

/-- gw_handle_trigger_host(): afterwards every proc of the host is RUNNING, or out of rotation
    with its disable time still ahead (it failed again in this very tick, or its time is not up) -/
theorem triggerHost_settles (w : World) (h p : Nat) (hp : p < (w.host h).nprocs) :
    Settled h p (triggerHost w h) := by
  unfold triggerHost
  dsimp only
  have hn : p < ((hostTimeouts w h).host h).nprocs := by
    rw [(reach_static (reach_hostTimeouts w h)).nprocs]; exact hp
  split
  · exact checkOverloaded_settles _ h p hn
  · exact restartDeadProcs_settles _ h true p hn

/-- the three deadline checks of gw_handle_trigger_host_timeouts(), write timeout included -/
theorem timeoutStep_write_fires (h : Nat) (w : World) (s : Nat)
    (h1 : (w.linkOf s).state ≠ .connectDelayed)
    (h2 : ¬((w.auxOf s).evIn = true ∧ w.now - (w.auxOf s).readTs > (w.host h).rtimeout ∧ (w.host h).rtimeout ≠ 0))
    (h3 : (w.auxOf s).evOut = true) (h4 : w.now - (w.auxOf s).writeTs > (w.host h).wtimeout)
    (h5 : (w.host h).wtimeout ≠ 0) : timeoutStep h w s = hctxTimeout w s 2 := by
  unfold timeoutStep; dsimp only
  rw [if_neg h1, if_neg h2, if_pos ⟨h3, h4, h5⟩]


/-! ### the per-request dispatch bound -/

/-- a context that the next gw_write_request() will dial from: GW_STATE_INIT, a host, no proc yet -/
def tok (c : Ctx) : Nat :=
  if c.link.state = .init ∧ c.link.proc = none ∧ c.link.host.isSome then 1 else 0

theorem tok_le_one (c : Ctx) : tok c ≤ 1 := by unfold tok; split <;> omega

/-- connect() calls made (+ the one about to be made) never exceed 1 + retries taken, nor 6 -/
def Jc (c : Ctx) : Prop :=
  c.aux.dispatched + tok c ≤ c.aux.reconnects + 1 ∧ c.aux.dispatched + tok c ≤ 6

def JAll (w : World) : Prop := ∀ s c, w.slot s = some c → Jc c

/-- slot s may be (re-)armed: it has taken more retries than it made extra connect() calls -/
def Armable (s : Nat) (w : World) : Prop :=
  ∀ c, w.slot s = some c → c.aux.dispatched ≤ c.aux.reconnects ∧ c.aux.dispatched ≤ 5

/-- only slot s changed, and neither its dispatch count nor its retry count -/
def DRSame (s : Nat) (w w' : World) : Prop :=
  (∀ i, i ≠ s → w'.slot i = w.slot i) ∧
  (∀ c', w'.slot s = some c' → ∃ c, w.slot s = some c ∧ c'.aux.dispatched = c.aux.dispatched ∧
    c'.aux.reconnects = c.aux.reconnects)

theorem DRSame.refl (s : Nat) (w : World) : DRSame s w w := ⟨fun _ _ => rfl, fun c' h => ⟨c', h, rfl, rfl⟩⟩

theorem DRSame.trans {s : Nat} {a b c : World} (h1 : DRSame s a b) (h2 : DRSame s b c) : DRSame s a c := by
  refine ⟨fun i hi => (h2.1 i hi).trans (h1.1 i hi), fun c' hc' => ?_⟩
  obtain ⟨cb, hb, e1, e2⟩ := h2.2 c' hc'
  obtain ⟨ca, ha, e3, e4⟩ := h1.2 cb hb
  exact ⟨ca, ha, e1.trans e3, e2.trans e4⟩

theorem drsame_of_slot {s : Nat} {w w' : World} (h : w'.slot = w.slot) : DRSame s w w' := by
  rw [DRSame, h]; exact DRSame.refl s w

theorem drsame_updSlot (w : World) (s : Nat) (f : Ctx → Ctx)
    (hf : ∀ c, (f c).aux.dispatched = c.aux.dispatched ∧ (f c).aux.reconnects = c.aux.reconnects) :
    DRSame s w (w.updSlot s f) := by
  refine ⟨fun i hi => by simp [World.updSlot, hi], fun c' hc' => ?_⟩
  simp only [World.updSlot, if_true] at hc'
  cases hs : w.slot s with
  | none => simp [hs] at hc'
  | some c => simp [hs] at hc'; subst hc'; exact ⟨c, rfl, (hf c).1, (hf c).2⟩

theorem drsame_updLink (w : World) (s : Nat) (f : Link → Link) : DRSame s w (w.updLink s f) :=
  drsame_updSlot w s _ (fun _ => ⟨rfl, rfl⟩)

theorem armable_drsame {s : Nat} {w w' : World} (h : DRSame s w w') (hA : Armable s w) : Armable s w' := by
  intro c' hc'
  obtain ⟨c, hc, e1, e2⟩ := h.2 c' hc'
  rw [e1, e2]; exact hA c hc

/-- re-arming: whatever happened to slot s's link, an armable slot satisfies the invariant -/
theorem j_of_drsame {s : Nat} {w w' : World} (hJ : JAll w) (h : DRSame s w w') (hA : Armable s w) : JAll w' := by
  intro i c' hc'
  by_cases hi : i = s
  · subst hi
    obtain ⟨c, hc, e1, e2⟩ := h.2 c' hc'
    obtain ⟨a1, a2⟩ := hA c hc
    have := tok_le_one c'
    unfold Jc; rw [e1, e2]; omega
  · rw [h.1 i hi] at hc'; exact hJ i c' hc'

theorem j_same {w w' : World} (h : w'.slot = w.slot) (hJ : JAll w) : JAll w' := by
  intro s c hc; rw [h] at hc; exact hJ s c hc

theorem j_updSlot (w : World) (s : Nat) (f : Ctx → Ctx) (hJ : JAll w)
    (hf : ∀ c, w.slot s = some c → Jc c → Jc (f c)) : JAll (w.updSlot s f) := by
  intro i c' hc'
  simp only [World.updSlot] at hc'
  by_cases hi : i = s
  · subst hi
    simp only [if_true] at hc'
    cases hs : w.slot i with
    | none => simp [hs] at hc'
    | some c => simp [hs] at hc'; subst hc'; exact hf c hs (hJ i c hs)
  · simp only [hi, if_false] at hc'; exact hJ i c' hc'

/-- aux updates that keep the dispatch count and do not lower the retry count -/
theorem j_updAux (w : World) (s : Nat) (f : Aux → Aux) (hJ : JAll w)
    (hf : ∀ a, (f a).dispatched = a.dispatched ∧ a.reconnects ≤ (f a).reconnects) : JAll (w.updAux s f) := by
  refine j_updSlot w s _ hJ ?_
  intro c _ hc
  obtain ⟨h1, h2⟩ := hc
  have e : tok { c with aux := f c.aux } = tok c := rfl
  unfold Jc; rw [e]
  show (f c.aux).dispatched + _ ≤ (f c.aux).reconnects + 1 ∧ (f c.aux).dispatched + _ ≤ 6
  rw [(hf _).1]; have := (hf c.aux).2; omega

/-- link updates that cannot arm a context -/
theorem j_updLink (w : World) (s : Nat) (f : Link → Link) (hJ : JAll w)
    (hf : ∀ c : Ctx, tok { c with link := f c.link } ≤ tok c) : JAll (w.updLink s f) := by
  refine j_updSlot w s _ hJ ?_
  intro c _ hc
  obtain ⟨h1, h2⟩ := hc
  have := hf c
  unfold Jc
  dsimp only
  omega

syntax "j_peel" : tactic
macro_rules | `(tactic| j_peel) => `(tactic| first
  | assumption
  | (refine j_updAux _ _ _ ?_ (fun _ => ⟨rfl, Nat.le_refl _⟩))
  | (refine j_updLink _ _ _ ?_ (fun c => by unfold tok; simp))
  | (refine j_same (w := _) rfl ?_))
macro "j_close" : tactic => `(tactic| repeat j_peel)

/-! frames: availability functions do not touch the slots -/

theorem connectError_slot (w : World) (h p pid : Nat) : (connectError w h p pid).slot = w.slot := by
  unfold connectError; split
  · exact (setPState_other _ h p .overloaded).2.2.2.2.2.2
  · rfl

theorem checkEnable_slot (w : World) (h p : Nat) : (checkEnable w h p).slot = w.slot := by
  unfold checkEnable; split
  · rfl
  · split
    · rfl
    · exact (setPState_other w h p .running).2.2.2.2.2.2

theorem slotConnectError_slot (w : World) (s : Nat) : (slotConnectError w s).slot = w.slot := by
  unfold slotConnectError; split
  · split
    · exact connectError_slot _ _ _ _
    · rfl
  · rfl

theorem restartDeadProcs_slot (w : World) (h : Nat) (tr : Bool) : (restartDeadProcs w h tr).slot = w.slot := by
  unfold restartDeadProcs
  exact foldl_inv (fun w' : World => w'.slot = w.slot) _ _ _ rfl
    (fun b a hb => (restartDeadProc_slot b _ tr a).trans hb)

theorem checkOverloaded_slot (w : World) (h : Nat) : (checkOverloaded w h).slot = w.slot := by
  unfold checkOverloaded
  refine foldl_inv (fun w' : World => w'.slot = w.slot) _ _ _ rfl (fun b a hb => ?_)
  split
  · exact (checkEnable_slot b h a).trans hb
  · exact hb

theorem popRd_slot (w : World) : (popRd w).2.slot = w.slot := by
  obtain ⟨sc, e⟩ := popRd_eq w; rw [e]
theorem popWr_slot (w : World) : (popWr w).2.slot = w.slot := by
  obtain ⟨sc, e⟩ := popWr_eq w; rw [e]
theorem popEnv_slot (w : World) : (popEnv w).2.slot = w.slot := by
  obtain ⟨sc, e⟩ := popEnv_eq w; rw [e]
theorem popStat_slot (w : World) : (popStat w).2.slot = w.slot := by
  obtain ⟨sc, e⟩ := popStat_eq w; rw [e]
theorem popSock_slot (w : World) : (popSock w).2.slot = w.slot := by
  obtain ⟨sc, e⟩ := popSock_eq w; rw [e]
theorem popConn_slot (w : World) : (popConn w).2.slot = w.slot := (popConn_size w).2.2

/-! the bookkeeping functions -/

theorem drsame_hostGet (w : World) (s : Nat) : DRSame s w (hostGet w s).2 := by
  rcases hostGet_snd w s with h | h <;> rw [h]
  · exact drsame_of_slot rfl
  · refine ⟨fun i hi => by simp [World.updAux, World.updSlot, hi], fun c' hc' => ?_⟩
    simp only [World.updAux, World.updSlot, if_true] at hc'
    cases hs : w.slot s with
    | none => simp [hs] at hc'
    | some c => simp [hs] at hc'; subst hc'; exact ⟨c, rfl, rfl, rfl⟩

theorem j_hostGet (w : World) (s : Nat) (hJ : JAll w) : JAll (hostGet w s).2 := by
  rcases hostGet_snd w s with h | h <;> rw [h]
  · exact j_same rfl hJ
  · refine j_same (w := ({ w with lastUsed := (hostPick w (w.auxOf s).key).2 } : World).updAux s
        (fun a => { a with status := 503, handler := false })) rfl ?_
    refine j_updAux _ _ _ (j_same rfl hJ) (fun _ => ⟨rfl, Nat.le_refl _⟩)

theorem setHostLoad_slot (w : World) (h : Nat) (v : Int) : (setHostLoad w h v).slot = w.slot := rfl
theorem setProcLoad_slot (w : World) (h p : Nat) (v : Int) : (setProcLoad w h p v).slot = w.slot := rfl

theorem drsame_hostAssign (w : World) (s h : Nat) : DRSame s w (hostAssign w s h) := by
  unfold hostAssign
  split
  · exact DRSame.refl _ _
  · exact (drsame_updLink w s _).trans (drsame_of_slot (setHostLoad_slot _ _ _))

/-- the slot contents gw_backend_close() leaves -/
theorem backendClose_slots (w : World) (s : Nat) :
    (∀ i, i ≠ s → (backendClose w s).slot i = w.slot i) ∧
    (∀ c', (backendClose w s).slot s = some c' → ∃ c, w.slot s = some c ∧
      c'.aux.dispatched = c.aux.dispatched ∧ c'.aux.reconnects = c.aux.reconnects ∧
      c'.link.state = c.link.state ∧ (c'.link.host = none ∨ c'.link = c.link)) := by
  unfold backendClose
  cases hc : w.slot s with
  | none => simp [hc]
  | some c =>
    dsimp only
    refine ⟨fun i hi => ?_, fun c' hc' => ?_⟩
    · cases c.link.fd <;> cases c.link.host <;> cases c.link.proc <;>
        simp [setHostLoad, setProcLoad, World.updHost, World.updLink, World.updAux, World.updSlot, World.updProc, hi]
    · revert hc'
      cases hfd : c.link.fd <;> cases hh : c.link.host <;> cases hp : c.link.proc <;>
        simp [setHostLoad, setProcLoad, World.updHost, World.updLink, World.updAux, World.updSlot, World.updProc, hc] <;>
        (intro hc'; subst hc'; simp [hh, hp, hfd])

theorem drsame_backendClose (w : World) (s : Nat) : DRSame s w (backendClose w s) := by
  obtain ⟨h1, h2⟩ := backendClose_slots w s
  refine ⟨h1, fun c' hc' => ?_⟩
  obtain ⟨c, hc, e1, e2, _, _⟩ := h2 c' hc'
  exact ⟨c, hc, e1, e2⟩

theorem j_backendClose (w : World) (s : Nat) (hJ : JAll w) : JAll (backendClose w s) := by
  obtain ⟨h1, h2⟩ := backendClose_slots w s
  intro i c' hc'
  by_cases hi : i = s
  · subst hi
    obtain ⟨c, hc, e1, e2, e3, e4⟩ := h2 c' hc'
    have hj := hJ i c hc
    have ht : tok c' ≤ tok c := by
      rcases e4 with e4 | e4
      · unfold tok; simp [e4]
      · unfold tok; rw [e4]; exact Nat.le_refl _
    unfold Jc at hj ⊢; rw [e1, e2]; omega
  · rw [h1 i hi] at hc'; exact hJ i c' hc'

theorem doneAux_dr (a : Aux) : (doneAux a).dispatched = a.dispatched ∧ a.reconnects ≤ (doneAux a).reconnects := by
  unfold doneAux incompleteAux; split
  · exact ⟨rfl, Nat.le_refl _⟩
  · split
    · exact ⟨rfl, Nat.le_refl _⟩
    · split <;> exact ⟨rfl, Nat.le_refl _⟩

theorem errAux_dr (a : Aux) : (errAux a).dispatched = a.dispatched ∧ a.reconnects ≤ (errAux a).reconnects := by
  unfold errAux incompleteAux; split
  · exact ⟨rfl, Nat.le_refl _⟩
  · split <;> exact ⟨rfl, Nat.le_refl _⟩

theorem j_backendDone (w : World) (s : Nat) (hJ : JAll w) : JAll (backendDone w s) := by
  unfold backendDone; exact j_updAux _ _ _ hJ doneAux_dr

theorem j_connectionClose (w : World) (s : Nat) (hJ : JAll w) : JAll (connectionClose w s) := by
  have h1 := j_backendClose w s hJ
  unfold connectionClose; dsimp only
  split
  · refine j_backendDone _ _ ?_; j_close
  · j_close

theorem j_backendError (w : World) (s : Nat) (hJ : JAll w) : JAll (backendError w s).2 := by
  unfold backendError; dsimp only
  exact j_connectionClose _ _ (j_updAux _ _ _ hJ errAux_dr)

theorem drsame_reconnect (w : World) (s : Nat) : DRSame s w (reconnect w s).2 := by
  have h1 := (drsame_backendClose w s).trans (drsame_hostGet (backendClose w s) s)
  unfold reconnect; dsimp only
  split
  · exact h1
  · dsimp only
    exact (h1.trans (drsame_hostAssign _ s _)).trans (drsame_updLink _ s _)

/-- gw_reconnect() re-arms the context: allowed when it has budget to show for it -/
theorem j_reconnect (w : World) (s : Nat) (hJ : JAll w) (hA : Armable s w) : JAll (reconnect w s).2 :=
  j_of_drsame hJ (drsame_reconnect w s) hA

theorem armable_recInc (w : World) (s : Nat) (hJ : JAll w) (h5 : (w.auxOf s).reconnects < 5) :
    Armable s (w.updAux s fun a => { a with reconnects := a.reconnects + 1 }) := by
  intro c' hc'
  simp only [World.updAux, World.updSlot, if_true] at hc'
  cases hs : w.slot s with
  | none => simp [hs] at hc'
  | some c =>
    simp [hs] at hc'; subst hc'
    have hj := hJ s c hs
    have : (w.auxOf s).reconnects = c.aux.reconnects := by simp [World.auxOf, hs]
    rw [this] at h5
    unfold Jc at hj
    dsimp only
    omega

theorem j_recInc (w : World) (s : Nat) (hJ : JAll w) :
    JAll (w.updAux s fun a => { a with reconnects := a.reconnects + 1 }) :=
  j_updAux _ _ _ hJ (fun _ => ⟨rfl, Nat.le_succ _⟩)

theorem j_recvResponseError (w : World) (s : Nat) (hJ : JAll w) : JAll (recvResponseError w s).2 := by
  unfold recvResponseError; dsimp only
  split
  · split
    · rename_i h5
      exact j_reconnect _ s (j_recInc w s hJ) (armable_recInc w s hJ h5)
    · exact j_backendError _ s (j_recInc w s hJ)
  · exact j_backendError _ s hJ

theorem j_recvResponse (w : World) (s : Nat) (hJ : JAll w) : JAll (recvResponse w s).2 := by
  have h1 : JAll (popRd w).2 := j_same (popRd_slot w) hJ
  unfold recvResponse; dsimp only
  split
  · exact h1
  · split
    · dsimp only; j_close
    · split
      · exact j_recvResponseError _ s h1
      · exact j_connectionClose _ s h1

theorem j_drain (n : Nat) (w : World) (s : Nat) (hJ : JAll w) : JAll (drain n w s).2 := by
  induction n generalizing w with
  | zero => exact hJ
  | succ n ih =>
    unfold drain; dsimp only
    split
    · exact ih _ (j_recvResponse w s hJ)
    · exact j_recvResponse w s hJ

theorem j_wrWrite (w : World) (s : Nat) (hJ : JAll w) : JAll (wrWrite w s).2 := by
  have h1 : JAll (popWr w).2 := j_same (popWr_slot w) hJ
  unfold wrWrite; dsimp only
  repeat' split
  all_goals (try dsimp only)
  all_goals j_close

theorem j_wrPrepare (w : World) (s : Nat) (hJ : JAll w) : JAll (wrPrepare w s).2 := by
  have h1 : JAll (popEnv w).2 := j_same (popEnv_slot w) hJ
  unfold wrPrepare; dsimp only
  split
  · dsimp only; j_close
  · split
    · dsimp only; j_close
    · refine j_wrWrite _ _ ?_; j_close

theorem j_wrConnected (w : World) (s : Nat) (hJ : JAll w) : JAll (wrConnected w s).2 := by
  unfold wrConnected
  refine j_wrPrepare _ _ ?_; j_close

theorem j_slotConnectError (w : World) (s : Nat) (hJ : JAll w) : JAll (slotConnectError w s) :=
  j_same (slotConnectError_slot w s) hJ

theorem j_wrDelayed (w : World) (s : Nat) (hJ : JAll w) : JAll (wrDelayed w s).2 := by
  have h1 : JAll (popStat w).2 := j_same (popStat_slot w) hJ
  unfold wrDelayed; dsimp only
  split
  · exact hJ
  · split
    · exact j_slotConnectError _ _ h1
    · refine j_wrConnected _ _ ?_; j_close

/-- gw_establish_connection(): the connect() is counted; the context was armed for it -/
theorem j_wrConnect (w : World) (s h p : Nat) (hJ : JAll w) (hA : Armable s w)
    (hp : ∀ c, w.slot s = some c → c.link.proc.isSome) : JAll (wrConnect w s h p).2 := by
  obtain ⟨sc, e⟩ := popConn_eq w
  unfold wrConnect; dsimp only
  rw [e]
  have h1 : JAll (({ w with script := sc }.emit (.dispatch s h p)).updAux s
      fun a => { a with dispatched := a.dispatched + 1 }) := by
    refine j_updSlot _ s _ (j_same (w := w) rfl hJ) ?_
    intro c hc _
    have hc' : w.slot s = some c := hc
    obtain ⟨a1, a2⟩ := hA c hc'
    have ht : tok c = 0 := by
      have := hp c hc'
      unfold tok
      cases hpp : c.link.proc with
      | none => simp [hpp] at this
      | some q => simp
    have e2 : tok { c with aux := { c.aux with dispatched := c.aux.dispatched + 1 } } = tok c := rfl
    unfold Jc; rw [e2, ht]; dsimp only; omega
  generalize (({ w with script := sc }.emit (.dispatch s h p)).updAux s
      fun a => { a with dispatched := a.dispatched + 1 }) = W at h1 ⊢
  split
  · exact j_wrConnected _ _ h1
  · dsimp only; j_close
  · dsimp only; exact j_same (connectError_slot _ _ _ _) h1

theorem drsame_ga (w : World) (s : Nat) (g : Int) : DRSame s w { w with globalActive := g } :=
  drsame_of_slot rfl
theorem drsame_updHost (w : World) (s h : Nat) (f : Host → Host) : DRSame s w (w.updHost h f) :=
  drsame_of_slot rfl

theorem drsame_procAcquire (w : World) (s h p : Nat) : DRSame s w (procAcquire w s h p) := by
  unfold procAcquire
  split
  · exact DRSame.refl _ _
  · dsimp only
    exact ((drsame_updLink w s _).trans (drsame_of_slot (setProcLoad_slot _ _ _ _))).trans
      (drsame_ga _ s _)

theorem drsame_openFd (w : World) (s : Nat) : DRSame s w (openFd w s) := by
  unfold openFd
  split
  · exact DRSame.refl _ _
  · exact (drsame_of_slot (w := w) rfl).trans (drsame_updLink _ s _)

theorem drsame_wrRegister (w : World) (s h p : Nat) : DRSame s w (wrRegister w s h p) := by
  unfold wrRegister; dsimp only
  refine DRSame.trans ?_ (drsame_updHost _ s _ _)
  refine DRSame.trans (drsame_openFd w s) ?_
  exact drsame_updSlot _ s _ (fun _ => ⟨rfl, rfl⟩)

theorem j_wrInit (w : World) (s : Nat) (hAc : Acct none w) (hJ : JAll w) (hst : (w.linkOf s).state = .init) :
    JAll (wrInit w s).2 := by
  unfold wrInit
  cases hs : w.slot s with
  | none =>
    have : (w.linkOf s).host = none := by simp [World.linkOf, hs]
    simp only [this]; exact hJ
  | some c =>
    have hl : w.linkOf s = c.link := by simp [World.linkOf, hs]
    rw [hl] at hst
    have hclean := (hAc.slots s c hs).3 (by simp) hst
    rw [hl]
    cases hh : c.link.host with
    | none => exact hJ
    | some h =>
      dsimp only
      have e0 : (w.updLink s fun l => { l with proc := none }) = w := by
        apply updSlot_id
        intro c' hc'
        rw [hs] at hc'; cases hc'
        cases c; rename_i l a; cases l; simp_all
      rw [e0]
      cases hp : pickProc w h with
      | none => exact hJ
      | some p =>
        dsimp only
        -- armed: GW_STATE_INIT, host set, no proc
        have hA : Armable s w := by
          intro c' hc'
          rw [hs] at hc'; cases hc'
          have hj := hJ s c hs
          have ht : tok c = 1 := by unfold tok; simp [hst, hclean.1, hh]
          unfold Jc at hj; rw [ht] at hj; omega
        have D1 : DRSame s w (popSock (procAcquire w s h p)).2 :=
          (drsame_procAcquire w s h p).trans (drsame_of_slot (popSock_slot _))
        have J1 : JAll (popSock (procAcquire w s h p)).2 := j_of_drsame hJ D1 hA
        split
        · exact J1
        · have D2 := D1.trans (drsame_wrRegister (popSock (procAcquire w s h p)).2 s h p)
          refine j_wrConnect _ s h p (j_of_drsame hJ D2 hA) (armable_drsame D2 hA) ?_
          intro c' hc'
          have L : lk (wrRegister (popSock (procAcquire w s h p)).2 s h p) s
              = some { c.link with proc := some p, fd := true } := by
            obtain ⟨sc, e⟩ := popSock_eq (procAcquire w s h p)
            rw [e]
            unfold wrRegister; dsimp only
            rw [lk_updHost, lk_updAux, lk_openFd]
            have : lk ({ procAcquire w s h p with script := sc } : World) s = lk (procAcquire w s h p) s := rfl
            rw [this, lk_procAcquire, lk_some hs]; rfl
          have := lk_some hc'
          rw [L] at this
          simp only [Option.some.injEq] at this
          rw [← this]; simp

theorem j_writeRequest (w : World) (s : Nat) (hAc : Acct none w) (hJ : JAll w) : JAll (writeRequest w s).2 := by
  unfold writeRequest
  split
  · rename_i hst; exact j_wrInit w s hAc hJ hst
  · exact j_wrDelayed _ _ hJ
  · exact j_wrPrepare _ _ hJ
  · exact j_wrWrite _ _ hJ
  · exact hJ

theorem j_writeErrorTail (w : World) (s : Nat) (hJ : JAll w) : JAll (writeErrorTail w s).2 := by
  unfold writeErrorTail; dsimp only
  refine j_backendError _ _ ?_
  split <;> j_close

theorem j_restartIfLocal (w : World) (s : Nat) (hJ : JAll w) : JAll (restartIfLocal w s) :=
  j_same (restartIfLocal_slot w s) hJ

theorem j_writeError (w : World) (s : Nat) (hJ : JAll w) : JAll (writeError w s).2 := by
  unfold writeError; dsimp only
  split
  · have h1 := j_restartIfLocal w s hJ
    split
    · rename_i h5
      exact j_reconnect _ s (j_recInc _ s h1) (armable_recInc _ s h1 h5)
    · exact j_writeErrorTail _ s (j_recInc _ s h1)
  · split
    · exact j_recvResponse _ _ hJ
    · exact j_writeErrorTail _ _ (j_recvResponse _ _ hJ)

theorem j_sendRequest (w : World) (s : Nat) (hAc : Acct none w) (hJ : JAll w) : JAll (sendRequest w s).2 := by
  unfold sendRequest; dsimp only
  split
  · exact j_writeRequest w s hAc hJ
  · exact j_writeError _ s (j_writeRequest w s hAc hJ)

theorem j_processFdevent (w : World) (s rev : Nat) (hAc : Acct none w) (hJ : JAll w) :
    JAll (processFdevent w s rev).2 := by
  unfold processFdevent; dsimp only
  have A1 : Acct none (if rev.testBit 0 then recvResponse w s else (Rc.goOn, w)).2 := by
    split
    · exact acct_recvResponse s hAc
    · exact hAc
  have J1 : JAll (if rev.testBit 0 then recvResponse w s else (Rc.goOn, w)).2 := by
    split
    · exact j_recvResponse _ _ hJ
    · exact hJ
  generalize (if rev.testBit 0 then recvResponse w s else (Rc.goOn, w)) = r at A1 J1 ⊢
  split
  · exact J1
  · split
    · exact j_sendRequest _ s A1 J1
    · split
      · split
        · exact j_sendRequest _ s A1 J1
        · split
          · exact j_drain _ _ s J1
          · exact j_connectionClose _ s J1
      · split
        · exact j_backendError _ s J1
        · exact J1

theorem j_subEvents (w : World) (s : Nat) (hAc : Acct none w) (hJ : JAll w) : JAll (subEvents w s).2 := by
  unfold subEvents; dsimp only
  split
  · refine j_processFdevent _ s _ (acct_updAux _ _ hAc (tok_none s).oth) ?_
    j_close
  · exact hJ

theorem j_subrequest (w : World) (s : Nat) (hAc : Acct none w) (hJ : JAll w) : JAll (subrequest w s).2 := by
  unfold subrequest; dsimp only
  have A1 := acct_subEvents s hAc
  have J1 := j_subEvents w s hAc hJ
  split
  · exact hJ
  · split
    · exact J1
    · split
      · split
        · exact j_sendRequest _ s A1 J1
        · exact j_sendRequest _ s A1 J1
      · exact J1

theorem j_finish (w : World) (s : Nat) (ab : Bool) (hJ : JAll w) : JAll (finish w s ab) := by
  unfold finish
  split
  · exact hJ
  · rename_i c _
    dsimp only
    have h1 : JAll (backendClose (if ab = true then w else w.emit (finEv s c)) s) := by
      refine j_backendClose _ s ?_
      split
      · exact hJ
      · exact j_same rfl hJ
    intro i c' hc'
    by_cases hi : i = s
    · simp [hi] at hc'
    · simp only [hi, if_false] at hc'; exact h1 i c' hc'

theorem j_runCon (n : Nat) (w : World) (s : Nat) (hAc : Acct none w) (hJ : JAll w) : JAll (runCon n w s) := by
  induction n generalizing w with
  | zero => exact j_finish _ s true (j_same rfl hJ)
  | succ n ih =>
    unfold runCon
    cases hs : w.slot s with
    | none => exact hJ
    | some c =>
      dsimp only
      have A1 := acct_subrequest s hAc
      have J1 := j_subrequest w s hAc hJ
      split
      · exact j_finish _ s false hJ
      · split
        · split
          · exact j_finish _ s false J1
          · exact j_same rfl J1
        · exact j_finish _ s false J1
        · exact j_finish _ s false J1
        · exact ih _ A1 J1
        · exact j_finish _ s true (j_same rfl J1)

theorem j_runJobs (w : World) (hAc : Acct none w) (hJ : JAll w) : Acct none (runJobs w) ∧ JAll (runJobs w) := by
  unfold runJobs; dsimp only
  refine foldl_inv (fun w' : World => Acct none w' ∧ JAll w') _ _ _ ⟨acct_jobs _ hAc, j_same rfl hJ⟩ ?_
  intro b a hb
  exact ⟨acct_runCon _ _ hb.1, j_runCon _ b a hb.1 hb.2⟩

theorem j_fix504 (w : World) (s : Nat) (hJ : JAll w) : JAll (fix504 w s) := by
  unfold fix504; dsimp only
  split <;> j_close

theorem j_hctxTimeout (w : World) (s kind : Nat) (hJ : JAll w) : JAll (hctxTimeout w s kind) := by
  unfold hctxTimeout; dsimp only
  have h0 : JAll (if w.jobs.contains s then w else { w with jobs := s :: w.jobs }) := by
    split
    · exact hJ
    · exact j_same rfl hJ
  generalize (if w.jobs.contains s then w else { w with jobs := s :: w.jobs }) = W at h0 ⊢
  split
  · have h1 := j_slotConnectError W s h0
    split
    · rename_i h5
      exact j_reconnect _ s (j_recInc _ s h1) (armable_recInc _ s h1 (by omega))
    · refine j_fix504 _ s (j_backendError _ s ?_)
      refine j_updAux _ _ _ (j_recInc _ s h1) (fun _ => ⟨rfl, Nat.le_refl _⟩)
  · split
    · have h1 := j_writeError W s h0
      split
      · j_close
      · exact h1
    · exact j_fix504 _ s (j_backendError _ s h0)

theorem j_timeoutStep (h : Nat) (w : World) (s : Nat) (hJ : JAll w) : JAll (timeoutStep h w s) := by
  unfold timeoutStep; dsimp only
  split
  · split
    · exact j_hctxTimeout _ _ _ hJ
    · exact hJ
  · split
    · exact j_hctxTimeout _ _ _ hJ
    · split
      · exact j_hctxTimeout _ _ _ hJ
      · exact hJ

theorem j_hostTimeouts (w : World) (h : Nat) (hJ : JAll w) : JAll (hostTimeouts w h) := by
  unfold hostTimeouts; dsimp only
  split
  · exact hJ
  · split
    · exact hJ
    · exact foldl_inv JAll _ _ _ hJ (fun b a hb => j_timeoutStep h b a hb)

theorem j_triggerHost (w : World) (h : Nat) (hJ : JAll w) : JAll (triggerHost w h) := by
  unfold triggerHost; dsimp only
  split
  · exact j_same (checkOverloaded_slot _ _) (j_hostTimeouts w h hJ)
  · exact j_same (restartDeadProcs_slot _ _ _) (j_hostTimeouts w h hJ)

theorem jc_fresh (key : Nat) : Jc { aux := { key := key } } := by
  unfold Jc tok; simp

theorem j_opArrive (w : World) (s key : Nat) (hAc : Acct none w) (hJ : JAll w) : JAll (opArrive w s key) := by
  unfold opArrive
  split
  · exact j_same rfl hJ
  · split
    · exact j_same rfl hJ
    · rename_i hlt hfree
      have hs : w.slot s = none := by
        cases h : w.slot s with
        | none => rfl
        | some c => simp [h] at hfree
      dsimp only
      have A0 := acct_alloc s { key := key } hAc hs (by omega)
      have J0 : JAll ({ w with slot := fun i => if i = s then some { aux := { key := key } } else w.slot i } : World) := by
        intro i c' hc'
        by_cases hi : i = s
        · simp [hi] at hc'; subst hc'; exact jc_fresh key
        · simp only [hi, if_false] at hc'; exact hJ i c' hc'
      have hA0 : Armable s ({ w with slot := fun i => if i = s then some { aux := { key := key } } else w.slot i } : World) := by
        intro c' hc'; simp at hc'; subst hc'; simp
      generalize hW : ({ w with slot := fun i => if i = s then some { aux := { key := key } } else w.slot i } : World) = W at A0 J0 hA0 ⊢
      have L0 : lk W s = some {} := by rw [← hW]; simp [lk]
      have A1 := acct_hostGet s A0 (tok_none s)
      have J1 := j_hostGet W s J0
      have D1 := drsame_hostGet W s
      split
      · exact j_finish _ s false (j_same rfl J1)
      · rename_i h _
        -- the world handed to runCon: its accounting invariant is acct_opArrive's, recomputed here
        have L1 : lk (hostGet W s).2 s = some {} := by rw [lk_hostGet, L0]
        have L2 : lk ({ (hostGet W s).2 with noteSent := false }) s = some {} := L1
        have A2 : Acct none ((((hostAssign (({ (hostGet W s).2 with noteSent := false } : World).updLink s
            fun l => { l with hctx := true, proc := none, state := .init }) s h).updAux s
            fun a => { a with handler := true })).emit (.arrive (some h))) := by
          refine acct_emit _ (acct_updAux _ _ (acct_hostAssign s h ?_ (tok_none s) ?_) (tok_none s).oth)
          · refine acct_updLink s _ (acct_noteSent false A1) (tok_none s) ?_
            intro l hl
            rw [L2] at hl; simp only [Option.some.injEq] at hl; subst hl
            simp
          · intro c hc
            have := lk_some hc
            rw [lk_updLink, L2] at this
            simp at this
            rw [← this]
        have D2 : DRSame s W ((((hostAssign (({ (hostGet W s).2 with noteSent := false } : World).updLink s
            fun l => { l with hctx := true, proc := none, state := .init }) s h).updAux s
            fun a => { a with handler := true })).emit (.arrive (some h))) := by
          refine DRSame.trans ?_ (drsame_of_slot rfl)
          refine DRSame.trans ?_ (drsame_updSlot _ s _ (fun _ => ⟨rfl, rfl⟩))
          refine DRSame.trans ?_ (drsame_hostAssign _ s h)
          refine DRSame.trans ?_ (drsame_updLink _ s _)
          exact D1.trans (drsame_of_slot rfl)
        split
        · refine j_finish _ s false ?_
          refine j_same (w := ({ (hostGet W s).2 with noteSent := false } : World).updAux s
            fun a => { a with status := 405 }) rfl ?_
          refine j_updAux _ _ _ (j_same rfl J1) ?_
          intro a; exact ⟨rfl, Nat.le_refl _⟩
        · exact j_runCon _ _ s A2 (j_of_drsame J0 D2 hA0)

theorem j_opEvent (w : World) (s mask : Nat) (hAc : Acct none w) (hJ : JAll w) : JAll (opEvent w s mask) := by
  unfold opEvent; dsimp only
  split
  · exact j_same rfl hJ
  · split
    · exact j_same rfl hJ
    · split
      · exact j_same rfl hJ
      · refine (j_runJobs _ ?_ ?_).2
        · exact acct_jobs _ (acct_updAux _ _ (acct_emit _ hAc) (tok_none s).oth)
        · have h1 : JAll ((w.emit (.fdev (evMask (w.auxOf s) mask))).updAux s
              fun a => { a with revents := a.revents ||| evMask (w.auxOf s) mask }) :=
            j_updAux _ _ _ (j_same rfl hJ) (fun _ => ⟨rfl, Nat.le_refl _⟩)
          exact j_same rfl h1

theorem j_opWake (w : World) (s : Nat) (hAc : Acct none w) (hJ : JAll w) : JAll (opWake w s) := by
  unfold opWake
  split
  · exact j_same rfl hJ
  · split
    · exact j_same rfl hJ
    · exact j_runCon _ _ s (acct_emit _ hAc) (j_same rfl hJ)

theorem j_opAbort (w : World) (s : Nat) (hJ : JAll w) : JAll (opAbort w s) := by
  unfold opAbort
  split
  · exact j_same rfl hJ
  · split
    · exact j_same rfl hJ
    · exact j_finish _ s true (j_same rfl hJ)

theorem j_opTick (w : World) (dt : Nat) (hAc : Acct none w) (hJ : JAll w) : JAll (opTick w dt) := by
  unfold opTick; dsimp only
  have := foldl_inv (fun w' : World => Acct none w' ∧ JAll w') triggerHost
    (List.range ((({ w with now := w.now + dt } : World).emit (.note "T")).nhosts))
    ((({ w with now := w.now + dt } : World).emit (.note "T")))
    ⟨acct_emit _ (acct_now _ hAc), j_same rfl hJ⟩
    (fun b a hb => ⟨acct_triggerHost a hb.1, j_triggerHost b a hb.2⟩)
  exact (j_runJobs _ this.1 this.2).2

theorem j_step (w : World) (op : Op) (hAc : Acct none w) (hJ : JAll w) : JAll (step w op) := by
  have key : ∀ X : World, JAll X → JAll (schedRun X) := fun X h => j_same rfl h
  unfold step; dsimp only
  apply key
  cases op with
  | arrive s key sc => exact j_opArrive _ s key (acct_script _ hAc) (j_same rfl hJ)
  | event s mask sc => exact j_opEvent _ s mask (acct_script _ hAc) (j_same rfl hJ)
  | wake s sc => exact j_opWake _ s (acct_script _ hAc) (j_same rfl hJ)
  | abort s => exact j_opAbort _ s (j_same rfl hJ)
  | tick dt sc => exact j_opTick _ dt (acct_script _ hAc) (j_same rfl hJ)

theorem j_run (w : World) (ops : List Op) (hAc : Acct none w) (hJ : JAll w) : JAll (run w ops) := by
  unfold run
  exact (foldl_inv (fun w' : World => Acct none w' ∧ JAll w') step ops w ⟨hAc, hJ⟩
    (fun b a hb => ⟨acct_step a hb.1, j_step b a hb.1 hb.2⟩)).2

theorem j_init (balance : Nat) (wkr : Bool) (nslots : Nat) (specs : List HostSpec) :
    JAll (initWorld balance wkr nslots specs) := by
  intro s c hc; simp [initWorld] at hc

end LtVerif.Gw
