/-
  C11 helper lemmas, part 2: every function of Model/Gw.lean moves the world only by a
  small set of primitive steps (`Prim`); availability bookkeeping, the disable window,
  monotone time and the static configuration are invariants of those steps.
-/
import LtVerif.Proofs.Gw
set_option linter.unusedSimpArgs false
set_option linter.unusedVariables false
namespace LtVerif.Gw

/-- what an update of a host record may not touch -/
def HostKeep (f : Host → Host) : Prop :=
  ∀ H, (f H).nprocs = H.nprocs ∧ (f H).active = H.active ∧ (f H).disableTime = H.disableTime ∧
    (f H).ctimeout = H.ctimeout ∧ (f H).rtimeout = H.rtimeout ∧ (f H).wtimeout = H.wtimeout ∧
    (f H).unix = H.unix ∧ (f H).gwHash = H.gwHash

/-- what an update of a proc record may not touch -/
def ProcKeep (f : Proc → Proc) : Prop :=
  ∀ P, (f P).state = P.state ∧ (f P).disabledUntil = P.disabledUntil ∧ (f P).isLocal = P.isLocal ∧
    (f P).pid = P.pid

def isDispatch : Ev → Bool
  | .dispatch _ _ _ => true
  | _ => false

/-- the primitive moves -/
inductive Prim : World → World → Prop
  | misc (w : World) (sl : Nat → Option Ctx) (lu : Int) (ns : Bool) (ga cf : Int) (pc op cl : Nat)
      (sc : Script) (jb : List Nat) :
      Prim w { w with slot := sl, lastUsed := lu, noteSent := ns, globalActive := ga, curFds := cf,
                      pendClose := pc, opened := op, closed := cl, script := sc, jobs := jb }
  | host (w : World) (h : Nat) (f : Host → Host) (hf : HostKeep f)
      (hl : ∀ H, (f H).load = H.load ∧ (f H).label = H.label) : Prim w (w.updHost h f)
  | proc (w : World) (h p : Nat) (f : Proc → Proc) (hf : ProcKeep f) (hl : ∀ P, (f P).load = P.load) :
      Prim w (w.updProc h p f)
  | hostLoad (w : World) (h : Nat) (v : Int) : Prim w (setHostLoad w h v)   -- load and its statistics entry, at once
  | procLoad (w : World) (h p : Nat) (v : Int) : Prim w (setProcLoad w h p v)
  | disable (w : World) (h p : Nat) (hp : p < (w.host h).nprocs) :
      Prim w (setPState (w.updProc h p fun P => { P with disabledUntil := w.now + (w.host h).disableTime })
                h p .overloaded)
  | enable (w : World) (h p : Nat) (hp : p < (w.host h).nprocs) (hs : (w.proc h p).state = .overloaded)
      (ht : (w.proc h p).disabledUntil < w.now) : Prim w (setPState w h p .running)
  | killedTick (w : World) (h p : Nat) (hs : (w.proc h p).state = .killed) :
      Prim w (w.updProc h p fun P => { P with disabledUntil := P.disabledUntil + 1 })
  | emit (w : World) (e : Ev) (he : isDispatch e = false) : Prim w (w.emit e)
  | dispatch (w : World) (s h p : Nat) (hp : p < (w.host h).nprocs) (hs : (w.proc h p).state = .running) :
      Prim w (w.emit (.dispatch s h p))
  | tick (w : World) (dt : Nat) : Prim w { w with now := w.now + dt }

/-- finite sequences of primitive moves -/
inductive Reach : World → World → Prop
  | refl (w : World) : Reach w w
  | step {w w' w'' : World} : Reach w w' → Prim w' w'' → Reach w w''

theorem Reach.trans {a b c : World} (h1 : Reach a b) (h2 : Reach b c) : Reach a c := by
  induction h2 with
  | refl => exact h1
  | step _ p ih => exact Reach.step ih p

theorem Reach.one {a b : World} (p : Prim a b) : Reach a b := Reach.step (Reach.refl a) p

/-- an invariant of the primitive moves is an invariant of `Reach` -/
theorem Reach.inv {P : World → Prop} (hP : ∀ a b, Prim a b → P a → P b) {a b : World} (h : Reach a b) :
    P a → P b := by
  induction h with
  | refl => exact id
  | step _ p ih => exact fun ha => hP _ _ p (ih ha)

/-! ### record updates as primitive moves -/

theorem reach_eq {w w' : World} (h : w' = w) : Reach w w' := h ▸ Reach.refl w

theorem prim_slot (w : World) (sl : Nat → Option Ctx) : Prim w { w with slot := sl } :=
  Prim.misc w sl w.lastUsed w.noteSent w.globalActive w.curFds w.pendClose w.opened w.closed w.script w.jobs

theorem reach_updSlot (w : World) (s : Nat) (f : Ctx → Ctx) : Reach w (w.updSlot s f) :=
  Reach.one (prim_slot w _)
theorem reach_updLink (w : World) (s : Nat) (f : Link → Link) : Reach w (w.updLink s f) := reach_updSlot _ _ _
theorem reach_updAux (w : World) (s : Nat) (f : Aux → Aux) : Reach w (w.updAux s f) := reach_updSlot _ _ _
theorem reach_script (w : World) (sc : Script) : Reach w { w with script := sc } :=
  Reach.one (Prim.misc w w.slot w.lastUsed w.noteSent w.globalActive w.curFds w.pendClose w.opened w.closed sc w.jobs)
theorem reach_jobs (w : World) (j : List Nat) : Reach w { w with jobs := j } :=
  Reach.one (Prim.misc w w.slot w.lastUsed w.noteSent w.globalActive w.curFds w.pendClose w.opened w.closed w.script j)
theorem reach_lastUsed (w : World) (n : Int) : Reach w { w with lastUsed := n } :=
  Reach.one (Prim.misc w w.slot n w.noteSent w.globalActive w.curFds w.pendClose w.opened w.closed w.script w.jobs)
theorem reach_noteSent (w : World) (b : Bool) : Reach w { w with noteSent := b } :=
  Reach.one (Prim.misc w w.slot w.lastUsed b w.globalActive w.curFds w.pendClose w.opened w.closed w.script w.jobs)
theorem reach_emit (w : World) (e : Ev) (he : isDispatch e = false) : Reach w (w.emit e) :=
  Reach.one (Prim.emit w e he)

/-! ### static configuration along `Reach` -/

structure Static (a b : World) : Prop where
  nhosts : b.nhosts = a.nhosts
  nslots : b.nslots = a.nslots
  balance : b.balance = a.balance
  wkr : b.wkr = a.wkr
  nprocs : ∀ h, (b.host h).nprocs = (a.host h).nprocs
  disableTime : ∀ h, (b.host h).disableTime = (a.host h).disableTime
  timeouts : ∀ h, (b.host h).ctimeout = (a.host h).ctimeout ∧ (b.host h).rtimeout = (a.host h).rtimeout ∧
    (b.host h).wtimeout = (a.host h).wtimeout
  isLocal : ∀ h p, (b.proc h p).isLocal = (a.proc h p).isLocal ∧ (b.proc h p).pid = (a.proc h p).pid
  now : a.now ≤ b.now

theorem setPState_host (w : World) (h p : Nat) (st : PState) (h' : Nat) :
    ((setPState w h p st).host h').nprocs = (w.host h').nprocs ∧
    ((setPState w h p st).host h').disableTime = (w.host h').disableTime ∧
    ((setPState w h p st).host h').ctimeout = (w.host h').ctimeout ∧
    ((setPState w h p st).host h').rtimeout = (w.host h').rtimeout ∧
    ((setPState w h p st).host h').wtimeout = (w.host h').wtimeout := by
  unfold setPState
  split
  · simp
  · dsimp only
    split
    · simp only [World.updProc, World.updHost]; by_cases e : h' = h <;> simp [e]
    · split
      · simp only [World.updProc, World.updHost]; by_cases e : h' = h <;> simp [e]
      · simp [World.updProc]

theorem setPState_proc (w : World) (h p : Nat) (st : PState) (h' p' : Nat) :
    ((setPState w h p st).proc h' p').isLocal = (w.proc h' p').isLocal ∧
    ((setPState w h p st).proc h' p').pid = (w.proc h' p').pid ∧
    ((setPState w h p st).proc h' p').disabledUntil = (w.proc h' p').disabledUntil ∧
    ((setPState w h p st).proc h' p').load = (w.proc h' p').load ∧
    ((setPState w h p st).proc h' p').state = (if h' = h ∧ p' = p then st else (w.proc h' p').state) := by
  unfold setPState
  split
  · rename_i e
    by_cases e2 : h' = h ∧ p' = p
    · obtain ⟨rfl, rfl⟩ := e2; simp [e]
    · simp [e2]
  · dsimp only
    split
    · simp only [World.updProc, World.updHost]; by_cases e : h' = h ∧ p' = p <;> simp [e]
    · split
      · simp only [World.updProc, World.updHost]; by_cases e : h' = h ∧ p' = p <;> simp [e]
      · simp only [World.updProc]; by_cases e : h' = h ∧ p' = p <;> simp [e]

theorem setPState_other (w : World) (h p : Nat) (st : PState) :
    (setPState w h p st).nhosts = w.nhosts ∧ (setPState w h p st).nslots = w.nslots ∧
    (setPState w h p st).balance = w.balance ∧ (setPState w h p st).wkr = w.wkr ∧
    (setPState w h p st).now = w.now ∧ (setPState w h p st).log = w.log ∧
    (setPState w h p st).slot = w.slot := by
  unfold setPState
  split
  · simp
  · dsimp only
    split
    · simp [World.updProc, World.updHost]
    · split <;> simp [World.updProc, World.updHost]

theorem static_host (a : World) (h : Nat) (f : Host → Host) (hf : HostKeep f) : Static a (a.updHost h f) := by
  refine ⟨rfl, rfl, rfl, rfl, ?_, ?_, ?_, fun _ _ => ⟨rfl, rfl⟩, Int.le_refl _⟩
  all_goals (intro h'; simp only [World.updHost]; by_cases e : h' = h <;> simp [e, (hf _).1, (hf _).2.2.1, (hf _).2.2.2.1, (hf _).2.2.2.2.1, (hf _).2.2.2.2.2.1])

theorem static_proc (a : World) (h p : Nat) (f : Proc → Proc) (hf : ProcKeep f) : Static a (a.updProc h p f) := by
  refine ⟨rfl, rfl, rfl, rfl, fun _ => rfl, fun _ => rfl, fun _ => ⟨rfl, rfl, rfl⟩, ?_, Int.le_refl _⟩
  intro h' p'; simp only [World.updProc]; by_cases e : h' = h ∧ p' = p <;> simp [e, (hf _).2.2.1, (hf _).2.2.2]

theorem hostKeep_load (v : Int) : HostKeep fun H => { H with load := v, statLoad := v } :=
  fun _ => ⟨rfl, rfl, rfl, rfl, rfl, rfl, rfl, rfl⟩
theorem procKeep_load (v : Int) : ProcKeep fun P => { P with load := v, statLoad := v } :=
  fun _ => ⟨rfl, rfl, rfl, rfl⟩

theorem static_prim {a b : World} (p : Prim a b) : Static a b := by
  cases p with
  | hostLoad h v =>
    have S := static_host a h _ (hostKeep_load v)
    exact ⟨S.1, S.2, S.3, S.4, S.5, S.6, S.7, S.8, S.9⟩
  | procLoad h p v =>
    have S := static_proc a h p _ (procKeep_load v)
    exact ⟨S.1, S.2, S.3, S.4, S.5, S.6, S.7, S.8, S.9⟩
  | misc => exact ⟨rfl, rfl, rfl, rfl, fun _ => rfl, fun _ => rfl, fun _ => ⟨rfl, rfl, rfl⟩, fun _ _ => ⟨rfl, rfl⟩, Int.le_refl _⟩
  | host h f hf hl => exact static_host a h f hf
  | proc h p f hf hl => exact static_proc a h p f hf
  | disable h p hp =>
    have H := setPState_host (a.updProc h p fun P => { P with disabledUntil := a.now + (a.host h).disableTime }) h p .overloaded
    have P := setPState_proc (a.updProc h p fun P => { P with disabledUntil := a.now + (a.host h).disableTime }) h p .overloaded
    have O := setPState_other (a.updProc h p fun P => { P with disabledUntil := a.now + (a.host h).disableTime }) h p .overloaded
    refine ⟨O.1, O.2.1, O.2.2.1, O.2.2.2.1, fun h' => (H h').1, fun h' => (H h').2.1,
      fun h' => ⟨(H h').2.2.1, (H h').2.2.2.1, (H h').2.2.2.2⟩, ?_, by rw [O.2.2.2.2.1]; exact Int.le_refl _⟩
    intro h' p'
    rw [(P h' p').1, (P h' p').2.1]
    simp only [World.updProc]; by_cases e : h' = h ∧ p' = p <;> simp [e]
  | enable h p hp hs ht =>
    have H := setPState_host a h p .running
    have P := setPState_proc a h p .running
    have O := setPState_other a h p .running
    exact ⟨O.1, O.2.1, O.2.2.1, O.2.2.2.1, fun h' => (H h').1, fun h' => (H h').2.1,
      fun h' => ⟨(H h').2.2.1, (H h').2.2.2.1, (H h').2.2.2.2⟩, fun h' p' => ⟨(P h' p').1, (P h' p').2.1⟩,
      by rw [O.2.2.2.2.1]; exact Int.le_refl _⟩
  | killedTick h p hs =>
    refine ⟨rfl, rfl, rfl, rfl, fun _ => rfl, fun _ => rfl, fun _ => ⟨rfl, rfl, rfl⟩, ?_, Int.le_refl _⟩
    intro h' p'; simp only [World.updProc]; by_cases e : h' = h ∧ p' = p <;> simp [e]
  | emit => exact ⟨rfl, rfl, rfl, rfl, fun _ => rfl, fun _ => rfl, fun _ => ⟨rfl, rfl, rfl⟩, fun _ _ => ⟨rfl, rfl⟩, Int.le_refl _⟩
  | dispatch => exact ⟨rfl, rfl, rfl, rfl, fun _ => rfl, fun _ => rfl, fun _ => ⟨rfl, rfl, rfl⟩, fun _ _ => ⟨rfl, rfl⟩, Int.le_refl _⟩
  | tick dt =>
    refine ⟨rfl, rfl, rfl, rfl, fun _ => rfl, fun _ => rfl, fun _ => ⟨rfl, rfl, rfl⟩, fun _ _ => ⟨rfl, rfl⟩, ?_⟩
    show a.now ≤ a.now + dt
    omega

theorem Static.refl (a : World) : Static a a :=
  ⟨rfl, rfl, rfl, rfl, fun _ => rfl, fun _ => rfl, fun _ => ⟨rfl, rfl, rfl⟩, fun _ _ => ⟨rfl, rfl⟩, Int.le_refl _⟩

theorem Static.trans {a b c : World} (h1 : Static a b) (h2 : Static b c) : Static a c :=
  ⟨h2.1.trans h1.1, h2.2.trans h1.2, h2.3.trans h1.3, h2.4.trans h1.4,
   fun h => (h2.5 h).trans (h1.5 h), fun h => (h2.6 h).trans (h1.6 h),
   fun h => ⟨(h2.7 h).1.trans (h1.7 h).1, (h2.7 h).2.1.trans (h1.7 h).2.1, (h2.7 h).2.2.trans (h1.7 h).2.2⟩,
   fun h p => ⟨(h2.8 h p).1.trans (h1.8 h p).1, (h2.8 h p).2.trans (h1.8 h p).2⟩,
   Int.le_trans h1.9 h2.9⟩

theorem reach_static {a b : World} (h : Reach a b) : Static a b := by
  induction h with
  | refl => exact Static.refl _
  | step _ p ih => exact ih.trans (static_prim p)

/-! ### every model function is a sequence of primitive moves -/

/-- peel the outermost update off a goal `Reach w (upd … v …)` -/
syntax "reach_peel" : tactic
macro_rules | `(tactic| reach_peel) => `(tactic| first
  | exact Reach.refl _
  | assumption
  | (refine Reach.trans ?_ (reach_updAux _ _ _))
  | (refine Reach.trans ?_ (reach_updLink _ _ _))
  | (refine Reach.trans ?_ (reach_script _ _))
  | (refine Reach.trans ?_ (reach_jobs _ _))
  | (refine Reach.trans ?_ (reach_lastUsed _ _))
  | (refine Reach.trans ?_ (reach_noteSent _ _))
  | (refine Reach.trans ?_ (reach_emit _ _ rfl)))
macro "reach_close" : tactic => `(tactic| repeat reach_peel)

theorem reach_popConn (w : World) : Reach w (popConn w).2 := by
  obtain ⟨sc, e⟩ := popConn_eq w; rw [e]; exact reach_script _ _
theorem reach_popSock (w : World) : Reach w (popSock w).2 := by
  obtain ⟨sc, e⟩ := popSock_eq w; rw [e]; exact reach_script _ _
theorem reach_popStat (w : World) : Reach w (popStat w).2 := by
  obtain ⟨sc, e⟩ := popStat_eq w; rw [e]; exact reach_script _ _
theorem reach_popWr (w : World) : Reach w (popWr w).2 := by
  obtain ⟨sc, e⟩ := popWr_eq w; rw [e]; exact reach_script _ _
theorem reach_popRd (w : World) : Reach w (popRd w).2 := by
  obtain ⟨sc, e⟩ := popRd_eq w; rw [e]; exact reach_script _ _
theorem reach_popEnv (w : World) : Reach w (popEnv w).2 := by
  obtain ⟨sc, e⟩ := popEnv_eq w; rw [e]; exact reach_script _ _

theorem reach_connectError (w : World) (h p pid : Nat) (hp : p < (w.host h).nprocs) :
    Reach w (connectError w h p pid) := by
  unfold connectError
  split
  · exact Reach.one (Prim.disable w h p hp)
  · exact Reach.refl _

theorem reach_checkEnable (w : World) (h p : Nat) (hp : p < (w.host h).nprocs) :
    Reach w (checkEnable w h p) := by
  unfold checkEnable
  split
  · exact Reach.refl _
  · split
    · exact Reach.refl _
    · rename_i h1 h2
      exact Reach.one (Prim.enable w h p hp (by simpa using h2) (by omega))

theorem reach_restartDeadProc (w : World) (h : Nat) (tr : Bool) (p : Nat) (hp : p < (w.host h).nprocs) :
    Reach w (restartDeadProc w h tr p) := by
  unfold restartDeadProc
  split
  · exact Reach.refl _
  · exact reach_checkEnable w h p hp
  · rename_i hk
    split
    · exact Reach.one (Prim.killedTick w h p hk)
    · exact Reach.refl _
  · exact Reach.refl _
  · exact Reach.refl _

/-- folding a move that needs `p < nprocs` over a list of in-range procs -/
theorem reach_foldl_procs (h : Nat) (f : World → Nat → World) (l : List Nat) (w0 w : World)
    (hw : Reach w0 w) (hl : ∀ p, p ∈ l → p < (w0.host h).nprocs)
    (hf : ∀ w p, p < (w.host h).nprocs → Reach w (f w p)) : Reach w0 (l.foldl f w) := by
  induction l generalizing w with
  | nil => exact hw
  | cons p l ih =>
    simp only [List.foldl_cons]
    refine ih _ (hw.trans (hf w p ?_)) (fun q hq => hl q (List.mem_cons_of_mem _ hq))
    rw [(reach_static hw).nprocs]; exact hl p List.mem_cons_self

theorem reach_restartDeadProcs (w : World) (h : Nat) (tr : Bool) : Reach w (restartDeadProcs w h tr) := by
  unfold restartDeadProcs
  exact reach_foldl_procs h _ _ w w (Reach.refl _) (fun p hp => by simpa using hp)
    (fun w p hp => reach_restartDeadProc w h tr p hp)

theorem reach_checkOverloaded (w : World) (h : Nat) : Reach w (checkOverloaded w h) := by
  unfold checkOverloaded
  refine reach_foldl_procs h _ _ w w (Reach.refl _) (fun p hp => by simpa using hp) (fun w p hp => ?_)
  split
  · exact reach_checkEnable w h p hp
  · exact Reach.refl _

theorem reach_hostGet (w : World) (s : Nat) : Reach w (hostGet w s).2 := by
  rcases hostGet_snd w s with h | h <;> rw [h]
  · exact reach_lastUsed _ _
  · reach_close

theorem reach_hostLoad (w : World) (h : Nat) (v : Int) : Reach w (setHostLoad w h v) :=
  Reach.one (Prim.hostLoad w h v)

theorem reach_procLoad (w : World) (h p : Nat) (v : Int) : Reach w (setProcLoad w h p v) :=
  Reach.one (Prim.procLoad w h p v)

theorem reach_hctxs (w : World) (h : Nat) (f : List Nat → List Nat) :
    Reach w (w.updHost h fun H => { H with hctxs := f H.hctxs }) :=
  Reach.one (Prim.host w h _ (fun _ => ⟨rfl, rfl, rfl, rfl, rfl, rfl, rfl, rfl⟩) (fun _ => ⟨rfl, rfl⟩))

theorem reach_counters (w : World) (ga cf : Int) (pc op cl : Nat) :
    Reach w { w with globalActive := ga, curFds := cf, pendClose := pc, opened := op, closed := cl } :=
  Reach.one (Prim.misc w w.slot w.lastUsed w.noteSent ga cf pc op cl w.script w.jobs)

theorem reach_hostAssign (w : World) (s h : Nat) : Reach w (hostAssign w s h) := by
  unfold hostAssign
  split
  · exact Reach.refl _
  · exact (reach_updLink _ _ _).trans (reach_hostLoad _ h _)

theorem reach_procAcquire (w : World) (s h p : Nat) : Reach w (procAcquire w s h p) := by
  unfold procAcquire
  split
  · exact Reach.refl _
  · dsimp only
    exact ((reach_updLink _ _ _).trans (reach_procLoad _ h p _)).trans
      (reach_counters _ _ _ _ _ _)

theorem reach_openFd (w : World) (s : Nat) : Reach w (openFd w s) := by
  unfold openFd
  split
  · exact Reach.refl _
  · exact (reach_counters w w.globalActive (w.curFds + 1) w.pendClose (w.opened + 1) w.closed).trans
      (reach_updLink _ _ _)

theorem reach_backendClose (w : World) (s : Nat) : Reach w (backendClose w s) := by
  unfold backendClose
  split
  · exact Reach.refl _
  · rename_i c _
    dsimp only
    have R1 : Reach w (if c.link.fd = true then
        ((match c.link.host with
          | some h => ({ w with pendClose := w.pendClose + 1 } : World).updHost h fun H => { H with hctxs := H.hctxs.erase s }
          | none => { w with pendClose := w.pendClose + 1 }).updLink s fun l => { l with fd := false }).updAux s fun a =>
          { a with evIn := false, evOut := false, evRdhup := false }
        else w) := by
      split
      · refine Reach.trans ?_ (reach_updAux _ _ _)
        refine Reach.trans ?_ (reach_updLink _ _ _)
        have R0 := reach_counters w w.globalActive w.curFds (w.pendClose + 1) w.opened w.closed
        split
        · exact R0.trans (reach_hctxs _ _ (·.erase s))
        · exact R0
      · exact Reach.refl _
    generalize (if c.link.fd = true then
        ((match c.link.host with
          | some h => ({ w with pendClose := w.pendClose + 1 } : World).updHost h fun H => { H with hctxs := H.hctxs.erase s }
          | none => { w with pendClose := w.pendClose + 1 }).updLink s fun l => { l with fd := false }).updAux s fun a =>
          { a with evIn := false, evOut := false, evRdhup := false }
        else w) = W at R1 ⊢
    split
    · exact R1
    · rename_i h _
      refine Reach.trans ?_ (reach_updLink _ _ _)
      refine Reach.trans ?_ (reach_hostLoad _ h _)
      split
      · rename_i p _
        refine Reach.trans ?_ (reach_updLink _ _ _)
        exact (R1.trans (reach_procLoad _ h p _)).trans (reach_counters _ _ _ _ _ _)
      · exact R1

macro_rules | `(tactic| reach_peel) => `(tactic| first
  | (refine Reach.trans ?_ (reach_backendClose _ _))
  | (refine Reach.trans ?_ (reach_hostGet _ _))
  | (refine Reach.trans ?_ (reach_hostAssign _ _ _)))

theorem reach_backendDone (w : World) (s : Nat) : Reach w (backendDone w s) := by
  unfold backendDone; exact reach_updAux _ _ _

theorem reach_connectionClose (w : World) (s : Nat) : Reach w (connectionClose w s) := by
  unfold connectionClose; dsimp only
  split
  · refine Reach.trans ?_ (reach_backendDone _ _); reach_close
  · reach_close

theorem reach_backendError (w : World) (s : Nat) : Reach w (backendError w s).2 := by
  unfold backendError; dsimp only
  refine Reach.trans ?_ (reach_connectionClose _ _)
  reach_close

theorem reach_reconnect (w : World) (s : Nat) : Reach w (reconnect w s).2 := by
  unfold reconnect; dsimp only
  split <;> (try dsimp only) <;> reach_close

theorem reach_recvResponseError (w : World) (s : Nat) : Reach w (recvResponseError w s).2 := by
  unfold recvResponseError; dsimp only
  split
  · split
    · exact (reach_updAux _ _ _).trans (reach_reconnect _ _)
    · exact (reach_updAux _ _ _).trans (reach_backendError _ _)
  · exact reach_backendError _ _

theorem reach_recvResponse (w : World) (s : Nat) : Reach w (recvResponse w s).2 := by
  have R := reach_popRd w
  unfold recvResponse; dsimp only
  split
  · exact R
  · split
    · dsimp only; exact R.trans (reach_updAux _ _ _)
    · split
      · exact R.trans (reach_recvResponseError _ _)
      · dsimp only; exact R.trans (reach_connectionClose _ _)

theorem reach_drain (n : Nat) (w : World) (s : Nat) : Reach w (drain n w s).2 := by
  induction n generalizing w with
  | zero => exact Reach.refl _
  | succ n ih =>
    unfold drain; dsimp only
    split
    · exact (reach_recvResponse w s).trans (ih _)
    · exact reach_recvResponse w s

theorem reach_wrWrite (w : World) (s : Nat) : Reach w (wrWrite w s).2 := by
  have R := reach_popWr w
  unfold wrWrite; dsimp only
  repeat' split
  all_goals (try dsimp only)
  all_goals reach_close

theorem reach_wrPrepare (w : World) (s : Nat) : Reach w (wrPrepare w s).2 := by
  have R := reach_popEnv w
  unfold wrPrepare; dsimp only
  split
  · dsimp only; reach_close
  · split
    · dsimp only; reach_close
    · refine Reach.trans ?_ (reach_wrWrite _ _); reach_close

theorem reach_wrConnected (w : World) (s : Nat) : Reach w (wrConnected w s).2 := by
  unfold wrConnected
  exact (reach_updLink _ _ _).trans (reach_wrPrepare _ _)

theorem reach_slotConnectError (w : World) (s : Nat) : Reach w (slotConnectError w s) := by
  unfold slotConnectError
  split
  · split
    · rename_i hp; exact reach_connectError _ _ _ _ hp
    · exact Reach.refl _
  · exact Reach.refl _

theorem reach_wrDelayed (w : World) (s : Nat) : Reach w (wrDelayed w s).2 := by
  have R := reach_popStat w
  unfold wrDelayed; dsimp only
  split
  · exact Reach.refl _
  · split
    · exact R.trans (reach_slotConnectError _ _)
    · exact (R.trans (reach_updAux _ _ _)).trans (reach_wrConnected _ _)

theorem reach_wrRegister (w : World) (s h p : Nat) : Reach w (wrRegister w s h p) := by
  unfold wrRegister; dsimp only
  exact ((reach_openFd w s).trans (reach_updAux _ _ _)).trans (reach_hctxs _ h (s :: ·))

theorem reach_wrConnect (w : World) (s h p : Nat) (hp : p < (w.host h).nprocs)
    (hs : (w.proc h p).state = .running) : Reach w (wrConnect w s h p).2 := by
  obtain ⟨sc, e⟩ := popConn_eq w
  unfold wrConnect; dsimp only
  rw [e]
  have R1 : Reach w (({ w with script := sc }.emit (.dispatch s h p)).updAux s
      fun a => { a with dispatched := a.dispatched + 1 }) :=
    ((reach_script w sc).trans (Reach.one (Prim.dispatch _ s h p hp hs))).trans (reach_updAux _ _ _)
  generalize (({ w with script := sc }.emit (.dispatch s h p)).updAux s
      fun a => { a with dispatched := a.dispatched + 1 }) = W at R1 ⊢
  split
  · exact R1.trans (reach_wrConnected _ _)
  · dsimp only; reach_close
  · dsimp only
    refine R1.trans (reach_connectError _ _ _ _ ?_)
    rw [(reach_static R1).nprocs]; exact hp

theorem pickProc_fold (w : World) (h : Nat) (l : List Nat) (acc : Option Nat) (n : Nat)
    (hacc : ∀ q, acc = some q → q < n ∧ (w.proc h q).state = .running) (hl : ∀ q, q ∈ l → q < n) :
    ∀ p, l.foldl (pickStep w h) acc = some p → p < n ∧ (w.proc h p).state = .running := by
  induction l generalizing acc with
  | nil => intro p hp; exact hacc p hp
  | cons q l ih =>
    simp only [List.foldl_cons]
    apply ih
    · intro q' hq'
      unfold pickStep at hq'
      split at hq'
      · exact hacc q' hq'
      · rename_i hr
        have hr' : (w.proc h q).state = .running := by simpa using hr
        split at hq'
        · cases hq'; exact ⟨hl q List.mem_cons_self, hr'⟩
        · split at hq'
          · cases hq'; exact ⟨hl q List.mem_cons_self, hr'⟩
          · exact hacc q' hq'
    · intro q' hq'; exact hl q' (List.mem_cons_of_mem _ hq')

theorem pickProc_running {w : World} {h p : Nat} (hp : pickProc w h = some p) :
    p < (w.host h).nprocs ∧ (w.proc h p).state = .running := by
  unfold pickProc at hp
  exact pickProc_fold w h _ none _ (by simp) (by intro q hq; simpa using hq) p hp

theorem procAcquire_frame (w : World) (s h p : Nat) :
    (∀ h', ((procAcquire w s h p).host h') = w.host h') ∧
    (∀ h' p', ((procAcquire w s h p).proc h' p').state = (w.proc h' p').state) := by
  unfold procAcquire
  cases w.slot s with
  | none => simp
  | some c =>
    refine ⟨fun _ => rfl, fun h' p' => ?_⟩
    simp only [setProcLoad, World.updProc, World.updLink, World.updSlot]
    by_cases e : h' = h ∧ p' = p <;> simp [e]

theorem wrRegister_frame (w : World) (s h p : Nat) :
    (∀ h', ((wrRegister w s h p).host h').nprocs = (w.host h').nprocs) ∧
    (wrRegister w s h p).proc = w.proc := by
  have S := reach_static (reach_wrRegister w s h p)
  refine ⟨S.nprocs, ?_⟩
  unfold wrRegister openFd
  cases w.slot s <;> rfl

theorem reach_wrInit (w : World) (s : Nat) : Reach w (wrInit w s).2 := by
  unfold wrInit
  split
  · exact Reach.refl _
  · rename_i h _
    dsimp only
    have R0 := reach_updLink w s fun l => { l with proc := none }
    generalize hW : (w.updLink s fun l => { l with proc := none }) = W at R0 ⊢
    split
    · exact R0
    · rename_i p hp
      obtain ⟨hlt, hrun⟩ := pickProc_running hp
      try dsimp only
      obtain ⟨sc, e⟩ := popSock_eq (procAcquire W s h p)
      rw [e]
      have R1 : Reach w { procAcquire W s h p with script := sc } :=
        (R0.trans (reach_procAcquire _ _ _ _)).trans (reach_script _ _)
      split
      · exact R1
      · refine (R1.trans (reach_wrRegister _ s h p)).trans (reach_wrConnect _ s h p ?_ ?_)
        · rw [(wrRegister_frame _ s h p).1]
          show p < ((procAcquire W s h p).host h).nprocs
          rw [(procAcquire_frame W s h p).1]; exact hlt
        · rw [(wrRegister_frame _ s h p).2]
          show ((procAcquire W s h p).proc h p).state = _
          rw [(procAcquire_frame W s h p).2]; exact hrun

theorem reach_writeRequest (w : World) (s : Nat) : Reach w (writeRequest w s).2 := by
  unfold writeRequest
  split
  · exact reach_wrInit _ _
  · exact reach_wrDelayed _ _
  · exact reach_wrPrepare _ _
  · exact reach_wrWrite _ _
  · exact Reach.refl _

theorem reach_writeErrorTail (w : World) (s : Nat) : Reach w (writeErrorTail w s).2 := by
  unfold writeErrorTail; dsimp only
  refine Reach.trans ?_ (reach_backendError _ _)
  split <;> reach_close

theorem reach_restartIfLocal (w : World) (s : Nat) : Reach w (restartIfLocal w s) := by
  unfold restartIfLocal
  split
  · split
    · exact reach_restartDeadProcs _ _ _
    · exact Reach.refl _
  · exact Reach.refl _

theorem reach_writeError (w : World) (s : Nat) : Reach w (writeError w s).2 := by
  unfold writeError; dsimp only
  split
  · have R := (reach_restartIfLocal w s).trans (reach_updAux _ s fun a => { a with reconnects := a.reconnects + 1 })
    split
    · exact R.trans (reach_reconnect _ _)
    · exact R.trans (reach_writeErrorTail _ _)
  · split
    · exact reach_recvResponse _ _
    · exact (reach_recvResponse _ _).trans (reach_writeErrorTail _ _)

theorem reach_sendRequest (w : World) (s : Nat) : Reach w (sendRequest w s).2 := by
  unfold sendRequest; dsimp only
  split
  · exact reach_writeRequest _ _
  · exact (reach_writeRequest _ _).trans (reach_writeError _ _)

theorem reach_processFdevent (w : World) (s rev : Nat) : Reach w (processFdevent w s rev).2 := by
  unfold processFdevent; dsimp only
  have R1 : Reach w (if rev.testBit 0 then recvResponse w s else (Rc.goOn, w)).2 := by
    split
    · exact reach_recvResponse _ _
    · exact Reach.refl _
  generalize (if rev.testBit 0 then recvResponse w s else (Rc.goOn, w)) = r at R1 ⊢
  split
  · exact R1
  · split
    · exact R1.trans (reach_sendRequest _ _)
    · split
      · split
        · exact R1.trans (reach_sendRequest _ _)
        · split
          · exact R1.trans (reach_drain _ _ _)
          · exact R1.trans (reach_connectionClose _ _)
      · split
        · exact R1.trans (reach_backendError _ _)
        · exact R1

theorem reach_subEvents (w : World) (s : Nat) : Reach w (subEvents w s).2 := by
  unfold subEvents; dsimp only
  split
  · exact (reach_updAux _ _ _).trans (reach_processFdevent _ _ _)
  · exact Reach.refl _

theorem reach_subrequest (w : World) (s : Nat) : Reach w (subrequest w s).2 := by
  unfold subrequest; dsimp only
  have R1 := reach_subEvents w s
  split
  · exact Reach.refl _
  · split
    · exact R1
    · split
      · split
        · exact R1.trans (reach_sendRequest _ _)
        · exact R1.trans (reach_sendRequest _ _)
      · exact R1

theorem reach_finish (w : World) (s : Nat) (ab : Bool) : Reach w (finish w s ab) := by
  unfold finish
  split
  · exact Reach.refl _
  · dsimp only
    refine Reach.trans ?_ (Reach.one (prim_slot _ _))
    refine Reach.trans ?_ (reach_backendClose _ _)
    split
    · exact Reach.refl _
    · exact reach_emit _ _ rfl

theorem reach_runCon (n : Nat) (w : World) (s : Nat) : Reach w (runCon n w s) := by
  induction n generalizing w with
  | zero => exact (reach_emit _ _ rfl).trans (reach_finish _ _ _)
  | succ n ih =>
    unfold runCon
    split
    · exact Reach.refl _
    · dsimp only
      have R1 := reach_subrequest w s
      split
      · exact reach_finish _ _ _
      · split
        · split
          · exact R1.trans (reach_finish _ _ _)
          · exact R1.trans (reach_emit _ _ rfl)
        · exact R1.trans (reach_finish _ _ _)
        · exact R1.trans (reach_finish _ _ _)
        · exact R1.trans (ih _)
        · exact (R1.trans (reach_emit _ _ rfl)).trans (reach_finish _ _ _)

theorem reach_foldl {α : Type} (f : World → α → World) (l : List α) (w0 w : World) (hw : Reach w0 w)
    (hf : ∀ w a, Reach w (f w a)) : Reach w0 (l.foldl f w) := by
  induction l generalizing w with
  | nil => exact hw
  | cons a l ih => exact ih _ (hw.trans (hf w a))

theorem reach_runJobs (w : World) : Reach w (runJobs w) := by
  unfold runJobs; dsimp only
  exact reach_foldl _ _ w _ (reach_jobs _ _) (fun w s => reach_runCon _ w s)

theorem reach_fix504 (w : World) (s : Nat) : Reach w (fix504 w s) := by
  unfold fix504; dsimp only
  split
  · exact reach_updAux _ _ _
  · exact Reach.refl _

theorem reach_hctxTimeout (w : World) (s kind : Nat) : Reach w (hctxTimeout w s kind) := by
  unfold hctxTimeout; dsimp only
  have R0 : Reach w (if w.jobs.contains s then w else { w with jobs := s :: w.jobs }) := by
    split
    · exact Reach.refl _
    · exact reach_jobs _ _
  generalize (if w.jobs.contains s then w else { w with jobs := s :: w.jobs }) = W at R0 ⊢
  split
  · have R1 := (R0.trans (reach_slotConnectError W s)).trans
      (reach_updAux _ s fun a => { a with reconnects := a.reconnects + 1 })
    split
    · exact R1.trans (reach_reconnect _ _)
    · exact ((R1.trans (reach_updAux _ _ _)).trans (reach_backendError _ _)).trans (reach_fix504 _ _)
  · split
    · have R1 := R0.trans (reach_writeError W s)
      split
      · exact R1.trans (reach_updAux _ _ _)
      · exact R1
    · exact (R0.trans (reach_backendError _ _)).trans (reach_fix504 _ _)

theorem reach_timeoutStep (h : Nat) (w : World) (s : Nat) : Reach w (timeoutStep h w s) := by
  unfold timeoutStep; dsimp only
  split
  · split
    · exact reach_hctxTimeout _ _ _
    · exact Reach.refl _
  · split
    · exact reach_hctxTimeout _ _ _
    · split
      · exact reach_hctxTimeout _ _ _
      · exact Reach.refl _

theorem reach_hostTimeouts (w : World) (h : Nat) : Reach w (hostTimeouts w h) := by
  unfold hostTimeouts; dsimp only
  split
  · exact Reach.refl _
  · split
    · exact Reach.refl _
    · exact reach_foldl _ _ w _ (Reach.refl _) (fun w s => reach_timeoutStep h w s)

theorem reach_triggerHost (w : World) (h : Nat) : Reach w (triggerHost w h) := by
  unfold triggerHost; dsimp only
  split
  · exact (reach_hostTimeouts w h).trans (reach_checkOverloaded _ _)
  · exact (reach_hostTimeouts w h).trans (reach_restartDeadProcs _ _ _)

theorem reach_schedRun (w : World) : Reach w (schedRun w) := by
  unfold schedRun
  exact reach_counters w w.globalActive _ 0 w.opened _

theorem reach_opArrive (w : World) (s key : Nat) : Reach w (opArrive w s key) := by
  unfold opArrive
  split
  · exact reach_emit _ _ rfl
  · split
    · exact reach_emit _ _ rfl
    · dsimp only
      have R0 : Reach w ({ w with slot := fun i => if i = s then some { aux := { key := key } } else w.slot i }) :=
        Reach.one (prim_slot _ _)
      generalize ({ w with slot := fun i => if i = s then some { aux := { key := key } } else w.slot i } : World) = W at R0 ⊢
      have R1 := R0.trans (reach_hostGet W s)
      split
      · exact (R1.trans (reach_emit _ _ rfl)).trans (reach_finish _ _ _)
      · split
        · refine Reach.trans ?_ (reach_finish _ _ _)
          refine Reach.trans ?_ (reach_emit _ _ rfl)
          refine Reach.trans ?_ (reach_updAux _ _ _)
          exact R1.trans (reach_noteSent _ _)
        · refine Reach.trans ?_ (reach_runCon _ _ _)
          reach_close

theorem reach_opEvent (w : World) (s mask : Nat) : Reach w (opEvent w s mask) := by
  unfold opEvent; dsimp only
  split
  · exact reach_emit _ _ rfl
  · split
    · exact reach_emit _ _ rfl
    · split
      · exact reach_emit _ _ rfl
      · refine Reach.trans ?_ (reach_runJobs _)
        reach_close

theorem reach_opWake (w : World) (s : Nat) : Reach w (opWake w s) := by
  unfold opWake
  split
  · exact reach_emit _ _ rfl
  · split
    · exact reach_emit _ _ rfl
    · exact (reach_emit _ _ rfl).trans (reach_runCon _ _ _)

theorem reach_opAbort (w : World) (s : Nat) : Reach w (opAbort w s) := by
  unfold opAbort
  split
  · exact reach_emit _ _ rfl
  · split
    · exact reach_emit _ _ rfl
    · exact (reach_emit _ _ rfl).trans (reach_finish _ _ _)

theorem reach_opTick (w : World) (dt : Nat) : Reach w (opTick w dt) := by
  unfold opTick; dsimp only
  refine Reach.trans ?_ (reach_runJobs _)
  refine reach_foldl _ _ w _ ?_ (fun w h => reach_triggerHost w h)
  exact (Reach.one (Prim.tick w dt)).trans (reach_emit _ _ rfl)

theorem reach_step (w : World) (op : Op) : Reach w (step w op) := by
  unfold step; dsimp only
  refine Reach.trans ?_ (reach_schedRun _)
  cases op with
  | arrive s key sc => exact (reach_script w sc).trans (reach_opArrive _ s key)
  | event s mask sc => exact (reach_script w sc).trans (reach_opEvent _ s mask)
  | wake s sc => exact (reach_script w sc).trans (reach_opWake _ s)
  | abort s => exact (reach_script w {}).trans (reach_opAbort _ s)
  | tick dt sc => exact (reach_script w sc).trans (reach_opTick _ dt)

theorem reach_run (w : World) (ops : List Op) : Reach w (run w ops) := by
  unfold run
  exact reach_foldl _ _ w _ (Reach.refl _) (fun w op => reach_step w op)


/-! ### availability bookkeeping: active_procs = number of RUNNING procs -/

theorem setPState_active (w : World) (h p : Nat) (st : PState) (h' : Nat) :
    ((setPState w h p st).host h').active = (w.host h').active +
      (if h' = h ∧ (w.proc h p).state ≠ st then
        (if (w.proc h p).state = .running then -1 else if st = .running then 1 else 0) else 0) := by
  unfold setPState
  by_cases e : (w.proc h p).state = st
  · simp [e]
  · simp only [e, if_false, ne_eq, not_false_eq_true, and_true]
    by_cases e1 : (w.proc h p).state = .running
    · simp only [e1, if_true, World.updProc, World.updHost]
      by_cases e2 : h' = h
      · subst e2; simp; omega
      · simp [e2]
    · simp only [e1, if_false]
      by_cases e3 : st = .running
      · simp only [e3, if_true, World.updProc, World.updHost]
        by_cases e2 : h' = h
        · subst e2; simp
        · simp [e2]
      · simp [e3, World.updProc]

theorem avail_setPState {w : World} (h p : Nat) (st : PState) (hp : p < (w.host h).nprocs) (hA : Avail w) :
    Avail (setPState w h p st) := by
  intro h'
  rw [setPState_active, hA h']
  unfold runningCnt
  rw [(setPState_host w h p st h').1]
  by_cases e : h' = h
  · subst e
    have key := sumTo_update (w.host h').nprocs p
      (fun q => if (w.proc h' q).state = .running then (1 : Int) else 0)
      (fun q => if ((setPState w h' p st).proc h' q).state = .running then (1 : Int) else 0) hp
      (by intro q hq; simp only [(setPState_proc w h' p st h' q).2.2.2.2]; simp [hq])
    rw [key]
    simp only [(setPState_proc w h' p st h' p).2.2.2.2, and_self, if_true, true_and]
    by_cases e1 : (w.proc h' p).state = st
    · simp [e1]
    · simp only [ne_eq, e1, not_false_eq_true, if_true]
      by_cases e2 : (w.proc h' p).state = .running
      · have : st ≠ .running := fun e3 => e1 (e2.trans e3.symm)
        simp [e2, this]; omega
      · by_cases e3 : st = .running <;> simp [e2, e3]
  · simp only [e, false_and, if_false, Int.add_zero]
    apply sumTo_congr
    intro q _
    simp only [(setPState_proc w h p st h' q).2.2.2.2]
    simp [e]

theorem avail_congr {a b : World} (hh : ∀ h, (b.host h).active = (a.host h).active ∧ (b.host h).nprocs = (a.host h).nprocs)
    (hp : ∀ h p, (b.proc h p).state = (a.proc h p).state) (hA : Avail a) : Avail b := by
  intro h
  rw [(hh h).1, hA h]
  unfold runningCnt
  rw [(hh h).2]
  apply sumTo_congr
  intro q _; rw [hp]

theorem avail_host {a : World} (h : Nat) (f : Host → Host) (hf : HostKeep f) (hA : Avail a) :
    Avail (a.updHost h f) := by
  refine avail_congr (a := a) ?_ (fun _ _ => rfl) hA
  intro h'; simp only [World.updHost]; by_cases e : h' = h <;> simp [e, (hf _).1, (hf _).2.1]

theorem avail_proc {a : World} (h p : Nat) (f : Proc → Proc) (hf : ProcKeep f) (hA : Avail a) :
    Avail (a.updProc h p f) := by
  refine avail_congr (a := a) (fun _ => ⟨rfl, rfl⟩) ?_ hA
  intro h' p'; simp only [World.updProc]; by_cases e : h' = h ∧ p' = p <;> simp [e, (hf _).1]

theorem avail_prim {a b : World} (p : Prim a b) (hA : Avail a) : Avail b := by
  cases p with
  | hostLoad h v => exact fun h' => avail_host h _ (hostKeep_load v) hA h'
  | procLoad h p v => exact fun h' => avail_proc h p _ (procKeep_load v) hA h'
  | misc => exact avail_congr (a := a) (fun _ => ⟨rfl, rfl⟩) (fun _ _ => rfl) hA
  | host h f hf hl => exact avail_host h f hf hA
  | proc h p f hf hl => exact avail_proc h p f hf hA
  | disable h p hp =>
    refine avail_setPState (w := a.updProc h p _) h p .overloaded hp ?_
    refine avail_congr (a := a) (fun _ => ⟨rfl, rfl⟩) ?_ hA
    intro h' p'; simp only [World.updProc]; by_cases e : h' = h ∧ p' = p <;> simp [e]
  | enable h p hp hs ht => exact avail_setPState _ _ _ hp hA
  | killedTick h p hs =>
    refine avail_congr (a := a) (fun _ => ⟨rfl, rfl⟩) ?_ hA
    intro h' p'; simp only [World.updProc]; by_cases e : h' = h ∧ p' = p <;> simp [e]
  | emit => exact avail_congr (a := a) (fun _ => ⟨rfl, rfl⟩) (fun _ _ => rfl) hA
  | dispatch => exact avail_congr (a := a) (fun _ => ⟨rfl, rfl⟩) (fun _ _ => rfl) hA
  | tick => exact avail_congr (a := a) (fun _ => ⟨rfl, rfl⟩) (fun _ _ => rfl) hA

theorem avail_reach {a b : World} (h : Reach a b) : Avail a → Avail b :=
  Reach.inv (fun _ _ => avail_prim) h

theorem sumTo_one (n : Nat) : sumTo n (fun _ => 1) = n := by
  induction n with
  | zero => rfl
  | succ n ih => simp [sumTo, ih]

theorem avail_init (balance : Nat) (wkr : Bool) (nslots : Nat) (specs : List HostSpec) :
    Avail (initWorld balance wkr nslots specs) := by
  intro h
  unfold runningCnt
  simp only [initWorld]
  have key : ∀ o : Option HostSpec, (specHost h o).active =
      sumTo (specHost h o).nprocs (fun p => if (specProc h p o).state = .running then 1 else 0) := by
    intro o
    cases o with
    | none => simp [specHost, specProc, sumTo]
    | some sp => simp [specHost, specProc, sumTo_one]
  exact key _

/-! ### the disable window -/

/-- an OVERLOADED proc was disabled at most disable-time seconds into the future -/
def WInv (w : World) : Prop :=
  ∀ h p, (w.proc h p).state = .overloaded → (w.proc h p).disabledUntil ≤ w.now + (w.host h).disableTime

/-- proc p of host h is out of rotation at least until D -/
def Win (h p : Nat) (D : Int) (w : World) : Prop :=
  (w.proc h p).state = .overloaded ∧ D ≤ (w.proc h p).disabledUntil

theorem disable_proc (a : World) (h p h' p' : Nat) :
    let b := setPState (a.updProc h p fun P => { P with disabledUntil := a.now + (a.host h).disableTime }) h p .overloaded
    (b.proc h' p').state = (if h' = h ∧ p' = p then .overloaded else (a.proc h' p').state) ∧
    (b.proc h' p').disabledUntil =
      (if h' = h ∧ p' = p then a.now + (a.host h).disableTime else (a.proc h' p').disabledUntil) := by
  intro b
  have P := setPState_proc (a.updProc h p fun P => { P with disabledUntil := a.now + (a.host h).disableTime }) h p .overloaded h' p'
  refine ⟨?_, ?_⟩
  · rw [P.2.2.2.2]; simp only [World.updProc]; by_cases e : h' = h ∧ p' = p <;> simp [e]
  · rw [P.2.2.1]; simp only [World.updProc]; by_cases e : h' = h ∧ p' = p <;> simp [e]

theorem winv_host {a : World} (h : Nat) (f : Host → Host) (hf : HostKeep f) (hW : WInv a) :
    WInv (a.updHost h f) := by
  intro h' p' hs
  have := hW h' p' hs
  rw [(static_host a h f hf).disableTime]; exact this

theorem winv_proc {a : World} (h p : Nat) (f : Proc → Proc) (hf : ProcKeep f) (hW : WInv a) :
    WInv (a.updProc h p f) := by
  intro h' p' hs
  simp only [World.updProc] at hs ⊢
  by_cases e : h' = h ∧ p' = p
  · simp only [e, and_self, if_true] at hs ⊢
    rw [(hf _).1] at hs; rw [(hf _).2.1]
    obtain ⟨rfl, rfl⟩ := e; exact hW _ _ hs
  · simp only [e, if_false] at hs ⊢; exact hW _ _ hs

theorem winv_prim {a b : World} (pr : Prim a b) (hW : WInv a) : WInv b := by
  have S := static_prim pr
  cases pr with
  | hostLoad h v => exact fun h' p' hs => winv_host h _ (hostKeep_load v) hW h' p' hs
  | procLoad h p v => exact fun h' p' hs => winv_proc h p _ (procKeep_load v) hW h' p' hs
  | misc => exact hW
  | host h f hf hl => exact winv_host h f hf hW
  | proc h p f hf hl => exact winv_proc h p f hf hW
  | disable h p hp =>
    intro h' p' hs
    have D := disable_proc a h p h' p'
    simp only at D
    rw [D.1] at hs; rw [D.2, S.disableTime]
    have hn : (setPState (a.updProc h p fun P => { P with disabledUntil := a.now + (a.host h).disableTime }) h p .overloaded).now = a.now :=
      (setPState_other _ h p .overloaded).2.2.2.2.1
    rw [hn]
    by_cases e : h' = h ∧ p' = p
    · obtain ⟨rfl, rfl⟩ := e; simp
    · simp only [e, if_false] at hs ⊢; exact hW _ _ hs
  | enable h p hp hs' ht =>
    intro h' p' hs
    have P := setPState_proc a h p .running h' p'
    have hn : (setPState a h p .running).now = a.now := (setPState_other _ h p .running).2.2.2.2.1
    rw [P.2.2.2.2] at hs; rw [P.2.2.1, S.disableTime, hn]
    by_cases e : h' = h ∧ p' = p
    · simp [e] at hs
    · simp only [e, if_false] at hs; exact hW _ _ hs
  | killedTick h p hk =>
    intro h' p' hs
    simp only [World.updProc] at hs ⊢
    by_cases e : h' = h ∧ p' = p
    · obtain ⟨rfl, rfl⟩ := e
      simp at hs; rw [hk] at hs; cases hs
    · simp only [e, if_false] at hs ⊢; exact hW _ _ hs
  | emit => exact hW
  | dispatch => exact hW
  | tick dt =>
    intro h' p' hs
    have := hW h' p' hs
    show (a.proc h' p').disabledUntil ≤ a.now + (dt : Int) + (a.host h').disableTime
    omega

theorem win_proc {a : World} {h p : Nat} {D : Int} (h' p' : Nat) (f : Proc → Proc) (hf : ProcKeep f)
    (hwin : Win h p D a) : Win h p D (a.updProc h' p' f) := by
  obtain ⟨hst, hD⟩ := hwin
  unfold Win
  simp only [World.updProc]
  by_cases e : h = h' ∧ p = p'
  · obtain ⟨rfl, rfl⟩ := e
    simp only [and_self, if_true, (hf _).1, (hf _).2.1]; exact ⟨hst, hD⟩
  · simp only [e, if_false]; exact ⟨hst, hD⟩

theorem win_prim {a b : World} {h p : Nat} {D : Int} (pr : Prim a b) (hW : WInv a) (hnow : b.now ≤ D)
    (hwin : Win h p D a) :
    Win h p D b ∧ (b.log = a.log ∨ ∃ e, b.log = e :: a.log ∧ ∀ s, e ≠ .dispatch s h p) := by
  obtain ⟨hst, hD⟩ := hwin
  cases pr with
  | misc => exact ⟨⟨hst, hD⟩, Or.inl rfl⟩
  | host h' f hf hl => exact ⟨⟨hst, hD⟩, Or.inl rfl⟩
  | hostLoad h' v => exact ⟨⟨hst, hD⟩, Or.inl rfl⟩
  | proc h' p' f hf hl => exact ⟨win_proc h' p' f hf ⟨hst, hD⟩, Or.inl rfl⟩
  | procLoad h' p' v => exact ⟨win_proc h' p' _ (procKeep_load v) ⟨hst, hD⟩, Or.inl rfl⟩
  | disable h' p' hp =>
    have Dp := disable_proc a h' p' h p
    simp only at Dp
    have O := setPState_other (a.updProc h' p' fun P => { P with disabledUntil := a.now + (a.host h').disableTime }) h' p' .overloaded
    refine ⟨?_, Or.inl O.2.2.2.2.2.1⟩
    unfold Win
    rw [Dp.1, Dp.2]
    by_cases e : h = h' ∧ p = p'
    · obtain ⟨rfl, rfl⟩ := e
      have := hW h p hst
      simp; omega
    · simp only [e, if_false]; exact ⟨hst, hD⟩
  | enable h' p' hp hs' ht =>
    have P := setPState_proc a h' p' .running h p
    have O := setPState_other a h' p' .running
    rw [O.2.2.2.2.1] at hnow
    refine ⟨?_, Or.inl O.2.2.2.2.2.1⟩
    unfold Win
    rw [P.2.2.2.2, P.2.2.1]
    by_cases e : h = h' ∧ p = p'
    · obtain ⟨rfl, rfl⟩ := e; omega
    · simp only [e, if_false]; exact ⟨hst, hD⟩
  | killedTick h' p' hk =>
    refine ⟨?_, Or.inl rfl⟩
    unfold Win
    simp only [World.updProc]
    by_cases e : h = h' ∧ p = p'
    · obtain ⟨rfl, rfl⟩ := e; rw [hk] at hst; cases hst
    · simp only [e, if_false]; exact ⟨hst, hD⟩
  | emit e he =>
    refine ⟨⟨hst, hD⟩, Or.inr ⟨e, rfl, ?_⟩⟩
    intro s hs; subst hs; simp [isDispatch] at he
  | dispatch s' h' p' hp hs' =>
    refine ⟨⟨hst, hD⟩, Or.inr ⟨_, rfl, ?_⟩⟩
    intro s hs
    cases hs
    rw [hs'] at hst; cases hst
  | tick dt => exact ⟨⟨hst, hD⟩, Or.inl rfl⟩

theorem winv_reach {a b : World} (h : Reach a b) : WInv a → WInv b :=
  Reach.inv (fun _ _ => winv_prim) h

theorem window_reach {a b : World} {h p : Nat} {D : Int} (hr : Reach a b) (hW : WInv a)
    (hwin : Win h p D a) (hnow : b.now ≤ D) :
    Win h p D b ∧ ∃ new, b.log = new ++ a.log ∧ ∀ e, e ∈ new → ∀ s, e ≠ .dispatch s h p := by
  induction hr with
  | refl => exact ⟨hwin, [], rfl, by simp⟩
  | step hr' pr ih =>
    rename_i w' w''
    have hn' : w'.now ≤ D := Int.le_trans (static_prim pr).now hnow
    obtain ⟨hw', new, hlog, hnew⟩ := ih hn'
    obtain ⟨hw'', hl⟩ := win_prim pr (winv_reach hr' hW) hnow hw'
    refine ⟨hw'', ?_⟩
    rcases hl with hl | ⟨e, hl, he⟩
    · exact ⟨new, by rw [hl, hlog], hnew⟩
    · refine ⟨e :: new, by rw [hl, hlog]; rfl, ?_⟩
      intro e' he' s
      rcases List.mem_cons.mp he' with rfl | h2
      · exact he s
      · exact hnew e' h2 s

theorem winv_init (balance : Nat) (wkr : Bool) (nslots : Nat) (specs : List HostSpec) :
    WInv (initWorld balance wkr nslots specs) := by
  intro h p hs
  simp only [initWorld] at hs
  have : ∀ o : Option HostSpec, (specProc h p o).state ≠ .overloaded := by
    intro o; cases o <;> simp [specProc]
  exact absurd hs (this _)


/-! ### gw_host_get: what each balance mode returns -/

def LcInv (w : World) (S : Nat → Prop) (acc : Int × Option Nat) : Prop :=
  (∀ j, S j → (w.host j).active ≠ 0 → acc.1 ≤ (w.host j).load) ∧
  (∀ k, acc.2 = some k → S k ∧ (w.host k).active ≠ 0 ∧ (w.host k).load = acc.1 ∧
        ∀ j, S j → j < k → (w.host j).active ≠ 0 → acc.1 < (w.host j).load) ∧
  (acc.2 = none → acc.1 = intMax) ∧ acc.1 ≤ intMax

theorem lc_fold (w : World) (l : List Nat) (acc : Int × Option Nat) (S : Nat → Prop)
    (hsorted : l.Pairwise (· < ·)) (hS : ∀ j, S j → ∀ i, i ∈ l → j < i)
    (hacc : LcInv w S acc) : LcInv w (fun j => S j ∨ j ∈ l) (l.foldl (lcStep w) acc) := by
  induction l generalizing acc S with
  | nil => simpa using hacc
  | cons a l ih =>
    simp only [List.foldl_cons]
    have hs' := List.pairwise_cons.mp hsorted
    have := ih (lcStep w acc a) (fun j => S j ∨ j = a) hs'.2
      (by
        intro j hj i hi
        rcases hj with hj | rfl
        · exact hS j hj i (List.mem_cons_of_mem _ hi)
        · exact hs'.1 i hi)
      (by
        obtain ⟨h1, h2, h3, h4⟩ := hacc
        unfold lcStep
        by_cases ha : (w.host a).active = 0
        · simp only [ha, if_true]
          refine ⟨?_, ?_, h3, h4⟩
          · intro j hj hact
            rcases hj with hj | rfl
            · exact h1 j hj hact
            · exact absurd ha hact
          · intro k hk
            obtain ⟨a1, a2, a3, a4⟩ := h2 k hk
            refine ⟨Or.inl a1, a2, a3, ?_⟩
            intro j hj hjk hact
            rcases hj with hj | rfl
            · exact a4 j hj hjk hact
            · exact absurd ha hact
        · simp only [ha, if_false]
          by_cases hlt : (w.host a).load < acc.1
          · simp only [hlt, if_true]
            refine ⟨?_, ?_, by simp, by simp; omega⟩
            · intro j hj hact
              rcases hj with hj | rfl
              · have := h1 j hj hact; simp; omega
              · simp
            · intro k hk
              simp at hk; subst hk
              refine ⟨Or.inr rfl, ha, rfl, ?_⟩
              intro j hj hjk hact
              rcases hj with hj | rfl
              · have := h1 j hj hact; simp; omega
              · omega
          · simp only [hlt, if_false]
            refine ⟨?_, ?_, h3, h4⟩
            · intro j hj hact
              rcases hj with hj | rfl
              · exact h1 j hj hact
              · omega
            · intro k hk
              obtain ⟨a1, a2, a3, a4⟩ := h2 k hk
              refine ⟨Or.inl a1, a2, a3, ?_⟩
              intro j hj hjk hact
              rcases hj with hj | rfl
              · exact a4 j hj hjk hact
              · have := hS k a1 j List.mem_cons_self; omega)
    refine ⟨?_, ?_, this.2.2.1, this.2.2.2⟩
    · intro j hj hact
      apply this.1 j _ hact
      rcases hj with hj | hj
      · exact Or.inl (Or.inl hj)
      · rcases List.mem_cons.mp hj with rfl | hj
        · exact Or.inl (Or.inr rfl)
        · exact Or.inr hj
    · intro k hk
      obtain ⟨a1, a2, a3, a4⟩ := this.2.1 k hk
      refine ⟨?_, a2, a3, ?_⟩
      · rcases a1 with (a1 | rfl) | a1
        · exact Or.inl a1
        · exact Or.inr List.mem_cons_self
        · exact Or.inr (List.mem_cons_of_mem _ a1)
      · intro j hj hjk hact
        apply a4 j _ hjk hact
        rcases hj with hj | hj
        · exact Or.inl (Or.inl hj)
        · rcases List.mem_cons.mp hj with rfl | hj
          · exact Or.inl (Or.inr rfl)
          · exact Or.inr hj

theorem range_pairwise (n : Nat) : (List.range n).Pairwise (· < ·) := by
  simpa using List.pairwise_lt_range (n := n)

theorem lcPick_spec (w : World) :
    LcInv w (fun j => j < w.nhosts) ((List.range w.nhosts).foldl (lcStep w) (intMax, none)) := by
  have := lc_fold w (List.range w.nhosts) (intMax, none) (fun _ => False) (range_pairwise _)
    (by intro j hj; exact hj.elim) ⟨by intro j hj; exact hj.elim, by simp, by simp, by simp⟩
  simpa using this

def HashInv (w : World) (base : UInt32) (S : Nat → Prop) (acc : UInt32 × Option Nat) : Prop :=
  (∀ j, S j → (w.host j).active ≠ 0 → base ^^^ (w.host j).gwHash ≤ acc.1) ∧
  (∀ k, acc.2 = some k → S k ∧ (w.host k).active ≠ 0 ∧ base ^^^ (w.host k).gwHash = acc.1) ∧
  (acc.2 = none → acc.1 = 0 ∧ ∀ j, S j → (w.host j).active = 0)

theorem hash_fold (w : World) (base : UInt32) (l : List Nat) (acc : UInt32 × Option Nat) (S : Nat → Prop)
    (hacc : HashInv w base S acc) :
    HashInv w base (fun j => S j ∨ j ∈ l) (l.foldl (hashStep w base) acc) := by
  induction l generalizing acc S with
  | nil => simpa using hacc
  | cons a l ih =>
    simp only [List.foldl_cons]
    have := ih (hashStep w base acc a) (fun j => S j ∨ j = a)
      (by
        obtain ⟨h1, h2, h3⟩ := hacc
        unfold hashStep
        by_cases ha : (w.host a).active = 0
        · simp only [ha, if_true]
          refine ⟨?_, ?_, ?_⟩
          · intro j hj hact
            rcases hj with hj | rfl
            · exact h1 j hj hact
            · exact absurd ha hact
          · intro k hk
            obtain ⟨a1, a2, a3⟩ := h2 k hk
            exact ⟨Or.inl a1, a2, a3⟩
          · intro hn
            refine ⟨(h3 hn).1, ?_⟩
            intro j hj
            rcases hj with hj | rfl
            · exact (h3 hn).2 j hj
            · exact ha
        · simp only [ha, if_false]
          by_cases hle : acc.1 ≤ base ^^^ (w.host a).gwHash
          · simp only [hle, if_true]
            refine ⟨?_, ?_, by simp⟩
            · intro j hj hact
              rcases hj with hj | rfl
              · exact UInt32.le_trans (h1 j hj hact) hle
              · exact UInt32.le_refl _
            · intro k hk
              simp at hk; subst hk
              exact ⟨Or.inr rfl, ha, rfl⟩
          · simp only [hle, if_false]
            refine ⟨?_, ?_, ?_⟩
            · intro j hj hact
              rcases hj with hj | rfl
              · exact h1 j hj hact
              · exact UInt32.le_of_lt (UInt32.not_le.mp hle)
            · intro k hk
              obtain ⟨a1, a2, a3⟩ := h2 k hk
              exact ⟨Or.inl a1, a2, a3⟩
            · intro hn
              exfalso
              apply hle
              rw [(h3 hn).1]
              exact UInt32.zero_le)
    refine ⟨?_, ?_, ?_⟩
    · intro j hj hact
      apply this.1 j _ hact
      rcases hj with hj | hj
      · exact Or.inl (Or.inl hj)
      · rcases List.mem_cons.mp hj with rfl | hj
        · exact Or.inl (Or.inr rfl)
        · exact Or.inr hj
    · intro k hk
      obtain ⟨a1, a2, a3⟩ := this.2.1 k hk
      refine ⟨?_, a2, a3⟩
      rcases a1 with (a1 | rfl) | a1
      · exact Or.inl a1
      · exact Or.inr List.mem_cons_self
      · exact Or.inr (List.mem_cons_of_mem _ a1)
    · intro hn
      refine ⟨(this.2.2 hn).1, ?_⟩
      intro j hj
      apply (this.2.2 hn).2 j
      rcases hj with hj | hj
      · exact Or.inl (Or.inl hj)
      · rcases List.mem_cons.mp hj with rfl | hj
        · exact Or.inl (Or.inr rfl)
        · exact Or.inr hj

theorem hashPick_spec (w : World) (base : UInt32) :
    HashInv w base (fun j => j < w.nhosts) ((List.range w.nhosts).foldl (hashStep w base) (0, none)) := by
  have := hash_fold w base (List.range w.nhosts) (0, none) (fun _ => False)
    ⟨by intro j hj; exact hj.elim, by simp, by simp⟩
  simpa using this

theorem firstActive_range' (w : World) (n : Nat) : ∀ a,
    (∀ j, firstActive w (List.range' a n) = some j →
        a ≤ j ∧ j < a + n ∧ (w.host j).active ≠ 0 ∧ ∀ i, a ≤ i → i < j → (w.host i).active = 0) ∧
    (firstActive w (List.range' a n) = none → ∀ i, a ≤ i → i < a + n → (w.host i).active = 0) := by
  induction n with
  | zero => intro a; simp [firstActive]; intro i h1 h2; omega
  | succ n ih =>
    intro a
    rw [List.range'_succ]
    simp only [firstActive]
    by_cases ha : (w.host a).active ≠ 0
    · rw [if_pos ha]
      refine ⟨?_, by simp⟩
      intro j hj; simp at hj; subst hj
      exact ⟨Nat.le_refl _, by omega, ha, by intro i h1 h2; omega⟩
    · rw [if_neg ha]
      have ha' : (w.host a).active = 0 := by simpa using ha
      obtain ⟨h1, h2⟩ := ih (a + 1)
      refine ⟨?_, ?_⟩
      · intro j hj
        obtain ⟨b1, b2, b3, b4⟩ := h1 j hj
        refine ⟨by omega, by omega, b3, ?_⟩
        intro i hi1 hi2
        by_cases e : i = a
        · subst e; exact ha'
        · exact b4 i (by omega) hi2
      · intro hn i hi1 hi2
        by_cases e : i = a
        · subst e; exact ha'
        · exact h2 hn i (by omega) (by omega)

/-- GW_BALANCE_RR: the result is the first active host after last_used_ndx, cyclically -/
theorem rrPick_spec (w : World) :
    (∀ j, rrPick w = some j → j < w.nhosts ∧ (w.host j).active ≠ 0 ∧
      ((w.lastUsed + 1).toNat ≤ j ∧ (∀ i, (w.lastUsed + 1).toNat ≤ i → i < j → (w.host i).active = 0) ∨
       j < (w.lastUsed + 1).toNat ∧ (∀ i, (w.lastUsed + 1).toNat ≤ i → i < w.nhosts → (w.host i).active = 0) ∧
         ∀ i, i < j → (w.host i).active = 0)) ∧
    (rrPick w = none → ∀ i, i < w.nhosts → (w.host i).active = 0) := by
  unfold rrPick
  dsimp only
  obtain ⟨f1, f2⟩ := firstActive_range' w (w.nhosts - (w.lastUsed + 1).toNat) (w.lastUsed + 1).toNat
  cases h1 : firstActive w (List.range' (w.lastUsed + 1).toNat (w.nhosts - (w.lastUsed + 1).toNat)) with
  | some j =>
    obtain ⟨a1, a2, a3, a4⟩ := f1 j h1
    refine ⟨?_, by simp⟩
    intro j' hj'; simp at hj'; subst hj'
    exact ⟨by omega, a3, Or.inl ⟨a1, a4⟩⟩
  | none =>
    have hnone := f2 h1
    rw [List.range_eq_range']
    obtain ⟨g1, g2⟩ := firstActive_range' w (min (w.lastUsed + 1).toNat w.nhosts) 0
    dsimp only
    refine ⟨?_, ?_⟩
    · intro j hj
      obtain ⟨b1, b2, b3, b4⟩ := g1 j hj
      refine ⟨by omega, b3, Or.inr ⟨by omega, ?_, fun i hi => b4 i (Nat.zero_le _) hi⟩⟩
      intro i hi1 hi2; exact hnone i hi1 (by omega)
    · intro hn i hi
      by_cases e : (w.lastUsed + 1).toNat ≤ i
      · exact hnone i e (by omega)
      · exact g2 hn i (Nat.zero_le _) (by omega)

/-- c11_only_available, soundness: gw_host_get never returns a host without an active proc -/
theorem hostPick_available (w : World) (key h : Nat) (hh : (hostPick w key).1 = some h) :
    h < w.nhosts ∧ (w.host h).active ≠ 0 := by
  unfold hostPick at hh
  split at hh
  · split at hh
    · rename_i h1; simp at hh; subst hh; exact ⟨by omega, h1.2⟩
    · simp at hh
  · split at hh
    · obtain ⟨_, h2, _⟩ := lcPick_spec w
      obtain ⟨a1, a2, _⟩ := h2 h hh
      exact ⟨a1, a2⟩
    · split at hh
      · split at hh
        · rename_i j hj
          simp at hh; subst hh
          obtain ⟨a1, a2, _⟩ := (rrPick_spec w).1 _ hj
          exact ⟨a1, a2⟩
        · simp at hh
      · split at hh
        · obtain ⟨_, h2, _⟩ := hashPick_spec w (baseHash w.balance key)
          obtain ⟨a1, a2, _⟩ := h2 h hh
          exact ⟨a1, a2⟩
        · simp at hh

/-- c11_only_available, completeness: with an available host there is no 503 -/
theorem hostPick_complete (w : World) (key : Nat) (hb : w.balance ≤ 3)
    (hex : ∃ j, j < w.nhosts ∧ (w.host j).active ≠ 0 ∧ (w.host j).load < intMax) :
    ∃ h, (hostPick w key).1 = some h := by
  obtain ⟨j, hj1, hj2, hj3⟩ := hex
  unfold hostPick
  split
  · rename_i hle
    have : w.nhosts = 1 ∧ j = 0 := by omega
    obtain ⟨e1, rfl⟩ := this
    simp [e1, hj2]
  · split
    · obtain ⟨h1, h2, h3, _⟩ := lcPick_spec w
      cases hp : ((List.range w.nhosts).foldl (lcStep w) (intMax, none)).2 with
      | some k => exact ⟨k, hp⟩
      | none =>
        have := h1 j hj1 hj2
        rw [h3 hp] at this
        omega
    · split
      · cases hp : rrPick w with
        | some k => exact ⟨k, by simp⟩
        | none => exact absurd ((rrPick_spec w).2 hp j hj1) hj2
      · split
        · obtain ⟨h1, h2, h3⟩ := hashPick_spec w (baseHash w.balance key)
          cases hp : ((List.range w.nhosts).foldl (hashStep w (baseHash w.balance key)) (0, none)).2 with
          | some k => exact ⟨k, hp⟩
          | none => exact absurd ((h3 hp).2 j hj1) hj2
        · rename_i b0 b1 b23
          omega


/-! ### disable on connect failure, re-enable by the trigger -/

theorem connectError_disables (w : World) (h p pid : Nat)
    (hc : (w.proc h p).isLocal = false ∨ ((w.proc h p).pid = pid ∧ (w.proc h p).state = .running)) :
    ((connectError w h p pid).proc h p).state = .overloaded ∧
    ((connectError w h p pid).proc h p).disabledUntil = w.now + (w.host h).disableTime := by
  have D := disable_proc w h p h p
  simp only [and_self, if_true] at D
  unfold connectError
  have : (!(w.proc h p).isLocal || ((w.proc h p).pid == pid && (w.proc h p).state == .running)) = true := by
    rcases hc with hc | ⟨h1, h2⟩
    · simp [hc]
    · simp [h1, h2]
  rw [if_pos this]
  exact D

theorem checkEnable_frame (w : World) (h q : Nat) (h' p' : Nat) (hne : ¬(h' = h ∧ p' = q)) :
    ((checkEnable w h q).proc h' p').state = (w.proc h' p').state ∧
    ((checkEnable w h q).proc h' p').disabledUntil = (w.proc h' p').disabledUntil ∧
    (checkEnable w h q).now = w.now := by
  unfold checkEnable
  split
  · exact ⟨rfl, rfl, rfl⟩
  · split
    · exact ⟨rfl, rfl, rfl⟩
    · have P := setPState_proc w h q .running h' p'
      have O := setPState_other w h q .running
      rw [P.2.2.2.2, P.2.2.1, O.2.2.2.2.1]
      simp [hne]

theorem checkEnable_enables (w : World) (h p : Nat) (hs : (w.proc h p).state = .overloaded)
    (ht : (w.proc h p).disabledUntil < w.now) : ((checkEnable w h p).proc h p).state = .running := by
  unfold checkEnable
  rw [if_neg (by omega), if_neg (by simp [hs])]
  have P := setPState_proc w h p .running h p
  rw [P.2.2.2.2]; simp

theorem checkEnable_now (w : World) (h q : Nat) : (checkEnable w h q).now = w.now := by
  unfold checkEnable
  split
  · rfl
  · split
    · rfl
    · exact (setPState_other w h q .running).2.2.2.2.1

/-- the target proc is back, or still waiting with its time already up -/
def Due (h p : Nat) (w : World) : Prop :=
  (w.proc h p).state = .running ∨
  ((w.proc h p).state = .overloaded ∧ (w.proc h p).disabledUntil < w.now)

theorem restartDeadProc_due (w : World) (h : Nat) (tr : Bool) (q p : Nat) (hd : Due h p w) :
    Due h p (restartDeadProc w h tr q) ∧ (q = p → ((restartDeadProc w h tr q).proc h p).state = .running) ∧
    ((w.proc h p).state = .running → ((restartDeadProc w h tr q).proc h p).state = .running) := by
  by_cases e : q = p
  · subst e
    rcases hd with hr | ⟨ho, ht⟩
    · have : restartDeadProc w h tr q = w := by unfold restartDeadProc; simp [hr]
      rw [this]; exact ⟨Or.inl hr, fun _ => hr, fun _ => hr⟩
    · have : restartDeadProc w h tr q = checkEnable w h q := by unfold restartDeadProc; simp [ho]
      rw [this]
      have := checkEnable_enables w h q ho ht
      exact ⟨Or.inl this, fun _ => this, fun _ => this⟩
  · have hne : ¬(h = h ∧ p = q) := fun ⟨_, h2⟩ => e h2.symm
    have key : ((restartDeadProc w h tr q).proc h p).state = (w.proc h p).state ∧
        ((restartDeadProc w h tr q).proc h p).disabledUntil = (w.proc h p).disabledUntil ∧
        (restartDeadProc w h tr q).now = w.now := by
      unfold restartDeadProc
      split
      · exact ⟨rfl, rfl, rfl⟩
      · exact checkEnable_frame w h q h p hne
      · split
        · have hpq : p ≠ q := fun h2 => e h2.symm
          simp [World.updProc, hpq]
        · exact ⟨rfl, rfl, rfl⟩
      · exact ⟨rfl, rfl, rfl⟩
      · exact ⟨rfl, rfl, rfl⟩
    refine ⟨?_, fun h' => absurd h' e, fun hr => by rw [key.1]; exact hr⟩
    unfold Due; rw [key.1, key.2.1, key.2.2]; exact hd

theorem fold_due (h p : Nat) (f : World → Nat → World) (l : List Nat) (w : World)
    (hf : ∀ w q, Due h p w → Due h p (f w q) ∧ (q = p → ((f w q).proc h p).state = .running) ∧
      ((w.proc h p).state = .running → ((f w q).proc h p).state = .running))
    (hd : Due h p w) :
    Due h p (l.foldl f w) ∧ (p ∈ l → ((l.foldl f w).proc h p).state = .running) ∧
    ((w.proc h p).state = .running → ((l.foldl f w).proc h p).state = .running) := by
  induction l generalizing w with
  | nil => exact ⟨hd, by simp, fun hr => hr⟩
  | cons q l ih =>
    simp only [List.foldl_cons]
    obtain ⟨d1, r1, k1⟩ := hf w q hd
    obtain ⟨d2, r2, k2⟩ := ih (f w q) d1
    refine ⟨d2, ?_, fun hr => k2 (k1 hr)⟩
    intro hm
    rcases List.mem_cons.mp hm with rfl | hm
    · exact k2 (r1 rfl)
    · exact r2 hm

/-- gw_restart_dead_procs() brings every proc back whose disable time is over -/
theorem restartDeadProcs_enables (w : World) (h : Nat) (tr : Bool) (p : Nat) (hp : p < (w.host h).nprocs)
    (hs : (w.proc h p).state = .overloaded) (ht : (w.proc h p).disabledUntil < w.now) :
    ((restartDeadProcs w h tr).proc h p).state = .running := by
  unfold restartDeadProcs
  exact (fold_due h p _ _ w (fun w q hd => restartDeadProc_due w h tr q p hd) (Or.inr ⟨hs, ht⟩)).2.1
    (by simpa using hp)

theorem checkOverloaded_enables (w : World) (h : Nat) (p : Nat) (hp : p < (w.host h).nprocs)
    (hs : (w.proc h p).state = .overloaded) (ht : (w.proc h p).disabledUntil < w.now) :
    ((checkOverloaded w h).proc h p).state = .running := by
  unfold checkOverloaded
  refine (fold_due h p _ _ w ?_ (Or.inr ⟨hs, ht⟩)).2.1 (by simpa using hp)
  intro w q hd
  have := restartDeadProc_due w h false q p hd
  by_cases ho : (w.proc h q).state = .overloaded
  · have e : restartDeadProc w h false q = checkEnable w h q := by unfold restartDeadProc; simp [ho]
    simp only [ho, if_true]
    rw [← e]; exact this
  · simp only [ho, if_false]
    refine ⟨hd, ?_, fun hr => hr⟩
    intro e; subst e
    rcases hd with hr | ⟨ho', _⟩
    · exact hr
    · exact absurd ho' ho

theorem hostTimeouts_idle (w : World) (h : Nat) (he : (w.host h).hctxs = []) : hostTimeouts w h = w := by
  unfold hostTimeouts; simp [he]

/-- c11_disable_reenable, second half: the trigger after the disable time re-enables the proc -/
theorem triggerHost_enables (w : World) (h p : Nat) (he : (w.host h).hctxs = []) (hp : p < (w.host h).nprocs)
    (hs : (w.proc h p).state = .overloaded) (ht : (w.proc h p).disabledUntil < w.now) :
    ((triggerHost w h).proc h p).state = .running := by
  unfold triggerHost
  rw [hostTimeouts_idle w h he]
  dsimp only
  split
  · exact checkOverloaded_enables w h p hp hs ht
  · exact restartDeadProcs_enables w h true p hp hs ht


/-! ### small facts used by the property theorems -/

theorem sumTo_nonneg (n : Nat) (f : Nat → Int) (h : ∀ i, i < n → 0 ≤ f i) : 0 ≤ sumTo n f := by
  induction n with
  | zero => simp [sumTo]
  | succ n ih =>
    simp only [sumTo]
    have := ih (fun i hi => h i (by omega))
    have := h n (by omega)
    omega

theorem sumTo_eq_zero (n : Nat) (f : Nat → Int) (h : ∀ i, i < n → f i = 0) : sumTo n f = 0 := by
  rw [sumTo_congr n f (fun _ => 0) h, sumTo_zero]

theorem sumTo_pos_iff (n : Nat) (f : Nat → Int) (h : ∀ i, i < n → f i = 0 ∨ f i = 1) :
    sumTo n f ≠ 0 ↔ ∃ i, i < n ∧ f i = 1 := by
  induction n with
  | zero => simp [sumTo]
  | succ n ih =>
    simp only [sumTo]
    have ih' := ih (fun i hi => h i (by omega))
    have hn := sumTo_nonneg n f (fun i hi => by rcases h i (by omega) with e | e <;> omega)
    constructor
    · intro hne
      rcases h n (by omega) with e | e
      · have : sumTo n f ≠ 0 := by omega
        obtain ⟨i, hi, hf⟩ := ih'.mp this
        exact ⟨i, by omega, hf⟩
      · exact ⟨n, by omega, e⟩
    · rintro ⟨i, hi, hf⟩
      by_cases e : i = n
      · subst e; omega
      · have : sumTo n f ≠ 0 := ih'.mpr ⟨i, by omega, hf⟩
        rcases h n (by omega) with e2 | e2 <;> omega

theorem hostC_nonneg (h : Nat) (c : Option Ctx) : 0 ≤ hostC h c := by
  unfold hostC; split
  · split <;> omega
  · omega
theorem procC_nonneg (h p : Nat) (c : Option Ctx) : 0 ≤ procC h p c := by
  unfold procC; split
  · split <;> omega
  · omega
theorem anyProcC_nonneg (c : Option Ctx) : 0 ≤ anyProcC c := by
  unfold anyProcC; split
  · split <;> omega
  · omega
theorem fdC_nonneg (c : Option Ctx) : 0 ≤ fdC c := by
  unfold fdC; split
  · split <;> omega
  · omega

/-- with active_procs exact, "active_procs ≠ 0" means "some proc is RUNNING" -/
theorem avail_pos_iff {w : World} (hA : Avail w) (h : Nat) :
    (w.host h).active ≠ 0 ↔ ∃ p, p < (w.host h).nprocs ∧ (w.proc h p).state = .running := by
  rw [hA h]
  unfold runningCnt
  rw [sumTo_pos_iff _ _ (by intro i _; split <;> simp)]
  constructor
  · rintro ⟨i, hi, hf⟩
    refine ⟨i, hi, ?_⟩
    by_cases e : (w.proc h i).state = .running
    · exact e
    · simp [e] at hf
  · rintro ⟨i, hi, hf⟩
    exact ⟨i, hi, by simp [hf]⟩

theorem pickProc_fold_some (w : World) (h : Nat) (l : List Nat) (acc : Option Nat) (ha : acc.isSome) :
    (l.foldl (pickStep w h) acc).isSome := by
  induction l generalizing acc with
  | nil => exact ha
  | cons q l ih =>
    simp only [List.foldl_cons]
    apply ih
    unfold pickStep
    split
    · exact ha
    · split
      · simp
      · split <;> simp

theorem pickProc_fold_complete (w : World) (h : Nat) (l : List Nat) (acc : Option Nat) (p : Nat)
    (hp : p ∈ l) (hr : (w.proc h p).state = .running) : (l.foldl (pickStep w h) acc).isSome := by
  induction l generalizing acc with
  | nil => simp at hp
  | cons q l ih =>
    simp only [List.foldl_cons]
    rcases List.mem_cons.mp hp with rfl | hp
    · apply pickProc_fold_some
      unfold pickStep
      rw [if_neg (by simp [hr])]
      split
      · simp
      · split <;> simp
    · exact ih _ hp

/-- a host with an active proc always yields a proc in GW_STATE_INIT -/
theorem pickProc_complete {w : World} (hA : Avail w) (h : Nat) (hact : (w.host h).active ≠ 0) :
    ∃ p, pickProc w h = some p := by
  obtain ⟨p, hp, hr⟩ := (avail_pos_iff hA h).mp hact
  have := pickProc_fold_complete w h (List.range (w.host h).nprocs) none p (by simpa using hp) hr
  unfold pickProc
  cases hq : (List.range (w.host h).nprocs).foldl (pickStep w h) none with
  | none => simp [hq] at this
  | some q => exact ⟨q, rfl⟩

theorem step_pendClose (w : World) (op : Op) : (step w op).pendClose = 0 := by
  unfold step schedRun; rfl

theorem run_pendClose (w : World) (ops : List Op) (h0 : w.pendClose = 0) : (run w ops).pendClose = 0 := by
  unfold run
  exact foldl_inv (fun w : World => w.pendClose = 0) _ _ _ h0 (fun _ _ _ => step_pendClose _ _)

/-- the driver's re-tabulation is the identity -/
theorem tab_eq {α : Type} (n : Nat) (f : Nat → α) : tab (Array.ofFn (n := n) fun i => f i.val) f = f := by
  funext i
  unfold tab
  split
  · simp
  · rfl

theorem compact_eq (w : World) : compact w = w := by
  unfold compact
  dsimp only
  rw [tab_eq, tab_eq]
  have : tab2 (Array.ofFn (n := w.nhosts) fun h => Array.ofFn
      (n := (List.range w.nhosts).foldl (fun m h => max m (w.host h).nprocs) 0) fun p => w.proc h.val p.val) w.proc
      = w.proc := by
    funext i j
    unfold tab2
    split
    · split
      · simp
      · rfl
    · rfl
  rw [this]


/-! ### the retry budget -/

theorem backendError_rc (w : World) (s : Nat) : (backendError w s).1 = .finished := rfl

theorem writeErrorTail_rc (w : World) (s : Nat) : (writeErrorTail w s).1 = .finished := rfl

theorem reconnect_rc (w : World) (s : Nat) :
    (reconnect w s).1 = .comeback ∨ (reconnect w s).1 = .finished := by
  unfold reconnect; dsimp only
  split
  · exact Or.inr rfl
  · exact Or.inl rfl

theorem hostGet_fst (w : World) (s : Nat) : (hostGet w s).1 = (hostPick w (w.auxOf s).key).1 := by
  unfold hostGet; dsimp only
  split <;> simp_all

theorem backendClose_hosts (w : World) (s : Nat) (h : Nat) :
    ((backendClose w s).host h).active = (w.host h).active ∧
    ((backendClose w s).host h).nprocs = (w.host h).nprocs := by
  have S := reach_static (reach_backendClose w s)
  refine ⟨?_, S.nprocs h⟩
  -- active_procs is only moved by gw_proc_set_state
  unfold backendClose
  split
  · rfl
  · rename_i c _
    dsimp only
    cases c.link.fd <;> cases c.link.host <;> cases c.link.proc <;>
      simp [setHostLoad, setProcLoad, World.updHost, World.updLink, World.updAux, World.updSlot, World.updProc] <;>
      (try split) <;> (try simp_all)

/-- a retry goes to a host gw_host_get() chose — hence (c11_only_available) one with an active proc —
    and restarts the request in GW_STATE_INIT on it -/
theorem reconnect_comeback (w : World) (s : Nat) (hc : (reconnect w s).1 = .comeback) :
    ∃ h, (hostPick (backendClose w s) ((backendClose w s).auxOf s).key).1 = some h ∧
      h < w.nhosts ∧ (w.host h).active ≠ 0 ∧
      (∀ l, lk (reconnect w s).2 s = some l → l.host = some h ∧ l.state = .init) := by
  unfold reconnect at hc ⊢
  dsimp only at hc ⊢
  cases hg : (hostGet (backendClose w s) s).1 with
  | none => simp [hg] at hc
  | some h =>
    simp only [hg]
    rw [hostGet_fst] at hg
    obtain ⟨a1, a2⟩ := hostPick_available _ _ _ hg
    have S := reach_static (reach_backendClose w s)
    refine ⟨h, hg, by rw [← S.nhosts]; exact a1, by rw [← (backendClose_hosts w s h).1]; exact a2, ?_⟩
    intro l hl
    rw [lk_updLink, if_pos rfl, lk_hostAssign] at hl
    cases hl' : lk (hostGet (backendClose w s) s).2 s with
    | none => simp [hl'] at hl
    | some l0 => simp [hl'] at hl; rw [← hl]; simp

theorem restartDeadProc_slot (w : World) (h : Nat) (tr : Bool) (p : Nat) :
    (restartDeadProc w h tr p).slot = w.slot := by
  unfold restartDeadProc
  split
  · rfl
  · unfold checkEnable
    split
    · rfl
    · split
      · rfl
      · exact (setPState_other w h p .running).2.2.2.2.2.2
  · split <;> rfl
  · rfl
  · rfl

theorem restartIfLocal_slot (w : World) (s : Nat) : (restartIfLocal w s).slot = w.slot := by
  unfold restartIfLocal
  split
  · split
    · unfold restartDeadProcs
      exact foldl_inv (fun w' : World => w'.slot = w.slot) _ _ _ rfl
        (fun b a hb => (restartDeadProc_slot b _ false a).trans hb)
    · rfl
  · rfl

theorem restartIfLocal_auxOf (w : World) (s : Nat) : (restartIfLocal w s).auxOf s = w.auxOf s := by
  unfold World.auxOf; rw [restartIfLocal_slot]

/-- gw_write_error() before the request was sent: at most 5 reconnects, then give up -/
theorem writeError_budget (w : World) (s : Nat)
    (hst : (w.linkOf s).state = .init ∨ (w.linkOf s).state = .connectDelayed) :
    (5 ≤ (w.auxOf s).reconnects → (writeError w s).1 = .finished) ∧
    ((w.auxOf s).reconnects < 5 →
      (writeError w s).1 = .finished ∨
      ((writeError w s).1 = .comeback ∧
        (writeError w s) = reconnect ((restartIfLocal w s).updAux s
          fun a => { a with reconnects := a.reconnects + 1 }) s)) := by
  unfold writeError
  rw [if_pos hst]
  dsimp only
  rw [restartIfLocal_auxOf]
  refine ⟨fun h5 => ?_, fun h5 => ?_⟩
  · rw [if_neg (by omega)]; rfl
  · rw [if_pos h5]
    rcases reconnect_rc ((restartIfLocal w s).updAux s fun a => { a with reconnects := a.reconnects + 1 }) s with h | h
    · exact Or.inr ⟨h, rfl⟩
    · exact Or.inl h

/-- gw_recv_response_error(): retried only if nothing was sent and no response begun, ≤ 5 times -/
theorem recvResponseError_budget (w : World) (s : Nat) :
    (((w.auxOf s).started = true ∨ (w.auxOf s).bytesOut ≠ 0 ∨ 5 ≤ (w.auxOf s).reconnects) →
      (recvResponseError w s).1 = .finished) ∧
    ((recvResponseError w s).1 = .comeback →
      (w.auxOf s).started = false ∧ (w.auxOf s).bytesOut = 0 ∧ (w.auxOf s).reconnects < 5) := by
  unfold recvResponseError
  dsimp only
  by_cases h1 : (!(w.auxOf s).started && (w.auxOf s).bytesOut == 0) = true
  · rw [if_pos h1]
    have h1' : (w.auxOf s).started = false ∧ (w.auxOf s).bytesOut = 0 := by simpa using h1
    by_cases h2 : (w.auxOf s).reconnects < 5
    · rw [if_pos h2]
      refine ⟨?_, fun _ => ⟨h1'.1, h1'.2, h2⟩⟩
      rintro (h | h | h)
      · simp [h1'.1] at h
      · exact absurd h1'.2 h
      · omega
    · rw [if_neg h2]
      exact ⟨fun _ => rfl, fun h => by simp [backendError] at h⟩
  · rw [if_neg h1]
    exact ⟨fun _ => rfl, fun h => by simp [backendError] at h⟩

end LtVerif.Gw
