/-
  C11 helper lemmas, part 2: every function of Model/Gw.lean moves the world only by a
  small set of primitive steps (`Prim`); availability bookkeeping, the disable window,
  monotone time and the static configuration are invariants of those steps.
-/
import LtVerif.Proofs.Gw
set_option linter.unusedSimpArgs false
set_option linter.unusedVariables false
namespace LtVerif.Gw

/-- what an update of a host record may not touch -/
def HostKeep (f : Host → Host) : Prop :=
  ∀ H, (f H).nprocs = H.nprocs ∧ (f H).active = H.active ∧ (f H).disableTime = H.disableTime ∧
    (f H).ctimeout = H.ctimeout ∧ (f H).rtimeout = H.rtimeout ∧ (f H).wtimeout = H.wtimeout ∧
    (f H).unix = H.unix ∧ (f H).gwHash = H.gwHash

/-- what an update of a proc record may not touch -/
def ProcKeep (f : Proc → Proc) : Prop :=
  ∀ P, (f P).state = P.state ∧ (f P).disabledUntil = P.disabledUntil ∧ (f P).isLocal = P.isLocal ∧
    (f P).pid = P.pid

def isDispatch : Ev → Bool
  | .dispatch _ _ _ => true
  | _ => false

/-- the primitive moves -/
inductive Prim : World → World → Prop
  | misc (w : World) (sl : Nat → Option Ctx) (lu : Int) (ns : Bool) (ga cf : Int) (pc op cl : Nat)
      (sc : Script) (jb : List Nat) :
      Prim w { w with slot := sl, lastUsed := lu, noteSent := ns, globalActive := ga, curFds := cf,
                      pendClose := pc, opened := op, closed := cl, script := sc, jobs := jb }
  | host (w : World) (h : Nat) (f : Host → Host) (hf : HostKeep f) : Prim w (w.updHost h f)
  | proc (w : World) (h p : Nat) (f : Proc → Proc) (hf : ProcKeep f) : Prim w (w.updProc h p f)
  | disable (w : World) (h p : Nat) (hp : p < (w.host h).nprocs) :
      Prim w (setPState (w.updProc h p fun P => { P with disabledUntil := w.now + (w.host h).disableTime })
                h p .overloaded)
  | enable (w : World) (h p : Nat) (hp : p < (w.host h).nprocs) (hs : (w.proc h p).state = .overloaded)
      (ht : (w.proc h p).disabledUntil < w.now) : Prim w (setPState w h p .running)
  | killedTick (w : World) (h p : Nat) (hs : (w.proc h p).state = .killed) :
      Prim w (w.updProc h p fun P => { P with disabledUntil := P.disabledUntil + 1 })
  | emit (w : World) (e : Ev) (he : isDispatch e = false) : Prim w (w.emit e)
  | dispatch (w : World) (s h p : Nat) (hp : p < (w.host h).nprocs) (hs : (w.proc h p).state = .running) :
      Prim w (w.emit (.dispatch s h p))
  | tick (w : World) (dt : Nat) : Prim w { w with now := w.now + dt }

/-- finite sequences of primitive moves -/
inductive Reach : World → World → Prop
  | refl (w : World) : Reach w w
  | step {w w' w'' : World} : Reach w w' → Prim w' w'' → Reach w w''

theorem Reach.trans {a b c : World} (h1 : Reach a b) (h2 : Reach b c) : Reach a c := by
  induction h2 with
  | refl => exact h1
  | step _ p ih => exact Reach.step ih p

theorem Reach.one {a b : World} (p : Prim a b) : Reach a b := Reach.step (Reach.refl a) p

/-- an invariant of the primitive moves is an invariant of `Reach` -/
theorem Reach.inv {P : World → Prop} (hP : ∀ a b, Prim a b → P a → P b) {a b : World} (h : Reach a b) :
    P a → P b := by
  induction h with
  | refl => exact id
  | step _ p ih => exact fun ha => hP _ _ p (ih ha)

/-! ### record updates as primitive moves -/

theorem reach_eq {w w' : World} (h : w' = w) : Reach w w' := h ▸ Reach.refl w

theorem prim_slot (w : World) (sl : Nat → Option Ctx) : Prim w { w with slot := sl } :=
  Prim.misc w sl w.lastUsed w.noteSent w.globalActive w.curFds w.pendClose w.opened w.closed w.script w.jobs

theorem reach_updSlot (w : World) (s : Nat) (f : Ctx → Ctx) : Reach w (w.updSlot s f) :=
  Reach.one (prim_slot w _)
theorem reach_updLink (w : World) (s : Nat) (f : Link → Link) : Reach w (w.updLink s f) := reach_updSlot _ _ _
theorem reach_updAux (w : World) (s : Nat) (f : Aux → Aux) : Reach w (w.updAux s f) := reach_updSlot _ _ _
theorem reach_script (w : World) (sc : Script) : Reach w { w with script := sc } :=
  Reach.one (Prim.misc w w.slot w.lastUsed w.noteSent w.globalActive w.curFds w.pendClose w.opened w.closed sc w.jobs)
theorem reach_jobs (w : World) (j : List Nat) : Reach w { w with jobs := j } :=
  Reach.one (Prim.misc w w.slot w.lastUsed w.noteSent w.globalActive w.curFds w.pendClose w.opened w.closed w.script j)
theorem reach_lastUsed (w : World) (n : Int) : Reach w { w with lastUsed := n } :=
  Reach.one (Prim.misc w w.slot n w.noteSent w.globalActive w.curFds w.pendClose w.opened w.closed w.script w.jobs)
theorem reach_noteSent (w : World) (b : Bool) : Reach w { w with noteSent := b } :=
  Reach.one (Prim.misc w w.slot w.lastUsed b w.globalActive w.curFds w.pendClose w.opened w.closed w.script w.jobs)
theorem reach_emit (w : World) (e : Ev) (he : isDispatch e = false) : Reach w (w.emit e) :=
  Reach.one (Prim.emit w e he)

/-! ### static configuration along `Reach` -/

structure Static (a b : World) : Prop where
  nhosts : b.nhosts = a.nhosts
  nslots : b.nslots = a.nslots
  balance : b.balance = a.balance
  wkr : b.wkr = a.wkr
  nprocs : ∀ h, (b.host h).nprocs = (a.host h).nprocs
  disableTime : ∀ h, (b.host h).disableTime = (a.host h).disableTime
  timeouts : ∀ h, (b.host h).ctimeout = (a.host h).ctimeout ∧ (b.host h).rtimeout = (a.host h).rtimeout ∧
    (b.host h).wtimeout = (a.host h).wtimeout
  isLocal : ∀ h p, (b.proc h p).isLocal = (a.proc h p).isLocal ∧ (b.proc h p).pid = (a.proc h p).pid
  now : a.now ≤ b.now

theorem setPState_host (w : World) (h p : Nat) (st : PState) (h' : Nat) :
    ((setPState w h p st).host h').nprocs = (w.host h').nprocs ∧
    ((setPState w h p st).host h').disableTime = (w.host h').disableTime ∧
    ((setPState w h p st).host h').ctimeout = (w.host h').ctimeout ∧
    ((setPState w h p st).host h').rtimeout = (w.host h').rtimeout ∧
    ((setPState w h p st).host h').wtimeout = (w.host h').wtimeout := by
  unfold setPState
  split
  · simp
  · dsimp only
    split
    · simp only [World.updProc, World.updHost]; by_cases e : h' = h <;> simp [e]
    · split
      · simp only [World.updProc, World.updHost]; by_cases e : h' = h <;> simp [e]
      · simp [World.updProc]

theorem setPState_proc (w : World) (h p : Nat) (st : PState) (h' p' : Nat) :
    ((setPState w h p st).proc h' p').isLocal = (w.proc h' p').isLocal ∧
    ((setPState w h p st).proc h' p').pid = (w.proc h' p').pid ∧
    ((setPState w h p st).proc h' p').disabledUntil = (w.proc h' p').disabledUntil ∧
    ((setPState w h p st).proc h' p').load = (w.proc h' p').load ∧
    ((setPState w h p st).proc h' p').state = (if h' = h ∧ p' = p then st else (w.proc h' p').state) := by
  unfold setPState
  split
  · rename_i e
    by_cases e2 : h' = h ∧ p' = p
    · obtain ⟨rfl, rfl⟩ := e2; simp [e]
    · simp [e2]
  · dsimp only
    split
    · simp only [World.updProc, World.updHost]; by_cases e : h' = h ∧ p' = p <;> simp [e]
    · split
      · simp only [World.updProc, World.updHost]; by_cases e : h' = h ∧ p' = p <;> simp [e]
      · simp only [World.updProc]; by_cases e : h' = h ∧ p' = p <;> simp [e]

theorem setPState_other (w : World) (h p : Nat) (st : PState) :
    (setPState w h p st).nhosts = w.nhosts ∧ (setPState w h p st).nslots = w.nslots ∧
    (setPState w h p st).balance = w.balance ∧ (setPState w h p st).wkr = w.wkr ∧
    (setPState w h p st).now = w.now ∧ (setPState w h p st).log = w.log ∧
    (setPState w h p st).slot = w.slot := by
  unfold setPState
  split
  · simp
  · dsimp only
    split
    · simp [World.updProc, World.updHost]
    · split <;> simp [World.updProc, World.updHost]

theorem static_prim {a b : World} (p : Prim a b) : Static a b := by
  cases p with
  | misc => exact ⟨rfl, rfl, rfl, rfl, fun _ => rfl, fun _ => rfl, fun _ => ⟨rfl, rfl, rfl⟩, fun _ _ => ⟨rfl, rfl⟩, Int.le_refl _⟩
  | host h f hf =>
    refine ⟨rfl, rfl, rfl, rfl, ?_, ?_, ?_, fun _ _ => ⟨rfl, rfl⟩, Int.le_refl _⟩
    all_goals (intro h'; simp only [World.updHost]; by_cases e : h' = h <;> simp [e, (hf _).1, (hf _).2.2.1, (hf _).2.2.2.1, (hf _).2.2.2.2.1, (hf _).2.2.2.2.2.1])
  | proc h p f hf =>
    refine ⟨rfl, rfl, rfl, rfl, fun _ => rfl, fun _ => rfl, fun _ => ⟨rfl, rfl, rfl⟩, ?_, Int.le_refl _⟩
    intro h' p'; simp only [World.updProc]; by_cases e : h' = h ∧ p' = p <;> simp [e, (hf _).2.2.1, (hf _).2.2.2]
  | disable h p hp =>
    have H := setPState_host (a.updProc h p fun P => { P with disabledUntil := a.now + (a.host h).disableTime }) h p .overloaded
    have P := setPState_proc (a.updProc h p fun P => { P with disabledUntil := a.now + (a.host h).disableTime }) h p .overloaded
    have O := setPState_other (a.updProc h p fun P => { P with disabledUntil := a.now + (a.host h).disableTime }) h p .overloaded
    refine ⟨O.1, O.2.1, O.2.2.1, O.2.2.2.1, fun h' => (H h').1, fun h' => (H h').2.1,
      fun h' => ⟨(H h').2.2.1, (H h').2.2.2.1, (H h').2.2.2.2⟩, ?_, by rw [O.2.2.2.2.1]; exact Int.le_refl _⟩
    intro h' p'
    rw [(P h' p').1, (P h' p').2.1]
    simp only [World.updProc]; by_cases e : h' = h ∧ p' = p <;> simp [e]
  | enable h p hp hs ht =>
    have H := setPState_host a h p .running
    have P := setPState_proc a h p .running
    have O := setPState_other a h p .running
    exact ⟨O.1, O.2.1, O.2.2.1, O.2.2.2.1, fun h' => (H h').1, fun h' => (H h').2.1,
      fun h' => ⟨(H h').2.2.1, (H h').2.2.2.1, (H h').2.2.2.2⟩, fun h' p' => ⟨(P h' p').1, (P h' p').2.1⟩,
      by rw [O.2.2.2.2.1]; exact Int.le_refl _⟩
  | killedTick h p hs =>
    refine ⟨rfl, rfl, rfl, rfl, fun _ => rfl, fun _ => rfl, fun _ => ⟨rfl, rfl, rfl⟩, ?_, Int.le_refl _⟩
    intro h' p'; simp only [World.updProc]; by_cases e : h' = h ∧ p' = p <;> simp [e]
  | emit => exact ⟨rfl, rfl, rfl, rfl, fun _ => rfl, fun _ => rfl, fun _ => ⟨rfl, rfl, rfl⟩, fun _ _ => ⟨rfl, rfl⟩, Int.le_refl _⟩
  | dispatch => exact ⟨rfl, rfl, rfl, rfl, fun _ => rfl, fun _ => rfl, fun _ => ⟨rfl, rfl, rfl⟩, fun _ _ => ⟨rfl, rfl⟩, Int.le_refl _⟩
  | tick dt =>
    refine ⟨rfl, rfl, rfl, rfl, fun _ => rfl, fun _ => rfl, fun _ => ⟨rfl, rfl, rfl⟩, fun _ _ => ⟨rfl, rfl⟩, ?_⟩
    show a.now ≤ a.now + dt
    omega

theorem Static.refl (a : World) : Static a a :=
  ⟨rfl, rfl, rfl, rfl, fun _ => rfl, fun _ => rfl, fun _ => ⟨rfl, rfl, rfl⟩, fun _ _ => ⟨rfl, rfl⟩, Int.le_refl _⟩

theorem Static.trans {a b c : World} (h1 : Static a b) (h2 : Static b c) : Static a c :=
  ⟨h2.1.trans h1.1, h2.2.trans h1.2, h2.3.trans h1.3, h2.4.trans h1.4,
   fun h => (h2.5 h).trans (h1.5 h), fun h => (h2.6 h).trans (h1.6 h),
   fun h => ⟨(h2.7 h).1.trans (h1.7 h).1, (h2.7 h).2.1.trans (h1.7 h).2.1, (h2.7 h).2.2.trans (h1.7 h).2.2⟩,
   fun h p => ⟨(h2.8 h p).1.trans (h1.8 h p).1, (h2.8 h p).2.trans (h1.8 h p).2⟩,
   Int.le_trans h1.9 h2.9⟩

theorem reach_static {a b : World} (h : Reach a b) : Static a b := by
  induction h with
  | refl => exact Static.refl _
  | step _ p ih => exact ih.trans (static_prim p)

/-! ### every model function is a sequence of primitive moves -/

/-- peel the outermost update off a goal `Reach w (upd … v …)` -/
syntax "reach_peel" : tactic
macro_rules | `(tactic| reach_peel) => `(tactic| first
  | exact Reach.refl _
  | assumption
  | (refine Reach.trans ?_ (reach_updAux _ _ _))
  | (refine Reach.trans ?_ (reach_updLink _ _ _))
  | (refine Reach.trans ?_ (reach_script _ _))
  | (refine Reach.trans ?_ (reach_jobs _ _))
  | (refine Reach.trans ?_ (reach_lastUsed _ _))
  | (refine Reach.trans ?_ (reach_noteSent _ _))
  | (refine Reach.trans ?_ (reach_emit _ _ rfl)))
macro "reach_close" : tactic => `(tactic| repeat reach_peel)

theorem reach_popConn (w : World) : Reach w (popConn w).2 := by
  obtain ⟨sc, e⟩ := popConn_eq w; rw [e]; exact reach_script _ _
theorem reach_popSock (w : World) : Reach w (popSock w).2 := by
  obtain ⟨sc, e⟩ := popSock_eq w; rw [e]; exact reach_script _ _
theorem reach_popStat (w : World) : Reach w (popStat w).2 := by
  obtain ⟨sc, e⟩ := popStat_eq w; rw [e]; exact reach_script _ _
theorem reach_popWr (w : World) : Reach w (popWr w).2 := by
  obtain ⟨sc, e⟩ := popWr_eq w; rw [e]; exact reach_script _ _
theorem reach_popRd (w : World) : Reach w (popRd w).2 := by
  obtain ⟨sc, e⟩ := popRd_eq w; rw [e]; exact reach_script _ _
theorem reach_popEnv (w : World) : Reach w (popEnv w).2 := by
  obtain ⟨sc, e⟩ := popEnv_eq w; rw [e]; exact reach_script _ _

theorem reach_connectError (w : World) (h p pid : Nat) (hp : p < (w.host h).nprocs) :
    Reach w (connectError w h p pid) := by
  unfold connectError
  split
  · exact Reach.one (Prim.disable w h p hp)
  · exact Reach.refl _

theorem reach_checkEnable (w : World) (h p : Nat) (hp : p < (w.host h).nprocs) :
    Reach w (checkEnable w h p) := by
  unfold checkEnable
  split
  · exact Reach.refl _
  · split
    · exact Reach.refl _
    · rename_i h1 h2
      exact Reach.one (Prim.enable w h p hp (by simpa using h2) (by omega))

theorem reach_restartDeadProc (w : World) (h : Nat) (tr : Bool) (p : Nat) (hp : p < (w.host h).nprocs) :
    Reach w (restartDeadProc w h tr p) := by
  unfold restartDeadProc
  split
  · exact Reach.refl _
  · exact reach_checkEnable w h p hp
  · rename_i hk
    split
    · exact Reach.one (Prim.killedTick w h p hk)
    · exact Reach.refl _
  · exact Reach.refl _
  · exact Reach.refl _

/-- folding a move that needs `p < nprocs` over a list of in-range procs -/
theorem reach_foldl_procs (h : Nat) (f : World → Nat → World) (l : List Nat) (w0 w : World)
    (hw : Reach w0 w) (hl : ∀ p, p ∈ l → p < (w0.host h).nprocs)
    (hf : ∀ w p, p < (w.host h).nprocs → Reach w (f w p)) : Reach w0 (l.foldl f w) := by
  induction l generalizing w with
  | nil => exact hw
  | cons p l ih =>
    simp only [List.foldl_cons]
    refine ih _ (hw.trans (hf w p ?_)) (fun q hq => hl q (List.mem_cons_of_mem _ hq))
    rw [(reach_static hw).nprocs]; exact hl p List.mem_cons_self

theorem reach_restartDeadProcs (w : World) (h : Nat) (tr : Bool) : Reach w (restartDeadProcs w h tr) := by
  unfold restartDeadProcs
  exact reach_foldl_procs h _ _ w w (Reach.refl _) (fun p hp => by simpa using hp)
    (fun w p hp => reach_restartDeadProc w h tr p hp)

theorem reach_checkOverloaded (w : World) (h : Nat) : Reach w (checkOverloaded w h) := by
  unfold checkOverloaded
  refine reach_foldl_procs h _ _ w w (Reach.refl _) (fun p hp => by simpa using hp) (fun w p hp => ?_)
  split
  · exact reach_checkEnable w h p hp
  · exact Reach.refl _

theorem reach_hostGet (w : World) (s : Nat) : Reach w (hostGet w s).2 := by
  rcases hostGet_snd w s with h | h <;> rw [h]
  · exact reach_lastUsed _ _
  · reach_close

theorem reach_hostLoad (w : World) (h : Nat) (f : Int → Int) :
    Reach w (w.updHost h fun H => { H with load := f H.load, statLoad := f H.load }) :=
  Reach.one (Prim.host w h _ (fun _ => ⟨rfl, rfl, rfl, rfl, rfl, rfl, rfl, rfl⟩))

theorem reach_procLoad (w : World) (h p : Nat) (f : Int → Int) :
    Reach w (w.updProc h p fun P => { P with load := f P.load, statLoad := f P.load }) :=
  Reach.one (Prim.proc w h p _ (fun _ => ⟨rfl, rfl, rfl, rfl⟩))

theorem reach_hctxs (w : World) (h : Nat) (f : List Nat → List Nat) :
    Reach w (w.updHost h fun H => { H with hctxs := f H.hctxs }) :=
  Reach.one (Prim.host w h _ (fun _ => ⟨rfl, rfl, rfl, rfl, rfl, rfl, rfl, rfl⟩))

theorem reach_counters (w : World) (ga cf : Int) (pc op cl : Nat) :
    Reach w { w with globalActive := ga, curFds := cf, pendClose := pc, opened := op, closed := cl } :=
  Reach.one (Prim.misc w w.slot w.lastUsed w.noteSent ga cf pc op cl w.script w.jobs)

theorem reach_hostAssign (w : World) (s h : Nat) : Reach w (hostAssign w s h) := by
  unfold hostAssign
  split
  · exact Reach.refl _
  · exact (reach_updLink _ _ _).trans (reach_hostLoad _ h (· + 1))

theorem reach_procAcquire (w : World) (s h p : Nat) : Reach w (procAcquire w s h p) := by
  unfold procAcquire
  split
  · exact Reach.refl _
  · dsimp only
    exact ((reach_updLink _ _ _).trans (reach_procLoad _ h p (· + 1))).trans
      (reach_counters _ _ _ _ _ _)

theorem reach_openFd (w : World) (s : Nat) : Reach w (openFd w s) := by
  unfold openFd
  split
  · exact Reach.refl _
  · exact (reach_counters w w.globalActive (w.curFds + 1) w.pendClose (w.opened + 1) w.closed).trans
      (reach_updLink _ _ _)

theorem reach_backendClose (w : World) (s : Nat) : Reach w (backendClose w s) := by
  unfold backendClose
  split
  · exact Reach.refl _
  · rename_i c _
    dsimp only
    have R1 : Reach w (if c.link.fd = true then
        ((match c.link.host with
          | some h => ({ w with pendClose := w.pendClose + 1 } : World).updHost h fun H => { H with hctxs := H.hctxs.erase s }
          | none => { w with pendClose := w.pendClose + 1 }).updLink s fun l => { l with fd := false }).updAux s fun a =>
          { a with evIn := false, evOut := false, evRdhup := false }
        else w) := by
      split
      · refine Reach.trans ?_ (reach_updAux _ _ _)
        refine Reach.trans ?_ (reach_updLink _ _ _)
        have R0 := reach_counters w w.globalActive w.curFds (w.pendClose + 1) w.opened w.closed
        split
        · exact R0.trans (reach_hctxs _ _ (·.erase s))
        · exact R0
      · exact Reach.refl _
    generalize (if c.link.fd = true then
        ((match c.link.host with
          | some h => ({ w with pendClose := w.pendClose + 1 } : World).updHost h fun H => { H with hctxs := H.hctxs.erase s }
          | none => { w with pendClose := w.pendClose + 1 }).updLink s fun l => { l with fd := false }).updAux s fun a =>
          { a with evIn := false, evOut := false, evRdhup := false }
        else w) = W at R1 ⊢
    split
    · exact R1
    · rename_i h _
      refine Reach.trans ?_ (reach_updLink _ _ _)
      refine Reach.trans ?_ (reach_hostLoad _ h (· - 1))
      split
      · rename_i p _
        refine Reach.trans ?_ (reach_updLink _ _ _)
        exact (R1.trans (reach_procLoad _ h p (· - 1))).trans (reach_counters _ _ _ _ _ _)
      · exact R1

macro_rules | `(tactic| reach_peel) => `(tactic| first
  | (refine Reach.trans ?_ (reach_backendClose _ _))
  | (refine Reach.trans ?_ (reach_hostGet _ _))
  | (refine Reach.trans ?_ (reach_hostAssign _ _ _)))

theorem reach_backendDone (w : World) (s : Nat) : Reach w (backendDone w s) := by
  unfold backendDone; split <;> exact reach_updAux _ _ _

theorem reach_connectionClose (w : World) (s : Nat) : Reach w (connectionClose w s) := by
  unfold connectionClose; dsimp only
  split
  · refine Reach.trans ?_ (reach_backendDone _ _); reach_close
  · reach_close

theorem reach_backendError (w : World) (s : Nat) : Reach w (backendError w s).2 := by
  unfold backendError; dsimp only
  refine Reach.trans ?_ (reach_connectionClose _ _)
  split <;> reach_close

theorem reach_reconnect (w : World) (s : Nat) : Reach w (reconnect w s).2 := by
  unfold reconnect; dsimp only
  split <;> (try dsimp only) <;> reach_close

theorem reach_recvResponseError (w : World) (s : Nat) : Reach w (recvResponseError w s).2 := by
  unfold recvResponseError; dsimp only
  split
  · split
    · exact (reach_updAux _ _ _).trans (reach_reconnect _ _)
    · exact (reach_updAux _ _ _).trans (reach_backendError _ _)
  · exact reach_backendError _ _

theorem reach_recvResponse (w : World) (s : Nat) : Reach w (recvResponse w s).2 := by
  have R := reach_popRd w
  unfold recvResponse; dsimp only
  split
  · exact R
  · split
    · dsimp only; exact R.trans (reach_updAux _ _ _)
    · split
      · exact R.trans (reach_recvResponseError _ _)
      · dsimp only; exact R.trans (reach_connectionClose _ _)

theorem reach_drain (n : Nat) (w : World) (s : Nat) : Reach w (drain n w s).2 := by
  induction n generalizing w with
  | zero => exact Reach.refl _
  | succ n ih =>
    unfold drain; dsimp only
    split
    · exact (reach_recvResponse w s).trans (ih _)
    · exact reach_recvResponse w s

theorem reach_wrWrite (w : World) (s : Nat) : Reach w (wrWrite w s).2 := by
  have R := reach_popWr w
  unfold wrWrite; dsimp only
  repeat' split
  all_goals (try dsimp only)
  all_goals reach_close

theorem reach_wrPrepare (w : World) (s : Nat) : Reach w (wrPrepare w s).2 := by
  have R := reach_popEnv w
  unfold wrPrepare; dsimp only
  split
  · dsimp only; reach_close
  · split
    · dsimp only; reach_close
    · refine Reach.trans ?_ (reach_wrWrite _ _); reach_close

theorem reach_wrConnected (w : World) (s : Nat) : Reach w (wrConnected w s).2 := by
  unfold wrConnected
  exact (reach_updLink _ _ _).trans (reach_wrPrepare _ _)

theorem reach_slotConnectError (w : World) (s : Nat) : Reach w (slotConnectError w s) := by
  unfold slotConnectError
  split
  · split
    · rename_i hp; exact reach_connectError _ _ _ _ hp
    · exact Reach.refl _
  · exact Reach.refl _

theorem reach_wrDelayed (w : World) (s : Nat) : Reach w (wrDelayed w s).2 := by
  have R := reach_popStat w
  unfold wrDelayed; dsimp only
  split
  · exact Reach.refl _
  · split
    · exact R.trans (reach_slotConnectError _ _)
    · exact (R.trans (reach_updAux _ _ _)).trans (reach_wrConnected _ _)

theorem reach_wrRegister (w : World) (s h p : Nat) : Reach w (wrRegister w s h p) := by
  unfold wrRegister; dsimp only
  exact ((reach_openFd w s).trans (reach_updAux _ _ _)).trans (reach_hctxs _ h (s :: ·))

theorem reach_wrConnect (w : World) (s h p : Nat) (hp : p < (w.host h).nprocs)
    (hs : (w.proc h p).state = .running) : Reach w (wrConnect w s h p).2 := by
  obtain ⟨sc, e⟩ := popConn_eq w
  unfold wrConnect; dsimp only
  rw [e]
  have R1 : Reach w ({ w with script := sc }.emit (.dispatch s h p)) :=
    (reach_script w sc).trans (Reach.one (Prim.dispatch _ s h p hp hs))
  generalize ({ w with script := sc }.emit (.dispatch s h p)) = W at R1 ⊢
  split
  · exact (R1.trans (reach_updAux _ _ _)).trans (reach_wrConnected _ _)
  · dsimp only; reach_close
  · dsimp only
    refine R1.trans (reach_connectError _ _ _ _ ?_)
    rw [(reach_static R1).nprocs]; exact hp

theorem pickProc_fold (w : World) (h : Nat) (l : List Nat) (acc : Option Nat) (n : Nat)
    (hacc : ∀ q, acc = some q → q < n ∧ (w.proc h q).state = .running) (hl : ∀ q, q ∈ l → q < n) :
    ∀ p, l.foldl (pickStep w h) acc = some p → p < n ∧ (w.proc h p).state = .running := by
  induction l generalizing acc with
  | nil => intro p hp; exact hacc p hp
  | cons q l ih =>
    simp only [List.foldl_cons]
    apply ih
    · intro q' hq'
      unfold pickStep at hq'
      split at hq'
      · exact hacc q' hq'
      · rename_i hr
        have hr' : (w.proc h q).state = .running := by simpa using hr
        split at hq'
        · cases hq'; exact ⟨hl q List.mem_cons_self, hr'⟩
        · split at hq'
          · cases hq'; exact ⟨hl q List.mem_cons_self, hr'⟩
          · exact hacc q' hq'
    · intro q' hq'; exact hl q' (List.mem_cons_of_mem _ hq')

theorem pickProc_running {w : World} {h p : Nat} (hp : pickProc w h = some p) :
    p < (w.host h).nprocs ∧ (w.proc h p).state = .running := by
  unfold pickProc at hp
  exact pickProc_fold w h _ none _ (by simp) (by intro q hq; simpa using hq) p hp

theorem procAcquire_frame (w : World) (s h p : Nat) :
    (∀ h', ((procAcquire w s h p).host h') = w.host h') ∧
    (∀ h' p', ((procAcquire w s h p).proc h' p').state = (w.proc h' p').state) := by
  unfold procAcquire
  cases w.slot s with
  | none => simp
  | some c =>
    refine ⟨fun _ => rfl, fun h' p' => ?_⟩
    simp only [World.updProc, World.updLink, World.updSlot]
    by_cases e : h' = h ∧ p' = p <;> simp [e]

theorem wrRegister_frame (w : World) (s h p : Nat) :
    (∀ h', ((wrRegister w s h p).host h').nprocs = (w.host h').nprocs) ∧
    (wrRegister w s h p).proc = w.proc := by
  have S := reach_static (reach_wrRegister w s h p)
  refine ⟨S.nprocs, ?_⟩
  unfold wrRegister openFd
  cases w.slot s <;> rfl

theorem reach_wrInit (w : World) (s : Nat) : Reach w (wrInit w s).2 := by
  unfold wrInit
  split
  · exact Reach.refl _
  · rename_i h _
    dsimp only
    have R0 := reach_updLink w s fun l => { l with proc := none }
    generalize hW : (w.updLink s fun l => { l with proc := none }) = W at R0 ⊢
    split
    · exact R0
    · rename_i p hp
      obtain ⟨hlt, hrun⟩ := pickProc_running hp
      try dsimp only
      obtain ⟨sc, e⟩ := popSock_eq (procAcquire W s h p)
      rw [e]
      have R1 : Reach w { procAcquire W s h p with script := sc } :=
        (R0.trans (reach_procAcquire _ _ _ _)).trans (reach_script _ _)
      split
      · exact R1
      · refine (R1.trans (reach_wrRegister _ s h p)).trans (reach_wrConnect _ s h p ?_ ?_)
        · rw [(wrRegister_frame _ s h p).1]
          show p < ((procAcquire W s h p).host h).nprocs
          rw [(procAcquire_frame W s h p).1]; exact hlt
        · rw [(wrRegister_frame _ s h p).2]
          show ((procAcquire W s h p).proc h p).state = _
          rw [(procAcquire_frame W s h p).2]; exact hrun

theorem reach_writeRequest (w : World) (s : Nat) : Reach w (writeRequest w s).2 := by
  unfold writeRequest
  split
  · exact reach_wrInit _ _
  · exact reach_wrDelayed _ _
  · exact reach_wrPrepare _ _
  · exact reach_wrWrite _ _
  · exact Reach.refl _

theorem reach_writeErrorTail (w : World) (s : Nat) : Reach w (writeErrorTail w s).2 := by
  unfold writeErrorTail; dsimp only
  refine Reach.trans ?_ (reach_backendError _ _)
  split <;> reach_close

theorem reach_restartIfLocal (w : World) (s : Nat) : Reach w (restartIfLocal w s) := by
  unfold restartIfLocal
  split
  · split
    · exact reach_restartDeadProcs _ _ _
    · exact Reach.refl _
  · exact Reach.refl _

theorem reach_writeError (w : World) (s : Nat) : Reach w (writeError w s).2 := by
  unfold writeError; dsimp only
  split
  · have R := (reach_restartIfLocal w s).trans (reach_updAux _ s fun a => { a with reconnects := a.reconnects + 1 })
    split
    · exact R.trans (reach_reconnect _ _)
    · exact R.trans (reach_writeErrorTail _ _)
  · split
    · exact reach_recvResponse _ _
    · exact (reach_recvResponse _ _).trans (reach_writeErrorTail _ _)

theorem reach_sendRequest (w : World) (s : Nat) : Reach w (sendRequest w s).2 := by
  unfold sendRequest; dsimp only
  split
  · exact reach_writeRequest _ _
  · exact (reach_writeRequest _ _).trans (reach_writeError _ _)

theorem reach_processFdevent (w : World) (s rev : Nat) : Reach w (processFdevent w s rev).2 := by
  unfold processFdevent; dsimp only
  have R1 : Reach w (if rev.testBit 0 then recvResponse w s else (Rc.goOn, w)).2 := by
    split
    · exact reach_recvResponse _ _
    · exact Reach.refl _
  generalize (if rev.testBit 0 then recvResponse w s else (Rc.goOn, w)) = r at R1 ⊢
  split
  · exact R1
  · split
    · exact R1.trans (reach_sendRequest _ _)
    · split
      · split
        · exact R1.trans (reach_sendRequest _ _)
        · split
          · exact R1.trans (reach_drain _ _ _)
          · exact R1.trans (reach_connectionClose _ _)
      · split
        · exact R1.trans (reach_backendError _ _)
        · exact R1

theorem reach_subEvents (w : World) (s : Nat) : Reach w (subEvents w s).2 := by
  unfold subEvents; dsimp only
  split
  · exact (reach_updAux _ _ _).trans (reach_processFdevent _ _ _)
  · exact Reach.refl _

theorem reach_subrequest (w : World) (s : Nat) : Reach w (subrequest w s).2 := by
  unfold subrequest; dsimp only
  have R1 := reach_subEvents w s
  split
  · exact Reach.refl _
  · split
    · exact R1
    · split
      · split
        · exact R1.trans (reach_sendRequest _ _)
        · exact R1.trans (reach_sendRequest _ _)
      · exact R1

theorem reach_finish (w : World) (s : Nat) (ab : Bool) : Reach w (finish w s ab) := by
  unfold finish
  split
  · exact Reach.refl _
  · dsimp only
    refine Reach.trans ?_ (Reach.one (prim_slot _ _))
    refine Reach.trans ?_ (reach_backendClose _ _)
    split
    · exact Reach.refl _
    · exact reach_emit _ _ rfl

theorem reach_runCon (n : Nat) (w : World) (s : Nat) : Reach w (runCon n w s) := by
  induction n generalizing w with
  | zero => exact (reach_emit _ _ rfl).trans (reach_finish _ _ _)
  | succ n ih =>
    unfold runCon
    split
    · exact Reach.refl _
    · dsimp only
      have R1 := reach_subrequest w s
      split
      · exact reach_finish _ _ _
      · split
        · split
          · exact R1.trans (reach_finish _ _ _)
          · exact R1.trans (reach_emit _ _ rfl)
        · exact R1.trans (reach_finish _ _ _)
        · exact R1.trans (reach_finish _ _ _)
        · exact R1.trans (ih _)
        · exact (R1.trans (reach_emit _ _ rfl)).trans (reach_finish _ _ _)

theorem reach_foldl {α : Type} (f : World → α → World) (l : List α) (w0 w : World) (hw : Reach w0 w)
    (hf : ∀ w a, Reach w (f w a)) : Reach w0 (l.foldl f w) := by
  induction l generalizing w with
  | nil => exact hw
  | cons a l ih => exact ih _ (hw.trans (hf w a))

theorem reach_runJobs (w : World) : Reach w (runJobs w) := by
  unfold runJobs; dsimp only
  exact reach_foldl _ _ w _ (reach_jobs _ _) (fun w s => reach_runCon _ w s)

theorem reach_fix504 (w : World) (s : Nat) : Reach w (fix504 w s) := by
  unfold fix504; dsimp only
  split
  · exact reach_updAux _ _ _
  · exact Reach.refl _

theorem reach_hctxTimeout (w : World) (s kind : Nat) : Reach w (hctxTimeout w s kind) := by
  unfold hctxTimeout; dsimp only
  have R0 : Reach w (if w.jobs.contains s then w else { w with jobs := s :: w.jobs }) := by
    split
    · exact Reach.refl _
    · exact reach_jobs _ _
  generalize (if w.jobs.contains s then w else { w with jobs := s :: w.jobs }) = W at R0 ⊢
  split
  · have R1 := (R0.trans (reach_slotConnectError W s)).trans
      (reach_updAux _ s fun a => { a with reconnects := a.reconnects + 1 })
    split
    · exact R1.trans (reach_reconnect _ _)
    · exact ((R1.trans (reach_updAux _ _ _)).trans (reach_backendError _ _)).trans (reach_fix504 _ _)
  · split
    · have R1 := R0.trans (reach_writeError W s)
      split
      · exact R1.trans (reach_updAux _ _ _)
      · exact R1
    · exact (R0.trans (reach_backendError _ _)).trans (reach_fix504 _ _)

theorem reach_timeoutStep (h : Nat) (w : World) (s : Nat) : Reach w (timeoutStep h w s) := by
  unfold timeoutStep; dsimp only
  split
  · split
    · exact reach_hctxTimeout _ _ _
    · exact Reach.refl _
  · split
    · exact reach_hctxTimeout _ _ _
    · split
      · exact reach_hctxTimeout _ _ _
      · exact Reach.refl _

theorem reach_hostTimeouts (w : World) (h : Nat) : Reach w (hostTimeouts w h) := by
  unfold hostTimeouts; dsimp only
  split
  · exact Reach.refl _
  · split
    · exact Reach.refl _
    · exact reach_foldl _ _ w _ (Reach.refl _) (fun w s => reach_timeoutStep h w s)

theorem reach_triggerHost (w : World) (h : Nat) : Reach w (triggerHost w h) := by
  unfold triggerHost; dsimp only
  split
  · exact (reach_hostTimeouts w h).trans (reach_checkOverloaded _ _)
  · exact (reach_hostTimeouts w h).trans (reach_restartDeadProcs _ _ _)

theorem reach_schedRun (w : World) : Reach w (schedRun w) := by
  unfold schedRun
  exact reach_counters w w.globalActive _ 0 w.opened _

theorem reach_opArrive (w : World) (s key : Nat) : Reach w (opArrive w s key) := by
  unfold opArrive
  split
  · exact reach_emit _ _ rfl
  · split
    · exact reach_emit _ _ rfl
    · dsimp only
      have R0 : Reach w ({ w with slot := fun i => if i = s then some { aux := { key := key } } else w.slot i }) :=
        Reach.one (prim_slot _ _)
      generalize ({ w with slot := fun i => if i = s then some { aux := { key := key } } else w.slot i } : World) = W at R0 ⊢
      have R1 := R0.trans (reach_hostGet W s)
      split
      · exact (R1.trans (reach_emit _ _ rfl)).trans (reach_finish _ _ _)
      · refine Reach.trans ?_ (reach_runCon _ _ _)
        reach_close

theorem reach_opEvent (w : World) (s mask : Nat) : Reach w (opEvent w s mask) := by
  unfold opEvent; dsimp only
  split
  · exact reach_emit _ _ rfl
  · split
    · exact reach_emit _ _ rfl
    · split
      · exact reach_emit _ _ rfl
      · refine Reach.trans ?_ (reach_runJobs _)
        reach_close

theorem reach_opWake (w : World) (s : Nat) : Reach w (opWake w s) := by
  unfold opWake
  split
  · exact reach_emit _ _ rfl
  · split
    · exact reach_emit _ _ rfl
    · exact (reach_emit _ _ rfl).trans (reach_runCon _ _ _)

theorem reach_opAbort (w : World) (s : Nat) : Reach w (opAbort w s) := by
  unfold opAbort
  split
  · exact reach_emit _ _ rfl
  · split
    · exact reach_emit _ _ rfl
    · exact (reach_emit _ _ rfl).trans (reach_finish _ _ _)

theorem reach_opTick (w : World) (dt : Nat) : Reach w (opTick w dt) := by
  unfold opTick; dsimp only
  refine Reach.trans ?_ (reach_runJobs _)
  refine reach_foldl _ _ w _ ?_ (fun w h => reach_triggerHost w h)
  exact (Reach.one (Prim.tick w dt)).trans (reach_emit _ _ rfl)

theorem reach_step (w : World) (op : Op) : Reach w (step w op) := by
  unfold step; dsimp only
  refine Reach.trans ?_ (reach_schedRun _)
  cases op with
  | arrive s key sc => exact (reach_script w sc).trans (reach_opArrive _ s key)
  | event s mask sc => exact (reach_script w sc).trans (reach_opEvent _ s mask)
  | wake s sc => exact (reach_script w sc).trans (reach_opWake _ s)
  | abort s => exact (reach_script w {}).trans (reach_opAbort _ s)
  | tick dt sc => exact (reach_script w sc).trans (reach_opTick _ dt)

theorem reach_run (w : World) (ops : List Op) : Reach w (run w ops) := by
  unfold run
  exact reach_foldl _ _ w _ (Reach.refl _) (fun w op => reach_step w op)

end LtVerif.Gw
