/-
  C11 helper lemmas, part 3: the retry measure.  Every function reachable from
  gw_handle_subrequest() is monotone in `mu` (scripted answers left, retry budget left),
  every HANDLER_COMEBACK strictly decreases it, hence the COMEBACK loop of
  http_response_handler() never uses up its fuel.
-/
import LtVerif.Proofs.GwReach
set_option linter.unusedSimpArgs false
set_option linter.unusedVariables false
namespace LtVerif.Gw

/-! ### the retry measure: every HANDLER_COMEBACK is paid for -/

def recOf (w : World) (s : Nat) : Nat := (w.auxOf s).reconnects

/-- retry budget left: nothing ever resets hctx->reconnects within a request -/
def mu (s : Nat) (w : World) : Nat := 5 - recOf w s

/-- w' is no further from the end of slot s's retry loop than w, and slot s is neither freed nor created -/
structure Mono (s : Nat) (w w' : World) : Prop where
  mu_le : mu s w' ≤ mu s w
  some_eq : (w'.slot s).isSome = (w.slot s).isSome

theorem Mono.refl (s : Nat) (w : World) : Mono s w w := ⟨Nat.le_refl _, rfl⟩
theorem Mono.trans {s : Nat} {a b c : World} (h1 : Mono s a b) (h2 : Mono s b c) : Mono s a c :=
  ⟨Nat.le_trans h2.1 h1.1, h2.2.trans h1.2⟩

/-- same script, same slot s up to fields other than the retry counter (which may only grow) -/
theorem mono_of {s : Nat} {w w' : World} (hsc : w'.script.size ≤ w.script.size)
    (hsome : (w'.slot s).isSome = (w.slot s).isSome) (hrec : recOf w s ≤ recOf w' s) : Mono s w w' := by
  refine ⟨?_, hsome⟩
  unfold mu; omega

theorem recOf_updSlot (w : World) (s s' : Nat) (f : Ctx → Ctx) :
    recOf (w.updSlot s' f) s = if s = s' then ((w.slot s).map fun c => (f c).aux.reconnects).getD 0
                               else recOf w s := by
  unfold recOf World.auxOf World.updSlot
  by_cases e : s = s'
  · subst e; cases w.slot s <;> simp
  · simp [e]

theorem mono_updSlot (w : World) (s s' : Nat) (f : Ctx → Ctx)
    (hf : ∀ c, c.aux.reconnects ≤ (f c).aux.reconnects) : Mono s w (w.updSlot s' f) := by
  refine mono_of (Nat.le_refl _) ?_ ?_
  · simp only [World.updSlot]; by_cases e : s = s'
    · subst e; cases w.slot s <;> simp
    · simp [e]
  · rw [recOf_updSlot]
    by_cases e : s = s'
    · subst e
      simp only [if_true]
      unfold recOf World.auxOf
      cases hs : w.slot s with
      | none => simp
      | some c => simp; exact hf c
    · simp [e]

theorem mono_updAux (w : World) (s s' : Nat) (f : Aux → Aux) (hf : ∀ a, a.reconnects ≤ (f a).reconnects) :
    Mono s w (w.updAux s' f) := mono_updSlot w s s' _ (fun c => hf c.aux)
theorem mono_updLink (w : World) (s s' : Nat) (f : Link → Link) : Mono s w (w.updLink s' f) :=
  mono_updSlot w s s' _ (fun _ => Nat.le_refl _)
theorem mono_updHost (w : World) (s h : Nat) (f : Host → Host) : Mono s w (w.updHost h f) :=
  mono_of (Nat.le_refl _) rfl (Nat.le_refl _)
theorem mono_updProc (w : World) (s h p : Nat) (f : Proc → Proc) : Mono s w (w.updProc h p f) :=
  mono_of (Nat.le_refl _) rfl (Nat.le_refl _)
theorem mono_emit (w : World) (s : Nat) (e : Ev) : Mono s w (w.emit e) :=
  mono_of (Nat.le_refl _) rfl (Nat.le_refl _)
theorem mono_jobs (w : World) (s : Nat) (j : List Nat) : Mono s w { w with jobs := j } :=
  mono_of (Nat.le_refl _) rfl (Nat.le_refl _)
theorem mono_lastUsed (w : World) (s : Nat) (n : Int) : Mono s w { w with lastUsed := n } :=
  mono_of (Nat.le_refl _) rfl (Nat.le_refl _)
theorem mono_noteSent (w : World) (s : Nat) (b : Bool) : Mono s w { w with noteSent := b } :=
  mono_of (Nat.le_refl _) rfl (Nat.le_refl _)
theorem mono_counters (w : World) (s : Nat) (ga cf : Int) (pc op cl : Nat) :
    Mono s w { w with globalActive := ga, curFds := cf, pendClose := pc, opened := op, closed := cl } :=
  mono_of (Nat.le_refl _) rfl (Nat.le_refl _)
theorem mono_script (w : World) (s : Nat) (sc : Script) (h : sc.size ≤ w.script.size) :
    Mono s w { w with script := sc } :=
  mono_of h rfl (Nat.le_refl _)

syntax "mono_peel" : tactic
macro_rules | `(tactic| mono_peel) => `(tactic| first
  | exact Mono.refl _ _
  | assumption
  | (refine Mono.trans ?_ (mono_updAux _ _ _ _ (fun _ => Nat.le_refl _)))
  | (refine Mono.trans ?_ (mono_updLink _ _ _ _))
  | (refine Mono.trans ?_ (mono_emit _ _ _))
  | (refine Mono.trans ?_ (mono_jobs _ _ _))
  | (refine Mono.trans ?_ (mono_lastUsed _ _ _))
  | (refine Mono.trans ?_ (mono_noteSent _ _ _)))
macro "mono_close" : tactic => `(tactic| repeat mono_peel)

/-! pops: the script only shrinks -/

theorem popConn_size (w : World) :
    (popConn w).2.script.size ≤ w.script.size ∧ ((popConn w).1 = 'k' → (popConn w).2.script.size < w.script.size) ∧
    (popConn w).2.slot = w.slot := by
  unfold popConn
  split
  · exact ⟨Nat.le_refl _, by simp, rfl⟩
  · rename_i c cs hc
    refine ⟨?_, fun _ => ?_, rfl⟩ <;> simp [Script.size, hc] <;> omega

theorem mono_popConn (w : World) (s : Nat) : Mono s w (popConn w).2 := by
  obtain ⟨sc, e⟩ := popConn_eq w
  have := (popConn_size w).1
  rw [e] at this ⊢
  exact mono_script w s sc this
theorem mono_popSock (w : World) (s : Nat) : Mono s w (popSock w).2 := by
  unfold popSock; split
  · exact Mono.refl _ _
  · rename_i c cs hc; exact mono_script w s _ (by simp [Script.size, hc] <;> omega)
theorem mono_popStat (w : World) (s : Nat) : Mono s w (popStat w).2 := by
  unfold popStat; split
  · exact Mono.refl _ _
  · rename_i c cs hc; exact mono_script w s _ (by simp [Script.size, hc] <;> omega)
theorem mono_popWr (w : World) (s : Nat) : Mono s w (popWr w).2 := by
  unfold popWr; split
  · exact Mono.refl _ _
  · rename_i c cs hc; exact mono_script w s _ (by simp [Script.size, hc] <;> omega)
theorem mono_popRd (w : World) (s : Nat) : Mono s w (popRd w).2 := by
  unfold popRd; split
  · exact Mono.refl _ _
  · rename_i c cs hc; exact mono_script w s _ (by simp [Script.size, hc] <;> omega)
theorem mono_popEnv (w : World) (s : Nat) : Mono s w (popEnv w).2 := by
  unfold popEnv; split
  · exact Mono.refl _ _
  · rename_i c cs hc; exact mono_script w s _ (by simp [Script.size, hc] <;> omega)

/-! availability functions never touch slots or script -/

theorem mono_setPState (w : World) (s h p : Nat) (st : PState) : Mono s w (setPState w h p st) := by
  have O := setPState_other w h p st
  have hsc : (setPState w h p st).script = w.script := by
    unfold setPState; split
    · rfl
    · dsimp only; split
      · rfl
      · split <;> rfl
  refine mono_of (by rw [hsc]; exact Nat.le_refl _) (by rw [O.2.2.2.2.2.2]) ?_
  unfold recOf World.auxOf; rw [O.2.2.2.2.2.2]; exact Nat.le_refl _

theorem mono_connectError (w : World) (s h p pid : Nat) : Mono s w (connectError w h p pid) := by
  unfold connectError; split
  · exact (mono_updProc w s h p _).trans (mono_setPState _ s h p _)
  · exact Mono.refl _ _

theorem mono_checkEnable (w : World) (s h p : Nat) : Mono s w (checkEnable w h p) := by
  unfold checkEnable; split
  · exact Mono.refl _ _
  · split
    · exact Mono.refl _ _
    · exact mono_setPState _ _ _ _ _

theorem mono_restartDeadProc (w : World) (s h : Nat) (tr : Bool) (p : Nat) :
    Mono s w (restartDeadProc w h tr p) := by
  unfold restartDeadProc; split
  · exact Mono.refl _ _
  · exact mono_checkEnable _ _ _ _
  · split
    · exact mono_updProc _ _ _ _ _
    · exact Mono.refl _ _
  · exact Mono.refl _ _
  · exact Mono.refl _ _

theorem mono_foldl {α : Type} (s : Nat) (f : World → α → World) (l : List α) (w0 w : World)
    (hw : Mono s w0 w) (hf : ∀ w a, Mono s w (f w a)) : Mono s w0 (l.foldl f w) := by
  induction l generalizing w with
  | nil => exact hw
  | cons a l ih => exact ih _ (hw.trans (hf w a))

theorem mono_restartDeadProcs (w : World) (s h : Nat) (tr : Bool) : Mono s w (restartDeadProcs w h tr) := by
  unfold restartDeadProcs
  exact mono_foldl s _ _ w w (Mono.refl _ _) (fun w p => mono_restartDeadProc w s h tr p)

theorem mono_restartIfLocal (w : World) (s s' : Nat) : Mono s w (restartIfLocal w s') := by
  unfold restartIfLocal; split
  · split
    · exact mono_restartDeadProcs _ _ _ _
    · exact Mono.refl _ _
  · exact Mono.refl _ _

theorem mono_slotConnectError (w : World) (s s' : Nat) : Mono s w (slotConnectError w s') := by
  unfold slotConnectError; split
  · split
    · exact mono_connectError _ _ _ _ _
    · exact Mono.refl _ _
  · exact Mono.refl _ _

/-! the bookkeeping primitives -/

theorem mono_hostGet (w : World) (s s' : Nat) : Mono s w (hostGet w s').2 := by
  rcases hostGet_snd w s' with h | h <;> rw [h]
  · exact mono_lastUsed _ _ _
  · mono_close

theorem mono_setHostLoad (w : World) (s h : Nat) (v : Int) : Mono s w (setHostLoad w h v) :=
  mono_of (Nat.le_refl _) rfl (Nat.le_refl _)
theorem mono_setProcLoad (w : World) (s h p : Nat) (v : Int) : Mono s w (setProcLoad w h p v) :=
  mono_of (Nat.le_refl _) rfl (Nat.le_refl _)

theorem mono_hostAssign (w : World) (s s' h : Nat) : Mono s w (hostAssign w s' h) := by
  unfold hostAssign; split
  · exact Mono.refl _ _
  · exact (mono_updLink _ _ _ _).trans (mono_setHostLoad _ _ _ _)

theorem mono_procAcquire (w : World) (s s' h p : Nat) : Mono s w (procAcquire w s' h p) := by
  unfold procAcquire; split
  · exact Mono.refl _ _
  · dsimp only
    exact ((mono_updLink _ _ _ _).trans (mono_setProcLoad _ _ _ _ _)).trans (mono_counters _ _ _ _ _ _ _)

theorem mono_openFd (w : World) (s s' : Nat) : Mono s w (openFd w s') := by
  unfold openFd; split
  · exact Mono.refl _ _
  · exact (mono_counters w s w.globalActive (w.curFds + 1) w.pendClose (w.opened + 1) w.closed).trans
      (mono_updLink _ _ _ _)

theorem mono_backendClose (w : World) (s s' : Nat) : Mono s w (backendClose w s') := by
  unfold backendClose
  split
  · exact Mono.refl _ _
  · rename_i c _
    dsimp only
    have R1 : Mono s w (if c.link.fd = true then
        ((match c.link.host with
          | some h => ({ w with pendClose := w.pendClose + 1 } : World).updHost h fun H => { H with hctxs := H.hctxs.erase s' }
          | none => { w with pendClose := w.pendClose + 1 }).updLink s' fun l => { l with fd := false }).updAux s' fun a =>
          { a with evIn := false, evOut := false, evRdhup := false }
        else w) := by
      split
      · refine Mono.trans ?_ (mono_updAux _ _ _ _ (fun _ => Nat.le_refl _))
        refine Mono.trans ?_ (mono_updLink _ _ _ _)
        have R0 := mono_counters w s w.globalActive w.curFds (w.pendClose + 1) w.opened w.closed
        split
        · exact R0.trans (mono_updHost _ _ _ _)
        · exact R0
      · exact Mono.refl _ _
    generalize (if c.link.fd = true then
        ((match c.link.host with
          | some h => ({ w with pendClose := w.pendClose + 1 } : World).updHost h fun H => { H with hctxs := H.hctxs.erase s' }
          | none => { w with pendClose := w.pendClose + 1 }).updLink s' fun l => { l with fd := false }).updAux s' fun a =>
          { a with evIn := false, evOut := false, evRdhup := false }
        else w) = W at R1 ⊢
    split
    · exact R1
    · rename_i h _
      refine Mono.trans ?_ (mono_updLink _ _ _ _)
      refine Mono.trans ?_ (mono_setHostLoad _ _ _ _)
      split
      · rename_i p _
        refine Mono.trans ?_ (mono_updLink _ _ _ _)
        exact (R1.trans (mono_setProcLoad _ _ _ _ _)).trans (mono_counters _ _ _ _ _ _ _)
      · exact R1

macro_rules | `(tactic| mono_peel) => `(tactic| first
  | (refine Mono.trans ?_ (mono_backendClose _ _ _))
  | (refine Mono.trans ?_ (mono_hostGet _ _ _))
  | (refine Mono.trans ?_ (mono_hostAssign _ _ _ _)))

theorem mono_backendDone (w : World) (s s' : Nat) : Mono s w (backendDone w s') := by
  unfold backendDone
  refine mono_updAux _ _ _ _ (fun a => ?_)
  unfold doneAux incompleteAux; split
  · exact Nat.le_refl _
  · split
    · exact Nat.le_refl _
    · split <;> exact Nat.le_refl _

theorem mono_connectionClose (w : World) (s s' : Nat) : Mono s w (connectionClose w s') := by
  unfold connectionClose; dsimp only
  split
  · refine Mono.trans ?_ (mono_backendDone _ _ _); mono_close
  · mono_close

theorem mono_backendError (w : World) (s s' : Nat) : Mono s w (backendError w s').2 := by
  unfold backendError; dsimp only
  refine Mono.trans ?_ (mono_connectionClose _ _ _)
  refine mono_updAux _ _ _ _ (fun a => ?_)
  unfold errAux incompleteAux; split
  · exact Nat.le_refl _
  · split <;> exact Nat.le_refl _

theorem mono_reconnect (w : World) (s s' : Nat) : Mono s w (reconnect w s').2 := by
  unfold reconnect; dsimp only
  split <;> (try dsimp only) <;> mono_close

theorem mono_recInc (w : World) (s s' : Nat) :
    Mono s w (w.updAux s' fun a => { a with reconnects := a.reconnects + 1 }) :=
  mono_updAux _ _ _ _ (fun _ => Nat.le_succ _)

theorem mono_recvResponseError (w : World) (s s' : Nat) : Mono s w (recvResponseError w s').2 := by
  unfold recvResponseError; dsimp only
  split
  · split
    · exact (mono_recInc _ _ _).trans (mono_reconnect _ _ _)
    · exact (mono_recInc _ _ _).trans (mono_backendError _ _ _)
  · exact mono_backendError _ _ _

theorem mono_recvResponse (w : World) (s s' : Nat) : Mono s w (recvResponse w s').2 := by
  have R := mono_popRd w s
  unfold recvResponse; dsimp only
  split
  · exact R
  · split
    · dsimp only; exact R.trans (mono_updAux _ _ _ _ (fun _ => Nat.le_refl _))
    · split
      · exact R.trans (mono_recvResponseError _ _ _)
      · dsimp only; exact R.trans (mono_connectionClose _ _ _)

theorem mono_drain (n : Nat) (w : World) (s s' : Nat) : Mono s w (drain n w s').2 := by
  induction n generalizing w with
  | zero => exact Mono.refl _ _
  | succ n ih =>
    unfold drain; dsimp only
    split
    · exact (mono_recvResponse w s s').trans (ih _)
    · exact mono_recvResponse w s s'

theorem mono_wrWrite (w : World) (s s' : Nat) : Mono s w (wrWrite w s').2 := by
  have R := mono_popWr w s
  unfold wrWrite; dsimp only
  repeat' split
  all_goals (try dsimp only)
  all_goals mono_close

theorem mono_wrPrepare (w : World) (s s' : Nat) : Mono s w (wrPrepare w s').2 := by
  have R := mono_popEnv w s
  unfold wrPrepare; dsimp only
  split
  · dsimp only; mono_close
  · split
    · dsimp only; mono_close
    · refine Mono.trans ?_ (mono_wrWrite _ _ _); mono_close

theorem mono_wrConnected (w : World) (s s' : Nat) : Mono s w (wrConnected w s').2 := by
  unfold wrConnected
  exact (mono_updLink _ _ _ _).trans (mono_wrPrepare _ _ _)

theorem mono_wrDelayed (w : World) (s s' : Nat) : Mono s w (wrDelayed w s').2 := by
  have R := mono_popStat w s
  unfold wrDelayed; dsimp only
  split
  · exact Mono.refl _ _
  · split
    · exact R.trans (mono_slotConnectError _ _ _)
    · refine Mono.trans ?_ (mono_wrConnected _ _ _)
      mono_close

theorem mono_wrRegister (w : World) (s s' h p : Nat) : Mono s w (wrRegister w s' h p) := by
  unfold wrRegister; dsimp only
  have R := mono_openFd w s s'
  refine Mono.trans ?_ (mono_updHost _ _ _ _)
  mono_close

theorem mono_wrConnect (w : World) (s s' h p : Nat) : Mono s w (wrConnect w s' h p).2 := by
  have hsz := popConn_size w
  obtain ⟨sc, e⟩ := popConn_eq w
  unfold wrConnect; dsimp only
  rw [e] at hsz ⊢
  have R1 : Mono s w (({ w with script := sc }.emit (.dispatch s' h p)).updAux s'
      fun a => { a with dispatched := a.dispatched + 1 }) :=
    ((mono_script w s sc hsz.1).trans (mono_emit _ _ _)).trans
      (mono_updAux _ _ _ _ (fun _ => Nat.le_refl _))
  generalize (({ w with script := sc }.emit (.dispatch s' h p)).updAux s'
      fun a => { a with dispatched := a.dispatched + 1 }) = W at R1 ⊢
  split
  · exact R1.trans (mono_wrConnected _ _ _)
  · dsimp only
    mono_close
  · dsimp only
    exact R1.trans (mono_connectError _ _ _ _ _)

theorem mono_wrInit (w : World) (s s' : Nat) : Mono s w (wrInit w s').2 := by
  unfold wrInit
  split
  · exact Mono.refl _ _
  · rename_i h _
    dsimp only
    have R0 := mono_updLink w s s' fun l => { l with proc := none }
    generalize (w.updLink s' fun l => { l with proc := none }) = W at R0 ⊢
    split
    · exact R0
    · rename_i p hp
      try dsimp only
      have R1 : Mono s w (popSock (procAcquire W s' h p)).2 :=
        (R0.trans (mono_procAcquire _ _ _ _ _)).trans (mono_popSock _ _)
      split
      · exact R1
      · exact (R1.trans (mono_wrRegister _ _ _ _ _)).trans (mono_wrConnect _ _ _ _ _)

theorem mono_writeRequest (w : World) (s s' : Nat) : Mono s w (writeRequest w s').2 := by
  unfold writeRequest
  split
  · exact mono_wrInit _ _ _
  · exact mono_wrDelayed _ _ _
  · exact mono_wrPrepare _ _ _
  · exact mono_wrWrite _ _ _
  · exact Mono.refl _ _

theorem mono_writeErrorTail (w : World) (s s' : Nat) : Mono s w (writeErrorTail w s').2 := by
  unfold writeErrorTail; dsimp only
  refine Mono.trans ?_ (mono_backendError _ _ _)
  split <;> mono_close

theorem mono_writeError (w : World) (s s' : Nat) : Mono s w (writeError w s').2 := by
  unfold writeError; dsimp only
  split
  · have R := (mono_restartIfLocal w s s').trans (mono_recInc (restartIfLocal w s') s s')
    split
    · exact R.trans (mono_reconnect _ _ _)
    · exact R.trans (mono_writeErrorTail _ _ _)
  · split
    · exact mono_recvResponse _ _ _
    · exact (mono_recvResponse _ _ _).trans (mono_writeErrorTail _ _ _)

theorem mono_sendRequest (w : World) (s s' : Nat) : Mono s w (sendRequest w s').2 := by
  unfold sendRequest; dsimp only
  split
  · exact mono_writeRequest _ _ _
  · exact (mono_writeRequest _ _ _).trans (mono_writeError _ _ _)

theorem mono_processFdevent (w : World) (s s' rev : Nat) : Mono s w (processFdevent w s' rev).2 := by
  unfold processFdevent; dsimp only
  have R1 : Mono s w (if rev.testBit 0 then recvResponse w s' else (Rc.goOn, w)).2 := by
    split
    · exact mono_recvResponse _ _ _
    · exact Mono.refl _ _
  generalize (if rev.testBit 0 then recvResponse w s' else (Rc.goOn, w)) = r at R1 ⊢
  split
  · exact R1
  · split
    · exact R1.trans (mono_sendRequest _ _ _)
    · split
      · split
        · exact R1.trans (mono_sendRequest _ _ _)
        · split
          · exact R1.trans (mono_drain _ _ _ _)
          · exact R1.trans (mono_connectionClose _ _ _)
      · split
        · exact R1.trans (mono_backendError _ _ _)
        · exact R1

theorem mono_subEvents (w : World) (s s' : Nat) : Mono s w (subEvents w s').2 := by
  unfold subEvents; dsimp only
  split
  · refine Mono.trans ?_ (mono_processFdevent _ _ _ _); mono_close
  · exact Mono.refl _ _

theorem mono_subrequest (w : World) (s s' : Nat) : Mono s w (subrequest w s').2 := by
  unfold subrequest; dsimp only
  have R1 := mono_subEvents w s s'
  split
  · exact Mono.refl _ _
  · split
    · exact R1
    · split
      · split
        · exact R1.trans (mono_sendRequest _ _ _)
        · exact R1.trans (mono_sendRequest _ _ _)
      · exact R1

/-! ### HANDLER_COMEBACK strictly decreases the measure -/

theorem recInc_lt (w : World) (s : Nat) (hs : (w.slot s).isSome) (h5 : recOf w s < 5) :
    mu s (w.updAux s fun a => { a with reconnects := a.reconnects + 1 }) < mu s w := by
  unfold mu
  have : recOf (w.updAux s fun a => { a with reconnects := a.reconnects + 1 }) s = recOf w s + 1 := by
    unfold World.updAux
    rw [recOf_updSlot, if_pos rfl]
    unfold recOf World.auxOf
    cases hc : w.slot s with
    | none => simp [hc] at hs
    | some c => simp
  rw [this]
  omega

theorem wr_no_comeback (w : World) (s : Nat) :
    (wrWrite w s).1 ≠ .comeback ∧ (wrPrepare w s).1 ≠ .comeback ∧ (wrConnected w s).1 ≠ .comeback ∧
    (wrDelayed w s).1 ≠ .comeback := by
  have h1 : ∀ w, (wrWrite w s).1 ≠ .comeback := by
    intro w; unfold wrWrite; dsimp only; rw [apply_ite Prod.fst]
    repeat' split
    all_goals simp
  have h2 : ∀ w, (wrPrepare w s).1 ≠ .comeback := by
    intro w; unfold wrPrepare; dsimp only
    split
    · simp
    · split
      · simp
      · exact h1 _
  have h3 : ∀ w, (wrConnected w s).1 ≠ .comeback := by
    intro w; unfold wrConnected; exact h2 _
  refine ⟨h1 w, h2 w, h3 w, ?_⟩
  unfold wrDelayed; dsimp only
  split
  · simp
  · split
    · simp
    · exact h3 _

theorem writeRequest_no_comeback (w : World) (s : Nat) : (writeRequest w s).1 ≠ .comeback := by
  have W := wr_no_comeback
  unfold writeRequest
  split
  · unfold wrInit
    split
    · simp
    · dsimp only
      split
      · simp
      · (try dsimp only)
        split
        · simp
        · unfold wrConnect; dsimp only
          split
          · exact (W _ s).2.2.1
          · simp
          · simp
  · exact (W w s).2.2.2
  · exact (W w s).2.1
  · exact (W w s).1
  · simp

theorem recvResponseError_strict (w : World) (s : Nat) (hs : (w.slot s).isSome)
    (hc : (recvResponseError w s).1 = .comeback) : mu s (recvResponseError w s).2 < mu s w := by
  unfold recvResponseError at hc ⊢
  dsimp only at hc ⊢
  split at hc
  · split at hc
    · rename_i h5
      rw [if_pos (by assumption), if_pos h5]
      exact Nat.lt_of_le_of_lt (mono_reconnect _ s s).1 (recInc_lt w s hs h5)
    · simp [backendError] at hc
  · simp [backendError] at hc

theorem recvResponse_strict (w : World) (s : Nat) (hs : (w.slot s).isSome)
    (hc : (recvResponse w s).1 = .comeback) : mu s (recvResponse w s).2 < mu s w := by
  have R := mono_popRd w s
  unfold recvResponse at hc ⊢
  dsimp only at hc ⊢
  split at hc
  · simp at hc
  · split at hc
    · simp at hc
    · split at hc
      · rename_i h1 h2 h3
        rw [if_neg h1, if_neg h2, if_pos h3]
        exact Nat.lt_of_lt_of_le (recvResponseError_strict _ s (by rw [R.2]; exact hs) hc) R.1
      · simp at hc

theorem drain_strict (n : Nat) (w : World) (s : Nat) (hs : (w.slot s).isSome)
    (hc : (drain n w s).1 = .comeback) : mu s (drain n w s).2 < mu s w := by
  induction n generalizing w with
  | zero => simp [drain] at hc
  | succ n ih =>
    unfold drain at hc ⊢
    dsimp only at hc ⊢
    have R := mono_recvResponse w s s
    split at hc
    · rename_i hg
      rw [if_pos hg]
      exact Nat.lt_of_lt_of_le (ih _ (by rw [R.2]; exact hs) hc) R.1
    · rename_i hg
      rw [if_neg hg]
      exact recvResponse_strict w s hs hc

theorem writeError_strict (w : World) (s : Nat) (hs : (w.slot s).isSome)
    (hc : (writeError w s).1 = .comeback) : mu s (writeError w s).2 < mu s w := by
  unfold writeError at hc ⊢
  dsimp only at hc ⊢
  split at hc
  · rename_i hst
    rw [if_pos hst]
    have R := mono_restartIfLocal w s s
    split at hc
    · rename_i h5
      rw [if_pos h5]
      have h1 := recInc_lt (restartIfLocal w s) s (by rw [R.2]; exact hs) h5
      exact Nat.lt_of_le_of_lt (mono_reconnect _ s s).1 (Nat.lt_of_lt_of_le h1 R.1)
    · simp [writeErrorTail, backendError] at hc
  · rename_i hst
    rw [if_neg hst]
    split at hc
    · rename_i hg
      rw [if_pos hg]
      exact recvResponse_strict w s hs hc
    · simp [writeErrorTail, backendError] at hc

theorem sendRequest_strict (w : World) (s : Nat) (hs : (w.slot s).isSome)
    (hc : (sendRequest w s).1 = .comeback) : mu s (sendRequest w s).2 < mu s w := by
  unfold sendRequest at hc ⊢
  dsimp only at hc ⊢
  have R := mono_writeRequest w s s
  split at hc
  · exact absurd hc (writeRequest_no_comeback w s)
  · rename_i he
    rw [if_neg he]
    exact Nat.lt_of_lt_of_le (writeError_strict _ s (by rw [R.2]; exact hs) hc) R.1


theorem processFdevent_strict (w : World) (s rev : Nat) (hs : (w.slot s).isSome)
    (hc : (processFdevent w s rev).1 = .comeback) : mu s (processFdevent w s rev).2 < mu s w := by
  unfold processFdevent at hc ⊢
  dsimp only at hc ⊢
  have R1 : Mono s w (if rev.testBit 0 then recvResponse w s else (Rc.goOn, w)).2 := by
    split
    · exact mono_recvResponse _ _ _
    · exact Mono.refl _ _
  have S1 : (if rev.testBit 0 then recvResponse w s else (Rc.goOn, w)).1 = .comeback →
      mu s (if rev.testBit 0 then recvResponse w s else (Rc.goOn, w)).2 < mu s w := by
    split
    · exact recvResponse_strict w s hs
    · intro h; simp at h
  generalize (if rev.testBit 0 then recvResponse w s else (Rc.goOn, w)) = r at R1 S1 hc ⊢
  have hs' : (r.2.slot s).isSome := by rw [R1.2]; exact hs
  split at hc
  · rename_i h1; rw [if_pos h1]; exact S1 hc
  · rename_i h1; rw [if_neg h1]
    split at hc
    · rename_i h2; rw [if_pos h2]
      exact Nat.lt_of_lt_of_le (sendRequest_strict _ s hs' hc) R1.1
    · rename_i h2; rw [if_neg h2]
      split at hc
      · rename_i h3; rw [if_pos h3]
        split at hc
        · rename_i h4; rw [if_pos h4]
          exact Nat.lt_of_lt_of_le (sendRequest_strict _ s hs' hc) R1.1
        · rename_i h4; rw [if_neg h4]
          split at hc
          · rename_i h5; rw [if_pos h5]
            exact Nat.lt_of_lt_of_le (drain_strict _ _ s hs' hc) R1.1
          · simp at hc
      · rename_i h3; rw [if_neg h3]
        split at hc
        · simp [backendError] at hc
        · simp at hc

theorem subEvents_strict (w : World) (s : Nat) (hs : (w.slot s).isSome)
    (hc : (subEvents w s).1 = .comeback) : mu s (subEvents w s).2 < mu s w := by
  unfold subEvents at hc ⊢
  dsimp only at hc ⊢
  split at hc
  · rename_i h1; rw [if_pos h1]
    have R := mono_updAux w s s (fun a => { a with revents := 0 }) (fun _ => Nat.le_refl _)
    exact Nat.lt_of_lt_of_le (processFdevent_strict _ s _ (by rw [R.2]; exact hs) hc) R.1
  · simp at hc

/-- every HANDLER_COMEBACK out of gw_handle_subrequest() strictly decreases the measure -/
theorem subrequest_strict (w : World) (s : Nat) (hs : (w.slot s).isSome)
    (hc : (subrequest w s).1 = .comeback) : mu s (subrequest w s).2 < mu s w := by
  unfold subrequest at hc ⊢
  dsimp only at hc ⊢
  have R1 := mono_subEvents w s s
  have hs' : ((subEvents w s).2.slot s).isSome := by rw [R1.2]; exact hs
  split at hc
  · simp at hc
  · rename_i h0; rw [if_neg h0]
    split at hc
    · rename_i h1; rw [if_pos h1]; exact subEvents_strict w s hs hc
    · rename_i h1; rw [if_neg h1]
      split at hc
      · rename_i h2; rw [if_pos h2]
        split at hc
        · rename_i h3; rw [if_pos h3]
          exact Nat.lt_of_lt_of_le (sendRequest_strict _ s hs' hc) R1.1
        · simp at hc
      · simp at hc

/-- the COMEBACK loop of http_response_handler() never uses up its fuel: any two fuel
    values above the measure give the same result -/
theorem runCon_fuel (n m : Nat) (w : World) (s : Nat) (hn : mu s w < n) (hm : mu s w < m) :
    runCon n w s = runCon m w s := by
  induction n generalizing m w with
  | zero => omega
  | succ n ih =>
    cases m with
    | zero => omega
    | succ m =>
      unfold runCon
      cases hs : w.slot s with
      | none => rfl
      | some c =>
        dsimp only
        split
        · rfl
        · cases hr : (subrequest w s).1 with
          | comeback =>
            dsimp only
            have hlt := subrequest_strict w s (by simp [hs]) hr
            exact ih _ _ (by omega) (by omega)
          | goOn => rfl
          | finished => rfl
          | waitForEvent => rfl
          | error => rfl

theorem conFuel_gt_mu (w : World) (s : Nat) : mu s w < conFuel w := by
  unfold mu conFuel; omega


/-! ### giving up means an error status, not a hang -/

/-- the request-side fields a client sees -/
structure Seen (w : World) (s : Nat) (st : Nat) (started handler : Bool) : Prop where
  some : (w.slot s).isSome
  status : (w.auxOf s).status = st
  started : (w.auxOf s).started = started
  handler : (w.auxOf s).handler = handler

theorem auxOf_updAux (w : World) (s : Nat) (f : Aux → Aux) (hs : (w.slot s).isSome) :
    (w.updAux s f).auxOf s = f (w.auxOf s) ∧ ((w.updAux s f).slot s).isSome := by
  unfold World.auxOf World.updAux World.updSlot
  cases hc : w.slot s with
  | none => simp [hc] at hs
  | some c => simp

theorem auxOf_updLink (w : World) (s : Nat) (f : Link → Link) :
    (w.updLink s f).auxOf s = w.auxOf s ∧ ((w.updLink s f).slot s).isSome = (w.slot s).isSome := by
  unfold World.auxOf World.updLink World.updSlot
  cases hc : w.slot s <;> simp

theorem backendClose_seen (w : World) (s : Nat) :
    ((backendClose w s).auxOf s).status = (w.auxOf s).status ∧
    ((backendClose w s).auxOf s).started = (w.auxOf s).started ∧
    ((backendClose w s).auxOf s).handler = (w.auxOf s).handler ∧
    ((backendClose w s).slot s).isSome = (w.slot s).isSome := by
  unfold backendClose
  cases hc : w.slot s with
  | none => simp [World.auxOf, hc]
  | some c =>
    dsimp only
    cases c.link.fd <;> cases c.link.host <;> cases c.link.proc <;>
      simp [World.auxOf, setHostLoad, setProcLoad, World.updHost, World.updLink, World.updAux, World.updSlot,
        World.updProc, hc]

/-- gw_connection_close() on a request whose response has not begun -/
theorem connectionClose_seen (w : World) (s : Nat) (hs : (w.slot s).isSome) (hns : (w.auxOf s).started = false) :
    ((connectionClose w s).auxOf s).handler = false ∧ ((connectionClose w s).auxOf s).started = false ∧
    ((w.auxOf s).handler = true →
      ((connectionClose w s).auxOf s).status =
        (if (w.auxOf s).status < 500 ∧ (w.auxOf s).status ≠ 400 then 500 else (w.auxOf s).status)) ∧
    ((w.auxOf s).handler = false → ((connectionClose w s).auxOf s).status = (w.auxOf s).status) := by
  unfold connectionClose
  dsimp only
  have B := backendClose_seen w s
  have L := auxOf_updLink (backendClose w s) s fun l => { l with hctx := false }
  have hs1 : (((backendClose w s).updLink s fun l => { l with hctx := false }).slot s).isSome := by
    rw [L.2, B.2.2.2]; exact hs
  by_cases hh : (w.auxOf s).handler = true
  · rw [if_pos (by rw [L.1, B.2.2.1]; exact hh)]
    unfold backendDone
    have A := auxOf_updAux ((backendClose w s).updLink s fun l => { l with hctx := false }) s doneAux hs1
    rw [A.1, L.1]
    have e : doneAux ((backendClose w s).auxOf s) =
        { (backendClose w s).auxOf s with
          status := if ((backendClose w s).auxOf s).status < 500 ∧ ((backendClose w s).auxOf s).status ≠ 400
                    then 500 else ((backendClose w s).auxOf s).status,
          handler := false } := by
      unfold doneAux; rw [if_pos (by rw [B.2.1, hns]; rfl)]
    rw [e]
    refine ⟨rfl, by simp [B.2.1, hns], fun _ => by simp [B.1], (fun h => by rw [hh] at h; cases h)⟩
  · have hh' : (w.auxOf s).handler = false := by simpa using hh
    rw [if_neg (by rw [L.1, B.2.2.1, hh']; simp)]
    rw [L.1]
    exact ⟨by rw [B.2.2.1]; exact hh', by rw [B.2.1]; exact hns, (fun h => by rw [hh'] at h; cases h), fun _ => B.1⟩

/-- gw_backend_error() on a request whose response has not begun: handler dropped, status
    an error (≥ 500, or the 400 a failed create_env left) -/
theorem backendError_seen (w : World) (s : Nat) (hs : (w.slot s).isSome) (hns : (w.auxOf s).started = false) :
    ((backendError w s).2.auxOf s).handler = false ∧ ((backendError w s).2.auxOf s).started = false ∧
    ((w.auxOf s).handler = true →
      ((backendError w s).2.auxOf s).status =
        (if (w.auxOf s).status < 500 ∧ (w.auxOf s).status ≠ 400 then 500 else (w.auxOf s).status)) ∧
    ((w.auxOf s).handler = false → ((backendError w s).2.auxOf s).status = (w.auxOf s).status) := by
  unfold backendError
  dsimp only
  have A := auxOf_updAux w s errAux hs
  have ea : errAux (w.auxOf s) = w.auxOf s := by unfold errAux; simp [hns]
  have C := connectionClose_seen (w.updAux s errAux) s A.2 (by rw [A.1, ea]; exact hns)
  rw [A.1, ea] at C
  exact C

/-- gw_backend_error() after the backend's response headers were parsed but before the response
    head went out to the client (http_response_backend_incomplete): the partial response is
    dropped, the handler too, and the client gets 502 -/
theorem backendError_incomplete_seen (w : World) (s : Nat) (hs : (w.slot s).isSome)
    (hst : (w.auxOf s).started = true) (hhs : (w.auxOf s).headSent = false) :
    ((backendError w s).2.auxOf s).handler = false ∧ ((backendError w s).2.auxOf s).started = false ∧
    ((backendError w s).2.auxOf s).status = 502 := by
  unfold backendError
  dsimp only
  have A := auxOf_updAux w s errAux hs
  have ea : errAux (w.auxOf s) = incompleteAux (w.auxOf s) := by unfold errAux; simp [hst, hhs]
  have C := connectionClose_seen (w.updAux s errAux) s A.2 (by rw [A.1, ea]; rfl)
  rw [A.1, ea] at C
  exact ⟨C.1, C.2.1, C.2.2.2 rfl⟩

/-- **giving up in gw_write_error()**: the client gets an error status -/
theorem writeErrorTail_seen (w : World) (s : Nat) (hs : (w.slot s).isSome) (hns : (w.auxOf s).started = false)
    (hh : (w.auxOf s).handler = true) :
    ((writeErrorTail w s).2.auxOf s).handler = false ∧
    (500 ≤ ((writeErrorTail w s).2.auxOf s).status ∨ ((writeErrorTail w s).2.auxOf s).status = 400) := by
  unfold writeErrorTail
  dsimp only
  by_cases hc : !(w.auxOf s).started ∧ (w.auxOf s).status < 500 ∧ (w.auxOf s).status ≠ 400
  · rw [if_pos hc]
    have A := auxOf_updAux w s (fun a => { a with status := 503 }) hs
    have E := backendError_seen (w.updAux s fun a => { a with status := 503 }) s A.2 (by rw [A.1]; exact hns)
    refine ⟨E.1, ?_⟩
    rw [E.2.2.1 (by rw [A.1]; exact hh), A.1]
    simp
  · rw [if_neg hc]
    have E := backendError_seen w s hs hns
    refine ⟨E.1, ?_⟩
    rw [E.2.2.1 hh]
    have : ¬((w.auxOf s).status < 500 ∧ (w.auxOf s).status ≠ 400) := by
      intro h; exact hc ⟨by simp [hns], h⟩
    rw [if_neg this]
    by_cases h5 : (w.auxOf s).status < 500
    · right
      by_cases h4 : (w.auxOf s).status = 400
      · exact h4
      · exact absurd ⟨h5, h4⟩ this
    · left; omega

/-- no host available: 503, handler dropped -/
theorem hostGet_none_seen (w : World) (s : Nat) (hs : (w.slot s).isSome) (hn : (hostGet w s).1 = none) :
    ((hostGet w s).2.auxOf s).status = 503 ∧ ((hostGet w s).2.auxOf s).handler = false := by
  unfold hostGet at hn ⊢
  dsimp only at hn ⊢
  split
  · rename_i h hh; rw [hh] at hn; cases hn
  · dsimp only
    have A := auxOf_updAux ({ w with lastUsed := (hostPick w (w.auxOf s).key).2 }) s
      (fun a => { a with status := 503, handler := false }) hs
    have e : ({ ({ w with lastUsed := (hostPick w (w.auxOf s).key).2 } : World).updAux s
        (fun a => { a with status := 503, handler := false }) with noteSent := true } : World).auxOf s
        = (({ w with lastUsed := (hostPick w (w.auxOf s).key).2 } : World).updAux s
        (fun a => { a with status := 503, handler := false })).auxOf s := rfl
    rw [e, A.1]
    exact ⟨rfl, rfl⟩


/-! ### a timed-out request stops waiting on its backend -/

/-- slot s no longer waits on a backend: it restarts in GW_STATE_INIT or holds no host at all -/
def Released (s : Nat) (w : World) : Prop :=
  ∀ l, lk w s = some l → l.state = .init ∨ l.host = none

theorem released_updAux {s : Nat} {w : World} (f : Aux → Aux) (h : Released s w) : Released s (w.updAux s f) := by
  intro l hl; rw [lk_updAux] at hl; exact h l hl

theorem released_backendClose {s : Nat} {w : World} {t : Option Nat} (hA : Acct t w) :
    Released s (backendClose w s) := by
  intro l hl
  rw [lk_backendClose s hA] at hl
  cases h : lk w s <;> simp [h] at hl
  rw [← hl]; exact Or.inr rfl

theorem released_connectionClose {s : Nat} {w : World} {t : Option Nat} (hA : Acct t w) :
    Released s (connectionClose w s) := by
  have R := released_backendClose (s := s) hA
  have R1 : Released s ((backendClose w s).updLink s fun l => { l with hctx := false }) := by
    intro l hl
    rw [lk_updLink, if_pos rfl] at hl
    cases h : lk (backendClose w s) s <;> simp [h] at hl
    rename_i l0
    rw [← hl]
    rcases R l0 h with e | e
    · exact Or.inl e
    · exact Or.inr e
  unfold connectionClose; dsimp only
  split
  · unfold backendDone; exact released_updAux _ R1
  · exact R1

theorem released_backendError {s : Nat} {w : World} {t : Option Nat} (hA : Acct t w) (ht : TOk t s) :
    Released s (backendError w s).2 := by
  unfold backendError; dsimp only
  exact released_connectionClose (acct_updAux _ _ hA ht.oth)

theorem released_reconnect {s : Nat} {w : World} {t : Option Nat} (hA : Acct t w) :
    Released s (reconnect w s).2 := by
  have R := released_backendClose (s := s) hA
  unfold reconnect; dsimp only
  split
  · intro l hl
    rw [lk_hostGet] at hl
    exact R l hl
  · intro l hl
    dsimp only at hl
    rw [lk_updLink, if_pos rfl] at hl
    simp only [Option.map_eq_some_iff] at hl
    obtain ⟨a, _, ha⟩ := hl
    rw [← ha]; exact Or.inl rfl

theorem released_recvResponseError {s : Nat} {w : World} {t : Option Nat} (hA : Acct t w) (ht : TOk t s) :
    Released s (recvResponseError w s).2 := by
  unfold recvResponseError; dsimp only
  split
  · split
    · exact released_reconnect (acct_updAux _ _ hA ht.oth)
    · exact released_backendError (acct_updAux _ _ hA ht.oth) ht
  · exact released_backendError hA ht

theorem released_writeErrorTail {s : Nat} {w : World} {t : Option Nat} (hA : Acct t w) (ht : TOk t s) :
    Released s (writeErrorTail w s).2 := by
  unfold writeErrorTail; dsimp only
  split
  · exact released_backendError (acct_updAux _ _ hA ht.oth) ht
  · exact released_backendError hA ht

theorem released_recvResponse {s : Nat} {w : World} (hA : Acct none w) (hne : (recvResponse w s).1 ≠ .goOn) :
    Released s (recvResponse w s).2 := by
  obtain ⟨sc, e⟩ := popRd_eq w
  have A1 : Acct none (popRd w).2 := by rw [e]; exact acct_script _ hA
  unfold recvResponse at hne ⊢
  dsimp only at hne ⊢
  split
  · rename_i h1; rw [if_pos h1] at hne; exact absurd rfl hne
  · rename_i h1
    split
    · rename_i h2; rw [if_neg h1, if_pos h2] at hne; exact absurd rfl hne
    · split
      · exact released_recvResponseError A1 (tok_none s)
      · exact released_connectionClose A1

theorem released_writeError {s : Nat} {w : World} (hA : Acct (some s) w) : Released s (writeError w s).2 := by
  have ht := tok_some s
  unfold writeError; dsimp only
  split
  · have A1 := acct_updAux s (fun a => { a with reconnects := a.reconnects + 1 }) (acct_restartIfLocal s hA) ht.oth
    split
    · exact released_reconnect A1
    · exact released_writeErrorTail A1 ht
  · rename_i hst
    have A0 : Acct none w := by
      refine acct_tighten' s hA ht ?_
      intro l hl e
      rw [lk_linkOf hl] at hst
      exact hst (Or.inl e)
    split
    · rename_i hne; exact released_recvResponse A0 hne
    · exact released_writeErrorTail (acct_recvResponse s A0) (tok_none s)

/-- gw_handle_trigger_hctx_timeout(), any kind: afterwards the request no longer waits on the
    backend it timed out on — socket released, proc released, restarted in GW_STATE_INIT on a
    host gw_host_get() chose or finished -/
theorem hctxTimeout_released (w : World) (s kind : Nat) (hA : Acct none w) :
    Released s (hctxTimeout w s kind) := by
  have ht := tok_none s
  unfold hctxTimeout; dsimp only
  have A0 : Acct none (if w.jobs.contains s then w else { w with jobs := s :: w.jobs }) := by
    split
    · exact hA
    · exact acct_jobs _ hA
  generalize (if w.jobs.contains s then w else { w with jobs := s :: w.jobs }) = W at A0 ⊢
  split
  · have A1 := acct_updAux s (fun a => { a with reconnects := a.reconnects + 1 }) (acct_slotConnectError s A0) ht.oth
    split
    · exact released_reconnect A1
    · unfold fix504; dsimp only
      have R := released_backendError (s := s) (acct_updAux s (fun a => { a with status := 503 }) A1 ht.oth) ht
      split
      · exact released_updAux _ R
      · exact R
  · split
    · have R := released_writeError (s := s) (acct_relax s A0 ht)
      split
      · exact released_updAux _ R
      · exact R
    · unfold fix504; dsimp only
      have R := released_backendError (s := s) A0 ht
      split
      · exact released_updAux _ R
      · exact R

/-- what `Released` means for the accounting: no socket, no proc -/
theorem released_holds_nothing {s : Nat} {w : World} (hA : Acct none w) (hR : Released s w) :
    ∀ l, lk w s = some l → l.fd = false ∧ l.proc = none := by
  intro l hl
  unfold lk at hl
  cases hc : w.slot s with
  | none => simp [hc] at hl
  | some c =>
    simp [hc] at hl
    have hok := hA.slots s c hc
    subst hl
    rcases hR c.link (lk_some hc) with e | e
    · have := hok.3 (by simp) e
      exact ⟨this.2, this.1⟩
    · have hp : c.link.proc = none := by
        cases hp : c.link.proc with
        | none => rfl
        | some p => have := hok.1 (by simp [hp]); simp [e] at this
      refine ⟨?_, hp⟩
      cases hf : c.link.fd with
      | false => rfl
      | true => have := hok.2 hf; simp [hp] at this

/-- the deadline checks of gw_handle_trigger_host_timeouts() -/
theorem timeoutStep_fires (h : Nat) (w : World) (s : Nat) :
    ((w.linkOf s).state = .connectDelayed → w.now - (w.auxOf s).writeTs > (w.host h).ctimeout →
      (w.host h).ctimeout ≠ 0 → timeoutStep h w s = hctxTimeout w s 0) ∧
    ((w.linkOf s).state ≠ .connectDelayed → (w.auxOf s).evIn = true →
      w.now - (w.auxOf s).readTs > (w.host h).rtimeout → (w.host h).rtimeout ≠ 0 →
      timeoutStep h w s = hctxTimeout w s 1) := by
  unfold timeoutStep; dsimp only
  refine ⟨fun h1 h2 h3 => ?_, fun h1 h2 h3 h4 => ?_⟩
  · rw [if_pos h1, if_pos ⟨h2, h3⟩]
  · rw [if_neg h1, if_pos ⟨h2, h3, h4⟩]

end LtVerif.Gw
