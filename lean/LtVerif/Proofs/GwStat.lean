/-
  C11 helper lemmas, part 5: the statistics key of gw_status_get_counter() (Model/GwStat.lean)
  determines (host id, proc id, tag) when host ids contain no '.'.
-/
import LtVerif.Model.GwStat
namespace LtVerif.GwStat
open LtVerif B

/-- a byte string is cut at its first `d` in one way only -/
theorem split_first {d : UInt8} : ∀ {a a' r r' : Bytes}, d ∉ a → d ∉ a' →
    a ++ d :: r = a' ++ d :: r' → a = a' ∧ r = r' := by
  intro a
  induction a with
  | nil =>
    intro a' r r' _ ha' h
    cases a' with
    | nil => simpa using h
    | cons x xs =>
      simp only [List.nil_append, List.cons_append, List.cons.injEq] at h
      exact absurd (h.1 ▸ List.mem_cons_self) ha'
  | cons y ys ih =>
    intro a' r r' ha ha' h
    cases a' with
    | nil =>
      simp only [List.nil_append, List.cons_append, List.cons.injEq] at h
      exact absurd (h.1 ▸ List.mem_cons_self) ha
    | cons x xs =>
      simp only [List.cons_append, List.cons.injEq] at h
      have := ih (fun m => ha (List.mem_cons_of_mem _ m)) (fun m => ha' (List.mem_cons_of_mem _ m)) h.2
      exact ⟨by rw [h.1, this.1], this.2⟩

/-! ### decimal rendering (li_utostrn) -/

theorem char_digit_facts (c : Char) (h : c.isDigit = true) :
    (c.toNat.toUInt8).toNat = c.toNat ∧ 48 ≤ c.toNat ∧ c.toNat ≤ 57 := by
  have h2 : 48 ≤ c.toNat ∧ c.toNat ≤ 57 := by
    simp only [Char.isDigit, Bool.and_eq_true, decide_eq_true_eq] at h
    have a := h.1
    have b := h.2
    have a' : (48 : UInt32).toNat ≤ c.val.toNat := UInt32.le_iff_toNat_le.mp a
    have b' : c.val.toNat ≤ (57 : UInt32).toNat := UInt32.le_iff_toNat_le.mp b
    have e : c.toNat = c.val.toNat := rfl
    have e1 : (48 : UInt32).toNat = 48 := by decide
    have e2 : (57 : UInt32).toNat = 57 := by decide
    omega
  refine ⟨?_, h2⟩
  simp only [Nat.toUInt8, UInt8.toNat_ofNat']
  omega

theorem natToDec_eq (n : Nat) :
    natToDec n = (Nat.toDigits 10 n).map fun ch => ch.toNat.toUInt8 := by
  simp [natToDec, ofString]

def decNat (v : Bytes) : Nat := v.foldl (fun a b => 10 * a + (b.toNat - 48)) 0

theorem foldl_congr_mem {α β : Type} (g1 g2 : β → α → β) : ∀ (l : List α) (init : β),
    (∀ c ∈ l, ∀ a, g1 a c = g2 a c) → l.foldl g1 init = l.foldl g2 init := by
  intro l
  induction l with
  | nil => intro _ _; rfl
  | cons x rest ih =>
    intro init h
    simp only [List.foldl_cons]
    rw [h x (by simp) init]
    exact ih _ (fun c hc a => h c (by simp [hc]) a)

theorem decNat_natToDec (n : Nat) : decNat (natToDec n) = n := by
  rw [natToDec_eq]
  unfold decNat
  rw [List.foldl_map]
  have := @Nat.ofDigitChars_ten_toDigits n
  rw [Nat.ofDigitChars_eq_foldl] at this
  refine Eq.trans ?_ this
  apply foldl_congr_mem
  intro c hc a
  have hd := Nat.isDigit_of_mem_toDigits (by decide) (by decide) hc
  obtain ⟨h1, _, _⟩ := char_digit_facts c hd
  rw [h1]
  rfl

theorem natToDec_inj {n m : Nat} (h : natToDec n = natToDec m) : n = m := by
  have := congrArg decNat h
  rwa [decNat_natToDec, decNat_natToDec] at this

theorem natToDec_digit (n : Nat) : ∀ b ∈ natToDec n, isDigit b = true := by
  rw [natToDec_eq]
  intro b hb
  obtain ⟨c, hc, rfl⟩ := List.mem_map.mp hb
  have hd := Nat.isDigit_of_mem_toDigits (by decide) (by decide) hc
  obtain ⟨h1, h2, h3⟩ := char_digit_facts c hd
  simp only [isDigit, Bool.and_eq_true, decide_eq_true_eq, UInt8.le_iff_toNat_le, h1]
  exact ⟨by simpa using h2, by simpa using h3⟩

theorem natToDec_cons (n : Nat) : ∃ c r, natToDec n = c :: r ∧ isDigit c = true := by
  have hne : natToDec n ≠ [] := by
    rw [natToDec_eq]
    have := @Nat.toDigits_ne_nil n 10
    cases h : Nat.toDigits 10 n with
    | nil => exact absurd h this
    | cons _ _ => simp
  cases h : natToDec n with
  | nil => exact absurd h hne
  | cons c r => exact ⟨c, r, rfl, natToDec_digit n c (h ▸ List.mem_cons_self)⟩

theorem dot_not_digit : isDigit dot = false := by decide

theorem natToDec_no_dot (n : Nat) : dot ∉ natToDec n := by
  intro h
  have := natToDec_digit n dot h
  rw [dot_not_digit] at this
  exact absurd this (by decide)

/-! ### the key determines its parts -/

theorem tags_ok : ∀ t ∈ tags, TagOk t := by
  intro t ht
  simp only [tags, List.mem_cons, List.not_mem_nil, or_false] at ht
  rcases ht with rfl | rfl | rfl | rfl | rfl
  · exact ⟨108, (ofString ".load").drop 2, by decide, by decide⟩
  · exact ⟨99, (ofString ".connected").drop 2, by decide, by decide⟩
  · exact ⟨100, (ofString ".died").drop 2, by decide, by decide⟩
  · exact ⟨111, (ofString ".overloaded").drop 2, by decide, by decide⟩
  · exact ⟨100, (ofString ".disabled").drop 2, by decide, by decide⟩

/-- the part after the host id: proc part and tag are recovered from it -/
theorem tail_inj {pr pr' : Option Nat} {t t' : Bytes} (ht : TagOk t) (ht' : TagOk t')
    (h : procPart pr ++ t = procPart pr' ++ t') : pr = pr' ∧ t = t' := by
  obtain ⟨c, r, rfl, hc⟩ := ht
  obtain ⟨c', r', rfl, hc'⟩ := ht'
  cases pr with
  | none =>
    cases pr' with
    | none => exact ⟨rfl, by simpa [procPart] using h⟩
    | some m =>
      obtain ⟨x, xs, hx, hd⟩ := natToDec_cons m
      simp only [procPart, List.nil_append, List.cons_append, hx, List.cons.injEq, true_and] at h
      rw [h.1, hd] at hc
      exact absurd hc (by decide)
  | some n =>
    cases pr' with
    | none =>
      obtain ⟨x, xs, hx, hd⟩ := natToDec_cons n
      simp only [procPart, List.nil_append, List.cons_append, hx, List.cons.injEq, true_and] at h
      rw [← h.1, hd] at hc'
      exact absurd hc' (by decide)
    | some m =>
      simp only [procPart, List.cons_append, List.cons.injEq, true_and] at h
      have := split_first (natToDec_no_dot n) (natToDec_no_dot m) h
      have e := natToDec_inj this.1
      exact ⟨by rw [e], by rw [this.2]⟩

theorem tail_starts_dot (pr : Option Nat) {t : Bytes} (ht : TagOk t) :
    ∃ r, procPart pr ++ t = dot :: r := by
  obtain ⟨c, r, rfl, _⟩ := ht
  cases pr with
  | none => exact ⟨_, rfl⟩
  | some n => exact ⟨_, rfl⟩

theorem statKey_inj {id id' : Bytes} {pr pr' : Option Nat} {t t' : Bytes}
    (hid : dot ∉ id) (hid' : dot ∉ id') (ht : TagOk t) (ht' : TagOk t')
    (h : statKey id pr t = statKey id' pr' t') : id = id' ∧ pr = pr' ∧ t = t' := by
  unfold statKey at h
  have h1 := List.append_cancel_left h
  obtain ⟨r, hr⟩ := tail_starts_dot pr ht
  obtain ⟨r', hr'⟩ := tail_starts_dot pr' ht'
  have h2 := h1
  rw [hr, hr'] at h2
  have := split_first hid hid' h2
  have h3 : procPart pr ++ t = procPart pr' ++ t' := by rw [hr, hr', this.2]
  exact ⟨this.1, tail_inj ht ht' h3⟩

/-! ### caseless look-up (array_keycmp) -/

theorem byte_forall {P : UInt8 → Prop} (h : ∀ n, n < 256 → P (UInt8.ofNat n)) (b : UInt8) : P b := by
  have := h b.toNat b.toNat_lt
  rwa [UInt8.ofNat_toNat] at this

set_option maxRecDepth 100000 in
theorem toLower_facts (b : UInt8) :
    (toLower b = dot → b = dot) ∧ isDigit (toLower b) = isDigit b ∧ (isDigit b = true → toLower b = b) :=
  byte_forall (P := fun b => (toLower b = dot → b = dot) ∧ isDigit (toLower b) = isDigit b ∧
    (isDigit b = true → toLower b = b)) (by decide) b

theorem lower_no_dot {id : Bytes} (h : dot ∉ id) : dot ∉ lower id := by
  intro hm
  obtain ⟨b, hb, e⟩ := List.mem_map.mp hm
  exact h ((toLower_facts b).1 e ▸ hb)

theorem lower_tagOk {t : Bytes} (h : TagOk t) : TagOk (lower t) := by
  obtain ⟨c, r, rfl, hc⟩ := h
  exact ⟨toLower c, lower r, by simp [lower, show toLower dot = dot by decide], by rw [(toLower_facts c).2.1, hc]⟩

theorem lower_digits : ∀ (l : Bytes), (∀ b ∈ l, isDigit b = true) → lower l = l := by
  intro l
  induction l with
  | nil => intro _; rfl
  | cons x xs ih =>
    intro h
    have hx := (toLower_facts x).2.2 (h x List.mem_cons_self)
    have := ih (fun b hb => h b (List.mem_cons_of_mem _ hb))
    simp only [lower, List.map_cons] at this ⊢
    rw [hx, this]

theorem lower_procPart (pr : Option Nat) : lower (procPart pr) = procPart pr := by
  cases pr with
  | none => rfl
  | some n =>
    have := lower_digits (natToDec n) (natToDec_digit n)
    simp only [lower, procPart, List.map_cons] at this ⊢
    rw [this, show toLower dot = dot by decide]

theorem lower_statKey (id : Bytes) (pr : Option Nat) (t : Bytes) :
    lower (statKey id pr t) = statKey (lower id) pr (lower t) := by
  have hp : lower keyPrefix = keyPrefix := by decide
  have hq := lower_procPart pr
  simp only [lower, statKey, List.map_append] at hp hq ⊢
  rw [hp, hq]

theorem sameEntry_inj {id id' : Bytes} {pr pr' : Option Nat} {t t' : Bytes}
    (hid : dot ∉ id) (hid' : dot ∉ id') (ht : TagOk t) (ht' : TagOk t')
    (h : sameEntry (statKey id pr t) (statKey id' pr' t') = true) :
    lower id = lower id' ∧ pr = pr' ∧ lower t = lower t' := by
  have h' : lower (statKey id pr t) = lower (statKey id' pr' t') := by simpa [sameEntry] using h
  rw [lower_statKey, lower_statKey] at h'
  exact statKey_inj (lower_no_dot hid) (lower_no_dot hid') (lower_tagOk ht) (lower_tagOk ht') h'

theorem sameEntry_of_fold {id id' : Bytes} {pr : Option Nat} {t t' : Bytes}
    (hi : lower id = lower id') (ht : lower t = lower t') :
    sameEntry (statKey id pr t) (statKey id' pr t') = true := by
  simp only [sameEntry, beq_iff_eq]
  rw [lower_statKey, lower_statKey, hi, ht]

end LtVerif.GwStat
