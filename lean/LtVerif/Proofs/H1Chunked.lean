/-
  Helper lemmas for the chunked decoder automaton (Model/H1Chunked.lean).
-/
import LtVerif.Model.H1Chunked
namespace LtVerif
open B

/-- a well-formed chunk-size line for a chunk of `n` bytes, as accepted by the decoder:
    any spelling (leading zeros, upper/lower hex, chunk extensions) that `ckParseLine` accepts -/
structure GoodLine (l : Bytes) (n : Nat) : Prop where
  parse : ckParseLine l = .ok n
  pre : ∃ p, l = p ++ [lf] ∧ lf ∉ p ∧ (0 : UInt8) ∉ p
  short : l.length < 1024

theorem ckFeed_nil (cfg : CkCfg) (s : CkSt) : ckFeed cfg s [] = s := rfl

theorem ckFeed_cons (cfg : CkCfg) (s : CkSt) (b : UInt8) (bs : Bytes) :
    ckFeed cfg s (b :: bs) = ckFeed cfg (ckStep cfg s b) bs := rfl

theorem ckFeed_append (cfg : CkCfg) (s : CkSt) (a b : Bytes) :
    ckFeed cfg s (a ++ b) = ckFeed cfg (ckFeed cfg s a) b := by
  simp [ckFeed, List.foldl_append]

/-- collecting the bytes of a size line that are not LF / NUL -/
theorem ckFeed_hdr_pre (cfg : CkCfg) (p : Bytes) : ∀ (acc : Bytes) (out : Bytes) (ka : Bool) (after : Nat),
    lf ∉ p → (0 : UInt8) ∉ p → acc.length + p.length < 1024 →
    ckFeed cfg { mode := .hdr acc false, out := out, ka := ka, after := after } p
      = { mode := .hdr (acc ++ p) false, out := out, ka := ka, after := after } := by
  induction p with
  | nil => intro acc out ka after _ _ _; simp [ckFeed_nil]
  | cons b rest ih =>
    intro acc out ka after hlf hnul hlen
    have hb : b ≠ lf := fun e => hlf (by simp [e])
    have hb0 : b ≠ 0 := fun e => hnul (by simp [e])
    have hrest : lf ∉ rest := fun e => hlf (by simp [e])
    have hrest0 : (0 : UInt8) ∉ rest := fun e => hnul (by simp [e])
    simp only [List.length_cons] at hlen
    rw [ckFeed_cons]
    have hstep : ckStep cfg { mode := .hdr acc false, out := out, ka := ka, after := after } b
        = { mode := .hdr (acc ++ [b]) false, out := out, ka := ka, after := after } := by
      simp [ckStep, hb, hb0]
      omega
    rw [hstep, ih (acc ++ [b]) out ka after hrest hrest0 (by simp; omega)]
    simp

/-- a complete good size line of a non-empty chunk moves the decoder to the data state -/
theorem ckFeed_goodline (cfg : CkCfg) (hcfg : cfg.maxSize = 0) {l : Bytes} {n : Nat}
    (h : GoodLine l n) (hn : n ≠ 0) (out : Bytes) (ka : Bool) (after : Nat) :
    ckFeed cfg { mode := .hdr [] false, out := out, ka := ka, after := after } l
      = { mode := .data n, out := out, ka := ka, after := after } := by
  obtain ⟨p, hl, hlf, hnul⟩ := h.pre
  have hshort := h.short
  subst hl
  simp only [List.length_append, List.length_singleton] at hshort
  rw [ckFeed_append, ckFeed_hdr_pre cfg p [] out ka after hlf hnul (by simp; omega)]
  simp only [List.nil_append, ckFeed_cons, ckFeed_nil]
  have hp := h.parse
  cases n with
  | zero => exact absurd rfl hn
  | succ k =>
    simp [ckStep, hp, hcfg]

/-- the last-chunk line moves the decoder to the trailer state -/
theorem ckFeed_lastline (cfg : CkCfg) {l : Bytes} (h : GoodLine l 0) (out : Bytes) (ka : Bool) (after : Nat) :
    ckFeed cfg { mode := .hdr [] false, out := out, ka := ka, after := after } l
      = { mode := .trailer l (l.length - 2) false, out := out, ka := ka, after := after } := by
  obtain ⟨p, hl, hlf, hnul⟩ := h.pre
  have hshort := h.short
  have hp := h.parse
  subst hl
  simp only [List.length_append, List.length_singleton] at hshort
  rw [ckFeed_append, ckFeed_hdr_pre cfg p [] out ka after hlf hnul (by simp; omega)]
  simp only [List.nil_append, ckFeed_cons, ckFeed_nil]
  simp [ckStep, hp]

/-- chunk data is copied to the output unchanged -/
theorem ckFeed_data (cfg : CkCfg) (d : Bytes) : ∀ (n : Nat) (out : Bytes) (ka : Bool) (after : Nat),
    d ≠ [] → d.length = n →
    ckFeed cfg { mode := .data n, out := out, ka := ka, after := after } d
      = { mode := .crlf none, out := out ++ d, ka := ka, after := after } := by
  induction d with
  | nil => intro n out ka after h; exact absurd rfl h
  | cons b rest ih =>
    intro n out ka after _ hlen
    rw [ckFeed_cons]
    cases rest with
    | nil =>
      simp only [List.length_cons, List.length_nil] at hlen
      subst hlen
      simp [ckStep, ckFeed_nil]
    | cons c rest' =>
      simp only [List.length_cons] at hlen
      have hn : ¬ n ≤ 1 := by omega
      have hstep : ckStep cfg { mode := .data n, out := out, ka := ka, after := after } b
          = { mode := .data (n - 1), out := out ++ [b], ka := ka, after := after } := by
        simp [ckStep, hn]
      rw [hstep, ih (n - 1) (out ++ [b]) ka after (by simp) (by simp; omega)]
      simp

theorem ckFeed_crlf (cfg : CkCfg) (out : Bytes) (ka : Bool) (after : Nat) :
    ckFeed cfg { mode := .crlf none, out := out, ka := ka, after := after } [cr, lf]
      = { mode := .hdr [] false, out := out, ka := ka, after := after } := by
  simp [ckFeed_cons, ckFeed_nil, ckStep]

/-- one complete chunk: size line, data, CRLF -/
theorem ckFeed_chunk (cfg : CkCfg) (hcfg : cfg.maxSize = 0) {l d : Bytes}
    (h : GoodLine l d.length) (hd : d ≠ []) (out : Bytes) (ka : Bool) (after : Nat) :
    ckFeed cfg { mode := .hdr [] false, out := out, ka := ka, after := after } (l ++ d ++ [cr, lf])
      = { mode := .hdr [] false, out := out ++ d, ka := ka, after := after } := by
  have hn : d.length ≠ 0 := by
    intro e; exact hd (List.length_eq_zero_iff.mp e)
  rw [ckFeed_append, ckFeed_append, ckFeed_goodline cfg hcfg h hn, ckFeed_data cfg d d.length out ka after hd rfl,
      ckFeed_crlf]

theorem ckParseLine_cr {l : Bytes} {n : Nat} (h : ckParseLine l = .ok n) :
    l.getD (l.length - 2) 0 = cr := by
  apply Decidable.byContradiction
  intro hne
  unfold ckParseLine at h
  split at h
  · simp at h
  · simp only [] at h
    split at h
    · simp at h
    · simp [hne] at h

theorem goodline_ends_crlf {l : Bytes} {n : Nat} (h : GoodLine l n) :
    ∃ q, l = q ++ [cr, lf] := by
  obtain ⟨p, hl, _, _⟩ := h.pre
  have hcr := ckParseLine_cr h.parse
  subst hl
  have hlen : (p ++ [lf]).length - 2 = p.length - 1 := by simp
  rw [hlen] at hcr
  cases hpl : p.getLast? with
  | none =>
    have : p = [] := by simpa [List.getLast?_eq_none_iff] using hpl
    subst this
    simp [lf, cr] at hcr
  | some c =>
    obtain ⟨q, hq⟩ : ∃ q, p = q ++ [c] := by
      have := List.getLast?_eq_some_iff.mp hpl
      obtain ⟨q, hq⟩ := this
      exact ⟨q, hq⟩
    subst hq
    have : (q ++ [c] ++ [lf]).getD ((q ++ [c]).length - 1) 0 = c := by
      simp [List.getD_eq_getElem?_getD, List.getElem?_append_left]
    rw [this] at hcr
    subst hcr
    exact ⟨q, by simp⟩

/-- after the last-chunk line, the final CRLF ends the body -/
theorem ckFeed_final (cfg : CkCfg) (hmf : cfg.maxField ≥ 1026) {l : Bytes} (h : GoodLine l 0)
    (out : Bytes) (ka : Bool) (after : Nat) :
    ckFeed cfg { mode := .hdr [] false, out := out, ka := ka, after := after } (l ++ [cr, lf])
      = { mode := .done, out := out, ka := ka, after := after } := by
  rw [ckFeed_append, ckFeed_lastline cfg h]
  obtain ⟨q, hq⟩ := goodline_ends_crlf h
  have hshort := h.short
  subst hq
  simp only [List.length_append, List.length_cons, List.length_nil] at hshort
  have hlen : (q ++ [cr, lf]).length - 2 = q.length := by simp
  rw [hlen]
  simp only [ckFeed_cons, ckFeed_nil]
  have h1 : ckStep cfg { mode := .trailer (q ++ [cr, lf]) q.length false, out := out, ka := ka, after := after } cr
      = { mode := .trailer (q ++ [cr, lf] ++ [cr]) q.length false, out := out, ka := ka, after := after } := by
    have hne : ¬ (q.length + 2 + 1 ≥ cfg.maxField) := by omega
    simp [ckStep, endsCrlfCrlf, cr, hne]
  rw [h1]
  simp [ckStep, endsCrlfCrlf, lf, cr]

/-! ### trailer sections -/

/-- a trailer section `tr` (everything behind the last-chunk line `last`, including the final CRLF; `[cr, lf]` =
    no trailer fields): NUL-free, its first CRLFCRLF -- counted from the CRLF of the last-chunk line -- is its
    end, and it fits max-request-field-size together with the last-chunk line -/
structure TrailerOk (cfg : CkCfg) (last tr : Bytes) : Prop where
  nonempty : tr ≠ []
  nul : (0 : UInt8) ∉ tr
  ends : endsCrlfCrlf ((last ++ tr).drop (last.length - 2)) = true
  first : ∀ k, k < tr.length → 0 < k → endsCrlfCrlf ((last ++ tr.take k).drop (last.length - 2)) = false
  size : (last ++ tr).length ≤ cfg.maxField

theorem ckFeed_trailer_bytes (cfg : CkCfg) (off : Nat) (out : Bytes) (ka : Bool) (after : Nat) :
    ∀ (rest acc : Bytes), rest ≠ [] → (0 : UInt8) ∉ rest →
    endsCrlfCrlf ((acc ++ rest).drop off) = true →
    (∀ k, k < rest.length → 0 < k → endsCrlfCrlf ((acc ++ rest.take k).drop off) = false) →
    (acc ++ rest).length ≤ cfg.maxField →
    ckFeed cfg { mode := .trailer acc off false, out := out, ka := ka, after := after } rest
      = { mode := .done, out := out, ka := ka, after := after } := by
  intro rest
  induction rest with
  | nil => intro acc h; exact absurd rfl h
  | cons b rest' ih =>
    intro acc _ hnul hends hfirst hsize
    have hb0 : b ≠ 0 := fun e => hnul (by simp [e])
    rw [ckFeed_cons]
    by_cases hre : rest' = []
    · subst hre
      have : ckStep cfg { mode := .trailer acc off false, out := out, ka := ka, after := after } b
          = { mode := .done, out := out, ka := ka, after := after } := by
        simp [ckStep, hb0, hends]
      rw [this, ckFeed_nil]
    · have hlen : 0 < rest'.length := List.length_pos_iff.mpr hre
      have h1 := hfirst 1 (by simp; omega) (by omega)
      simp only [List.take_succ_cons, List.take_zero] at h1
      have hsz : ¬ ((acc ++ [b]).length ≥ cfg.maxField) := by
        simp only [List.length_append, List.length_cons] at hsize ⊢
        simp; omega
      have : ckStep cfg { mode := .trailer acc off false, out := out, ka := ka, after := after } b
          = { mode := .trailer (acc ++ [b]) off false, out := out, ka := ka, after := after } := by
        simp [ckStep, hb0, h1]
        simpa using hsz
      rw [this]
      apply ih (acc ++ [b]) hre (fun e => hnul (by simp [e]))
      · simpa using hends
      · intro k hk1 hk2
        have := hfirst (k + 1) (by simp; omega) (by omega)
        simpa using this
      · simpa using hsize

/-- a last-chunk line followed by a trailer section ends the body exactly at the section's end -/
theorem ckFeed_final_trailers (cfg : CkCfg) {last tr : Bytes} (h : GoodLine last 0) (ht : TrailerOk cfg last tr)
    (out : Bytes) (ka : Bool) (after : Nat) :
    ckFeed cfg { mode := .hdr [] false, out := out, ka := ka, after := after } (last ++ tr)
      = { mode := .done, out := out, ka := ka, after := after } := by
  rw [ckFeed_append, ckFeed_lastline cfg h]
  exact ckFeed_trailer_bytes cfg _ out ka after tr last ht.nonempty ht.nul ht.ends ht.first ht.size

/-- no trailer fields: the final CRLF alone is a trailer section -/
theorem TrailerOk.plain (cfg : CkCfg) (hmf : cfg.maxField ≥ 1026) {last : Bytes} (h : GoodLine last 0) :
    TrailerOk cfg last [cr, lf] := by
  obtain ⟨q, hq⟩ := goodline_ends_crlf h
  have hshort := h.short
  subst hq
  simp only [List.length_append, List.length_cons, List.length_nil] at hshort
  have hlen : (q ++ [cr, lf]).length - 2 = q.length := by simp
  refine ⟨by simp, by decide, ?_, ?_, ?_⟩
  · rw [hlen]; simp [endsCrlfCrlf]
  · intro k hk1 hk2
    have : k = 1 := by simp at hk1; omega
    subst this
    rw [hlen]
    simp [endsCrlfCrlf]
  · simp; omega

/-! ### the chunk-size line against the RFC 9112 grammar -/

/-- not a control character (HT allowed) -/
def notCtl (c : UInt8) : Bool := !((c < 32 && c ≠ ht) || c = 127)

def hexFold (v : Nat) (hx : Bytes) : Nat := hx.foldl (fun a d => a * 16 + ((hexVal d).getD 0).toNat) v

/-- RFC 9112 §7.1 chunk-size line `chunk-size [chunk-ext] CRLF` with `n` the value of chunk-size, chunk-ext
    relaxed to `BWS ";" *( HTAB / SP / VCHAR / obs-text )` (no structure inside the extension, but no control
    character, in particular no bare CR or LF), BWS also allowed directly before the CRLF, at most 1023 bytes.
    Stated without reference to the decoder. -/
structure SizeLine (l : Bytes) (n : Nat) : Prop where
  dec : ∃ hx bws ext, l = hx ++ bws ++ ext ++ [cr, lf] ∧ hx ≠ [] ∧ (∀ b ∈ hx, (hexVal b).isSome = true) ∧
        hexFold 0 hx = n ∧ (∀ b ∈ bws, b = sp ∨ b = ht) ∧
        (ext = [] ∨ (ext.head? = some 59 ∧ ext.all notCtl = true))
  short : l.length < 1024

theorem ckHex_spec : ∀ (line : Bytes) (v k v' k' : Nat), ckHex line v k = some (v', k') →
    ∃ hx rest, line = hx ++ rest ∧ k' = k + hx.length ∧ (∀ b ∈ hx, (hexVal b).isSome = true) ∧
      (rest.head?.bind hexVal) = none ∧ v' = hexFold v hx := by
  intro line
  induction line with
  | nil =>
    intro v k v' k' h
    simp only [ckHex, Option.some.injEq, Prod.mk.injEq] at h
    exact ⟨[], [], rfl, by simp [h.2], by simp, rfl, by simp [hexFold, h.1]⟩
  | cons b rest ih =>
    intro v k v' k' h
    unfold ckHex at h
    split at h
    · rename_i hb
      simp only [Option.some.injEq, Prod.mk.injEq] at h
      exact ⟨[], b :: rest, rfl, by simp [h.2], by simp, by simp [hb], by simp [hexFold, h.1]⟩
    · rename_i d hd
      split at h
      · simp at h
      · obtain ⟨hx, rest', h1, h2, h3, h4, h5⟩ := ih _ _ _ _ h
        refine ⟨b :: hx, rest', by simp [h1], by simp [h2]; omega, ?_, h4, ?_⟩
        · intro x hx'
          simp only [List.mem_cons] at hx'
          rcases hx' with rfl | hx'
          · simp [hd]
          · exact h3 x hx'
        · simp [hexFold, hd] at h5 ⊢; exact h5

theorem lf_not_hex : hexVal lf = none := by decide
theorem cr_not_hex : hexVal cr = none := by decide

theorem sizeLine_of_facts (p line : Bytes) (v k : Nat) (hl : p ++ [lf] = line)
    (hck : ckHex line 0 0 = some (v, k)) (hk0 : ¬ k = 0) (hcr' : line.getD (line.length - 2) 0 = cr)
    (hshort : line.length < 1024)
    (hcond : k = line.length - 2 ∨
      ∃ c, ((line.drop k).dropWhile (fun b => b = sp || b = ht)).head? = some c ∧ (c = cr ∨ c = 59) ∧
        ∀ x ∈ ((line.drop k).dropWhile (fun b => b = sp || b = ht)).take
                (((line.drop k).dropWhile (fun b => b = sp || b = ht)).length - 2), notCtl x = true) :
    SizeLine line v := by
  obtain ⟨hx, rest, h1, h2, h3, h4, h5⟩ := ckHex_spec _ _ _ _ _ hck
  simp only [Nat.zero_add] at h2
  have hxne : hx ≠ [] := by
    intro e; subst e; simp at h2; exact hk0 h2
  -- the line is q ++ [cr, lf]
  obtain ⟨q, hq⟩ : ∃ q, p = q ++ [cr] := by
    subst hl
    have hlen : (p ++ [lf]).length - 2 = p.length - 1 := by simp
    rw [hlen] at hcr'
    cases hpl : p.getLast? with
    | none =>
      have : p = [] := by simpa [List.getLast?_eq_none_iff] using hpl
      subst this
      simp [lf, cr] at hcr'
    | some c =>
      obtain ⟨q, hq⟩ := List.getLast?_eq_some_iff.mp hpl
      subst hq
      have : (q ++ [c] ++ [lf]).getD ((q ++ [c]).length - 1) 0 = c := by
        simp [List.getD_eq_getElem?_getD]
      rw [this] at hcr'
      subst hcr'
      exact ⟨q, rfl⟩
  subst hq
  have hline : line = q ++ [cr, lf] := by rw [← hl]; simp
  refine ⟨?_, hshort⟩
  rcases hcond with hkn | ⟨c, hhd, hc, hall⟩
  · -- nothing between the size and CRLF
    have hlen : hx.length = q.length := by rw [← h2, hkn, hline]; simp
    have hsplit : hx ++ rest = q ++ [cr, lf] := by rw [← h1, hline]
    have hq : hx = q := List.append_inj_left hsplit hlen
    exact ⟨hx, [], [], by rw [hline, hq]; simp, hxne, h3, h5.symm, by simp, .inl rfl⟩
  · have hdrop : line.drop k = rest := by
      rw [h1, h2]; simp
    rw [hdrop] at hhd hall
    generalize hr' : rest.dropWhile (fun b => b = sp || b = ht) = rest' at hhd hall
    have hrsplit : rest = rest.takeWhile (fun b => b = sp || b = ht) ++ rest' := by
      rw [← hr']; exact (List.takeWhile_append_dropWhile).symm
    generalize hbw : rest.takeWhile (fun b => b = sp || b = ht) = bws at hrsplit
    have hbws : ∀ b ∈ bws, b = sp ∨ b = ht := by
      intro b hb
      rw [← hbw] at hb
      have hall' := List.all_takeWhile (l := rest) (p := fun b => b = sp || b = ht)
      have := List.all_eq_true.mp hall' b hb
      simpa using this
    -- rest' is a suffix of q ++ [cr, lf] of length >= 2
    have hfull : hx ++ bws ++ rest' = q ++ [cr, lf] := by
      rw [← hline, h1, hrsplit]; simp
    have hr2 : 2 ≤ rest'.length := by
      have hne : rest' ≠ [] := by intro e; simp [e] at hhd
      apply Decidable.byContradiction
      intro hlt
      have h1' : rest'.length = 1 := by
        have := List.length_pos_iff.mpr hne; omega
      obtain ⟨x, hx1⟩ := List.length_eq_one_iff.mp h1'
      subst hx1
      have hlast := congrArg List.getLast? hfull
      simp at hlast
      simp at hhd
      subst hhd hlast
      rcases hc with hc | hc <;> simp [lf, cr] at hc
    have hm : (hx ++ bws).length ≤ q.length := by
      have := congrArg List.length hfull
      simp at this; simp; omega
    have hrest' : rest' = q.drop (hx ++ bws).length ++ [cr, lf] := by
      have h1' : (hx ++ bws ++ rest').drop (hx ++ bws).length = rest' := by simp
      rw [hfull, List.drop_append_of_le_length hm] at h1'
      exact h1'.symm
    generalize hext : q.drop (hx ++ bws).length = ext at hrest'
    have htake : rest'.take (rest'.length - 2) = ext := by
      rw [hrest']; simp
    rw [htake] at hall
    have hq : q = hx ++ bws ++ ext := by
      have := List.take_append_drop (hx ++ bws).length q
      rw [hext] at this
      have htk : q.take (hx ++ bws).length = hx ++ bws := by
        have h2' : (hx ++ bws ++ rest').take (hx ++ bws).length = hx ++ bws := List.take_left' rfl
        rw [hfull, List.take_append_of_le_length hm] at h2'
        exact h2'
      rw [htk] at this
      exact this.symm
    refine ⟨hx, bws, ext, by rw [hline, hq], hxne, h3, h5.symm, hbws, ?_⟩
    cases hex : ext with
    | nil => exact .inl rfl
    | cons e ext' =>
      right
      subst hex
      have hce : c = e := by
        rw [hrest'] at hhd; simpa using hhd.symm
      subst hce
      rcases hc with hc | hc
      · subst hc
        have := hall cr (by simp)
        simp [notCtl, cr, ht] at this
      · subst hc
        exact ⟨by simp, by rw [List.all_eq_true]; exact hall⟩

/-- **soundness of the chunk-size line validator against the grammar**: every line (ending in LF) the decoder
    accepts with size `n` is a `SizeLine` of value `n` -/
theorem ckParseLine_sound (p : Bytes) (n : Nat) (h : ckParseLine (p ++ [lf]) = .ok n) : SizeLine (p ++ [lf]) n := by
  generalize hl : p ++ [lf] = line at h ⊢
  unfold ckParseLine at h
  split at h
  · simp at h
  · rename_i v k hck
    simp only at h
    split at h
    · simp at h
    · rename_i hk0
      split at h
      · simp at h
      · rename_i hcr
        have hcr' : line.getD (line.length - 2) 0 = cr := by simpa using hcr
        repeat' split at h
        all_goals first
          | (simp at h; done)
          | (exfalso; simp_all; done)
          | (simp only [Except.ok.injEq] at h
             subst h
             refine sizeLine_of_facts p line _ k hl hck hk0 hcr' (by omega) ?_
             first
               | (left; assumption)
               | (right
                  rename_i _ c hhd hbad _
                  simp only [Bool.not_eq_true', Bool.not_eq_false, Bool.and_eq_true, Bool.or_eq_true,
                             decide_eq_true_eq] at hbad
                  refine ⟨c, hhd, hbad.1, fun x hx => ?_⟩
                  have := List.all_eq_true.mp hbad.2 x hx
                  simpa [notCtl] using this))

/-! ### stage statement (validator verdict ⇒ decoder state; the property theorem is
    `c01_chunked_malformed_size_line_rejected`, against the grammar) -/

/-- An invalid chunk-size line (as judged by the line validator) is a 400. -/
theorem stage_chunked_bad_size_line_rejected (cfg : CkCfg) (p : Bytes) (e : Nat) (out : Bytes) (ka : Bool)
    (hlf : lf ∉ p) (hnul : (0 : UInt8) ∉ p) (hlen : p.length + 1 < 1024)
    (hbad : ckParseLine (p ++ [lf]) = .error e) :
    (ckFeed cfg { mode := .hdr [] false, out := out, ka := ka, after := 0 } (p ++ [lf])).mode = .err e ∧
    (ckFeed cfg { mode := .hdr [] false, out := out, ka := ka, after := 0 } (p ++ [lf])).ka = false := by
  rw [ckFeed_append, ckFeed_hdr_pre cfg p [] out ka 0 hlf hnul (by simp; omega)]
  simp [ckFeed_cons, ckFeed_nil, ckStep, hbad]

end LtVerif
