/-
  Helper lemmas for the chunked decoder automaton (Model/H1Chunked.lean).
-/
import LtVerif.Model.H1Chunked
namespace LtVerif
open B

/-- a well-formed chunk-size line for a chunk of `n` bytes, as accepted by the decoder:
    any spelling (leading zeros, upper/lower hex, chunk extensions) that `ckParseLine` accepts -/
structure GoodLine (l : Bytes) (n : Nat) : Prop where
  parse : ckParseLine l = .ok n
  pre : ∃ p, l = p ++ [lf] ∧ lf ∉ p ∧ (0 : UInt8) ∉ p
  short : l.length < 1024

theorem ckFeed_nil (cfg : CkCfg) (s : CkSt) : ckFeed cfg s [] = s := rfl

theorem ckFeed_cons (cfg : CkCfg) (s : CkSt) (b : UInt8) (bs : Bytes) :
    ckFeed cfg s (b :: bs) = ckFeed cfg (ckStep cfg s b) bs := rfl

theorem ckFeed_append (cfg : CkCfg) (s : CkSt) (a b : Bytes) :
    ckFeed cfg s (a ++ b) = ckFeed cfg (ckFeed cfg s a) b := by
  simp [ckFeed, List.foldl_append]

/-- collecting the bytes of a size line that are not LF / NUL -/
theorem ckFeed_hdr_pre (cfg : CkCfg) (p : Bytes) : ∀ (acc : Bytes) (out : Bytes) (ka : Bool) (after : Nat),
    lf ∉ p → (0 : UInt8) ∉ p → acc.length + p.length < 1024 →
    ckFeed cfg { mode := .hdr acc false, out := out, ka := ka, after := after } p
      = { mode := .hdr (acc ++ p) false, out := out, ka := ka, after := after } := by
  induction p with
  | nil => intro acc out ka after _ _ _; simp [ckFeed_nil]
  | cons b rest ih =>
    intro acc out ka after hlf hnul hlen
    have hb : b ≠ lf := fun e => hlf (by simp [e])
    have hb0 : b ≠ 0 := fun e => hnul (by simp [e])
    have hrest : lf ∉ rest := fun e => hlf (by simp [e])
    have hrest0 : (0 : UInt8) ∉ rest := fun e => hnul (by simp [e])
    simp only [List.length_cons] at hlen
    rw [ckFeed_cons]
    have hstep : ckStep cfg { mode := .hdr acc false, out := out, ka := ka, after := after } b
        = { mode := .hdr (acc ++ [b]) false, out := out, ka := ka, after := after } := by
      simp [ckStep, hb, hb0]
      omega
    rw [hstep, ih (acc ++ [b]) out ka after hrest hrest0 (by simp; omega)]
    simp

/-- a complete good size line of a non-empty chunk moves the decoder to the data state -/
theorem ckFeed_goodline (cfg : CkCfg) (hcfg : cfg.maxSize = 0) {l : Bytes} {n : Nat}
    (h : GoodLine l n) (hn : n ≠ 0) (out : Bytes) (ka : Bool) (after : Nat) :
    ckFeed cfg { mode := .hdr [] false, out := out, ka := ka, after := after } l
      = { mode := .data n, out := out, ka := ka, after := after } := by
  obtain ⟨p, hl, hlf, hnul⟩ := h.pre
  have hshort := h.short
  subst hl
  simp only [List.length_append, List.length_singleton] at hshort
  rw [ckFeed_append, ckFeed_hdr_pre cfg p [] out ka after hlf hnul (by simp; omega)]
  simp only [List.nil_append, ckFeed_cons, ckFeed_nil]
  have hp := h.parse
  cases n with
  | zero => exact absurd rfl hn
  | succ k =>
    simp [ckStep, hp, hcfg]

/-- the last-chunk line moves the decoder to the trailer state -/
theorem ckFeed_lastline (cfg : CkCfg) {l : Bytes} (h : GoodLine l 0) (out : Bytes) (ka : Bool) (after : Nat) :
    ckFeed cfg { mode := .hdr [] false, out := out, ka := ka, after := after } l
      = { mode := .trailer l (l.length - 2) false, out := out, ka := ka, after := after } := by
  obtain ⟨p, hl, hlf, hnul⟩ := h.pre
  have hshort := h.short
  have hp := h.parse
  subst hl
  simp only [List.length_append, List.length_singleton] at hshort
  rw [ckFeed_append, ckFeed_hdr_pre cfg p [] out ka after hlf hnul (by simp; omega)]
  simp only [List.nil_append, ckFeed_cons, ckFeed_nil]
  simp [ckStep, hp]

/-- chunk data is copied to the output unchanged -/
theorem ckFeed_data (cfg : CkCfg) (d : Bytes) : ∀ (n : Nat) (out : Bytes) (ka : Bool) (after : Nat),
    d ≠ [] → d.length = n →
    ckFeed cfg { mode := .data n, out := out, ka := ka, after := after } d
      = { mode := .crlf none, out := out ++ d, ka := ka, after := after } := by
  induction d with
  | nil => intro n out ka after h; exact absurd rfl h
  | cons b rest ih =>
    intro n out ka after _ hlen
    rw [ckFeed_cons]
    cases rest with
    | nil =>
      simp only [List.length_cons, List.length_nil] at hlen
      subst hlen
      simp [ckStep, ckFeed_nil]
    | cons c rest' =>
      simp only [List.length_cons] at hlen
      have hn : ¬ n ≤ 1 := by omega
      have hstep : ckStep cfg { mode := .data n, out := out, ka := ka, after := after } b
          = { mode := .data (n - 1), out := out ++ [b], ka := ka, after := after } := by
        simp [ckStep, hn]
      rw [hstep, ih (n - 1) (out ++ [b]) ka after (by simp) (by simp; omega)]
      simp

theorem ckFeed_crlf (cfg : CkCfg) (out : Bytes) (ka : Bool) (after : Nat) :
    ckFeed cfg { mode := .crlf none, out := out, ka := ka, after := after } [cr, lf]
      = { mode := .hdr [] false, out := out, ka := ka, after := after } := by
  simp [ckFeed_cons, ckFeed_nil, ckStep]

/-- one complete chunk: size line, data, CRLF -/
theorem ckFeed_chunk (cfg : CkCfg) (hcfg : cfg.maxSize = 0) {l d : Bytes}
    (h : GoodLine l d.length) (hd : d ≠ []) (out : Bytes) (ka : Bool) (after : Nat) :
    ckFeed cfg { mode := .hdr [] false, out := out, ka := ka, after := after } (l ++ d ++ [cr, lf])
      = { mode := .hdr [] false, out := out ++ d, ka := ka, after := after } := by
  have hn : d.length ≠ 0 := by
    intro e; exact hd (List.length_eq_zero_iff.mp e)
  rw [ckFeed_append, ckFeed_append, ckFeed_goodline cfg hcfg h hn, ckFeed_data cfg d d.length out ka after hd rfl,
      ckFeed_crlf]

theorem ckParseLine_cr {l : Bytes} {n : Nat} (h : ckParseLine l = .ok n) :
    l.getD (l.length - 2) 0 = cr := by
  apply Decidable.byContradiction
  intro hne
  unfold ckParseLine at h
  split at h
  · simp at h
  · simp only [] at h
    split at h
    · simp at h
    · simp [hne] at h

theorem goodline_ends_crlf {l : Bytes} {n : Nat} (h : GoodLine l n) :
    ∃ q, l = q ++ [cr, lf] := by
  obtain ⟨p, hl, _, _⟩ := h.pre
  have hcr := ckParseLine_cr h.parse
  subst hl
  have hlen : (p ++ [lf]).length - 2 = p.length - 1 := by simp
  rw [hlen] at hcr
  cases hpl : p.getLast? with
  | none =>
    have : p = [] := by simpa [List.getLast?_eq_none_iff] using hpl
    subst this
    simp [lf, cr] at hcr
  | some c =>
    obtain ⟨q, hq⟩ : ∃ q, p = q ++ [c] := by
      have := List.getLast?_eq_some_iff.mp hpl
      obtain ⟨q, hq⟩ := this
      exact ⟨q, hq⟩
    subst hq
    have : (q ++ [c] ++ [lf]).getD ((q ++ [c]).length - 1) 0 = c := by
      simp [List.getD_eq_getElem?_getD, List.getElem?_append_left]
    rw [this] at hcr
    subst hcr
    exact ⟨q, by simp⟩

/-- after the last-chunk line, the final CRLF ends the body -/
theorem ckFeed_final (cfg : CkCfg) (hmf : cfg.maxField ≥ 1026) {l : Bytes} (h : GoodLine l 0)
    (out : Bytes) (ka : Bool) (after : Nat) :
    ckFeed cfg { mode := .hdr [] false, out := out, ka := ka, after := after } (l ++ [cr, lf])
      = { mode := .done, out := out, ka := ka, after := after } := by
  rw [ckFeed_append, ckFeed_lastline cfg h]
  obtain ⟨q, hq⟩ := goodline_ends_crlf h
  have hshort := h.short
  subst hq
  simp only [List.length_append, List.length_cons, List.length_nil] at hshort
  have hlen : (q ++ [cr, lf]).length - 2 = q.length := by simp
  rw [hlen]
  simp only [ckFeed_cons, ckFeed_nil]
  have h1 : ckStep cfg { mode := .trailer (q ++ [cr, lf]) q.length false, out := out, ka := ka, after := after } cr
      = { mode := .trailer (q ++ [cr, lf] ++ [cr]) q.length false, out := out, ka := ka, after := after } := by
    have hne : ¬ (q.length + 2 + 1 ≥ cfg.maxField) := by omega
    simp [ckStep, endsCrlfCrlf, cr, hne]
  rw [h1]
  simp [ckStep, endsCrlfCrlf, lf, cr]

end LtVerif
