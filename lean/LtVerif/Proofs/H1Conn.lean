/-
  Helper lemmas for the connection automaton (Model/H1Conn.lean).
-/
import LtVerif.Model.H1Conn
import LtVerif.Proofs.H1Chunked
namespace LtVerif
open B

/-! ### feeding -/

theorem stepAcc_foldl (cfg : ConnCfg) (bs : Bytes) : ∀ (s : ConnSt) (pre : List Event),
    bs.foldl (stepAcc cfg) (s, pre) = ((h1Feed cfg s bs).1, pre ++ (h1Feed cfg s bs).2) := by
  induction bs with
  | nil => intro s pre; simp [h1Feed]
  | cons b rest ih =>
    intro s pre
    simp only [h1Feed, List.foldl_cons, stepAcc]
    rw [ih, ih (h1Step cfg s b).1 ([] ++ (h1Step cfg s b).2)]
    simp [h1Feed]

theorem h1Feed_nil (cfg : ConnCfg) (s : ConnSt) : h1Feed cfg s [] = (s, []) := rfl

theorem h1Feed_cons (cfg : ConnCfg) (s : ConnSt) (b : UInt8) (bs : Bytes) :
    h1Feed cfg s (b :: bs) =
      ((h1Feed cfg (h1Step cfg s b).1 bs).1, (h1Step cfg s b).2 ++ (h1Feed cfg (h1Step cfg s b).1 bs).2) := by
  simp only [h1Feed, List.foldl_cons, stepAcc]
  rw [stepAcc_foldl]
  simp [h1Feed]

theorem h1Feed_single (cfg : ConnCfg) (s : ConnSt) (b : UInt8) : h1Feed cfg s [b] = h1Step cfg s b := by
  rw [h1Feed_cons, h1Feed_nil]; simp

theorem h1Feed_append (cfg : ConnCfg) (a b : Bytes) : ∀ (s : ConnSt),
    h1Feed cfg s (a ++ b) =
      ((h1Feed cfg (h1Feed cfg s a).1 b).1, (h1Feed cfg s a).2 ++ (h1Feed cfg (h1Feed cfg s a).1 b).2) := by
  induction a with
  | nil => intro s; simp [h1Feed_nil]
  | cons x rest ih =>
    intro s
    simp only [List.cons_append, h1Feed_cons, ih, List.append_assoc]

/-- a step that emits nothing: feeding continues from the new state -/
theorem h1Feed_cons_silent (cfg : ConnCfg) (s s' : ConnSt) (b : UInt8) (bs : Bytes)
    (h : h1Step cfg s b = (s', [])) : h1Feed cfg s (b :: bs) = h1Feed cfg s' bs := by
  rw [h1Feed_cons, h]; simp

/-! ### event classes -/

@[simp] theorem isResponse_close : Event.close.isResponse = false := rfl
@[simp] theorem isResponse_unmodelled : Event.unmodelled.isResponse = false := rfl
@[simp] theorem isResponse_reject (e : Nat) : (Event.reject e).isResponse = true := rfl
@[simp] theorem isRequest_close : Event.close.isRequest = false := rfl
@[simp] theorem isRequest_unmodelled : Event.unmodelled.isRequest = false := rfl
@[simp] theorem isRequest_reject (e : Nat) : (Event.reject e).isRequest = false := rfl

theorem isResponse_of_isRequest {ev : Event} (h : ev.isRequest = true) : ev.isResponse = true := by
  cases ev <;> simp_all [Event.isRequest, Event.isResponse]

/-! ### closed is absorbing -/

theorem h1Step_closed (cfg : ConnCfg) (c : Nat) (b : UInt8) :
    h1Step cfg { phase := .closed, count := c } b = ({ phase := .closed, count := c }, []) := rfl

theorem h1Feed_closed (cfg : ConnCfg) (c : Nat) (bs : Bytes) :
    h1Feed cfg { phase := .closed, count := c } bs = ({ phase := .closed, count := c }, []) := by
  induction bs with
  | nil => rfl
  | cons b rest ih => rw [h1Feed_cons, h1Step_closed]; simp [ih]

/-! ### shape of a step's output -/

/-- possible outputs of one step -/
inductive StepOut : ConnSt → ConnSt × List Event → Prop
  | silent (s s' : ConnSt) (h : s'.isClosed = false) (hc : s'.count = s.count) : StepOut s (s', [])
  | closedIdle (s : ConnSt) (h : s.isClosed = true) : StepOut s (s, [])
  | answered (s : ConnSt) (ev : Event) (hr : ev.isRequest = true) :
      StepOut s ({ phase := .head [] 0 true, count := s.count + 1 }, [ev])
  | answeredClose (s : ConnSt) (ev : Event) (hr : ev.isRequest = true) :
      StepOut s ({ phase := .closed, count := s.count }, [ev, .close])
  | rejected (s : ConnSt) (e : Nat) : StepOut s ({ phase := .closed, count := s.count }, [.reject e, .close])
  | unmodelled (s : ConnSt) : StepOut s ({ phase := .closed, count := s.count }, [.unmodelled, .close])

theorem respond_out (cfg : ConnCfg) (s : ConnSt) (r : PReq) (t : Target) (h : Handler) (body : Bytes) (x y : Bool) :
    StepOut s (respond cfg s.count r t h body x y) := by
  unfold respond
  split
  · exact .answered s _ rfl
  · exact .answeredClose s _ rfl

theorem dispatch_out (cfg : ConnCfg) (s : ConnSt) (block : Bytes) : StepOut s (dispatch cfg s.count block) := by
  unfold dispatch
  split
  · exact .rejected s _
  · exact .rejected s _
  · exact .unmodelled s
  · exact .rejected s _
  · simp only
    split
    · exact .rejected s _
    · split
      · exact respond_out ..
      · split
        · exact respond_out ..
        · split
          · exact .silent s _ rfl rfl
          · exact .silent s _ rfl rfl

theorem headByte_out (cfg : ConnCfg) (s : ConnSt) (rbuf : Bytes) (nl : Nat) (b : UInt8) :
    StepOut s (headByte cfg s.count rbuf nl b) := by
  unfold headByte
  split
  · exact .rejected s _
  · split
    · exact dispatch_out ..
    · split
      · exact .rejected s _
      · exact .silent s _ rfl rfl

theorem h1Step_out (cfg : ConnCfg) (s : ConnSt) (b : UInt8) : StepOut s (h1Step cfg s b) := by
  obtain ⟨phase, count⟩ := s
  cases phase with
  | closed => exact .closedIdle _ rfl
  | head rbuf nl bo =>
    simp only [h1Step]
    split
    · split
      · split
        · exact .silent _ _ rfl rfl
        · exact headByte_out cfg ⟨_, count⟩ ..
      · split
        · exact .silent _ _ rfl rfl
        · exact .rejected ⟨_, count⟩ _
      · split
        · exact .rejected ⟨_, count⟩ _
        · exact headByte_out cfg ⟨_, count⟩ ..
    · exact headByte_out cfg ⟨_, count⟩ ..
  | bodyCL r t h rem racc =>
    simp only [h1Step]
    split
    · exact respond_out cfg ⟨_, count⟩ ..
    · exact .silent _ _ rfl rfl
  | bodyCk r t h ck =>
    simp only [h1Step]
    split
    · exact .rejected ⟨_, count⟩ _
    · exact respond_out cfg ⟨_, count⟩ ..
    · exact .silent _ _ rfl rfl

/-! ### request heads -/

/-- `H` ends in a blank line and no proper prefix does -/
def MinimalHead (H : Bytes) : Prop :=
  headEnd H.reverse = true ∧ ∀ k, k < H.length → 0 < k → headEnd (H.take k).reverse = false

instance (H : Bytes) : Decidable (MinimalHead H) := by unfold MinimalHead; infer_instance

/-- the first byte of a head is not a control byte (h1_recv_headers answers 400 to those at once) -/
def firstOk : Bytes → Bool
  | b :: _ => !(b < 32)
  | [] => false

theorem firstOk_spec {H : Bytes} (h : firstOk H = true) : ∀ b, H.head? = some b → ¬ b < 32 := by
  intro b hb
  cases H with
  | nil => simp at hb
  | cons x rest =>
    simp only [List.head?_cons, Option.some.injEq] at hb
    subst hb
    simpa [firstOk] using h

def headState (count : Nat) (pre : Bytes) : ConnSt :=
  { phase := .head pre.reverse (pre.count lf) false, count := count }

theorem count_take_le (H : Bytes) (k : Nat) : (H.take k).count lf ≤ H.count lf := by
  conv => rhs; rw [← List.take_append_drop k H]
  rw [List.count_append]; omega

theorem headByte_done (cfg : ConnCfg) (count : Nat) (rbuf : Bytes) (nl : Nat) (b : UInt8)
    (hfb : (rbuf.isEmpty && decide (b < 32)) = false) (hend : headEnd (b :: rbuf) = true) :
    headByte cfg count rbuf nl b = dispatch cfg count (b :: rbuf).reverse := by
  unfold headByte
  rw [if_neg (by simp [hfb]), if_pos hend]

theorem headByte_more (cfg : ConnCfg) (count : Nat) (rbuf : Bytes) (nl : Nat) (b : UInt8)
    (hfb : (rbuf.isEmpty && decide (b < 32)) = false) (hend : headEnd (b :: rbuf) = false)
    (hlim : overLimit cfg (b :: rbuf) (nlNext nl b) = false) :
    headByte cfg count rbuf nl b = ({ phase := .head (b :: rbuf) (nlNext nl b) false, count := count }, []) := by
  unfold headByte
  rw [if_neg (by simp [hfb]), if_neg (by simp [hend]), if_neg (by simp [hlim])]

theorem h1Step_headState (cfg : ConnCfg) (count : Nat) (pre : Bytes) (b : UInt8) :
    h1Step cfg (headState count pre) b = headByte cfg count pre.reverse (pre.count lf) b := by
  simp [h1Step, headState]

theorem nlNext_count (pre : Bytes) (b : UInt8) : nlNext (pre.count lf) b = (pre ++ [b]).count lf := by
  unfold nlNext
  rw [List.count_append]
  by_cases hb : b = lf <;> simp [hb]

/-- feeding the rest of a minimal head produces nothing until its last byte, which dispatches the head -/
theorem headFeed_aux (cfg : ConnCfg) (count : Nat) : ∀ (rest pre : Bytes), rest ≠ [] →
    (∀ k, pre.length < k → k < (pre ++ rest).length → headEnd ((pre ++ rest).take k).reverse = false) →
    headEnd (pre ++ rest).reverse = true →
    (pre ++ rest).length ≤ cfg.maxField → (pre ++ rest).count lf + 1 < 8191 →
    (pre = [] → ∀ b, rest.head? = some b → ¬ b < 32) →
    h1Feed cfg (headState count pre) rest = dispatch cfg count (pre ++ rest) := by
  intro rest
  induction rest with
  | nil => intro pre h; exact absurd rfl h
  | cons b rest' ih =>
    intro pre _ hmin hend hsize hnl hfirst
    have hfb : (pre.reverse.isEmpty && decide (b < 32)) = false := by
      cases hp : pre with
      | nil =>
        have := hfirst hp b rfl
        simp [this]
      | cons x xs => simp
    have hrev : b :: pre.reverse = (pre ++ [b]).reverse := by simp
    by_cases hre : rest' = []
    · subst hre
      rw [h1Feed_single, h1Step_headState, headByte_done cfg count _ _ b hfb (by rw [hrev]; exact hend), hrev]
      simp
    · have htake : (pre ++ b :: rest').take (pre.length + 1) = pre ++ [b] := by
        have h1 : pre ++ b :: rest' = (pre ++ [b]) ++ rest' := by simp
        rw [h1]; exact List.take_left' (by simp)
      have hrl : 0 < rest'.length := List.length_pos_iff.mpr hre
      have hk : headEnd (pre ++ [b]).reverse = false := by
        have := hmin (pre.length + 1) (by omega) (by simp; omega)
        rwa [htake] at this
      have hlen : (pre ++ [b]).length ≤ cfg.maxField := by
        have : (pre ++ [b]).length ≤ (pre ++ b :: rest').length := by simp
        omega
      have hcnt : (pre ++ [b]).count lf + 1 < 8191 := by
        have := count_take_le (pre ++ b :: rest') (pre.length + 1)
        rw [htake] at this
        omega
      have hlim : overLimit cfg (b :: pre.reverse) (nlNext (pre.count lf) b) = false := by
        rw [nlNext_count, hrev]
        unfold overLimit
        have h1 : ¬ ((pre ++ [b]).reverse.length > cfg.maxField) := by rw [List.length_reverse]; omega
        have h2 : ¬ ((pre ++ [b]).count lf + 1 ≥ 8191) := by omega
        rw [Bool.or_eq_false_iff]
        exact ⟨decide_eq_false h1, decide_eq_false h2⟩
      have hstep : h1Step cfg (headState count pre) b = (headState count (pre ++ [b]), []) := by
        rw [h1Step_headState, headByte_more cfg count _ _ b hfb (by rw [hrev]; exact hk) hlim, nlNext_count, hrev]
        rfl
      rw [h1Feed_cons_silent cfg _ _ b rest' hstep]
      have happ : pre ++ b :: rest' = (pre ++ [b]) ++ rest' := by simp
      rw [happ]
      apply ih (pre ++ [b]) hre
      · intro k hk1 hk2
        rw [← happ]
        exact hmin k (by simp at hk1; omega) (by rw [happ]; exact hk2)
      · rw [← happ]; exact hend
      · rw [← happ]; exact hsize
      · rw [← happ]; exact hnl
      · intro h; simp at h

/-- from the start of a request (first request, or after a response on a kept-alive connection):
    a minimal head whose first byte is not a control byte is handed to `dispatch` as a whole -/
theorem headFeed (cfg : ConnCfg) (count : Nat) (bo : Bool) (H : Bytes) (hmin : MinimalHead H)
    (hfirst : ∀ b, H.head? = some b → ¬ b < 32) (hsize : H.length ≤ cfg.maxField)
    (hnl : H.count lf + 1 < 8191) :
    h1Feed cfg { phase := .head [] 0 bo, count := count } H = dispatch cfg count H := by
  have hne : H ≠ [] := by
    intro h; subst h; simp [MinimalHead, headEnd] at hmin
  -- the first byte takes the same path whether or not a blank line may be skipped
  have hsame : h1Feed cfg { phase := .head [] 0 bo, count := count } H = h1Feed cfg (headState count []) H := by
    cases H with
    | nil => exact absurd rfl hne
    | cons b rest =>
      have hb := hfirst b rfl
      have hcr : b ≠ cr := by intro e; subst e; exact hb (by decide)
      have hlf : b ≠ lf := by intro e; subst e; exact hb (by decide)
      rw [h1Feed_cons, h1Feed_cons]
      have : h1Step cfg { phase := .head [] 0 bo, count := count } b = h1Step cfg (headState count []) b := by
        cases bo <;> simp [h1Step, headState, hcr, hlf]
      rw [this]
  rw [hsame]
  have := headFeed_aux cfg count H [] hne (by intro k hk1 hk2; exact hmin.2 k (by simpa using hk2) (by simpa using hk1))
    (by simpa using hmin.1) (by simpa using hsize) (by simpa using hnl) (by intro _ b hb; exact hfirst b (by simpa using hb))
  simpa using this

/-! ### Content-Length bodies -/

/-- exactly `n` bytes are taken as the body, whatever they contain -/
theorem clFeed (cfg : ConnCfg) (count : Nat) (r : PReq) (t : Target) (h : Handler) : ∀ (d : Bytes) (n : Nat) (racc : Bytes),
    d ≠ [] → d.length = n →
    h1Feed cfg { phase := .bodyCL r t h n racc, count := count } d
      = respond cfg count r t h (racc.reverse ++ d) true true := by
  intro d
  induction d with
  | nil => intro n racc h; exact absurd rfl h
  | cons b rest ih =>
    intro n racc _ hlen
    cases rest with
    | nil =>
      simp only [List.length_cons, List.length_nil] at hlen
      subst hlen
      rw [h1Feed_single]
      simp [h1Step]
    | cons c rest' =>
      simp only [List.length_cons] at hlen
      have hn : ¬ n ≤ 1 := by omega
      have hstep : h1Step cfg { phase := .bodyCL r t h n racc, count := count } b
          = ({ phase := .bodyCL r t h (n - 1) (b :: racc), count := count }, []) := by
        simp [h1Step, hn]
      rw [h1Feed_cons_silent cfg _ _ b _ hstep, ih (n - 1) (b :: racc) (by simp) (by simp; omega)]
      simp

/-! ### chunked bodies -/

theorem ckFeed_done_after (cfg : CkCfg) (bs : Bytes) : ∀ (s : CkSt), s.mode = .done →
    (ckFeed cfg s bs).mode = .done ∧ (ckFeed cfg s bs).after = s.after + bs.length := by
  induction bs with
  | nil => intro s h; simp [ckFeed_nil, h]
  | cons b rest ih =>
    intro s h
    rw [ckFeed_cons]
    have hstep : ckStep cfg s b = { s with after := s.after + 1 } := by
      obtain ⟨mode, out, ka, after⟩ := s
      simp only at h; subst h; simp [ckStep]
    obtain ⟨h1, h2⟩ := ih (ckStep cfg s b) (by rw [hstep]; exact h)
    refine ⟨h1, ?_⟩
    rw [h2, hstep]; simp; omega

theorem ckFeed_err_stays (cfg : CkCfg) (bs : Bytes) : ∀ (s : CkSt) (e : Nat), s.mode = .err e →
    ckFeed cfg s bs = s := by
  induction bs with
  | nil => intro s e _; rfl
  | cons b rest ih =>
    intro s e h
    rw [ckFeed_cons]
    have : ckStep cfg s b = s := by
      obtain ⟨mode, out, ka, after⟩ := s
      simp only at h; subst h; simp [ckStep]
    rw [this, ih s e h]

/-- a chunked body that is complete exactly at its last byte is not complete (nor in error) earlier -/
theorem ck_no_early_end (cfg : CkCfg) (s : CkSt) (p q : Bytes) (hq : q ≠ [])
    (hdone : (ckFeed cfg s (p ++ q)).mode = .done) (hafter : (ckFeed cfg s (p ++ q)).after = s.after)
    :
    (ckFeed cfg s p).mode ≠ .done ∧ ∀ e, (ckFeed cfg s p).mode ≠ .err e := by
  rw [ckFeed_append] at hdone hafter
  constructor
  · intro h
    obtain ⟨_, h2⟩ := ckFeed_done_after cfg q (ckFeed cfg s p) h
    rw [h2] at hafter
    -- `after` never decreases
    have hmono : ∀ (bs : Bytes) (s0 : CkSt), s0.after ≤ (ckFeed cfg s0 bs).after := by
      intro bs
      induction bs with
      | nil => intro s0; simp [ckFeed_nil]
      | cons b rest ih =>
        intro s0
        rw [ckFeed_cons]
        have : s0.after ≤ (ckStep cfg s0 b).after := by
          obtain ⟨mode, out, ka, after⟩ := s0
          cases mode <;> simp only [ckStep]
          all_goals (repeat' split) <;> simp
        exact Nat.le_trans this (ih _)
    have := hmono p s
    have hql : q.length ≠ 0 := by intro e; exact hq (List.length_eq_zero_iff.mp e)
    omega
  · intro e h
    rw [ckFeed_err_stays cfg q _ e h, h] at hdone
    simp at hdone

/-- a chunked body whose decoding completes exactly at its last byte yields one response with the
    decoded payload -/
theorem ckConnFeed (cfg : ConnCfg) (count : Nat) (r : PReq) (t : Target) (h : Handler) :
    ∀ (w : Bytes) (ck : CkSt), w ≠ [] →
    (∀ p q, w = p ++ q → p ≠ [] → q ≠ [] →
       (ckFeed (ckCfgOf cfg) ck p).mode ≠ .done ∧ ∀ e, (ckFeed (ckCfgOf cfg) ck p).mode ≠ .err e) →
    (ckFeed (ckCfgOf cfg) ck w).mode = .done →
    h1Feed cfg { phase := .bodyCk r t h ck, count := count } w
      = respond cfg count r t h (ckFeed (ckCfgOf cfg) ck w).out true (ckFeed (ckCfgOf cfg) ck w).ka := by
  intro w
  induction w with
  | nil => intro ck h; exact absurd rfl h
  | cons b rest ih =>
    intro ck _ hpre hdone
    by_cases hre : rest = []
    · subst hre
      rw [h1Feed_single]
      simp only [ckFeed_cons, ckFeed_nil] at hdone ⊢
      simp [h1Step, hdone]
    · have hp := hpre [b] rest (by simp) (by simp) hre
      simp only [ckFeed_cons, ckFeed_nil] at hp
      have hstep : h1Step cfg { phase := .bodyCk r t h ck, count := count } b
          = ({ phase := .bodyCk r t h (ckStep (ckCfgOf cfg) ck b), count := count }, []) := by
        simp only [h1Step]
        split
        · rename_i e he; exact absurd he (hp.2 e)
        · rename_i he; exact absurd he hp.1
        · rfl
      rw [h1Feed_cons_silent cfg _ _ b rest hstep]
      rw [ckFeed_cons] at hdone ⊢
      apply ih (ckStep (ckCfgOf cfg) ck b) hre
      · intro p q hw hpne hqne
        have := hpre (b :: p) q (by simp [hw]) (by simp) hqne
        simpa [ckFeed_cons] using this
      · exact hdone

/-! ### statuses of rejections -/

/-- the statuses the framing layer rejects with -/
def RejSt (e : Nat) : Prop := e = 400 ∨ e = 411 ∨ e = 413 ∨ e = 431 ∨ e = 501

theorem reqlineUri_err {o : Opts} {r : PReq} {uri : Bytes} {e : Nat}
    (h : reqlineUri o r uri = .error e) : e = 400 := by
  unfold reqlineUri at h
  simp only at h
  repeat' split at h
  all_goals (first | (simp at h; done) | (simp at h; omega))

theorem parseReqlineCore_err {o : Opts} {line : Bytes} {e : Nat}
    (h : parseReqlineCore o line = .error e) : e = 400 ∨ e = 501 := by
  unfold parseReqlineCore at h
  simp only at h
  repeat' split at h
  all_goals (first | (simp at h; done) | (simp at h; omega) | (exact .inl (reqlineUri_err h)))

theorem parseReqline_err {o : Opts} {line blk : Bytes} {e : Nat}
    (h : parseReqline o line blk = .error e) : e = 400 ∨ e = 501 := by
  unfold parseReqline at h
  split at h
  · rename_i e' he
    simp at h; subst h
    exact parseReqlineCore_err he
  · simp only at h
    repeat' split at h
    all_goals (first | (simp at h; done) | (simp at h; omega))

theorem fieldOf_err {o : Opts} {phys : List Bytes} {e : Nat}
    (h : fieldOf o phys = .error e) : e = 400 := by
  unfold fieldOf at h
  simp only at h
  repeat' split at h
  all_goals (first | (simp at h; done) | (simp at h; omega))

theorem singleHeader_err {r : PReq} {n v : Bytes} {e : Nat}
    (h : singleHeader r n v = .error e) : e = 400 ∨ e = 501 := by
  unfold singleHeader at h
  simp only at h
  repeat' split at h
  all_goals (first | (simp at h; done) | (simp at h; omega))

theorem applyField_err {o : Opts} {r : PReq} {f : Bytes × Bytes} {e : Nat}
    (h : applyField o r f = .error e) : e = 400 ∨ e = 501 := by
  unfold applyField at h
  simp only at h
  repeat' split at h
  all_goals (first | (simp at h; done) | (simp at h; omega) | (exact singleHeader_err h))

theorem parseFieldLine_err {o : Opts} {r : PReq} {g : List Bytes} {e : Nat}
    (h : parseFieldLine o r g = .error e) : e = 400 ∨ e = 501 := by
  unfold parseFieldLine at h
  split at h
  · rename_i e' he
    simp at h; subst h
    exact .inl (fieldOf_err he)
  · exact applyField_err h

theorem foldl_headerStep_err (o : Opts) (gs : List (List Bytes)) : ∀ (acc : PRes) (e : Nat),
    gs.foldl (headerStep o) acc = .error e → acc = .error e ∨ e = 400 ∨ e = 501 := by
  induction gs with
  | nil => intro acc e h; exact .inl h
  | cons g rest ih =>
    intro acc e h
    rw [List.foldl_cons] at h
    rcases ih _ e h with h1 | h1
    · cases acc with
      | error e0 => left; simpa [headerStep] using h1
      | ok r => right; exact parseFieldLine_err (by simpa [headerStep] using h1)
    · exact .inr h1

theorem parseHeaders_err {o : Opts} {r : PReq} {lines : List Bytes} {e : Nat}
    (h : parseHeaders o r lines = .error e) : e = 400 ∨ e = 501 := by
  unfold parseHeaders at h
  rcases foldl_headerStep_err o _ _ e h with h1 | h1
  · simp at h1
  · exact h1

theorem parseTarget_err {o : Opts} {sp : Bool} {t : Bytes} {e : Nat}
    (h : parseTarget o sp t = .error e) : e = 400 := by
  unfold parseTarget at h
  simp only at h
  repeat' split at h
  all_goals (first | (simp at h; done) | (simp at h; omega))

theorem parsePost_err {o : Opts} {p : Nat} {r : PReq} {e : Nat}
    (h : parsePost o p r = .err e) : e = 400 ∨ e = 411 := by
  unfold parsePost at h
  simp only at h
  split at h
  · rename_i e' he
    simp at h; subst h
    exact .inl (parseTarget_err he)
  · repeat' split at h
    all_goals (first | (simp at h; done) | (simp at h; omega))

theorem parseHead_err {o : Opts} {mf p : Nat} {blk : Bytes} {e : Nat}
    (h : parseHead o mf p blk = .err e) : RejSt e := by
  unfold parseHead at h
  split at h
  · simp at h
  · simp at h; subst h; unfold RejSt; omega
  · simp at h
  · split at h
    · simp at h
    · split at h
      · rename_i e' he
        simp at h; subst h
        rcases parseReqline_err he with h1 | h1 <;> (unfold RejSt; omega)
      · split at h
        · simp at h; subst h; unfold RejSt; omega
        · split at h
          · rename_i e' he
            simp at h; subst h
            rcases parseHeaders_err he with h1 | h1 <;> (unfold RejSt; omega)
          · split at h
            · rename_i e' he
              simp at h; subst h
              rcases parsePost_err he with h1 | h1 <;> (unfold RejSt; omega)
            · simp at h
            · simp at h


/-! ### statuses of rejections at connection level -/

theorem ckParseLine_err {l : Bytes} {e : Nat} (h : ckParseLine l = .error e) : e = 400 := by
  unfold ckParseLine at h
  simp only at h
  repeat' split at h
  all_goals (first | (simp at h; done) | (simp at h; omega))

theorem ckStep_err (cfg : CkCfg) (s : CkSt) (b : UInt8) (e : Nat) (hs : ∀ e0, s.mode ≠ .err e0)
    (h : (ckStep cfg s b).mode = .err e) : e = 400 ∨ e = 413 := by
  obtain ⟨mode, out, ka, after⟩ := s
  cases mode with
  | err e0 => exact absurd rfl (hs e0)
  | hdr acc nul =>
    simp only [ckStep] at h
    split at h
    · split at h
      · rename_i e' he
        simp at h; subst h
        exact .inl (ckParseLine_err he)
      · simp at h
      · split at h
        · simp at h; omega
        · simp at h
    · split at h
      · simp at h; omega
      · simp at h
  | data n => simp only [ckStep] at h; split at h <;> simp at h
  | crlf f =>
    cases f with
    | none => simp [ckStep] at h
    | some a => simp only [ckStep] at h; split at h <;> simp at h; omega
  | trailer acc off nul => simp only [ckStep] at h; repeat' split at h
                           all_goals simp at h
  | done => simp [ckStep] at h

/-- an embedded chunked decoder is not in its error state (the automaton leaves the body phase when
    the decoder reports an error) -/
def ConnSt.Live (s : ConnSt) : Prop :=
  match s.phase with
  | .bodyCk _ _ _ ck => ∀ e, ck.mode ≠ .err e
  | _ => True

theorem respond_rej (cfg : ConnCfg) (c : Nat) (r : PReq) (t : Target) (h : Handler) (body : Bytes) (x y : Bool) :
    (∀ st, Event.reject st ∉ (respond cfg c r t h body x y).2) ∧ (respond cfg c r t h body x y).1.Live := by
  unfold respond
  split <;> simp [ConnSt.Live]

theorem rejectWith_rej (c e : Nat) :
    (∀ st, Event.reject st ∈ (rejectWith c e).2 → st = e) ∧ (rejectWith c e).1.Live := by
  simp [rejectWith, ConnSt.Live]

theorem dispatch_rej (cfg : ConnCfg) (c : Nat) (blk : Bytes) :
    (∀ st, Event.reject st ∈ (dispatch cfg c blk).2 → RejSt st) ∧ (dispatch cfg c blk).1.Live := by
  unfold dispatch
  split
  · refine ⟨fun st h => ?_, (rejectWith_rej c 400).2⟩
    rw [(rejectWith_rej c 400).1 st h]; unfold RejSt; omega
  · refine ⟨fun st h => ?_, (rejectWith_rej c 400).2⟩
    rw [(rejectWith_rej c 400).1 st h]; unfold RejSt; omega
  · simp [ConnSt.Live]
  · rename_i e he
    refine ⟨fun st h => ?_, (rejectWith_rej c e).2⟩
    rw [(rejectWith_rej c e).1 st h]; exact parseHead_err he
  · simp only
    split
    · refine ⟨fun st h => ?_, (rejectWith_rej c 413).2⟩
      rw [(rejectWith_rej c 413).1 st h]; unfold RejSt; omega
    · split
      · exact ⟨fun st h => absurd h ((respond_rej ..).1 st), (respond_rej ..).2⟩
      · split
        · exact ⟨fun st h => absurd h ((respond_rej ..).1 st), (respond_rej ..).2⟩
        · split
          · simp [ConnSt.Live]
          · simp [ConnSt.Live]

theorem headByte_rej (cfg : ConnCfg) (c : Nat) (rbuf : Bytes) (nl : Nat) (b : UInt8) :
    (∀ st, Event.reject st ∈ (headByte cfg c rbuf nl b).2 → RejSt st) ∧ (headByte cfg c rbuf nl b).1.Live := by
  unfold headByte
  split
  · refine ⟨fun st h => ?_, (rejectWith_rej c 400).2⟩
    rw [(rejectWith_rej c 400).1 st h]; unfold RejSt; omega
  · split
    · exact dispatch_rej ..
    · split
      · refine ⟨fun st h => ?_, (rejectWith_rej c 431).2⟩
        rw [(rejectWith_rej c 431).1 st h]; unfold RejSt; omega
      · simp [ConnSt.Live]

theorem h1Step_rej (cfg : ConnCfg) (s : ConnSt) (hs : s.Live) (b : UInt8) :
    (∀ st, Event.reject st ∈ (h1Step cfg s b).2 → RejSt st) ∧ (h1Step cfg s b).1.Live := by
  have r400 : ∀ c, (∀ st, Event.reject st ∈ (rejectWith c 400).2 → RejSt st) ∧ (rejectWith c 400).1.Live := by
    intro c
    refine ⟨fun st h => ?_, (rejectWith_rej c 400).2⟩
    rw [(rejectWith_rej c 400).1 st h]; unfold RejSt; omega
  obtain ⟨phase, count⟩ := s
  cases phase with
  | closed => simp [h1Step, ConnSt.Live]
  | head rbuf nl bo =>
    simp only [h1Step]
    split
    · split
      · split
        · simp [ConnSt.Live]
        · exact headByte_rej ..
      · split
        · simp [ConnSt.Live]
        · exact r400 _
      · split
        · exact r400 _
        · exact headByte_rej ..
    · exact headByte_rej ..
  | bodyCL r t h rem racc =>
    simp only [h1Step]
    split
    · exact ⟨fun st h => absurd h ((respond_rej ..).1 st), (respond_rej ..).2⟩
    · simp [ConnSt.Live]
  | bodyCk r t h ck =>
    simp only [h1Step]
    have hlive : ∀ e0, ck.mode ≠ .err e0 := by simpa [ConnSt.Live] using hs
    split
    · rename_i e he
      refine ⟨fun st h => ?_, (rejectWith_rej count e).2⟩
      rw [(rejectWith_rej count e).1 st h]
      rcases ckStep_err (ckCfgOf cfg) ck b e hlive he with h1 | h1 <;> (unfold RejSt; omega)
    · exact ⟨fun st h => absurd h ((respond_rej ..).1 st), (respond_rej ..).2⟩
    · rename_i hne _
      refine ⟨by simp, ?_⟩
      simp only [ConnSt.Live]
      intro e he
      exact hne e he

theorem h1Feed_rej (cfg : ConnCfg) (bs : Bytes) : ∀ (s : ConnSt), s.Live →
    (∀ st, Event.reject st ∈ (h1Feed cfg s bs).2 → RejSt st) ∧ (h1Feed cfg s bs).1.Live := by
  induction bs with
  | nil => intro s hs; simp [h1Feed_nil, hs]
  | cons b rest ih =>
    intro s hs
    rw [h1Feed_cons]
    obtain ⟨h1, h2⟩ := h1Step_rej cfg s hs b
    obtain ⟨h3, h4⟩ := ih _ h2
    refine ⟨fun st h => ?_, h4⟩
    simp only [List.mem_append] at h
    rcases h with h | h
    · exact h1 st h
    · exact h3 st h

end LtVerif
