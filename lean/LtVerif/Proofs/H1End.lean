/- helper lemmas for the connection-end model (C04) -/
import LtVerif.Model.H1End

namespace LtVerif
namespace H1End
open B

theorem handleShutdown_state (i : EndIn) (done : Nat) (sep : Bool) :
    (handleShutdown i done sep).state ≠ .requestStart ∧
    ((handleShutdown i done sep).fin = true ∨ (handleShutdown i done sep).closed = true) ∧
    ((handleShutdown i done sep).fin = true →
      (handleShutdown i done sep).state = .close ∧ (handleShutdown i done sep).closed = false ∧
      (handleShutdown i done sep).pending = i.pending) ∧
    ((handleShutdown i done sep).closed = true →
      (handleShutdown i done sep).state = .connect ∧ (handleShutdown i done sep).pending = 0) := by
  unfold handleShutdown
  by_cases h : (i.fdOk && i.shutOk) = true <;> simp [h]

theorem responseEnd_continues_iff (i : EndIn) :
    (responseEnd i).state = .requestStart ↔
      (i.h2 = false ∧ i.reqLen = i.reqIn ∧ i.isError = false ∧ 0 < i.keepAlive) := by
  unfold responseEnd
  by_cases h2 : i.h2 = true
  · simp [h2, (handleShutdown_state i 1 i.sepWq).1]
  · have h2' : i.h2 = false := by simpa using h2
    by_cases hl : i.reqLen = i.reqIn
    · by_cases he : i.isError = true
      · simp [h2', hl, he, (handleShutdown_state i _ _).1]
      · have he' : i.isError = false := by simpa using he
        by_cases hk : 0 < i.keepAlive
        · simp [h2', hl, he', hk]
        · simp [h2', hl, he', hk, (handleShutdown_state i _ _).1]
    · simp [h2', hl, (handleShutdown_state i _ _).1]

theorem responseEnd_not_continues (i : EndIn) (h : (responseEnd i).state ≠ .requestStart) :
    ((responseEnd i).fin = true ∨ (responseEnd i).closed = true) ∧
    ((responseEnd i).fin = true →
      (responseEnd i).state = .close ∧ (responseEnd i).closed = false ∧
      (responseEnd i).pending = i.pending) ∧
    ((responseEnd i).closed = true →
      (responseEnd i).state = .connect ∧ (responseEnd i).pending = 0) := by
  unfold responseEnd at h ⊢
  dsimp only at h ⊢
  by_cases h2 : i.h2 = true
  · rw [if_pos h2] at h ⊢
    exact (handleShutdown_state i _ _).2
  · rw [if_neg h2] at h ⊢
    by_cases hk : (if (i.reqLen ≠ i.reqIn || i.isError) = true then (0 : Int) else i.keepAlive) > 0
    · rw [if_pos hk] at h; simp at h
    · rw [if_neg hk]; exact (handleShutdown_state i _ _).2

theorem endIn_continues_iff (fdOk shutOk : Bool) (p : Nat) (q : Req) :
    (responseEnd (endIn fdOk shutOk p q)).state = .requestStart ↔ Continues q := by
  rw [responseEnd_continues_iff]
  unfold endIn Continues
  cases hk : q.ka <;> cases hw : q.wrote <;> simp

/-- the run over a pipeline, characterised -/
theorem connRun_spec (fdOk shutOk : Bool) (reqs : List Req) :
    (connRun fdOk shutOk reqs).answered ≤ reqs.length ∧
    (connRun fdOk shutOk reqs).wire
      = ((reqs.take (connRun fdOk shutOk reqs).answered).map sentOf).flatten ∧
    (∀ j q, j + 1 < (connRun fdOk shutOk reqs).answered → reqs[j]? = some q →
      Continues q ∧ sentOf q = q.msg) ∧
    ((connRun fdOk shutOk reqs).final = none →
      (connRun fdOk shutOk reqs).answered = reqs.length ∧
      ∀ q ∈ reqs, Continues q ∧ sentOf q = q.msg) ∧
    (∀ e, (connRun fdOk shutOk reqs).final = some e →
      ∃ k q, (connRun fdOk shutOk reqs).answered = k + 1 ∧ reqs[k]? = some q ∧ ¬ Continues q ∧
        e = responseEnd (endIn fdOk shutOk (reqs.length - (k + 1)) q) ∧
        e.state ≠ .requestStart ∧ (e.fin = true ∨ e.closed = true)) := by
  induction reqs with
  | nil => simp [connRun]
  | cons q qs ih =>
    have hsent : Continues q → sentOf q = q.msg := by
      intro hc; unfold sentOf; rw [hc.1]
    by_cases hc : Continues q
    · have hst := (endIn_continues_iff fdOk shutOk qs.length q).2 hc
      obtain ⟨ih1, ih2, ih3, ih4, ih5⟩ := ih
      have hrun : connRun fdOk shutOk (q :: qs)
          = ⟨sentOf q ++ (connRun fdOk shutOk qs).wire, (connRun fdOk shutOk qs).answered + 1,
             (connRun fdOk shutOk qs).final⟩ := by
        simp [connRun, hst]
      rw [hrun]
      refine ⟨by simp; omega, ?_, ?_, ?_, ?_⟩
      · simp only [List.take_succ_cons, List.map_cons, List.flatten_cons]
        rw [← ih2]
      · intro j q' hj hq'
        cases j with
        | zero =>
          simp at hq'; subst hq'; exact ⟨hc, hsent hc⟩
        | succ j' =>
          simp at hq' hj
          exact ih3 j' q' (by omega) hq'
      · intro hn
        obtain ⟨ha, hall⟩ := ih4 hn
        refine ⟨by simp [ha], ?_⟩
        intro q' hq'
        rcases List.mem_cons.1 hq' with rfl | hm
        · exact ⟨hc, hsent hc⟩
        · exact hall q' hm
      · intro e he
        obtain ⟨k, q', hk, hq', hnc, hee, hs, hf⟩ := ih5 e he
        refine ⟨k + 1, q', by simp [hk], by simpa using hq', hnc, ?_, hs, hf⟩
        simp only [List.length_cons]
        have : qs.length + 1 - (k + 1 + 1) = qs.length - (k + 1) := by omega
        rw [this]; exact hee
    · have hst : (responseEnd (endIn fdOk shutOk qs.length q)).state ≠ .requestStart := by
        intro h; exact hc ((endIn_continues_iff fdOk shutOk qs.length q).1 h)
      have hrun : connRun fdOk shutOk (q :: qs)
          = ⟨sentOf q, 1, some (responseEnd (endIn fdOk shutOk qs.length q))⟩ := by
        simp [connRun, hst]
      rw [hrun]
      refine ⟨by simp, by simp, ?_, by simp, ?_⟩
      · intro j q' hj; simp at hj
      · intro e he
        simp at he
        refine ⟨0, q, rfl, by simp, hc, ?_, ?_, ?_⟩
        · simp [← he]
        · rw [← he]; exact hst
        · rw [← he]; exact (responseEnd_not_continues _ hst).1

end H1End
end LtVerif
