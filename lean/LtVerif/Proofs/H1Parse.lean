/-
  Helper lemmas for the request-head parser model (Model/H1Parse.lean).
-/
import LtVerif.Model.H1Parse
namespace LtVerif
open B

def nCL : Bytes := ofString "content-length"
def nTE : Bytes := ofString "transfer-encoding"
def vChunked : Bytes := ofString "chunked"

@[simp] theorem appendHeader_bodyLen (r : PReq) (n v : Bytes) : (appendHeader r n v).bodyLen = r.bodyLen := by
  unfold appendHeader; split <;> rfl
@[simp] theorem appendHeader_clSeen (r : PReq) (n v : Bytes) : (appendHeader r n v).clSeen = r.clSeen := by
  unfold appendHeader; split <;> rfl
@[simp] theorem appendHeader_version (r : PReq) (n v : Bytes) : (appendHeader r n v).version = r.version := by
  unfold appendHeader; split <;> rfl
@[simp] theorem appendHeader_method (r : PReq) (n v : Bytes) : (appendHeader r n v).method = r.method := by
  unfold appendHeader; split <;> rfl
@[simp] theorem setHost_bodyLen (r : PReq) (h : Bytes) : (setHost r h).bodyLen = r.bodyLen := rfl
@[simp] theorem setHost_clSeen (r : PReq) (h : Bytes) : (setHost r h).clSeen = r.clSeen := rfl
@[simp] theorem setHost_version (r : PReq) (h : Bytes) : (setHost r h).version = r.version := rfl

/-- effect of one accepted field on the framing-relevant part of the state -/
structure FieldEffect (o : Opts) (r : PReq) (n v : Bytes) (r' : PReq) : Prop where
  version : r'.version = r.version
  strictVal : o.headerStrict = true → v.any lineCharInvalidStrict = false
  cl : n = nCL → v ≠ [] ∧ r.clSeen = false ∧ r'.clSeen = true ∧
        ∃ k, strtoInt64 v = some k ∧ r'.bodyLen = if r.bodyLen = 0 then (k : Int) else r.bodyLen
  te : n = nTE → v ≠ [] → eqIcase v vChunked = true ∧ r.version = 1 ∧ r'.bodyLen = -1 ∧ r'.clSeen = r.clSeen
  other : n ≠ nCL → (n = nTE → v = []) → r'.bodyLen = r.bodyLen ∧ r'.clSeen = r.clSeen

theorem classify_cl_iff (n : Bytes) : classifyHeader n = .contentLength ↔ n = nCL := by
  constructor
  · intro h
    unfold classifyHeader at h
    split at h; · simp at h
    split at h; · simp at h
    split at h; · simp at h
    split at h; · simp at h
    split at h
    · rename_i he; exact he
    · split at h <;> simp at h
  · intro h; subst h; decide

theorem classify_te_iff (n : Bytes) : classifyHeader n = .transferEncoding ↔ n = nTE := by
  constructor
  · intro h
    unfold classifyHeader at h
    split at h; · simp at h
    split at h; · simp at h
    split at h; · simp at h
    split at h; · simp at h
    split at h; · simp at h
    split at h
    · rename_i he; exact he
    · simp at h
  · intro h; subst h; decide

theorem singleHeader_effect (o : Opts) (r r' : PReq) (n v : Bytes) (hv : v ≠ [])
    (hs : o.headerStrict = true → v.any lineCharInvalidStrict = false)
    (h : singleHeader r n v = .ok r') : FieldEffect o r n v r' := by
  unfold singleHeader at h
  cases hk : classifyHeader n with
  | host =>
    have e1 : n ≠ nCL := fun e => by rw [(classify_cl_iff n).mpr e] at hk; simp at hk
    have e2 : n ≠ nTE := fun e => by rw [(classify_te_iff n).mpr e] at hk; simp at hk
    simp only [hk] at h
    have key : r'.version = r.version ∧ r'.bodyLen = r.bodyLen ∧ r'.clSeen = r.clSeen := by
      split at h
      · split at h <;> simp at h; subst h; exact ⟨rfl, rfl, rfl⟩
      · split at h
        · simp at h; subst h; exact ⟨rfl, rfl, rfl⟩
        · split at h
          · split at h <;> simp at h; subst h; exact ⟨rfl, rfl, rfl⟩
          · simp at h
    exact ⟨key.1, hs, fun e => absurd e e1, fun e => absurd e e2, fun _ _ => ⟨key.2.1, key.2.2⟩⟩
  | dupCheck =>
    have e1 : n ≠ nCL := fun e => by rw [(classify_cl_iff n).mpr e] at hk; simp at hk
    have e2 : n ≠ nTE := fun e => by rw [(classify_te_iff n).mpr e] at hk; simp at hk
    simp only [hk] at h
    have key : r'.version = r.version ∧ r'.bodyLen = r.bodyLen ∧ r'.clSeen = r.clSeen := by
      split at h
      · split at h <;> simp at h; subst h; exact ⟨rfl, rfl, rfl⟩
      · simp at h; subst h; simp
    exact ⟨key.1, hs, fun e => absurd e e1, fun e => absurd e e2, fun _ _ => ⟨key.2.1, key.2.2⟩⟩
  | ifNoneMatch =>
    have e1 : n ≠ nCL := fun e => by rw [(classify_cl_iff n).mpr e] at hk; simp at hk
    have e2 : n ≠ nTE := fun e => by rw [(classify_te_iff n).mpr e] at hk; simp at hk
    simp only [hk] at h
    have key : r'.version = r.version ∧ r'.bodyLen = r.bodyLen ∧ r'.clSeen = r.clSeen := by
      split at h
      · simp at h; subst h; exact ⟨rfl, rfl, rfl⟩
      · simp at h; subst h; simp
    exact ⟨key.1, hs, fun e => absurd e e1, fun e => absurd e e2, fun _ _ => ⟨key.2.1, key.2.2⟩⟩
  | connection =>
    have e1 : n ≠ nCL := fun e => by rw [(classify_cl_iff n).mpr e] at hk; simp at hk
    have e2 : n ≠ nTE := fun e => by rw [(classify_te_iff n).mpr e] at hk; simp at hk
    simp only [hk] at h
    simp at h; subst h
    exact ⟨by simp, hs, fun e => absurd e e1, fun e => absurd e e2, fun _ _ => by simp⟩
  | contentLength =>
    have hn : n = nCL := (classify_cl_iff n).mp hk
    have e2 : n ≠ nTE := by subst hn; decide
    simp only [hk] at h
    split at h
    · rename_i hcl
      split at h
      · rename_i k hkk
        simp at h; subst h
        refine ⟨by simp, hs, fun _ => ⟨hv, by simpa using hcl, rfl, k, hkk, rfl⟩, fun e => absurd e e2,
                fun e => absurd hn e⟩
      · simp at h
    · simp at h
  | transferEncoding =>
    have hn : n = nTE := (classify_te_iff n).mp hk
    have e1 : n ≠ nCL := by subst hn; decide
    simp only [hk] at h
    split at h
    · simp at h
    · rename_i hver
      split at h
      · simp at h
      · rename_i hch
        simp at h; subst h
        refine ⟨rfl, hs, fun e => absurd e e1, fun _ _ => ⟨by simpa [vChunked] using hch, by simpa using hver, rfl, rfl⟩,
                fun _ hte => absurd (hte hn) hv⟩
  | other =>
    have e1 : n ≠ nCL := fun e => by rw [(classify_cl_iff n).mpr e] at hk; simp at hk
    have e2 : n ≠ nTE := fun e => by rw [(classify_te_iff n).mpr e] at hk; simp at hk
    simp only [hk] at h
    simp at h; subst h
    exact ⟨by simp, hs, fun e => absurd e e1, fun e => absurd e e2, fun _ _ => by simp⟩

theorem applyField_effect (o : Opts) (r r' : PReq) (n v : Bytes)
    (h : applyField o r (n, v) = .ok r') : FieldEffect o r n v r' := by
  unfold applyField at h
  simp only at h
  by_cases hv : v = []
  · subst hv
    by_cases hn : n = ofString "content-length"
    · simp [hn] at h
    · simp [hn] at h; subst h
      exact ⟨rfl, fun _ => by simp, fun e => absurd e hn, fun _ hne => absurd rfl hne, fun _ _ => ⟨rfl, rfl⟩⟩
  · have hve : v.isEmpty = false := by simpa using hv
    by_cases hst : (o.headerStrict && v.any lineCharInvalidStrict) = true
    · simp [hve, hst] at h
    · have hs : o.headerStrict = true → v.any lineCharInvalidStrict = false := by
        intro hso; simpa [hso] using hst
      simp only [hve, hst] at h
      exact singleHeader_effect o r r' n v hv hs (by simpa using h)

/-- fold of applyField over already tokenised fields -/
def applyFields (o : Opts) : PReq → List (Bytes × Bytes) → PRes
  | r, [] => .ok r
  | r, f :: fs =>
    match applyField o r f with
    | .error e => .error e
    | .ok r' => applyFields o r' fs

theorem foldl_headerStep_error (o : Opts) (gs : List (List Bytes)) (e : Nat) :
    gs.foldl (headerStep o) (.error e) = .error e := by
  induction gs with
  | nil => rfl
  | cons g rest ih => simpa [List.foldl_cons, headerStep] using ih

/-- the parser accepts the field lines iff every logical line tokenises and the
    tokenised fields are accepted in order -/
theorem foldl_headerStep_ok_iff (o : Opts) (groups : List (List Bytes)) : ∀ (r r' : PReq),
    (groups.foldl (headerStep o) (.ok r) = .ok r') ↔
    ∃ fs : List (Bytes × Bytes), groups.map (fieldOf o) = fs.map Except.ok ∧ applyFields o r fs = .ok r' := by
  induction groups with
  | nil =>
    intro r r'
    simp only [List.foldl_nil, List.map_nil]
    constructor
    · intro h; exact ⟨[], rfl, by simpa [applyFields] using h⟩
    · rintro ⟨fs, hfs, h⟩
      cases fs with
      | nil => simpa [applyFields] using h
      | cons _ _ => simp at hfs
  | cons g rest ih =>
    intro r r'
    simp only [List.foldl_cons, List.map_cons]
    simp only [headerStep, parseFieldLine]
    cases hf : fieldOf o g with
    | error e =>
      simp only
      rw [foldl_headerStep_error]
      constructor
      · intro h; simp at h
      · rintro ⟨fs, hfs, _⟩
        cases fs with
        | nil => simp at hfs
        | cons f fs' => simp at hfs
    | ok f =>
      simp only
      cases ha : applyField o r f with
      | error e =>
        rw [foldl_headerStep_error]
        constructor
        · intro h; simp at h
        · rintro ⟨fs, hfs, h⟩
          cases fs with
          | nil => simp at hfs
          | cons f' fs' =>
            simp only [List.map_cons, List.cons.injEq, Except.ok.injEq] at hfs
            obtain ⟨hff, _⟩ := hfs
            subst hff
            simp [applyFields, ha] at h
      | ok r1 =>
        rw [ih r1 r']
        constructor
        · rintro ⟨fs, hfs, h⟩
          exact ⟨f :: fs, by simp [hfs], by simp [applyFields, ha, h]⟩
        · rintro ⟨fs, hfs, h⟩
          cases fs with
          | nil => simp at hfs
          | cons f' fs' =>
            simp only [List.map_cons, List.cons.injEq, Except.ok.injEq] at hfs
            obtain ⟨hff, hrest⟩ := hfs
            subst hff
            simp only [applyFields, ha] at h
            exact ⟨fs', hrest, h⟩

theorem parseHeaders_ok_iff (o : Opts) (r r' : PReq) (lines : List Bytes) :
    parseHeaders o r lines = .ok r' ↔
    ∃ fs : List (Bytes × Bytes), (groupFolds lines).map (fieldOf o) = fs.map Except.ok ∧
      applyFields o r fs = .ok r' :=
  foldl_headerStep_ok_iff o (groupFolds lines) r r'

/-- an accepted logical field line unfolds and has an acceptable line end -/
theorem fieldOf_ok_stripEol (o : Opts) (phys : List Bytes) (f : Bytes × Bytes)
    (h : fieldOf o phys = .ok f) :
    ∃ j body, joinFolds o.headerStrict phys = some j ∧ stripEol o.headerStrict j = some body := by
  unfold fieldOf at h
  cases phys with
  | nil => simp at h
  | cons first conts =>
    simp only at h
    cases hci : findIdx (· = colon) first 0 with
    | none => simp [hci] at h
    | some ci =>
      simp only [hci] at h
      cases hj : joinFolds o.headerStrict (first :: conts) with
      | none =>
        simp only [hj] at h
        repeat' split at h
        all_goals simp at h
      | some j =>
        cases hb : stripEol o.headerStrict j with
        | none =>
          simp only [hj, hb] at h
          repeat' split at h
          all_goals simp at h
        | some body => exact ⟨j, body, rfl, hb⟩

theorem stripEol_strict_crlf (l body : Bytes) (h : stripEol true l = some body) :
    l.length ≥ 2 ∧ l.getD (l.length - 2) 0 = cr := by
  unfold stripEol at h
  simp only at h
  split at h
  · rename_i hc; simpa using hc
  · simp at h

/-- what holds between the fields accepted so far and the framing state -/
structure FramingInv (o : Opts) (r0 : PReq) (fs : List (Bytes × Bytes)) (r : PReq) : Prop where
  version : r.version = r0.version
  clSeen : r.clSeen = true ↔ ∃ v, (nCL, v) ∈ fs
  clOnce : (fs.filter (fun f => f.1 = nCL)).length ≤ 1
  clNum : ∀ v, (nCL, v) ∈ fs → v ≠ [] ∧ ∃ k : Nat, strtoInt64 v = some k ∧ (r.bodyLen = (k : Int) ∨ r.bodyLen = -1)
  chunked : r.bodyLen = -1 ↔ ∃ v, (nTE, v) ∈ fs ∧ v ≠ []
  noCl : (¬ ∃ v, (nCL, v) ∈ fs) → r.bodyLen = 0 ∨ r.bodyLen = -1
  te : ∀ v, (nTE, v) ∈ fs → v ≠ [] → eqIcase v vChunked = true ∧ r0.version = 1
  strictVal : o.headerStrict = true → ∀ f ∈ fs, f.2.any lineCharInvalidStrict = false

theorem FramingInv.init (o : Opts) (r0 : PReq) (h1 : r0.clSeen = false) (h2 : r0.bodyLen = 0) :
    FramingInv o r0 [] r0 :=
  ⟨rfl, by simp [h1], by simp, by simp, by simp [h2], fun _ => Or.inl h2, by simp, by simp⟩

theorem nCL_ne_nTE : nCL ≠ nTE := by decide

theorem FramingInv.step {o : Opts} {r0 r r1 : PReq} {pre : List (Bytes × Bytes)} {n v : Bytes}
    (inv : FramingInv o r0 pre r) (h : applyField o r (n, v) = .ok r1) :
    FramingInv o r0 (pre ++ [(n, v)]) r1 := by
  have eff := applyField_effect o r r1 n v h
  by_cases hcl : n = nCL
  · -- a Content-Length field
    subst hcl
    obtain ⟨hv, hunseen, hseen, k, hk, hbl⟩ := eff.cl rfl
    have hnone : ¬ ∃ v, (nCL, v) ∈ pre := by
      intro hex; have := inv.clSeen.mpr hex; simp [hunseen] at this
    refine ⟨eff.version.trans inv.version, ?_, ?_, ?_, ?_, ?_, ?_, ?_⟩
    · simp [hseen]
    · have : pre.filter (fun f => f.1 = nCL) = [] := by
        rw [List.filter_eq_nil_iff]
        intro f hf hfe
        simp only [decide_eq_true_eq] at hfe
        exact hnone ⟨f.2, by rw [← hfe]; exact hf⟩
      simp [List.filter_append, this]
    · intro w hw
      simp only [List.mem_append, List.mem_singleton, Prod.mk.injEq, true_and] at hw
      rcases hw with hw | hw
      · exact absurd ⟨w, hw⟩ hnone
      · subst hw
        refine ⟨hv, k, hk, ?_⟩
        rw [hbl]
        split
        · exact Or.inl rfl
        · rename_i hne
          rcases inv.noCl hnone with h0 | h1
          · exact absurd h0 hne
          · exact Or.inr h1
    · rw [hbl]
      constructor
      · intro hm
        have : r.bodyLen = -1 := by
          split at hm
          · omega
          · exact hm
        obtain ⟨w, hw, hwne⟩ := inv.chunked.mp this
        exact ⟨w, by simp [hw], hwne⟩
      · rintro ⟨w, hw, hwne⟩
        simp only [List.mem_append, List.mem_singleton, Prod.mk.injEq] at hw
        rcases hw with hw | ⟨hw, _⟩
        · have := inv.chunked.mpr ⟨w, hw, hwne⟩
          rw [this]; simp
        · exact absurd hw.symm nCL_ne_nTE
    · intro hno
      exact absurd ⟨v, by simp⟩ hno
    · intro w hw hwne
      simp only [List.mem_append, List.mem_singleton, Prod.mk.injEq] at hw
      rcases hw with hw | ⟨hw, _⟩
      · exact inv.te w hw hwne
      · exact absurd hw.symm nCL_ne_nTE
    · intro hso f hf
      simp only [List.mem_append, List.mem_singleton] at hf
      rcases hf with hf | hf
      · exact inv.strictVal hso f hf
      · subst hf; exact eff.strictVal hso
  · by_cases hte : n = nTE ∧ v ≠ []
    · -- a non-empty Transfer-Encoding field
      obtain ⟨hn, hv⟩ := hte
      subst hn
      obtain ⟨hch, hver, hbl, hcs⟩ := eff.te rfl hv
      refine ⟨eff.version.trans inv.version, ?_, ?_, ?_, ?_, ?_, ?_, ?_⟩
      · rw [hcs, inv.clSeen]
        constructor
        · rintro ⟨w, hw⟩; exact ⟨w, by simp [hw]⟩
        · rintro ⟨w, hw⟩
          simp only [List.mem_append, List.mem_singleton, Prod.mk.injEq] at hw
          rcases hw with hw | ⟨hw, _⟩
          · exact ⟨w, hw⟩
          · exact absurd hw nCL_ne_nTE
      · have : ([(nTE, v)] : List (Bytes × Bytes)).filter (fun f => f.1 = nCL) = [] := by
          simp [Ne.symm nCL_ne_nTE]
        simp [List.filter_append, this, inv.clOnce]
      · intro w hw
        simp only [List.mem_append, List.mem_singleton, Prod.mk.injEq] at hw
        rcases hw with hw | ⟨hw, _⟩
        · obtain ⟨h1, k, hk, _⟩ := inv.clNum w hw
          exact ⟨h1, k, hk, Or.inr hbl⟩
        · exact absurd hw nCL_ne_nTE
      · simp only [hbl, true_iff]
        exact ⟨v, by simp, hv⟩
      · intro _; exact Or.inr hbl
      · intro w hw hwne
        simp only [List.mem_append, List.mem_singleton, Prod.mk.injEq, true_and] at hw
        rcases hw with hw | hw
        · exact inv.te w hw hwne
        · subst hw; exact ⟨hch, by rw [← inv.version]; exact hver⟩
      · intro hso f hf
        simp only [List.mem_append, List.mem_singleton] at hf
        rcases hf with hf | hf
        · exact inv.strictVal hso f hf
        · subst hf; exact eff.strictVal hso
    · -- any other field (or an empty Transfer-Encoding, which is ignored)
      have hte' : n = nTE → v = [] := by
        intro hn
        apply Decidable.byContradiction
        intro hv
        exact hte ⟨hn, hv⟩
      obtain ⟨hbl, hcs⟩ := eff.other hcl hte'
      refine ⟨eff.version.trans inv.version, ?_, ?_, ?_, ?_, ?_, ?_, ?_⟩
      · rw [hcs, inv.clSeen]
        constructor
        · rintro ⟨w, hw⟩; exact ⟨w, by simp [hw]⟩
        · rintro ⟨w, hw⟩
          simp only [List.mem_append, List.mem_singleton, Prod.mk.injEq] at hw
          rcases hw with hw | ⟨hw, _⟩
          · exact ⟨w, hw⟩
          · exact absurd hw.symm hcl
      · have : ([(n, v)] : List (Bytes × Bytes)).filter (fun f => f.1 = nCL) = [] := by
          simp [hcl]
        simp [List.filter_append, this, inv.clOnce]
      · intro w hw
        simp only [List.mem_append, List.mem_singleton, Prod.mk.injEq] at hw
        rcases hw with hw | ⟨hw, _⟩
        · rw [hbl]; exact inv.clNum w hw
        · exact absurd hw.symm hcl
      · rw [hbl, inv.chunked]
        constructor
        · rintro ⟨w, hw, hwne⟩; exact ⟨w, by simp [hw], hwne⟩
        · rintro ⟨w, hw, hwne⟩
          simp only [List.mem_append, List.mem_singleton, Prod.mk.injEq] at hw
          rcases hw with hw | ⟨hw1, hw2⟩
          · exact ⟨w, hw, hwne⟩
          · subst hw2; exact absurd (hte' hw1.symm) hwne
      · intro hno
        rw [hbl]
        apply inv.noCl
        rintro ⟨w, hw⟩
        exact hno ⟨w, by simp [hw]⟩
      · intro w hw hwne
        simp only [List.mem_append, List.mem_singleton, Prod.mk.injEq] at hw
        rcases hw with hw | ⟨hw1, hw2⟩
        · exact inv.te w hw hwne
        · subst hw2; exact absurd (hte' hw1.symm) hwne
      · intro hso f hf
        simp only [List.mem_append, List.mem_singleton] at hf
        rcases hf with hf | hf
        · exact inv.strictVal hso f hf
        · subst hf; exact eff.strictVal hso

theorem FramingInv.run {o : Opts} {r0 : PReq} : ∀ (fs : List (Bytes × Bytes)) {pre : List (Bytes × Bytes)} {r r' : PReq},
    FramingInv o r0 pre r → applyFields o r fs = .ok r' → FramingInv o r0 (pre ++ fs) r' := by
  intro fs
  induction fs with
  | nil => intro pre r r' inv h; simp [applyFields] at h; subst h; simpa using inv
  | cons f rest ih =>
    intro pre r r' inv h
    obtain ⟨n, v⟩ := f
    simp only [applyFields] at h
    cases ha : applyField o r (n, v) with
    | error e => simp [ha] at h
    | ok r1 =>
      simp only [ha] at h
      have := ih (inv.step ha) h
      simpa using this

end LtVerif
