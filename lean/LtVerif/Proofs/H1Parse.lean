/-
  Helper lemmas for the request-head parser model (Model/H1Parse.lean).
-/
import LtVerif.Model.H1Parse
namespace LtVerif
open B

def nCL : Bytes := ofString "content-length"
def nTE : Bytes := ofString "transfer-encoding"
def vChunked : Bytes := ofString "chunked"

@[simp] theorem appendHeader_bodyLen (r : PReq) (n v : Bytes) : (appendHeader r n v).bodyLen = r.bodyLen := by
  unfold appendHeader; split <;> rfl
@[simp] theorem appendHeader_clSeen (r : PReq) (n v : Bytes) : (appendHeader r n v).clSeen = r.clSeen := by
  unfold appendHeader; split <;> rfl
@[simp] theorem appendHeader_version (r : PReq) (n v : Bytes) : (appendHeader r n v).version = r.version := by
  unfold appendHeader; split <;> rfl
@[simp] theorem appendHeader_method (r : PReq) (n v : Bytes) : (appendHeader r n v).method = r.method := by
  unfold appendHeader; split <;> rfl
@[simp] theorem setHost_bodyLen (r : PReq) (h : Bytes) : (setHost r h).bodyLen = r.bodyLen := rfl
@[simp] theorem setHost_clSeen (r : PReq) (h : Bytes) : (setHost r h).clSeen = r.clSeen := rfl
@[simp] theorem setHost_version (r : PReq) (h : Bytes) : (setHost r h).version = r.version := rfl

/-- effect of one accepted field on the framing-relevant part of the state -/
structure FieldEffect (o : Opts) (r : PReq) (n v : Bytes) (r' : PReq) : Prop where
  version : r'.version = r.version
  strictVal : o.headerStrict = true → v.any lineCharInvalidStrict = false
  cl : n = nCL → v ≠ [] ∧ r.clSeen = false ∧ r'.clSeen = true ∧
        ∃ k, strtoInt64 v = some k ∧ r'.bodyLen = if r.bodyLen = 0 then (k : Int) else r.bodyLen
  te : n = nTE → v ≠ [] ∧ eqIcase v vChunked = true ∧ r.version = 1 ∧ r.bodyLen ≠ -1 ∧ r'.bodyLen = -1 ∧
        r'.clSeen = r.clSeen
  other : n ≠ nCL → n ≠ nTE → r'.bodyLen = r.bodyLen ∧ r'.clSeen = r.clSeen

theorem classify_cl_iff (n : Bytes) : classifyHeader n = .contentLength ↔ n = nCL := by
  constructor
  · intro h
    unfold classifyHeader at h
    split at h; · simp at h
    split at h; · simp at h
    split at h; · simp at h
    split at h; · simp at h
    split at h
    · rename_i he; exact he
    · split at h <;> simp at h
  · intro h; subst h; decide

theorem classify_te_iff (n : Bytes) : classifyHeader n = .transferEncoding ↔ n = nTE := by
  constructor
  · intro h
    unfold classifyHeader at h
    split at h; · simp at h
    split at h; · simp at h
    split at h; · simp at h
    split at h; · simp at h
    split at h; · simp at h
    split at h
    · rename_i he; exact he
    · simp at h
  · intro h; subst h; decide

theorem singleHeader_effect (o : Opts) (r r' : PReq) (n v : Bytes) (hv : v ≠ [])
    (hs : o.headerStrict = true → v.any lineCharInvalidStrict = false)
    (h : singleHeader r n v = .ok r') : FieldEffect o r n v r' := by
  unfold singleHeader at h
  cases hk : classifyHeader n with
  | host =>
    have e1 : n ≠ nCL := fun e => by rw [(classify_cl_iff n).mpr e] at hk; simp at hk
    have e2 : n ≠ nTE := fun e => by rw [(classify_te_iff n).mpr e] at hk; simp at hk
    simp only [hk] at h
    have key : r'.version = r.version ∧ r'.bodyLen = r.bodyLen ∧ r'.clSeen = r.clSeen := by
      split at h
      · split at h <;> simp at h; subst h; exact ⟨rfl, rfl, rfl⟩
      · split at h
        · simp at h; subst h; exact ⟨rfl, rfl, rfl⟩
        · split at h
          · split at h <;> simp at h; subst h; exact ⟨rfl, rfl, rfl⟩
          · simp at h
    exact ⟨key.1, hs, fun e => absurd e e1, fun e => absurd e e2, fun _ _ => ⟨key.2.1, key.2.2⟩⟩
  | dupCheck =>
    have e1 : n ≠ nCL := fun e => by rw [(classify_cl_iff n).mpr e] at hk; simp at hk
    have e2 : n ≠ nTE := fun e => by rw [(classify_te_iff n).mpr e] at hk; simp at hk
    simp only [hk] at h
    have key : r'.version = r.version ∧ r'.bodyLen = r.bodyLen ∧ r'.clSeen = r.clSeen := by
      split at h
      · split at h <;> simp at h; subst h; exact ⟨rfl, rfl, rfl⟩
      · simp at h; subst h; simp
    exact ⟨key.1, hs, fun e => absurd e e1, fun e => absurd e e2, fun _ _ => ⟨key.2.1, key.2.2⟩⟩
  | ifNoneMatch =>
    have e1 : n ≠ nCL := fun e => by rw [(classify_cl_iff n).mpr e] at hk; simp at hk
    have e2 : n ≠ nTE := fun e => by rw [(classify_te_iff n).mpr e] at hk; simp at hk
    simp only [hk] at h
    have key : r'.version = r.version ∧ r'.bodyLen = r.bodyLen ∧ r'.clSeen = r.clSeen := by
      split at h
      · simp at h; subst h; exact ⟨rfl, rfl, rfl⟩
      · simp at h; subst h; simp
    exact ⟨key.1, hs, fun e => absurd e e1, fun e => absurd e e2, fun _ _ => ⟨key.2.1, key.2.2⟩⟩
  | connection =>
    have e1 : n ≠ nCL := fun e => by rw [(classify_cl_iff n).mpr e] at hk; simp at hk
    have e2 : n ≠ nTE := fun e => by rw [(classify_te_iff n).mpr e] at hk; simp at hk
    simp only [hk] at h
    simp at h; subst h
    exact ⟨by simp, hs, fun e => absurd e e1, fun e => absurd e e2, fun _ _ => by simp⟩
  | contentLength =>
    have hn : n = nCL := (classify_cl_iff n).mp hk
    have e2 : n ≠ nTE := by subst hn; decide
    simp only [hk] at h
    split at h
    · rename_i hcl
      split at h
      · rename_i k hkk
        simp at h; subst h
        refine ⟨by simp, hs, fun _ => ⟨hv, by simpa using hcl, rfl, k, hkk, rfl⟩, fun e => absurd e e2,
                fun e => absurd hn e⟩
      · simp at h
    · simp at h
  | transferEncoding =>
    have hn : n = nTE := (classify_te_iff n).mp hk
    have e1 : n ≠ nCL := by subst hn; decide
    simp only [hk] at h
    split at h
    · simp at h
    · rename_i hver
      split at h
      · simp at h
      · rename_i hch
        split at h
        · simp at h
        · rename_i hdup
          simp at h; subst h
          refine ⟨rfl, hs, fun e => absurd e e1,
                  fun _ => ⟨hv, by simpa [vChunked] using hch, by simpa using hver, hdup, rfl, rfl⟩,
                  fun _ hte => absurd hn hte⟩
  | other =>
    have e1 : n ≠ nCL := fun e => by rw [(classify_cl_iff n).mpr e] at hk; simp at hk
    have e2 : n ≠ nTE := fun e => by rw [(classify_te_iff n).mpr e] at hk; simp at hk
    simp only [hk] at h
    simp at h; subst h
    exact ⟨by simp, hs, fun e => absurd e e1, fun e => absurd e e2, fun _ _ => by simp⟩

theorem applyField_effect (o : Opts) (r r' : PReq) (n v : Bytes)
    (h : applyField o r (n, v) = .ok r') : FieldEffect o r n v r' := by
  unfold applyField at h
  simp only at h
  by_cases hv : v = []
  · subst hv
    by_cases hn : n = ofString "content-length"
    · simp [hn] at h
    · by_cases hn2 : n = ofString "transfer-encoding"
      · simp [hn2] at h
      · simp [hn, hn2] at h; subst h
        exact ⟨rfl, fun _ => by simp, fun e => absurd e hn, fun e => absurd e hn2, fun _ _ => ⟨rfl, rfl⟩⟩
  · have hve : v.isEmpty = false := by simpa using hv
    by_cases hst : (o.headerStrict && v.any lineCharInvalidStrict) = true
    · simp [hve, hst] at h
    · have hs : o.headerStrict = true → v.any lineCharInvalidStrict = false := by
        intro hso; simpa [hso] using hst
      simp only [hve, hst] at h
      exact singleHeader_effect o r r' n v hv hs (by simpa using h)

/-- fold of applyField over already tokenised fields -/
def applyFields (o : Opts) : PReq → List (Bytes × Bytes) → PRes
  | r, [] => .ok r
  | r, f :: fs =>
    match applyField o r f with
    | .error e => .error e
    | .ok r' => applyFields o r' fs

theorem foldl_headerStep_error (o : Opts) (gs : List (List Bytes)) (e : Nat) :
    gs.foldl (headerStep o) (.error e) = .error e := by
  induction gs with
  | nil => rfl
  | cons g rest ih => simpa [List.foldl_cons, headerStep] using ih

/-- the parser accepts the field lines iff every logical line tokenises and the
    tokenised fields are accepted in order -/
theorem foldl_headerStep_ok_iff (o : Opts) (groups : List (List Bytes)) : ∀ (r r' : PReq),
    (groups.foldl (headerStep o) (.ok r) = .ok r') ↔
    ∃ fs : List (Bytes × Bytes), groups.map (fieldOf o) = fs.map Except.ok ∧ applyFields o r fs = .ok r' := by
  induction groups with
  | nil =>
    intro r r'
    simp only [List.foldl_nil, List.map_nil]
    constructor
    · intro h; exact ⟨[], rfl, by simpa [applyFields] using h⟩
    · rintro ⟨fs, hfs, h⟩
      cases fs with
      | nil => simpa [applyFields] using h
      | cons _ _ => simp at hfs
  | cons g rest ih =>
    intro r r'
    simp only [List.foldl_cons, List.map_cons]
    simp only [headerStep, parseFieldLine]
    cases hf : fieldOf o g with
    | error e =>
      simp only
      rw [foldl_headerStep_error]
      constructor
      · intro h; simp at h
      · rintro ⟨fs, hfs, _⟩
        cases fs with
        | nil => simp at hfs
        | cons f fs' => simp at hfs
    | ok f =>
      simp only
      cases ha : applyField o r f with
      | error e =>
        rw [foldl_headerStep_error]
        constructor
        · intro h; simp at h
        · rintro ⟨fs, hfs, h⟩
          cases fs with
          | nil => simp at hfs
          | cons f' fs' =>
            simp only [List.map_cons, List.cons.injEq, Except.ok.injEq] at hfs
            obtain ⟨hff, _⟩ := hfs
            subst hff
            simp [applyFields, ha] at h
      | ok r1 =>
        rw [ih r1 r']
        constructor
        · rintro ⟨fs, hfs, h⟩
          exact ⟨f :: fs, by simp [hfs], by simp [applyFields, ha, h]⟩
        · rintro ⟨fs, hfs, h⟩
          cases fs with
          | nil => simp at hfs
          | cons f' fs' =>
            simp only [List.map_cons, List.cons.injEq, Except.ok.injEq] at hfs
            obtain ⟨hff, hrest⟩ := hfs
            subst hff
            simp only [applyFields, ha] at h
            exact ⟨fs', hrest, h⟩

theorem parseHeaders_ok_iff (o : Opts) (r r' : PReq) (lines : List Bytes) :
    parseHeaders o r lines = .ok r' ↔
    ∃ fs : List (Bytes × Bytes), (groupFolds lines).map (fieldOf o) = fs.map Except.ok ∧
      applyFields o r fs = .ok r' :=
  foldl_headerStep_ok_iff o (groupFolds lines) r r'

/-- an accepted logical field line unfolds and has an acceptable line end -/
theorem fieldOf_ok_stripEol (o : Opts) (phys : List Bytes) (f : Bytes × Bytes)
    (h : fieldOf o phys = .ok f) :
    ∃ j body, joinFolds o.headerStrict phys = some j ∧ stripEol o.headerStrict j = some body := by
  unfold fieldOf at h
  cases phys with
  | nil => simp at h
  | cons first conts =>
    simp only at h
    cases hci : findIdx (· = colon) first 0 with
    | none => simp [hci] at h
    | some ci =>
      simp only [hci] at h
      cases hj : joinFolds o.headerStrict (first :: conts) with
      | none =>
        simp only [hj] at h
        repeat' split at h
        all_goals simp at h
      | some j =>
        cases hb : stripEol o.headerStrict j with
        | none =>
          simp only [hj, hb] at h
          repeat' split at h
          all_goals simp at h
        | some body => exact ⟨j, body, rfl, hb⟩

theorem stripEol_strict_crlf (l body : Bytes) (h : stripEol true l = some body) :
    l.length ≥ 2 ∧ l.getD (l.length - 2) 0 = cr := by
  unfold stripEol at h
  simp only at h
  split at h
  · rename_i hc; simpa using hc
  · simp at h

/-- what holds between the fields accepted so far and the framing state -/
structure FramingInv (o : Opts) (r0 : PReq) (fs : List (Bytes × Bytes)) (r : PReq) : Prop where
  version : r.version = r0.version
  clSeen : r.clSeen = true ↔ ∃ v, (nCL, v) ∈ fs
  clOnce : (fs.filter (fun f => f.1 = nCL)).length ≤ 1
  clNum : ∀ v, (nCL, v) ∈ fs → v ≠ [] ∧ ∃ k : Nat, strtoInt64 v = some k ∧ (r.bodyLen = (k : Int) ∨ r.bodyLen = -1)
  chunked : r.bodyLen = -1 ↔ ∃ v, (nTE, v) ∈ fs
  teOnce : (fs.filter (fun f => f.1 = nTE)).length ≤ 1
  noCl : (¬ ∃ v, (nCL, v) ∈ fs) → r.bodyLen = 0 ∨ r.bodyLen = -1
  te : ∀ v, (nTE, v) ∈ fs → v ≠ [] ∧ eqIcase v vChunked = true ∧ r0.version = 1
  strictVal : o.headerStrict = true → ∀ f ∈ fs, f.2.any lineCharInvalidStrict = false

theorem FramingInv.init (o : Opts) (r0 : PReq) (h1 : r0.clSeen = false) (h2 : r0.bodyLen = 0) :
    FramingInv o r0 [] r0 :=
  ⟨rfl, by simp [h1], by simp, by simp, by simp [h2], by simp, fun _ => Or.inl h2, by simp, by simp⟩

theorem nCL_ne_nTE : nCL ≠ nTE := by decide

theorem FramingInv.step {o : Opts} {r0 r r1 : PReq} {pre : List (Bytes × Bytes)} {n v : Bytes}
    (inv : FramingInv o r0 pre r) (h : applyField o r (n, v) = .ok r1) :
    FramingInv o r0 (pre ++ [(n, v)]) r1 := by
  have eff := applyField_effect o r r1 n v h
  have hsv : o.headerStrict = true → ∀ f ∈ pre ++ [(n, v)], f.2.any lineCharInvalidStrict = false := by
    intro hso f hf
    simp only [List.mem_append, List.mem_singleton] at hf
    rcases hf with hf | hf
    · exact inv.strictVal hso f hf
    · subst hf; exact eff.strictVal hso
  by_cases hcl : n = nCL
  · -- a Content-Length field
    subst hcl
    obtain ⟨hv, hunseen, hseen, k, hk, hbl⟩ := eff.cl rfl
    have hnone : ¬ ∃ v, (nCL, v) ∈ pre := by
      intro hex; have := inv.clSeen.mpr hex; simp [hunseen] at this
    refine ⟨eff.version.trans inv.version, ?_, ?_, ?_, ?_, ?_, ?_, ?_, hsv⟩
    · simp [hseen]
    · have : pre.filter (fun f => f.1 = nCL) = [] := by
        rw [List.filter_eq_nil_iff]
        intro f hf hfe
        simp only [decide_eq_true_eq] at hfe
        exact hnone ⟨f.2, by rw [← hfe]; exact hf⟩
      simp [List.filter_append, this]
    · intro w hw
      simp only [List.mem_append, List.mem_singleton, Prod.mk.injEq, true_and] at hw
      rcases hw with hw | hw
      · exact absurd ⟨w, hw⟩ hnone
      · subst hw
        refine ⟨hv, k, hk, ?_⟩
        rw [hbl]
        split
        · exact Or.inl rfl
        · rename_i hne
          rcases inv.noCl hnone with h0 | h1
          · exact absurd h0 hne
          · exact Or.inr h1
    · rw [hbl]
      constructor
      · intro hm
        have : r.bodyLen = -1 := by
          split at hm
          · omega
          · exact hm
        obtain ⟨w, hw⟩ := inv.chunked.mp this
        exact ⟨w, by simp [hw]⟩
      · rintro ⟨w, hw⟩
        simp only [List.mem_append, List.mem_singleton, Prod.mk.injEq] at hw
        rcases hw with hw | ⟨hw, _⟩
        · have := inv.chunked.mpr ⟨w, hw⟩
          rw [this]; simp
        · exact absurd hw.symm nCL_ne_nTE
    · have : ([(nCL, v)] : List (Bytes × Bytes)).filter (fun f => f.1 = nTE) = [] := by
        simp [nCL_ne_nTE]
      simp [List.filter_append, this, inv.teOnce]
    · intro hno
      exact absurd ⟨v, by simp⟩ hno
    · intro w hw
      simp only [List.mem_append, List.mem_singleton, Prod.mk.injEq] at hw
      rcases hw with hw | ⟨hw, _⟩
      · exact inv.te w hw
      · exact absurd hw.symm nCL_ne_nTE
  · by_cases hte : n = nTE
    · -- a Transfer-Encoding field
      subst hte
      obtain ⟨hv, hch, hver, hnot, hbl, hcs⟩ := eff.te rfl
      have hnone : ¬ ∃ v, (nTE, v) ∈ pre := fun hex => hnot (inv.chunked.mpr hex)
      refine ⟨eff.version.trans inv.version, ?_, ?_, ?_, ?_, ?_, ?_, ?_, hsv⟩
      · rw [hcs, inv.clSeen]
        constructor
        · rintro ⟨w, hw⟩; exact ⟨w, by simp [hw]⟩
        · rintro ⟨w, hw⟩
          simp only [List.mem_append, List.mem_singleton, Prod.mk.injEq] at hw
          rcases hw with hw | ⟨hw, _⟩
          · exact ⟨w, hw⟩
          · exact absurd hw nCL_ne_nTE
      · have : ([(nTE, v)] : List (Bytes × Bytes)).filter (fun f => f.1 = nCL) = [] := by
          simp [Ne.symm nCL_ne_nTE]
        simp [List.filter_append, this, inv.clOnce]
      · intro w hw
        simp only [List.mem_append, List.mem_singleton, Prod.mk.injEq] at hw
        rcases hw with hw | ⟨hw, _⟩
        · obtain ⟨h1, k, hk, _⟩ := inv.clNum w hw
          exact ⟨h1, k, hk, Or.inr hbl⟩
        · exact absurd hw nCL_ne_nTE
      · simp only [hbl, true_iff]
        exact ⟨v, by simp⟩
      · have : pre.filter (fun f => f.1 = nTE) = [] := by
          rw [List.filter_eq_nil_iff]
          intro f hf hfe
          simp only [decide_eq_true_eq] at hfe
          exact hnone ⟨f.2, by rw [← hfe]; exact hf⟩
        simp [List.filter_append, this]
      · intro _; exact Or.inr hbl
      · intro w hw
        simp only [List.mem_append, List.mem_singleton, Prod.mk.injEq, true_and] at hw
        rcases hw with hw | hw
        · exact inv.te w hw
        · subst hw; exact ⟨hv, hch, by rw [← inv.version]; exact hver⟩
    · -- any other field
      obtain ⟨hbl, hcs⟩ := eff.other hcl hte
      refine ⟨eff.version.trans inv.version, ?_, ?_, ?_, ?_, ?_, ?_, ?_, hsv⟩
      · rw [hcs, inv.clSeen]
        constructor
        · rintro ⟨w, hw⟩; exact ⟨w, by simp [hw]⟩
        · rintro ⟨w, hw⟩
          simp only [List.mem_append, List.mem_singleton, Prod.mk.injEq] at hw
          rcases hw with hw | ⟨hw, _⟩
          · exact ⟨w, hw⟩
          · exact absurd hw.symm hcl
      · have : ([(n, v)] : List (Bytes × Bytes)).filter (fun f => f.1 = nCL) = [] := by
          simp [hcl]
        simp [List.filter_append, this, inv.clOnce]
      · intro w hw
        simp only [List.mem_append, List.mem_singleton, Prod.mk.injEq] at hw
        rcases hw with hw | ⟨hw, _⟩
        · rw [hbl]; exact inv.clNum w hw
        · exact absurd hw.symm hcl
      · rw [hbl, inv.chunked]
        constructor
        · rintro ⟨w, hw⟩; exact ⟨w, by simp [hw]⟩
        · rintro ⟨w, hw⟩
          simp only [List.mem_append, List.mem_singleton, Prod.mk.injEq] at hw
          rcases hw with hw | ⟨hw1, _⟩
          · exact ⟨w, hw⟩
          · exact absurd hw1.symm hte
      · have : ([(n, v)] : List (Bytes × Bytes)).filter (fun f => f.1 = nTE) = [] := by
          simp [hte]
        simp [List.filter_append, this, inv.teOnce]
      · intro hno
        rw [hbl]
        apply inv.noCl
        rintro ⟨w, hw⟩
        exact hno ⟨w, by simp [hw]⟩
      · intro w hw
        simp only [List.mem_append, List.mem_singleton, Prod.mk.injEq] at hw
        rcases hw with hw | ⟨hw1, _⟩
        · exact inv.te w hw
        · exact absurd hw1.symm hte

theorem FramingInv.run {o : Opts} {r0 : PReq} : ∀ (fs : List (Bytes × Bytes)) {pre : List (Bytes × Bytes)} {r r' : PReq},
    FramingInv o r0 pre r → applyFields o r fs = .ok r' → FramingInv o r0 (pre ++ fs) r' := by
  intro fs
  induction fs with
  | nil => intro pre r r' inv h; simp [applyFields] at h; subst h; simpa using inv
  | cons f rest ih =>
    intro pre r r' inv h
    obtain ⟨n, v⟩ := f
    simp only [applyFields] at h
    cases ha : applyField o r (n, v) with
    | error e => simp [ha] at h
    | ok r1 =>
      simp only [ha] at h
      have := ih (inv.step ha) h
      simpa using this

/-! ### control characters in the request-target (burl_normalize) -/

/-- control characters: 0x00-0x1f and DEL -/
def isCtl (b : UInt8) : Bool := b < 32 || b = 127

theorem forall_u8 (P : UInt8 → Prop) (h : ∀ n, n < 256 → P (UInt8.ofNat n)) : ∀ b, P b := by
  intro b
  have := h b.toNat (UInt8.toNat_lt b)
  simpa using this

theorem ctl_facts : ∀ b : UInt8, isCtl b = true →
    reqd b = true ∧ b ≠ pct ∧ b ≠ hash ∧
    (hexDigitUC (b >>> 4) < 50 ∨ (hexDigitUC (b >>> 4) = 55 ∧ hexDigitUC (b &&& 0xf) = 70)) := by
  apply forall_u8
  decide +kernel

theorem hex_facts : ∀ b : UInt8, (hexVal b).isSome = true → isCtl b = false ∧ b ≠ hash := by
  apply forall_u8
  decide +kernel

theorem notreqd_facts : ∀ b : UInt8, reqd b = false → isCtl b = false := by
  apply forall_u8
  decide +kernel

/-- the (reversed) output holds the percent-encoding of a control character -/
def HasCtlEnc (out : Bytes) : Prop :=
  ∃ pre post h l, out = post ++ l :: h :: pct :: pre ∧ (h < 50 ∨ (h = 55 ∧ l = 70))

theorem HasCtlEnc.append {out : Bytes} (x : Bytes) (h : HasCtlEnc out) : HasCtlEnc (x ++ out) := by
  obtain ⟨pre, post, hh, l, he, hf⟩ := h
  exact ⟨pre, x ++ post, hh, l, by simp [he], hf⟩

theorem HasCtlEnc.cons {out : Bytes} (x : UInt8) (h : HasCtlEnc out) : HasCtlEnc (x :: out) :=
  HasCtlEnc.append [x] h

theorem containsCtrls_cons (x : UInt8) (ys : Bytes) (h : containsCtrls ys = true) :
    containsCtrls (x :: ys) = true := by
  cases ys with
  | nil => simp [containsCtrls] at h
  | cons a ys' =>
    cases ys' with
    | nil => simp [containsCtrls] at h
    | cons b rest => simp only [containsCtrls]; simp [h]

theorem containsCtrls_of_infix : ∀ (pre post : Bytes) (h l : UInt8), (h < 50 ∨ (h = 55 ∧ l = 70)) →
    containsCtrls (pre ++ pct :: h :: l :: post) = true := by
  intro pre
  induction pre with
  | nil =>
    intro post h l hf
    simp only [List.nil_append, containsCtrls]
    rcases hf with hf | ⟨h1, h2⟩ <;> simp_all
  | cons x pre' ih =>
    intro post h l hf
    exact containsCtrls_cons x _ (ih post h l hf)

theorem containsCtrls_of_hasCtlEnc {out : Bytes} (h : HasCtlEnc out) : containsCtrls out.reverse = true := by
  obtain ⟨pre, post, hh, l, he, hf⟩ := h
  subst he
  have : (post ++ l :: hh :: pct :: pre).reverse = pre.reverse ++ pct :: hh :: l :: post.reverse := by simp
  rw [this]
  exact containsCtrls_of_infix _ _ _ _ hf


theorem normBasic_mono (req : Bool) : ∀ (n : Nat) (s : Bytes) (acc : NormAcc), s.length ≤ n →
    HasCtlEnc acc.out → HasCtlEnc (normBasic req s acc).out := by
  intro n
  induction n with
  | zero =>
    intro s acc hl h
    have : s = [] := List.length_eq_zero_iff.mp (by omega)
    subst this
    simpa [normBasic] using h
  | succ n ih =>
    intro s acc hl h
    cases s with
    | nil => simpa [normBasic] using h
    | cons b rest =>
      simp only [List.length_cons] at hl
      rw [normBasic]
      simp only []
      repeat' split
      all_goals first
        | exact h
        | (apply ih rest _ (by omega)
           first | exact HasCtlEnc.cons _ h | exact HasCtlEnc.append _ h)
        | (apply ih (rest.drop 2) _ (by have := List.length_drop (i := 2) (l := rest); omega)
           first | exact HasCtlEnc.cons _ h | exact HasCtlEnc.cons _ (HasCtlEnc.cons _ (HasCtlEnc.cons _ h)))


theorem hex2_some {rest : Bytes} {hv lv : UInt8} (h : hex2 rest = some (hv, lv)) :
    ∃ h1 h2 rest', rest = h1 :: h2 :: rest' ∧ (hexVal h1).isSome = true ∧ (hexVal h2).isSome = true := by
  unfold hex2 at h
  split at h
  · rename_i h1 h2 rest'
    split at h
    · rename_i a b ha hb
      exact ⟨h1, h2, rest', rfl, by simp [ha], by simp [hb]⟩
    · simp at h
  · simp at h

theorem mem_takeWhile_drop2 {rest : Bytes} {c : UInt8} (hx : ∃ hv lv, hex2 rest = some (hv, lv))
    (hc : c ∈ rest.takeWhile (· ≠ hash)) (hctl : isCtl c = true) : c ∈ (rest.drop 2).takeWhile (· ≠ hash) := by
  obtain ⟨hv, lv, hx⟩ := hx
  obtain ⟨h1, h2, rest', rfl, e1, e2⟩ := hex2_some hx
  have f1 := hex_facts h1 e1
  have f2 := hex_facts h2 e2
  simp only [List.takeWhile_cons, ne_eq, f1.2, f2.2, not_false_eq_true, decide_true, if_true,
             List.mem_cons] at hc
  rcases hc with rfl | rfl | hc
  · simp [f1.1] at hctl
  · simp [f2.1] at hctl
  · simpa using hc

/-- a control character before the first '#' leaves its percent-encoding in the normalised URL -/
theorem normBasic_ctl (req : Bool) : ∀ (n : Nat) (s : Bytes) (acc : NormAcc), s.length ≤ n →
    (∃ c ∈ s.takeWhile (· ≠ hash), isCtl c = true) → HasCtlEnc (normBasic req s acc).out := by
  intro n
  induction n with
  | zero =>
    intro s acc hl ⟨c, hc, _⟩
    have : s = [] := List.length_eq_zero_iff.mp (by omega)
    subst this
    simp at hc
  | succ n ih =>
    intro s acc hl ⟨c, hc, hctl⟩
    cases s with
    | nil => simp at hc
    | cons b rest =>
      simp only [List.length_cons] at hl
      by_cases hb : b = hash
      · simp [hb] at hc
      · simp only [List.takeWhile_cons, ne_eq, hb, not_false_eq_true, decide_true, if_true, List.mem_cons] at hc
        rcases hc with rfl | hc
        · -- the control character itself: it is percent-encoded
          obtain ⟨f1, f2, f3, f4⟩ := ctl_facts c hctl
          rw [normBasic]
          simp only [f1, f2, f3, Bool.not_true, Bool.false_eq_true, if_false]
          apply normBasic_mono req rest.length rest _ (Nat.le_refl _)
          exact ⟨acc.out, [], hexDigitUC (c >>> 4), hexDigitUC (c &&& 0xf), by simp [pctEnc], f4⟩
        · rw [normBasic]
          simp only []
          repeat' split
          all_goals first
            | (exact absurd (by assumption) hb)
            | (apply ih rest _ (by omega); exact ⟨c, hc, hctl⟩)
            | (apply ih (rest.drop 2) _ (by have := List.length_drop (i := 2) (l := rest); omega)
               exact ⟨c, mem_takeWhile_drop2 ⟨_, _, by assumption⟩ hc hctl, hctl⟩)


theorem burlNormalize_ctl (o : Opts) (hc : o.ctrlsReject = true) (s : Bytes)
    (h : ∃ c ∈ s.takeWhile (· ≠ hash), isCtl c = true) : burlNormalize o s = none := by
  have := containsCtrls_of_hasCtlEnc (normBasic_ctl o.urlRequired s.length s {} (Nat.le_refl _) h)
  unfold burlNormalize
  simp only [hc, this, Bool.true_and, if_true]
  split <;> rfl

theorem parseTarget_ctl (o : Opts) (hc : o.ctrlsReject = true) (hn : o.urlNormalize = true) (t : Bytes)
    (h : ∃ c ∈ t.takeWhile (· ≠ hash), isCtl c = true) : parseTarget o false t = .error 400 := by
  unfold parseTarget
  simp [hn, burlNormalize_ctl o hc t h]


/-! ### what accepted fields and request lines keep / establish -/

def nHost : Bytes := ofString "host"

@[simp] theorem appendHeader_host (r : PReq) (n v : Bytes) : (appendHeader r n v).host = r.host := by
  unfold appendHeader; split <;> rfl
@[simp] theorem appendHeader_target (r : PReq) (n v : Bytes) : (appendHeader r n v).target = r.target := by
  unfold appendHeader; split <;> rfl
@[simp] theorem setHost_target (r : PReq) (h : Bytes) : (setHost r h).target = r.target := rfl
@[simp] theorem setHost_method (r : PReq) (h : Bytes) : (setHost r h).method = r.method := rfl

theorem classify_host (n : Bytes) (h : classifyHeader n = .host) : n = nHost := by
  unfold classifyHeader at h
  split at h
  · assumption
  · repeat' split at h
    all_goals simp at h

/-- an accepted field leaves method and target alone; the host changes only through a Host field -/
theorem singleHeader_keeps (r r' : PReq) (n v : Bytes) (h : singleHeader r n v = .ok r') :
    r'.target = r.target ∧ r'.method = r.method ∧ (n ≠ nHost → r'.host = r.host) := by
  unfold singleHeader at h
  cases hk : classifyHeader n with
  | host =>
    refine ⟨?_, ?_, fun hn => absurd (classify_host n hk) hn⟩ <;>
    · simp only [hk] at h
      repeat' split at h
      all_goals (first | (simp at h; done) | (simp only [Except.ok.injEq] at h; subst h; simp))
  | _ =>
    simp only [hk] at h
    repeat' split at h
    all_goals (first | (simp at h; done) | (simp only [Except.ok.injEq] at h; subst h; simp))


theorem applyField_keeps (o : Opts) (r r' : PReq) (n v : Bytes) (h : applyField o r (n, v) = .ok r') :
    r'.target = r.target ∧ r'.method = r.method ∧ (n ≠ nHost → r'.host = r.host) := by
  unfold applyField at h
  simp only at h
  repeat' split at h
  all_goals (first | (simp at h; done) | (simp only [Except.ok.injEq] at h; subst h; simp) |
                     exact singleHeader_keeps r r' n v h)

theorem applyFields_keeps (o : Opts) : ∀ (fs : List (Bytes × Bytes)) (r r' : PReq), applyFields o r fs = .ok r' →
    r'.target = r.target ∧ r'.method = r.method ∧ ((∀ f ∈ fs, f.1 ≠ nHost) → r'.host = r.host) := by
  intro fs
  induction fs with
  | nil => intro r r' h; simp [applyFields] at h; subst h; simp
  | cons f rest ih =>
    intro r r' h
    obtain ⟨n, v⟩ := f
    simp only [applyFields] at h
    cases ha : applyField o r (n, v) with
    | error e => simp [ha] at h
    | ok r1 =>
      simp only [ha] at h
      obtain ⟨h1, h2, h3⟩ := applyField_keeps o r r1 n v ha
      obtain ⟨g1, g2, g3⟩ := ih r1 r' h
      refine ⟨g1.trans h1, g2.trans h2, fun hall => ?_⟩
      rw [g3 (fun f hf => hall f (by simp [hf])), h3 (hall (n, v) (by simp))]

/-! ### request line -/

theorem reqlineUri_ok {o : Opts} {r r1 : PReq} {uri uri' : Bytes} (h : reqlineUri o r uri = .ok (r1, uri')) :
    (r1 = r ∧ uri' = uri) ∨ (∃ host, r1 = setHost r host) := by
  unfold reqlineUri at h
  simp only at h
  repeat' split at h
  all_goals (first | (simp at h; done) |
    (simp only [Except.ok.injEq, Prod.mk.injEq] at h; first | (exact .inl ⟨h.1.symm, h.2.symm⟩) | (exact .inr ⟨_, h.1.symm⟩)))

/-- what an accepted request line establishes -/
structure ReqlineOk (o : Opts) (line : Bytes) (r0 : PReq) : Prop where
  fresh : r0.clSeen = false ∧ r0.bodyLen = 0
  method : methodTable.contains r0.method = true
  version : r0.version = 0 ∨ r0.version = 1
  target : r0.target ≠ []
  host : r0.host = none ∨ ∃ h, r0.host = some h ∧ r0.headers = [(nHost, h)]
  strictEol : o.headerStrict = true → line.getD (line.length - 2) 0 = cr

theorem parseReqlineCore_ok {o : Opts} {line : Bytes} {r1 : PReq} {uri : Bytes}
    (h : parseReqlineCore o line = .ok (r1, uri)) :
    (r1.clSeen = false ∧ r1.bodyLen = 0) ∧ methodTable.contains r1.method = true ∧
    (r1.version = 0 ∨ r1.version = 1) ∧
    (r1.host = none ∨ ∃ hh, r1.host = some hh ∧ r1.headers = [(nHost, hh)]) ∧
    (o.headerStrict = true → line.getD (line.length - 2) 0 = cr) ∧ r1.target = [] := by
  unfold parseReqlineCore at h
  split at h
  · simp at h
  · simp only at h
    split at h
    · simp at h
    · rename_i l hl
      have hcr : o.headerStrict = true → line.getD (line.length - 2) 0 = cr := by
        intro hs
        split at hl
        · assumption
        · simp [hs] at hl
      split at h
      · simp at h
      · rename_i ver hver
        have hv : ver = 0 ∨ ver = 1 := by
          split at hver
          · simp at hver; exact .inr hver.symm
          · split at hver
            · simp at hver; exact .inl hver.symm
            · simp at hver
        split at h
        · simp at h
        · split at h
          · simp at h
          · rename_i hm
            split at h
            · simp at h
            · split at h
              · simp only [Except.ok.injEq, Prod.mk.injEq] at h
                obtain ⟨h1, _⟩ := h
                subst h1
                exact ⟨⟨rfl, rfl⟩, by simpa using hm, hv, .inl rfl, hcr, rfl⟩
              · rcases reqlineUri_ok h with ⟨h1, _⟩ | ⟨host, h1⟩
                · subst h1
                  exact ⟨⟨rfl, rfl⟩, by simpa using hm, hv, .inl rfl, hcr, rfl⟩
                · subst h1
                  exact ⟨⟨rfl, rfl⟩, by simpa using hm, hv, .inr ⟨_, rfl, rfl⟩, hcr, rfl⟩

theorem parseReqline_ok {o : Opts} {line blk : Bytes} {r0 : PReq} (h : parseReqline o line blk = .ok r0) :
    ReqlineOk o line r0 := by
  unfold parseReqline at h
  split at h
  · simp at h
  · rename_i r1 uri hc
    obtain ⟨hf, hm, hv, hh, hcr, _⟩ := parseReqlineCore_ok hc
    split at h
    · simp at h
    · rename_i hne
      simp only at h
      repeat' split at h
      all_goals (first | (simp at h; done) |
        (simp only [Except.ok.injEq] at h; subst h; exact ⟨hf, hm, hv, by simpa using hne, hh, hcr⟩))


/-- the character checks of the request line step, read off an accepted line -/
theorem parseReqline_checks {o : Opts} {line blk : Bytes} {r0 : PReq} (h : parseReqline o line blk = .ok r0) :
    (o.headerStrict = false → blk.contains 0 = false) ∧
    (o.headerStrict = true → (o.ctrlsReject = false ∨ r0.method = ofString "CONNECT") →
       r0.target.any uriCharInvalidStrict = false) ∧
    (o.headerStrict = true → o.ctrlsReject = true → r0.method ≠ ofString "CONNECT" →
       fragmentInvalidStrict r0.target = false) := by
  unfold parseReqline at h
  split at h
  · simp at h
  · rename_i r1 uri hc
    split at h
    · simp at h
    · simp only at h
      cases hs : o.headerStrict <;> cases hcr : o.ctrlsReject <;>
        by_cases hm : r1.method = ofString "CONNECT" <;>
        simp only [hs, hcr, hm] at h <;>
        (repeat' split at h) <;>
        (first | (simp at h; done) | (simp_all; done) |
                 (simp only [Except.ok.injEq] at h; subst h; simp_all))

/-! ### lines of a head and its bytes -/

theorem splitLines_spec : ∀ (b cur : Bytes), ∃ rem, cur ++ b = (splitLines b cur).flatten ++ rem ∧
    ∀ l ∈ splitLines b cur, l.getLast? = some lf := by
  intro b
  induction b with
  | nil => intro cur; exact ⟨cur, by simp [splitLines], by simp [splitLines]⟩
  | cons x rest ih =>
    intro cur
    unfold splitLines
    split
    · rename_i hx
      obtain ⟨rem, h1, h2⟩ := ih []
      refine ⟨rem, ?_, ?_⟩
      · simp only [List.flatten_cons, List.append_assoc]
        simp only [List.nil_append] at h1
        rw [← h1]; simp
      · intro l hl
        simp only [List.mem_cons] at hl
        rcases hl with rfl | hl
        · simp [hx]
        · exact h2 l hl
    · obtain ⟨rem, h1, h2⟩ := ih (cur ++ [x])
      exact ⟨rem, by rw [← h1]; simp, h2⟩

theorem takeHead_spec : ∀ (ls acc lines : List Bytes) (bl : Bytes), takeHead ls acc = some (lines, bl) →
    ∃ rest, acc.reverse ++ ls = lines ++ bl :: rest ∧ isBlankLine bl = true ∧
      ∀ l ∈ lines, l ∈ acc ∨ (l ∈ ls ∧ isBlankLine l = false) := by
  intro ls
  induction ls with
  | nil => intro acc lines bl h; simp [takeHead] at h
  | cons l rest ih =>
    intro acc lines bl h
    unfold takeHead at h
    split at h
    · rename_i hb
      simp only [Option.some.injEq, Prod.mk.injEq] at h
      obtain ⟨h1, h2⟩ := h
      subst h1 h2
      exact ⟨rest, rfl, hb, fun x hx => .inl (by simpa using hx)⟩
    · rename_i hb
      obtain ⟨rest', h1, h2, h3⟩ := ih (l :: acc) lines bl h
      refine ⟨rest', by simpa using h1, h2, fun x hx => ?_⟩
      rcases h3 x hx with h4 | ⟨h4, h5⟩
      · simp only [List.mem_cons] at h4
        rcases h4 with rfl | h4
        · exact .inr ⟨by simp, by simpa using hb⟩
        · exact .inl h4
      · exact .inr ⟨by simp [h4], h5⟩

/-- the lines `recvHead` hands to the parser ARE the bytes of the block up to and including the first
    blank line: each ends in LF, none is blank -/
theorem recvHead_head_bytes {mf : Nat} {block : Bytes} {lines : List Bytes} {len : Nat}
    (h : recvHead mf block = .head lines len) :
    ∃ bl, isBlankLine bl = true ∧ block.take len = lines.flatten ++ bl ∧ len = (lines.flatten ++ bl).length ∧
      len ≤ mf ∧ lines ≠ [] ∧ ∀ l ∈ lines, isBlankLine l = false ∧ l.getLast? = some lf := by
  unfold recvHead at h
  simp only at h
  split at h
  · split at h <;> simp at h
  · rename_i lines' bl hth
    obtain ⟨rem, hs1, hs2⟩ := splitLines_spec block []
    obtain ⟨rest, ht1, ht2, ht3⟩ := takeHead_spec _ _ _ _ hth
    simp only [List.reverse_nil, List.nil_append] at ht1 hs1
    split at h
    · simp at h
    · rename_i hsz
      split at h
      · simp at h
      · rename_i hne
        simp only [HeadOut.head.injEq] at h
        obtain ⟨h1, h2⟩ := h
        subst h1
        have hlen : len = (lines'.flatten ++ bl).length := by
          rw [← h2]; simp [List.length_flatten]
        have hblock : block = (lines'.flatten ++ bl) ++ (rest.flatten ++ rem) := by
          rw [hs1, ht1]; simp
        refine ⟨bl, ht2, ?_, hlen, ?_, by simpa using hne, fun l hl => ?_⟩
        · rw [hblock, hlen]; exact List.take_left' rfl
        · simp only [Bool.or_eq_true, decide_eq_true_eq, not_or, Nat.not_lt] at hsz
          omega
        · rcases ht3 l hl with h4 | ⟨h4, h5⟩
          · simp at h4
          · exact ⟨h5, hs2 l h4⟩


/-- an accepted head decomposes into its stages -/
theorem parseHead_ok_decompose {o : Opts} {mf p : Nat} {block : Bytes} {r : PReq} {t : Target}
    (h : parseHead o mf p block = .ok r t) :
    ∃ rl fields len r0 r1, recvHead mf block = .head (rl :: fields) len ∧
      parseReqline o rl (block.take len) = .ok r0 ∧
      (o.headerStrict = true → block.getD (len - 2) 0 = cr) ∧
      parseHeaders o r0 fields = .ok r1 ∧ parsePost o p r1 = .ok r t := by
  unfold parseHead at h
  split at h
  · simp at h
  · simp at h
  · simp at h
  · rename_i lines len hrh
    split at h
    · simp at h
    · rename_i rl fields
      split at h
      · simp at h
      · rename_i r0 hrl
        split at h
        · simp at h
        · rename_i hbare
          split at h
          · simp at h
          · rename_i r1 hph
            split at h
            · simp at h
            · simp at h
            · rename_i r' t' hpp
              simp only [ReqOut.ok.injEq] at h
              obtain ⟨h1, h2⟩ := h
              subst h1 h2
              refine ⟨rl, fields, len, r0, r1, hrh, hrl, fun hs => ?_, hph, hpp⟩
              simpa [hs] using hbare

/-- in strict mode the blank line that ends an accepted head is CRLF -/
theorem strict_terminator_crlf {block : Bytes} {lines : List Bytes} {bl : Bytes} {len : Nat}
    (hbl : isBlankLine bl = true) (htake : block.take len = lines.flatten ++ bl)
    (hlen : len = (lines.flatten ++ bl).length) (hne : lines ≠ [])
    (hlf : ∀ l ∈ lines, l.getLast? = some lf) (hcr : block.getD (len - 2) 0 = cr) : bl = [cr, lf] := by
  unfold isBlankLine at hbl
  simp only [Bool.or_eq_true, decide_eq_true_eq] at hbl
  rcases hbl with rfl | rfl
  · -- bare LF: the byte before it is the LF of the last line
    exfalso
    obtain ⟨init, last, rfl⟩ : ∃ init last, lines = init ++ [last] := by
      have := List.eq_nil_or_concat lines
      rcases this with h | ⟨i, l, h⟩
      · exact absurd h hne
      · exact ⟨i, l, by simpa using h⟩
    have hl := hlf last (by simp)
    obtain ⟨q, rfl⟩ : ∃ q, last = q ++ [lf] := by
      cases hq : last.getLast? with
      | none => simp [hq] at hl
      | some c =>
        obtain ⟨q, hq'⟩ := List.getLast?_eq_some_iff.mp hq
        rw [hq] at hl
        simp only [Option.some.injEq] at hl
        subst hl
        exact ⟨q, hq'⟩
    have hlen' : len = (init.flatten ++ q).length + 2 := by
      rw [hlen]; simp; omega
    have : (block.take len).getD (len - 2) 0 = lf := by
      rw [htake, hlen']
      simp [List.getD_eq_getElem?_getD, List.getElem?_append]
    have h2 : (block.take len).getD (len - 2) 0 = block.getD (len - 2) 0 := by
      simp only [List.getD_eq_getElem?_getD]
      rw [List.getElem?_take_of_lt (by omega)]
    rw [h2, hcr] at this
    exact absurd this (by decide)
  · rfl


theorem ctl_uriInvalid : ∀ c : UInt8, isCtl c = true → uriCharInvalidStrict c = true := by
  apply forall_u8
  decide +kernel

/-- strict mode, any reachable option set: the target of an accepted request carries no control character
    (NUL included) anywhere -- before a '#' by URL normalisation (or the strict scan), behind it by the
    fragment check of the request line step -/
theorem accepted_target_ctl_free {o : Opts} {p : Nat} {r0 r1 r : PReq} {t : Target} {line blk : Bytes}
    (hrl : parseReqline o line blk = .ok r0) (ht : r1.target = r0.target) (hm : r1.method = r0.method)
    (hpp : parsePost o p r1 = .ok r t) (hs : o.headerStrict = true)
    (hreach : o.ctrlsReject = true → o.urlNormalize = true) : ∀ c ∈ r0.target, isCtl c = false := by
  intro c hc
  cases hctl : isCtl c with
  | false => rfl
  | true =>
    exfalso
    obtain ⟨_, hstrict, hfrag⟩ := parseReqline_checks hrl
    by_cases hmode : o.ctrlsReject = false ∨ r0.method = ofString "CONNECT"
    · have := hstrict hs hmode
      rw [List.any_eq_false] at this
      exact this c hc (ctl_uriInvalid c hctl)
    · have hcr : o.ctrlsReject = true := by
        cases h : o.ctrlsReject with
        | true => rfl
        | false => exact absurd (.inl h) hmode
      have hnc : r0.method ≠ ofString "CONNECT" := fun h => hmode (.inr h)
      have hf := hfrag hs hcr hnc
      -- not behind the '#'
      have hpre : c ∈ r0.target.takeWhile (· ≠ hash) := by
        have hsplit := List.takeWhile_append_dropWhile (p := (· ≠ hash)) (l := r0.target)
        rw [← hsplit] at hc
        simp only [List.mem_append] at hc
        rcases hc with hc | hc
        · exact hc
        · unfold fragmentInvalidStrict at hf
          rw [List.any_eq_false] at hf
          have h35 : (hash : UInt8) = 35 := rfl
          exact absurd (ctl_uriInvalid c hctl) (hf c (by simpa [h35] using hc))
      unfold parsePost at hpp
      simp only [ht, hm] at hpp
      by_cases hsp : ((r0.method = ofString "CONNECT") || (r0.method = ofString "OPTIONS" && r0.target = [42])) = true
      · simp only [Bool.or_eq_true, decide_eq_true_eq, Bool.and_eq_true] at hsp
        rcases hsp with h1 | ⟨_, h2⟩
        · exact hnc h1
        · rw [h2] at hc
          simp only [List.mem_singleton] at hc
          subst hc
          simp [isCtl] at hctl
      · have hsp' : ((r0.method = ofString "CONNECT") || (r0.method = ofString "OPTIONS" && r0.target = [42])) = false := by
          simpa using hsp
        rw [hsp', parseTarget_ctl o hcr (hreach hcr) r0.target ⟨c, hpre, hctl⟩] at hpp
        simp at hpp


theorem headerTable_nul_free : ∀ nm ∈ headerTable, (0 : UInt8) ∉ nm := by decide +kernel
theorem methodTable_nul_free : ∀ nm ∈ methodTable, (0 : UInt8) ∉ nm := by decide +kernel

theorem toLower_eq_zero : ∀ b : UInt8, toLower b = 0 → b = 0 := by
  apply forall_u8
  decide +kernel

theorem nameCharBad_zero (strict : Bool) : nameCharBad strict 0 = true := by
  cases strict <;> decide

theorem name_nul_free (strict : Bool) (key : Bytes)
    (hname : ¬ ((!hkeyKnown (key.map toLower) &&
                 (key.dropWhile (fun b => isAlpha b || decide (b = 45))).any (nameCharBad strict)) = true)) :
    (0 : UInt8) ∉ key.map toLower := by
  intro hz
  simp only [List.mem_map] at hz
  obtain ⟨b, hb, hb0⟩ := hz
  have hb0' := toLower_eq_zero b hb0
  subst hb0'
  by_cases hk : hkeyKnown (key.map toLower) = true
  · unfold hkeyKnown at hk
    have := headerTable_nul_free _ (by simpa using hk)
    exact this (by simp only [List.mem_map]; exact ⟨0, hb, by decide⟩)
  · have hk' : hkeyKnown (key.map toLower) = false := by simpa using hk
    apply hname
    simp only [hk', Bool.not_false, Bool.true_and, List.any_eq_true]
    refine ⟨0, ?_, nameCharBad_zero _⟩
    have hsplit := List.takeWhile_append_dropWhile (p := fun b => isAlpha b || decide (b = 45)) (l := key)
    rw [← hsplit] at hb
    simp only [List.mem_append] at hb
    rcases hb with hb | hb
    · have hall := List.all_takeWhile (l := key) (p := fun b => isAlpha b || decide (b = 45))
      have := List.all_eq_true.mp hall 0 hb
      simp [isAlpha, isUpper, isLower] at this
    · exact hb

/-- the name of an accepted field holds no NUL (any mode) -/
theorem fieldOf_name_nul_free {o : Opts} {phys : List Bytes} {lc v : Bytes} (h : fieldOf o phys = .ok (lc, v)) :
    (0 : UInt8) ∉ lc := by
  unfold fieldOf at h
  simp only at h
  repeat' split at h
  all_goals first
    | (simp at h; done)
    | (simp only [Except.ok.injEq, Prod.mk.injEq] at h
       obtain ⟨h1, _⟩ := h
       subst h1
       exact name_nul_free o.headerStrict _ (by assumption))


/-- the cross-field step keeps the framing: what it accepts has the body length, version, method and
    target of its input; a lenient TE+CL request loses keep-alive -/
theorem parsePost_ok_keeps {o : Opts} {p : Nat} {r1 r : PReq} {t : Target} (h : parsePost o p r1 = .ok r t) :
    r.bodyLen = r1.bodyLen ∧ r.version = r1.version ∧ r.method = r1.method ∧ r.target = r1.target ∧
    (r1.version ≥ 1 → r1.host ≠ none) ∧
    (r1.bodyLen = -1 → r1.clSeen = true → o.headerStrict = false ∧ r.keepAlive = false) := by
  unfold parsePost at h
  simp only at h
  split at h
  · simp at h
  · split at h
    · simp at h
    · simp at h
    · rename_i rr hstep
      have hb : rr.bodyLen = r1.bodyLen ∧ rr.version = r1.version ∧ rr.method = r1.method ∧
                rr.target = r1.target ∧ rr.clSeen = r1.clSeen ∧ (r1.version ≥ 1 → r1.host ≠ none) := by
        split at hstep
        · rename_i hh
          split at hstep <;> simp at hstep
          subst hstep
          refine ⟨rfl, rfl, rfl, rfl, rfl, fun hv => ?_⟩
          rename_i hnv
          exact absurd hv hnv
        · rename_i hh hhost
          split at hstep
          · simp at hstep
          · split at hstep
            · simp at hstep
            · split at hstep
              · simp at hstep
              · simp at hstep; subst hstep
                exact ⟨rfl, rfl, rfl, rfl, rfl, fun _ => by simp [hhost]⟩
      obtain ⟨hb1, hb2, hb3, hb4, hb5, hb6⟩ := hb
      split at h
      · simp at h
      · split at h
        · split at h
          · simp at h
          · simp only [HeadRes.ok.injEq] at h
            obtain ⟨h1, _⟩ := h
            subst h1
            refine ⟨hb1, hb2, hb3, hb4, hb6, fun hm => ?_⟩
            rename_i hz _ _
            rw [hb1, hm] at hz; simp at hz
        · rename_i hne
          split at h
          · simp at h
          · rename_i hnstrict
            have hfin : (rr.bodyLen = -1 → rr.clSeen = true → o.headerStrict = false) := by
              intro h1 h2
              simpa [h1, h2] using hnstrict
            repeat' split at h
            all_goals first
              | (simp at h; done)
              | (simp only [HeadRes.ok.injEq] at h
                 obtain ⟨h1, _⟩ := h
                 subst h1
                 refine ⟨by simp [unsetHeader, hb1], by simp [unsetHeader, hb2], by simp [unsetHeader, hb3],
                         by simp [unsetHeader, hb4], hb6, fun hm hc => ⟨hfin (by rw [hb1]; exact hm) (by rw [hb5]; exact hc), ?_⟩⟩
                 first
                   | (simp; done)
                   | (exfalso
                      have h1 : rr.bodyLen = -1 := by rw [hb1]; exact hm
                      have h2 : rr.clSeen = true := by rw [hb5]; exact hc
                      simp_all))

/-! ### per-stage statements (used by the block-level theorems of Props/C01.lean) -/

/-- the request state produced by the request line is "fresh": no body framing yet -/
def Fresh (r0 : PReq) : Prop := r0.clSeen = false ∧ r0.bodyLen = 0

/-- **Accepted field sections are unambiguous.**  If the header fields are accepted, then every
    logical field line tokenised, and for the resulting list of (name, value) fields:
    at most one Content-Length field and its value is all digits and fits int64; at most one
    Transfer-Encoding field, its value exactly `chunked` (any case) and the request HTTP/1.1; in strict
    mode no field value contains a control character; and the framing the parser reports is the
    RFC 9112 §6.3 rule: chunked iff a Transfer-Encoding field is present, else the Content-Length
    value, else no body. -/
theorem stage_accepted_fields_unambiguous (o : Opts) (r0 r : PReq) (lines : List Bytes)
    (hfresh : Fresh r0) (h : parseHeaders o r0 lines = .ok r) :
    ∃ fs : List (Bytes × Bytes),
      (groupFolds lines).map (fieldOf o) = fs.map Except.ok ∧
      (fs.filter (fun f => f.1 = nCL)).length ≤ 1 ∧
      (∀ v, (nCL, v) ∈ fs → v ≠ [] ∧ ∃ k : Nat, strtoInt64 v = some k) ∧
      (fs.filter (fun f => f.1 = nTE)).length ≤ 1 ∧
      (∀ v, (nTE, v) ∈ fs → v ≠ [] ∧ eqIcase v vChunked = true ∧ r0.version = 1) ∧
      (o.headerStrict = true → ∀ f ∈ fs, f.2.any lineCharInvalidStrict = false) ∧
      (r.bodyLen = -1 ↔ ∃ v, (nTE, v) ∈ fs) ∧
      (r.bodyLen ≠ -1 → ∀ v, (nCL, v) ∈ fs → strtoInt64 v = some r.bodyLen.toNat ∧ 0 ≤ r.bodyLen) ∧
      (r.bodyLen ≠ -1 → (¬ ∃ v, (nCL, v) ∈ fs) → r.bodyLen = 0) ∧
      (r.clSeen = true ↔ ∃ v, (nCL, v) ∈ fs) := by
  obtain ⟨fs, htok, happ⟩ := (parseHeaders_ok_iff o r0 r lines).mp h
  have inv := FramingInv.run fs (FramingInv.init o r0 hfresh.1 hfresh.2) happ
  simp only [List.nil_append] at inv
  refine ⟨fs, htok, inv.clOnce, ?_, inv.teOnce, inv.te, inv.strictVal, inv.chunked, ?_, ?_, inv.clSeen⟩
  · intro v hv
    obtain ⟨h1, k, hk, _⟩ := inv.clNum v hv
    exact ⟨h1, k, hk⟩
  · intro hne v hv
    obtain ⟨_, k, hk, hb⟩ := inv.clNum v hv
    rcases hb with hb | hb
    · rw [hb]; simp [hk]
    · exact absurd hb hne
  · intro hne hno
    rcases inv.noCl hno with h0 | h1
    · exact h0
    · exact absurd h1 hne

/-- repeated Content-Length is always rejected (every mode) -/
theorem stage_repeated_content_length_rejected (o : Opts) (r0 : PReq) (lines : List Bytes)
    (fs : List (Bytes × Bytes)) (hfresh : Fresh r0)
    (htok : (groupFolds lines).map (fieldOf o) = fs.map Except.ok)
    (hdup : 2 ≤ (fs.filter (fun f => f.1 = nCL)).length) :
    ∀ r, parseHeaders o r0 lines ≠ .ok r := by
  intro r h
  obtain ⟨fs', htok', hone, _⟩ := stage_accepted_fields_unambiguous o r0 r lines hfresh h
  have : fs' = fs := by
    have := htok'.symm.trans htok
    exact (List.map_inj_right (fun a b hab => by injection hab)).mp this
  subst this
  omega

/-- a Content-Length that is empty, non-numeric or larger than INT64_MAX is always rejected -/
theorem stage_bad_content_length_rejected (o : Opts) (r0 : PReq) (lines : List Bytes)
    (fs : List (Bytes × Bytes)) (v : Bytes) (hfresh : Fresh r0)
    (htok : (groupFolds lines).map (fieldOf o) = fs.map Except.ok)
    (hmem : (nCL, v) ∈ fs) (hbad : v = [] ∨ strtoInt64 v = none) :
    ∀ r, parseHeaders o r0 lines ≠ .ok r := by
  intro r h
  obtain ⟨fs', htok', _, hnum, _⟩ := stage_accepted_fields_unambiguous o r0 r lines hfresh h
  have : fs' = fs := by
    have := htok'.symm.trans htok
    exact (List.map_inj_right (fun a b hab => by injection hab)).mp this
  subst this
  obtain ⟨hne, k, hk⟩ := hnum v hmem
  rcases hbad with hb | hb
  · exact hne hb
  · simp [hb] at hk

/-- Transfer-Encoding that is empty, other than exactly `chunked`, or on HTTP/1.0, is always rejected -/
theorem stage_bad_transfer_encoding_rejected (o : Opts) (r0 : PReq) (lines : List Bytes)
    (fs : List (Bytes × Bytes)) (v : Bytes) (hfresh : Fresh r0)
    (htok : (groupFolds lines).map (fieldOf o) = fs.map Except.ok)
    (hmem : (nTE, v) ∈ fs)
    (hbad : v = [] ∨ eqIcase v vChunked = false ∨ r0.version ≠ 1) :
    ∀ r, parseHeaders o r0 lines ≠ .ok r := by
  intro r h
  obtain ⟨fs', htok', _, _, _, hte, _⟩ := stage_accepted_fields_unambiguous o r0 r lines hfresh h
  have : fs' = fs := by
    have := htok'.symm.trans htok
    exact (List.map_inj_right (fun a b hab => by injection hab)).mp this
  subst this
  obtain ⟨h0, h1, h2⟩ := hte v hmem
  rcases hbad with hb | hb | hb
  · exact h0 hb
  · simp [hb] at h1
  · exact hb h2

/-- strict mode: a control character (other than HT) in any field value is rejected -/
theorem stage_ctl_in_value_rejected_strict (o : Opts) (r0 : PReq) (lines : List Bytes)
    (fs : List (Bytes × Bytes)) (f : Bytes × Bytes) (hfresh : Fresh r0) (hs : o.headerStrict = true)
    (htok : (groupFolds lines).map (fieldOf o) = fs.map Except.ok)
    (hmem : f ∈ fs) (hbad : f.2.any lineCharInvalidStrict = true) :
    ∀ r, parseHeaders o r0 lines ≠ .ok r := by
  intro r h
  obtain ⟨fs', htok', _, _, _, _, hsv, _⟩ := stage_accepted_fields_unambiguous o r0 r lines hfresh h
  have : fs' = fs := by
    have := htok'.symm.trans htok
    exact (List.map_inj_right (fun a b hab => by injection hab)).mp this
  subst this
  have := hsv hs f hmem
  simp [hbad] at this

/-- strict mode: Content-Length together with Transfer-Encoding is rejected;
    every mode: HTTP/1.1 without Host is rejected -/
theorem stage_te_and_cl_rejected_strict (o : Opts) (port : Nat) (r : PReq)
    (hs : o.headerStrict = true) (hte : r.bodyLen = -1) (hcl : r.clSeen = true) :
    ∀ r' t, parsePost o port r ≠ .ok r' t := by
  intro r' t h
  unfold parsePost at h
  simp only at h
  split at h
  · simp at h
  · split at h
    · simp at h
    · simp at h
    · rename_i rr hstep
      -- the host step does not touch bodyLen / clSeen
      have hb : rr.bodyLen = -1 ∧ rr.clSeen = true := by
        split at hstep
        · split at hstep <;> simp at hstep; subst hstep; exact ⟨hte, hcl⟩
        · split at hstep
          · simp at hstep
          · split at hstep
            · simp at hstep
            · split at hstep
              · simp at hstep
              · simp at hstep; subst hstep; exact ⟨hte, hcl⟩
      split at h
      · simp at h
      · split at h
        · rename_i h0; rw [hb.1] at h0; simp at h0
        · simp [hb.1, hb.2, hs] at h

theorem stage_http11_without_host_rejected (o : Opts) (port : Nat) (r : PReq)
    (hv : r.version ≥ 1) (hh : r.host = none) :
    ∀ r' t, parsePost o port r ≠ .ok r' t := by
  intro r' t h
  unfold parsePost at h
  simp only at h
  split at h
  · simp at h
  · simp [hh, hv] at h

/-- strict mode: a request line that does not end in CRLF (bare LF) is rejected -/
theorem stage_bare_lf_reqline_rejected_strict (o : Opts) (line block : Bytes)
    (hs : o.headerStrict = true) (hlf : line.getD (line.length - 2) 0 ≠ cr) :
    parseReqline o line block = .error 400 := by
  have : parseReqlineCore o line = .error 400 := by
    unfold parseReqlineCore
    split
    · rfl
    · simp [hlf, hs]
  simp [parseReqline, this]

/-- strict mode: whitespace between field name and colon is rejected -/
theorem stage_ws_before_colon_rejected_strict (o : Opts) (first : Bytes) (conts : List Bytes) (ci : Nat)
    (hs : o.headerStrict = true) (hci : findIdx (· = colon) first 0 = some ci)
    (hws : ((first.take ci).getLast?.map isWs).getD false = true) :
    fieldOf o (first :: conts) = .error 400 := by
  unfold fieldOf
  simp [hci, hws, hs]

/-- strict mode: an accepted (unfolded) field line ends in CRLF — bare LF is rejected -/
theorem stage_bare_lf_field_rejected_strict (o : Opts) (line : Bytes) (f : Bytes × Bytes)
    (hs : o.headerStrict = true) (h : fieldOf o [line] = .ok f) :
    line.length ≥ 2 ∧ line.getD (line.length - 2) 0 = cr := by
  obtain ⟨j, body, hj, hb⟩ := fieldOf_ok_stripEol o [line] f h
  rw [hs] at hj hb
  simp only [joinFolds, Option.some.injEq] at hj
  subst hj
  exact stripEol_strict_crlf line body hb

/-- lenient mode: a NUL byte anywhere in the header block is rejected by the request line step -/
theorem stage_nul_rejected_lenient (o : Opts) (line block : Bytes)
    (hs : o.headerStrict = false) (hnul : block.contains 0 = true) :
    ∀ r, parseReqline o line block ≠ .ok r := by
  intro r h
  unfold parseReqline at h
  cases hc : parseReqlineCore o line with
  | error e => simp [hc] at h
  | ok p =>
    obtain ⟨r1, uri⟩ := p
    simp only [hc] at h
    by_cases he : uri.isEmpty = true
    · simp [he] at h
    · have hm : (0 : UInt8) ∈ block := by simpa using hnul
      simp [he, hs, hm] at h

/-- strict mode: a control character, space or DEL in the request-target is rejected by the
    request line step when URL control-character rejection is off, and always for CONNECT -/
theorem stage_ctl_in_target_rejected_strict (o : Opts) (line block : Bytes) (r1 : PReq) (uri : Bytes)
    (hs : o.headerStrict = true) (hcore : parseReqlineCore o line = .ok (r1, uri))
    (hmode : o.ctrlsReject = false ∨ r1.method = ofString "CONNECT")
    (hbad : uri.any uriCharInvalidStrict = true) :
    parseReqline o line block = .error 400 := by
  unfold parseReqline
  simp only [hcore, hs]
  split
  · rfl
  · rcases hmode with hm | hm <;> simp [hm, hbad]

/-- default parse options (header-strict and url-ctrls-reject): the check of the target is
    left to URL normalisation, which drops a fragment unread — so the request line step itself
    rejects a control character, space, NUL or DEL anywhere behind the first '#' (D61) -/
theorem stage_ctl_in_fragment_rejected_default (o : Opts) (line block : Bytes) (r1 : PReq) (uri : Bytes)
    (hs : o.headerStrict = true) (hcore : parseReqlineCore o line = .ok (r1, uri))
    (hbad : fragmentInvalidStrict uri = true) :
    parseReqline o line block = .error 400 := by
  unfold parseReqline
  simp only [hcore, hs]
  split
  · rfl
  · have hall : uri.any uriCharInvalidStrict = true := by
      unfold fragmentInvalidStrict at hbad
      simp only [List.any_eq_true] at hbad ⊢
      obtain ⟨b, hb, hbb⟩ := hbad
      exact ⟨b, (List.dropWhile_sublist _).subset hb, hbb⟩
    split <;> simp_all

end LtVerif
