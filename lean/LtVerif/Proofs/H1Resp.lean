/-
  Helper lemmas for the response model (Model/H1Resp.lean): the header store, decimal
  Content-Length values, the URL/HTML encoders and the line structure of the header section.
-/
import LtVerif.Model.H1Resp
import LtVerif.Proofs.HttpChunkEnc
import LtVerif.Proofs.Path
namespace LtVerif
open B

/-! ### header store -/
namespace Hdrs

def nm (k : Bytes) : Bytes := k.map toLower

theorem sameName_iff (a b : Bytes) : sameName a b = true ↔ nm a = nm b := by
  simp [sameName, eqIcase, nm]

theorem sameName_false_iff (a b : Bytes) : sameName a b = false ↔ nm a ≠ nm b := by
  have := sameName_iff a b
  cases h : sameName a b <;> simp_all

/-- looking a name up only depends on its case-folded form -/
theorem get_congr (hs : List Hdr) {k k' : Bytes} (h : nm k = nm k') : get hs k = get hs k' := by
  unfold get
  congr 1
  induction hs with
  | nil => rfl
  | cons x rest ih =>
    simp only [List.find?_cons]
    have : sameName x.key k = sameName x.key k' := by
      cases h1 : sameName x.key k <;> cases h2 : sameName x.key k' <;> try rfl
      · rw [sameName_false_iff] at h1; rw [sameName_iff] at h2; exact absurd (h2.trans h.symm) h1
      · rw [sameName_iff] at h1; rw [sameName_false_iff] at h2; exact absurd (h1.trans h) h2
    rw [this, ih]

theorem has_congr (hs : List Hdr) {k k' : Bytes} (h : nm k = nm k') : has hs k = has hs k' := by
  unfold has; rw [get_congr hs h]

theorem get_update (hs : List Hdr) (k v k' : Bytes) :
    get (update hs k v) k' = if sameName k k' then (get hs k').map (fun _ => v) else get hs k' := by
  unfold get update
  induction hs with
  | nil => simp
  | cons x rest ih =>
    simp only [List.map_cons, List.find?_cons]
    by_cases hxk : sameName x.key k = true
    · by_cases hxk' : sameName x.key k' = true
      · have hkk : sameName k k' = true := by
          rw [sameName_iff] at *; exact hxk.symm.trans hxk'
        simp [hxk, hxk', hkk]
      · have hkk : sameName k k' = false := by
          rw [sameName_false_iff]
          intro e
          rw [sameName_iff] at hxk
          exact hxk' ((sameName_iff _ _).mpr (hxk.trans e))
        simp only [hxk, if_true, hxk', Bool.false_eq_true, if_false, hkk] at ih ⊢
        exact ih
    · by_cases hxk' : sameName x.key k' = true
      · have hkk : sameName k k' = false := by
          rw [sameName_false_iff]
          intro e
          rw [sameName_iff] at hxk'
          exact hxk ((sameName_iff _ _).mpr (hxk'.trans e.symm))
        simp [hxk, hxk', hkk]
      · simp only [hxk, Bool.false_eq_true, if_false, hxk'] at ih ⊢
        exact ih

theorem get_append_entry (hs : List Hdr) (k v k' : Bytes) :
    get (hs ++ [⟨k, v⟩]) k' = match get hs k' with
      | some x => some x
      | none => if sameName k k' then some v else none := by
  unfold get
  rw [List.find?_append]
  cases h : List.find? (fun h => sameName h.key k') hs with
  | some x => simp
  | none =>
    by_cases hk : sameName k k' = true <;> simp [hk]

theorem get_set (hs : List Hdr) (k v k' : Bytes) :
    get (set hs k v) k' = if sameName k k' then some v else get hs k' := by
  unfold set
  split
  · rename_i hsome
    rw [get_update]
    by_cases hkk : sameName k k' = true
    · have : get hs k' = get hs k := (get_congr hs ((sameName_iff _ _).mp hkk)).symm
      rw [this]
      cases hg : get hs k with
      | none => simp [hg] at hsome
      | some x => simp [hkk]
    · simp [hkk]
  · rename_i hnone
    rw [get_append_entry]
    by_cases hkk : sameName k k' = true
    · have : get hs k' = get hs k := (get_congr hs ((sameName_iff _ _).mp hkk)).symm
      rw [this]
      cases hg : get hs k with
      | none => simp [hkk]
      | some x => simp [hg] at hnone
    · cases hg : get hs k' <;> simp [hkk]

theorem has_set (hs : List Hdr) (k v k' : Bytes) :
    has (set hs k v) k' = if sameName k k' then !v.isEmpty else has hs k' := by
  unfold has
  rw [get_set]
  by_cases hkk : sameName k k' = true <;> simp [hkk]

theorem get_unset_ne (hs : List Hdr) (k k' : Bytes) (h : sameName k k' = false) :
    get (unset hs k) k' = get hs k' := by
  unfold unset
  split
  · rw [get_update]; simp [h]
  · rfl

theorem has_unset (hs : List Hdr) (k k' : Bytes) :
    has (unset hs k) k' = if sameName k k' then false else has hs k' := by
  by_cases hkk : sameName k k' = true
  · simp only [hkk, if_true]
    have hc := has_congr hs ((sameName_iff _ _).mp hkk)
    unfold unset
    split
    · unfold has
      rw [get_update]
      simp only [hkk, if_true]
      cases get hs k' <;> simp
    · rename_i hno
      rw [← hc]
      simpa using hno
  · have hf : sameName k k' = false := by simpa using hkk
    simp only [hf, Bool.false_eq_true, if_false]
    unfold has
    rw [get_unset_ne hs k k' hf]

/-- http_header_response_append() of a non-blank token -/
theorem has_append (hs : List Hdr) (k v k' : Bytes) (hv : v.isEmpty = false) :
    has (append hs k v) k' = if sameName k k' then true else has hs k' := by
  unfold append
  simp only [hv, Bool.false_eq_true, if_false]
  cases hg : get hs k with
  | some old =>
    simp only []
    split
    · unfold has; rw [get_update]
      by_cases hkk : sameName k k' = true
      · have : get hs k' = get hs k := (get_congr hs ((sameName_iff _ _).mp hkk)).symm
        simp [hkk, this, hg, hv]
      · simp [hkk]
    · unfold has; rw [get_update]
      by_cases hkk : sameName k k' = true
      · have : get hs k' = get hs k := (get_congr hs ((sameName_iff _ _).mp hkk)).symm
        simp [hkk, this, hg]
      · simp [hkk]
  | none =>
    simp only []
    unfold has
    rw [get_append_entry]
    by_cases hkk : sameName k k' = true
    · have : get hs k' = get hs k := (get_congr hs ((sameName_iff _ _).mp hkk)).symm
      simp [hkk, this, hg, hv]
    · cases get hs k' <;> simp [hkk]

theorem get_append_ne (hs : List Hdr) (k v k' : Bytes) (h : sameName k k' = false) :
    get (append hs k v) k' = get hs k' := by
  unfold append
  split
  · rfl
  · cases hg : get hs k with
    | some old =>
      simp only []
      split <;> (rw [get_update]; simp [h])
    | none =>
      simp only []
      rw [get_append_entry]
      cases get hs k' <;> simp [h]

/-- appending to a field that is not present (or blank) stores exactly the token -/
theorem get_append_fresh (hs : List Hdr) (k v : Bytes) (hv : v.isEmpty = false) (hno : has hs k = false) :
    get (append hs k v) k = some v := by
  have hkk : sameName k k = true := (sameName_iff _ _).mpr rfl
  unfold append
  simp only [hv, Bool.false_eq_true, if_false]
  cases hg : get hs k with
  | some old =>
    have : old.isEmpty = true := by simpa [has, hg] using hno
    simp only [this, if_true]
    rw [get_update]; simp [hkk, hg]
  | none =>
    simp only []
    rw [get_append_entry]; simp [hg, hkk]

end Hdrs

/-! ### names that occur in the response path are pairwise different -/
section names
open Hdrs
theorem nm_CL_TE : sameName nContentLength nTransferEncoding = false := by decide
theorem nm_TE_CL : sameName nTransferEncoding nContentLength = false := by decide
theorem nm_CL_UP : sameName nContentLength nUpgrade = false := by decide
theorem nm_TE_UP : sameName nTransferEncoding nUpgrade = false := by decide
theorem nm_CL_CL : sameName nContentLength nContentLength = true := by decide
theorem nm_TE_TE : sameName nTransferEncoding nTransferEncoding = true := by decide
theorem nm_CT_CL : sameName nContentType nContentLength = false := by decide
theorem nm_CT_TE : sameName nContentType nTransferEncoding = false := by decide
theorem nm_WA_CL : sameName nWwwAuthenticate nContentLength = false := by decide
theorem nm_WA_TE : sameName nWwwAuthenticate nTransferEncoding = false := by decide
theorem nm_CO_CL : sameName nConnection nContentLength = false := by decide
theorem nm_CO_TE : sameName nConnection nTransferEncoding = false := by decide
theorem nm_CE_CL : sameName nContentEncoding nContentLength = false := by decide
theorem nm_CE_TE : sameName nContentEncoding nTransferEncoding = false := by decide
end names

/-! ### decimal Content-Length values -/

theorem char_digit_facts (c : Char) (h : c.isDigit = true) :
    (c.toNat.toUInt8).toNat = c.toNat ∧ 48 ≤ c.toNat ∧ c.toNat ≤ 57 := by
  have h2 : 48 ≤ c.toNat ∧ c.toNat ≤ 57 := by
    simp only [Char.isDigit, Bool.and_eq_true, decide_eq_true_eq] at h
    have a := h.1
    have b := h.2
    have a' : (48 : UInt32).toNat ≤ c.val.toNat := UInt32.le_iff_toNat_le.mp a
    have b' : c.val.toNat ≤ (57 : UInt32).toNat := UInt32.le_iff_toNat_le.mp b
    have e : c.toNat = c.val.toNat := rfl
    have e1 : (48 : UInt32).toNat = 48 := by decide
    have e2 : (57 : UInt32).toNat = 57 := by decide
    omega
  refine ⟨?_, h2⟩
  simp only [Nat.toUInt8, UInt8.toNat_ofNat']
  omega

theorem natToDec_eq (n : Nat) :
    natToDec n = (Nat.toDigits 10 n).map fun ch => ch.toNat.toUInt8 := by
  simp [natToDec, ofString]

theorem foldl_congr_mem {α β : Type} (g1 g2 : β → α → β) : ∀ (l : List α) (init : β),
    (∀ c ∈ l, ∀ a, g1 a c = g2 a c) → l.foldl g1 init = l.foldl g2 init := by
  intro l
  induction l with
  | nil => intro _ _; rfl
  | cons x rest ih =>
    intro init h
    simp only [List.foldl_cons]
    rw [h x (by simp) init]
    exact ih _ (fun c hc a => h c (by simp [hc]) a)

theorem decNat_natToDec (n : Nat) : decNat (natToDec n) = n := by
  rw [natToDec_eq]
  unfold decNat
  rw [List.foldl_map]
  have := @Nat.ofDigitChars_ten_toDigits n
  rw [Nat.ofDigitChars_eq_foldl] at this
  refine Eq.trans ?_ this
  apply foldl_congr_mem
  intro c hc a
  have hd := Nat.isDigit_of_mem_toDigits (by decide) (by decide) hc
  obtain ⟨h1, _, _⟩ := char_digit_facts c hd
  rw [h1]
  rfl

theorem natToDec_all_digit (n : Nat) : (natToDec n).all isDigit = true := by
  rw [natToDec_eq, List.all_eq_true]
  intro b hb
  obtain ⟨c, hc, rfl⟩ := List.mem_map.mp hb
  have hd := Nat.isDigit_of_mem_toDigits (by decide) (by decide) hc
  obtain ⟨h1, h2, h3⟩ := char_digit_facts c hd
  simp only [isDigit, Bool.and_eq_true, decide_eq_true_eq, UInt8.le_iff_toNat_le, h1]
  exact ⟨by simpa using h2, by simpa using h3⟩

theorem natToDec_ne_nil (n : Nat) : (natToDec n).isEmpty = false := by
  rw [natToDec_eq]
  have := @Nat.toDigits_ne_nil n 10
  cases h : Nat.toDigits 10 n with
  | nil => exact absurd h this
  | cons _ _ => rfl

theorem natToDec_zero : natToDec 0 = [48] := by decide

/-! ### encoders -/

theorem uint8_forall (P : UInt8 → Prop) (h : ∀ n, n < 256 → P (UInt8.ofNat n)) : ∀ b, P b := by
  intro b
  have := h b.toNat b.toNat_lt
  simpa using this

/-- every output byte of the URL encodings is a printable, non-space ASCII character; the HTML/XML
    encodings let no control character through -/
theorem encodeByte_rel_printable : ∀ e, e < 2 → ∀ b : UInt8, ∀ x ∈ encodeByte e b, 0x21 ≤ x ∧ x ≤ 0x7e := by
  intro e he
  apply uint8_forall
  revert e
  decide +kernel

theorem encodeByte_no_ctl : ∀ e, e < 4 → ∀ b : UInt8, ∀ x ∈ encodeByte e b, 0x20 ≤ x ∧ x ≠ 0x7f := by
  intro e he
  apply uint8_forall
  revert e
  decide +kernel

/-! ### line structure of the header section -/

theorem renderHead_eq_join : ∀ (lines : List Bytes),
    renderHead lines = join lf (lines.map (· ++ [cr]) ++ [[cr], []]) := by
  intro lines
  induction lines with
  | nil => simp [renderHead, join, cr, lf]
  | cons l rest ih =>
    have hne : ∃ y ys, rest.map (· ++ [cr]) ++ [[cr], []] = y :: ys := by
      cases rest with
      | nil => exact ⟨_, _, rfl⟩
      | cons a b => exact ⟨_, _, rfl⟩
    obtain ⟨y, ys, hy⟩ := hne
    have hr : renderHead (l :: rest) = l ++ [cr, lf] ++ renderHead rest := by
      simp [renderHead]
    rw [hr, ih, List.map_cons, List.cons_append, hy]
    simp [join]

theorem splitOn_renderHead (lines : List Bytes) (h : ∀ l ∈ lines, lf ∉ l) :
    splitOn lf (renderHead lines) = lines.map (· ++ [cr]) ++ [[cr], []] := by
  rw [renderHead_eq_join]
  apply splitOn_join
  · simp
  · intro seg hseg
    rcases List.mem_append.mp hseg with hm | hm
    · obtain ⟨l, hl, rfl⟩ := List.mem_map.mp hm
      intro hmem
      rcases List.mem_append.mp hmem with h1 | h1
      · exact h l hl h1
      · simp [cr, lf] at h1
    · simp at hm
      rcases hm with rfl | rfl <;> simp [cr, lf]

end LtVerif
