/-
  Helper lemmas for the response model (Model/H1Resp.lean): the header store, decimal
  Content-Length values, the URL/HTML encoders and the line structure of the header section.
-/
import LtVerif.Model.H1Resp
import LtVerif.Proofs.HttpChunkEnc
import LtVerif.Proofs.Path
namespace LtVerif
open B

/-! ### header store -/
namespace Hdrs

def nm (k : Bytes) : Bytes := k.map toLower

theorem sameName_iff (a b : Bytes) : sameName a b = true ↔ nm a = nm b := by
  simp [sameName, eqIcase, nm]

theorem sameName_false_iff (a b : Bytes) : sameName a b = false ↔ nm a ≠ nm b := by
  have := sameName_iff a b
  cases h : sameName a b <;> simp_all

/-- looking a name up only depends on its case-folded form -/
theorem get_congr (hs : List Hdr) {k k' : Bytes} (h : nm k = nm k') : get hs k = get hs k' := by
  unfold get
  congr 1
  induction hs with
  | nil => rfl
  | cons x rest ih =>
    simp only [List.find?_cons]
    have : sameName x.key k = sameName x.key k' := by
      cases h1 : sameName x.key k <;> cases h2 : sameName x.key k' <;> try rfl
      · rw [sameName_false_iff] at h1; rw [sameName_iff] at h2; exact absurd (h2.trans h.symm) h1
      · rw [sameName_iff] at h1; rw [sameName_false_iff] at h2; exact absurd (h1.trans h) h2
    rw [this, ih]

theorem has_congr (hs : List Hdr) {k k' : Bytes} (h : nm k = nm k') : has hs k = has hs k' := by
  unfold has; rw [get_congr hs h]

theorem get_update (hs : List Hdr) (k v k' : Bytes) :
    get (update hs k v) k' = if sameName k k' then (get hs k').map (fun _ => v) else get hs k' := by
  unfold get update
  induction hs with
  | nil => simp
  | cons x rest ih =>
    simp only [List.map_cons, List.find?_cons]
    by_cases hxk : sameName x.key k = true
    · by_cases hxk' : sameName x.key k' = true
      · have hkk : sameName k k' = true := by
          rw [sameName_iff] at *; exact hxk.symm.trans hxk'
        simp [hxk, hxk', hkk]
      · have hkk : sameName k k' = false := by
          rw [sameName_false_iff]
          intro e
          rw [sameName_iff] at hxk
          exact hxk' ((sameName_iff _ _).mpr (hxk.trans e))
        simp only [hxk, if_true, hxk', Bool.false_eq_true, if_false, hkk] at ih ⊢
        exact ih
    · by_cases hxk' : sameName x.key k' = true
      · have hkk : sameName k k' = false := by
          rw [sameName_false_iff]
          intro e
          rw [sameName_iff] at hxk'
          exact hxk ((sameName_iff _ _).mpr (hxk'.trans e.symm))
        simp [hxk, hxk', hkk]
      · simp only [hxk, Bool.false_eq_true, if_false, hxk'] at ih ⊢
        exact ih

theorem get_append_entry (hs : List Hdr) (k v k' : Bytes) :
    get (hs ++ [⟨k, v⟩]) k' = match get hs k' with
      | some x => some x
      | none => if sameName k k' then some v else none := by
  unfold get
  rw [List.find?_append]
  cases h : List.find? (fun h => sameName h.key k') hs with
  | some x => simp
  | none =>
    by_cases hk : sameName k k' = true <;> simp [hk]

theorem get_set (hs : List Hdr) (k v k' : Bytes) :
    get (set hs k v) k' = if sameName k k' then some v else get hs k' := by
  unfold set
  split
  · rename_i hsome
    rw [get_update]
    by_cases hkk : sameName k k' = true
    · have : get hs k' = get hs k := (get_congr hs ((sameName_iff _ _).mp hkk)).symm
      rw [this]
      cases hg : get hs k with
      | none => simp [hg] at hsome
      | some x => simp [hkk]
    · simp [hkk]
  · rename_i hnone
    rw [get_append_entry]
    by_cases hkk : sameName k k' = true
    · have : get hs k' = get hs k := (get_congr hs ((sameName_iff _ _).mp hkk)).symm
      rw [this]
      cases hg : get hs k with
      | none => simp [hkk]
      | some x => simp [hg] at hnone
    · cases hg : get hs k' <;> simp [hkk]

theorem has_set (hs : List Hdr) (k v k' : Bytes) :
    has (set hs k v) k' = if sameName k k' then !v.isEmpty else has hs k' := by
  unfold has
  rw [get_set]
  by_cases hkk : sameName k k' = true <;> simp [hkk]

theorem get_unset_ne (hs : List Hdr) (k k' : Bytes) (h : sameName k k' = false) :
    get (unset hs k) k' = get hs k' := by
  unfold unset
  split
  · rw [get_update]; simp [h]
  · rfl

theorem has_unset (hs : List Hdr) (k k' : Bytes) :
    has (unset hs k) k' = if sameName k k' then false else has hs k' := by
  by_cases hkk : sameName k k' = true
  · simp only [hkk, if_true]
    have hc := has_congr hs ((sameName_iff _ _).mp hkk)
    unfold unset
    split
    · unfold has
      rw [get_update]
      simp only [hkk, if_true]
      cases get hs k' <;> simp
    · rename_i hno
      rw [← hc]
      simpa using hno
  · have hf : sameName k k' = false := by simpa using hkk
    simp only [hf, Bool.false_eq_true, if_false]
    unfold has
    rw [get_unset_ne hs k k' hf]

/-- http_header_response_append() of a non-blank token -/
theorem has_append (hs : List Hdr) (k v k' : Bytes) (hv : v.isEmpty = false) :
    has (append hs k v) k' = if sameName k k' then true else has hs k' := by
  unfold append
  simp only [hv, Bool.false_eq_true, if_false]
  cases hg : get hs k with
  | some old =>
    simp only []
    split
    · unfold has; rw [get_update]
      by_cases hkk : sameName k k' = true
      · have : get hs k' = get hs k := (get_congr hs ((sameName_iff _ _).mp hkk)).symm
        simp [hkk, this, hg, hv]
      · simp [hkk]
    · unfold has; rw [get_update]
      by_cases hkk : sameName k k' = true
      · have : get hs k' = get hs k := (get_congr hs ((sameName_iff _ _).mp hkk)).symm
        simp [hkk, this, hg]
      · simp [hkk]
  | none =>
    simp only []
    unfold has
    rw [get_append_entry]
    by_cases hkk : sameName k k' = true
    · have : get hs k' = get hs k := (get_congr hs ((sameName_iff _ _).mp hkk)).symm
      simp [hkk, this, hg, hv]
    · cases get hs k' <;> simp [hkk]

theorem get_append_ne (hs : List Hdr) (k v k' : Bytes) (h : sameName k k' = false) :
    get (append hs k v) k' = get hs k' := by
  unfold append
  split
  · rfl
  · cases hg : get hs k with
    | some old =>
      simp only []
      split <;> (rw [get_update]; simp [h])
    | none =>
      simp only []
      rw [get_append_entry]
      cases get hs k' <;> simp [h]

/-- appending to a field that is not present (or blank) stores exactly the token -/
theorem get_append_fresh (hs : List Hdr) (k v : Bytes) (hv : v.isEmpty = false) (hno : has hs k = false) :
    get (append hs k v) k = some v := by
  have hkk : sameName k k = true := (sameName_iff _ _).mpr rfl
  unfold append
  simp only [hv, Bool.false_eq_true, if_false]
  cases hg : get hs k with
  | some old =>
    have : old.isEmpty = true := by simpa [has, hg] using hno
    simp only [this, if_true]
    rw [get_update]; simp [hkk, hg]
  | none =>
    simp only []
    rw [get_append_entry]; simp [hg, hkk]

end Hdrs

/-! ### names that occur in the response path are pairwise different -/
section names
open Hdrs
theorem nm_CL_TE : sameName nContentLength nTransferEncoding = false := by decide
theorem nm_TE_CL : sameName nTransferEncoding nContentLength = false := by decide
theorem nm_CL_UP : sameName nContentLength nUpgrade = false := by decide
theorem nm_TE_UP : sameName nTransferEncoding nUpgrade = false := by decide
theorem nm_CL_CL : sameName nContentLength nContentLength = true := by decide
theorem nm_TE_TE : sameName nTransferEncoding nTransferEncoding = true := by decide
theorem nm_CT_CL : sameName nContentType nContentLength = false := by decide
theorem nm_CT_TE : sameName nContentType nTransferEncoding = false := by decide
theorem nm_WA_CL : sameName nWwwAuthenticate nContentLength = false := by decide
theorem nm_WA_TE : sameName nWwwAuthenticate nTransferEncoding = false := by decide
theorem nm_CO_CL : sameName nConnection nContentLength = false := by decide
theorem nm_CO_TE : sameName nConnection nTransferEncoding = false := by decide
theorem nm_CE_CL : sameName nContentEncoding nContentLength = false := by decide
theorem nm_CE_TE : sameName nContentEncoding nTransferEncoding = false := by decide
end names

/-! ### decimal Content-Length values -/

theorem char_digit_facts (c : Char) (h : c.isDigit = true) :
    (c.toNat.toUInt8).toNat = c.toNat ∧ 48 ≤ c.toNat ∧ c.toNat ≤ 57 := by
  have h2 : 48 ≤ c.toNat ∧ c.toNat ≤ 57 := by
    simp only [Char.isDigit, Bool.and_eq_true, decide_eq_true_eq] at h
    have a := h.1
    have b := h.2
    have a' : (48 : UInt32).toNat ≤ c.val.toNat := UInt32.le_iff_toNat_le.mp a
    have b' : c.val.toNat ≤ (57 : UInt32).toNat := UInt32.le_iff_toNat_le.mp b
    have e : c.toNat = c.val.toNat := rfl
    have e1 : (48 : UInt32).toNat = 48 := by decide
    have e2 : (57 : UInt32).toNat = 57 := by decide
    omega
  refine ⟨?_, h2⟩
  simp only [Nat.toUInt8, UInt8.toNat_ofNat']
  omega

theorem natToDec_eq (n : Nat) :
    natToDec n = (Nat.toDigits 10 n).map fun ch => ch.toNat.toUInt8 := by
  simp [natToDec, ofString]

theorem foldl_congr_mem {α β : Type} (g1 g2 : β → α → β) : ∀ (l : List α) (init : β),
    (∀ c ∈ l, ∀ a, g1 a c = g2 a c) → l.foldl g1 init = l.foldl g2 init := by
  intro l
  induction l with
  | nil => intro _ _; rfl
  | cons x rest ih =>
    intro init h
    simp only [List.foldl_cons]
    rw [h x (by simp) init]
    exact ih _ (fun c hc a => h c (by simp [hc]) a)

theorem decNat_natToDec (n : Nat) : decNat (natToDec n) = n := by
  rw [natToDec_eq]
  unfold decNat
  rw [List.foldl_map]
  have := @Nat.ofDigitChars_ten_toDigits n
  rw [Nat.ofDigitChars_eq_foldl] at this
  refine Eq.trans ?_ this
  apply foldl_congr_mem
  intro c hc a
  have hd := Nat.isDigit_of_mem_toDigits (by decide) (by decide) hc
  obtain ⟨h1, _, _⟩ := char_digit_facts c hd
  rw [h1]
  rfl

theorem natToDec_all_digit (n : Nat) : (natToDec n).all isDigit = true := by
  rw [natToDec_eq, List.all_eq_true]
  intro b hb
  obtain ⟨c, hc, rfl⟩ := List.mem_map.mp hb
  have hd := Nat.isDigit_of_mem_toDigits (by decide) (by decide) hc
  obtain ⟨h1, h2, h3⟩ := char_digit_facts c hd
  simp only [isDigit, Bool.and_eq_true, decide_eq_true_eq, UInt8.le_iff_toNat_le, h1]
  exact ⟨by simpa using h2, by simpa using h3⟩

theorem natToDec_ne_nil (n : Nat) : (natToDec n).isEmpty = false := by
  rw [natToDec_eq]
  have := @Nat.toDigits_ne_nil n 10
  cases h : Nat.toDigits 10 n with
  | nil => exact absurd h this
  | cons _ _ => rfl

theorem natToDec_zero : natToDec 0 = [48] := by decide

/-! ### encoders -/

theorem uint8_forall (P : UInt8 → Prop) (h : ∀ n, n < 256 → P (UInt8.ofNat n)) : ∀ b, P b := by
  intro b
  have := h b.toNat b.toNat_lt
  simpa using this

/-- every output byte of the URL encodings is a printable, non-space ASCII character; the HTML/XML
    encodings let no control character through -/
theorem encodeByte_rel_printable : ∀ e, e < 2 → ∀ b : UInt8, ∀ x ∈ encodeByte e b, 0x21 ≤ x ∧ x ≤ 0x7e := by
  intro e he
  apply uint8_forall
  revert e
  decide +kernel

theorem encodeByte_no_ctl : ∀ e, e < 4 → ∀ b : UInt8, ∀ x ∈ encodeByte e b, 0x20 ≤ x ∧ x ≠ 0x7f := by
  intro e he
  apply uint8_forall
  revert e
  decide +kernel

/-! ### line structure of the header section -/

theorem renderHead_eq_join : ∀ (lines : List Bytes),
    renderHead lines = join lf (lines.map (· ++ [cr]) ++ [[cr], []]) := by
  intro lines
  induction lines with
  | nil => simp [renderHead, join, cr, lf]
  | cons l rest ih =>
    have hne : ∃ y ys, rest.map (· ++ [cr]) ++ [[cr], []] = y :: ys := by
      cases rest with
      | nil => exact ⟨_, _, rfl⟩
      | cons a b => exact ⟨_, _, rfl⟩
    obtain ⟨y, ys, hy⟩ := hne
    have hr : renderHead (l :: rest) = l ++ [cr, lf] ++ renderHead rest := by
      simp [renderHead]
    rw [hr, ih, List.map_cons, List.cons_append, hy]
    simp [join]

theorem splitOn_renderHead (lines : List Bytes) (h : ∀ l ∈ lines, lf ∉ l) :
    splitOn lf (renderHead lines) = lines.map (· ++ [cr]) ++ [[cr], []] := by
  rw [renderHead_eq_join]
  apply splitOn_join
  · simp
  · intro seg hseg
    rcases List.mem_append.mp hseg with hm | hm
    · obtain ⟨l, hl, rfl⟩ := List.mem_map.mp hm
      intro hmem
      rcases List.mem_append.mp hmem with h1 | h1
      · exact h l hl h1
      · simp [cr, lf] at h1
    · simp at hm
      rcases hm with rfl | rfl <;> simp [cr, lf]

/-! ### the §7.1 reference decoder reads the encoder output back -/

theorem readHex_render (rest : Bytes) (hrest : rest.head?.bind hexVal = none) : ∀ (ds : List Nat) (v k : Nat),
    (∀ d ∈ ds, d < 16) → readHex (renderHex ds ++ rest) v k = (hexValue ds v, k + ds.length, rest) := by
  intro ds
  induction ds with
  | nil =>
    intro v k _
    cases rest with
    | nil => simp [renderHex, readHex, hexValue]
    | cons b r =>
      simp only [List.head?_cons, Option.bind_some] at hrest
      simp [renderHex, readHex, hexValue, hrest]
  | cons d ds ih =>
    intro v k hd
    obtain ⟨h1, h2, _⟩ := hexDigit_facts d (hd d (by simp))
    have := ih (v * 16 + d) (k + 1) (fun x hx => hd x (by simp [hx]))
    simp only [renderHex, List.map_cons, List.cons_append, readHex, h1, h2] at this ⊢
    rw [this]
    simp only [hexValue, List.foldl_cons, List.length_cons]
    congr 2
    omega

theorem skipLine_crlf (r : Bytes) : skipLine (cr :: lf :: r) = some r := by
  simp [skipLine]

/-- one encoded chunk is consumed exactly and its data appended to the output -/
theorem rfcDechunk_chunk (ds : List Nat) (d rest acc : Bytes) (fuel : Nat) (hd : ∀ x ∈ ds, x < 16)
    (hne : ds ≠ []) (hval : hexValue ds 0 = d.length) (hd0 : d ≠ []) :
    rfcDechunk (fuel + 1) (renderHex ds ++ [cr, lf] ++ d ++ [cr, lf] ++ rest) acc
      = rfcDechunk fuel rest (acc ++ d) := by
  have hrh := readHex_render ([cr, lf] ++ d ++ [cr, lf] ++ rest)
    (by simp only [List.cons_append, List.head?_cons, Option.bind_some]; decide) ds 0 0 hd
  have hlen : 0 < ds.length := List.length_pos_iff.mpr hne
  have hdl : 0 < d.length := List.length_pos_iff.mpr hd0
  have e : renderHex ds ++ [cr, lf] ++ d ++ [cr, lf] ++ rest
      = renderHex ds ++ ([cr, lf] ++ d ++ [cr, lf] ++ rest) := by simp
  rw [e]
  conv => lhs; unfold rfcDechunk
  rw [hrh, hval]
  simp only [Nat.zero_add]
  have h0 : ¬ ds.length = 0 := by omega
  have hn0 : ¬ d.length = 0 := by omega
  have hsk : skipLine ([cr, lf] ++ d ++ [cr, lf] ++ rest) = some (d ++ [cr, lf] ++ rest) := by
    simpa using skipLine_crlf (d ++ [cr, lf] ++ rest)
  simp only [h0, if_false, hsk, hn0]
  have h1 : ¬ (d ++ [cr, lf] ++ rest).length < d.length + 2 := by simp
  have h2 : ((d ++ [cr, lf] ++ rest).drop d.length).take 2 = [cr, lf] := by simp
  have h3 : (d ++ [cr, lf] ++ rest).drop (d.length + 2) = rest := by
    have : d ++ [cr, lf] ++ rest = (d ++ [cr, lf]) ++ rest := by simp
    rw [this]
    have hl : (d ++ [cr, lf]).length = d.length + 2 := by simp
    rw [← hl, List.drop_left]
  have h4 : (d ++ [cr, lf] ++ rest).take d.length = d := by simp
  simp only [h1, if_false, h2, ne_eq, not_true_eq_false, h3, h4]

theorem rfcDechunk_last (next acc : Bytes) (fuel : Nat) :
    rfcDechunk (fuel + 1) ([48, cr, lf, cr, lf] ++ next) acc = some (acc, next) := by
  have hrh := readHex_render ([cr, lf, cr, lf] ++ next)
    (by simp only [List.cons_append, List.head?_cons, Option.bind_some]; decide) [0] 0 0 (by decide)
  have e : ([48, cr, lf, cr, lf] ++ next : Bytes) = renderHex [0] ++ ([cr, lf, cr, lf] ++ next) := by
    simp [renderHex, hexDigitLC]
  rw [e]
  conv => lhs; unfold rfcDechunk
  rw [hrh]
  simp [hexValue, skipLine, skipTrailers]

theorem rfcDechunk_stream (next : Bytes) : ∀ (pieces : List Bytes) (acc : Bytes) (fuel : Nat),
    (∀ p ∈ pieces, chunkSizeOk p.length) → (chunkStream true pieces true).length < fuel →
    rfcDechunk fuel (chunkStream true pieces true ++ next) acc = some (acc ++ pieces.flatten, next) := by
  intro pieces
  induction pieces with
  | nil =>
    intro acc fuel _ hf
    cases fuel with
    | zero => omega
    | succ f =>
      simp only [chunkStream, chunkClose, List.flatMap_nil, List.nil_append, if_true, List.flatten_nil,
        List.append_nil]
      exact rfcDechunk_last next acc f
  | cons p rest ih =>
    intro acc fuel hp hf
    have hrest : ∀ q ∈ rest, chunkSizeOk q.length := fun q hq => hp q (by simp [hq])
    have hsplit : chunkStream true (p :: rest) true = chunkAppend true p ++ chunkStream true rest true := by
      simp [chunkStream]
    rw [hsplit] at hf ⊢
    by_cases hemp : p = []
    · subst hemp
      simp only [chunkAppend, List.isEmpty_nil, if_true, List.nil_append, List.flatten_cons] at hf ⊢
      exact ih acc fuel hrest hf
    · have hne : p.isEmpty = false := by
        cases p with
        | nil => exact absurd rfl hemp
        | cons _ _ => rfl
      have hlt : p.length < 16 ^ 64 := by
        have := hp p (by simp)
        unfold chunkSizeOk at this
        calc p.length < 2 ^ 62 := this
          _ ≤ 16 ^ 64 := by decide
      obtain ⟨ds, h1, h2, h3, h4, _⟩ := hexDigits_spec 64 p.length (by decide) hlt
      simp only [chunkAppend, hne, if_true, Bool.false_eq_true, if_false, chunkLenLine, encHex, h1] at hf ⊢
      cases fuel with
      | zero => omega
      | succ f =>
        have e : renderHex ds ++ [cr, lf] ++ p ++ [cr, lf] ++ chunkStream true rest true ++ next
            = renderHex ds ++ [cr, lf] ++ p ++ [cr, lf] ++ (chunkStream true rest true ++ next) := by simp
        have hf' : (chunkStream true rest true).length < f := by
          simp only [List.length_append, List.length_cons, List.length_nil] at hf; omega
        rw [e, rfcDechunk_chunk ds p _ acc f h2 h4 h3 hemp, ih (acc ++ p) f hrest hf']
        simp

/-! ### the framing decision delimits exactly the intended body -/
section framing
open Hdrs
theorem finalHdrs_get (d : RespIn) (st : RespSt) (k' : Bytes)
    (h1 : sameName nConnection k' = false) (h2 : sameName nContentEncoding k' = false) :
    Hdrs.get (finalHdrs d st) k' = Hdrs.get st.hdrs k' := by
  unfold finalHdrs
  simp only []
  repeat' split
  all_goals simp [get_unset_ne, get_set, h1, h2]

theorem finalHdrs_has (d : RespIn) (st : RespSt) (k' : Bytes)
    (h1 : sameName nConnection k' = false) (h2 : sameName nContentEncoding k' = false) :
    Hdrs.has (finalHdrs d st) k' = Hdrs.has st.hdrs k' := by
  unfold has; rw [finalHdrs_get d st k' h1 h2]

theorem rfcBody_length (b next : Bytes) :
    rfcBody (.length (decNat (natToDec b.length))) (b ++ next) = some (b, next) := by
  rw [decNat_natToDec]
  simp [rfcBody]

theorem chunkStream_plain (ps : List Bytes) : chunkStream false ps true = ps.flatten := by
  induction ps with
  | nil => simp [chunkStream, chunkClose]
  | cons p rest ih =>
    simp only [chunkStream, chunkClose] at ih ⊢
    cases p with
    | nil => simpa [chunkAppend] using ih
    | cons a t => simpa [chunkAppend] using ih

theorem drop_suffix (w next : Bytes) : (w ++ next).drop ((w ++ next).length - next.length) = next := by
  have : (w ++ next).length - next.length = w.length := by simp
  rw [this]; simp

theorem rfcBody_chunked (q : Bytes) (ps : List Bytes) (next : Bytes)
    (hq : chunkSizeOk q.length) (hp : ∀ p ∈ ps, chunkSizeOk p.length) :
    rfcBody .chunked (chunkFirst q ++ chunkStream true ps true ++ next) = some (q ++ ps.flatten, next) := by
  show rfcDechunk ((chunkFirst q ++ chunkStream true ps true ++ next).length + 1)
    (chunkFirst q ++ chunkStream true ps true ++ next) [] = some (q ++ ps.flatten, next)
  by_cases he : q = []
  · subst he
    have := rfcDechunk_stream next ps [] ((chunkStream true ps true ++ next).length + 1) hp
      (by simp only [List.length_append]; omega)
    simpa [chunkFirst] using this
  · have hne : q.isEmpty = false := by
      cases q with
      | nil => exact absurd rfl he
      | cons _ _ => rfl
    have hlt : q.length < 256 ^ 64 := by
      unfold chunkSizeOk at hq
      calc q.length < 2 ^ 62 := hq
        _ ≤ 256 ^ 64 := by decide
    obtain ⟨ds, h1, h2, h3, h4, _⟩ := hexBytesGo_spec 64 q.length (by decide) hlt
    have e : chunkFirst q ++ chunkStream true ps true ++ next
        = renderHex ds ++ [cr, lf] ++ q ++ [cr, lf] ++ (chunkStream true ps true ++ next) := by
      simp [chunkFirst, hne, hexBytesLc, h1]
    rw [e, rfcDechunk_chunk ds q _ [] _ h2 h4 h3 he]
    have := rfcDechunk_stream next ps ([] ++ q)
      ((renderHex ds ++ [cr, lf] ++ q ++ [cr, lf] ++ (chunkStream true ps true ++ next)).length) hp
      (by simp only [List.length_append, List.length_cons, List.length_nil]; omega)
    simpa using this

def st0 (d : RespIn) : RespSt :=
  { status := d.status, hdrs := d.hdrs, body := d.queued, finished := d.finished,
    sendChunked := false, keepAlive := d.keepAlive }

theorem wpStatus_normal (d : RespIn) (hb : isBodiless d.status = false)
    (he : (400 ≤ d.status && d.status < 600 && errdocApplies d) = false) : wpStatus d = st0 d := by
  unfold wpStatus st0
  simp only [isBodiless, Bool.or_eq_false_iff, decide_eq_false_iff_not] at hb
  obtain ⟨⟨h204, h205⟩, h304⟩ := hb
  simp only [h204, h205, h304, decide_false, Bool.or_self, Bool.false_eq_true, if_false]
  split
  · rfl
  · split
    · rename_i hrange
      simp only [hrange, Bool.true_and] at he
      simp [staticErrdoc, he]
    · rfl



def FramingGoal (d : RespIn) (date next : Bytes) : Prop :=
  let r := respond d date
  let f := rfcFraming (decide (d.meth = .head)) r.status r.hdrs
  r.status = d.status ∧ r.finished = true ∧ f ≠ .invalid ∧
  (f = .close → r.keepAlive = false ∧ rfcBody f r.body = some (intendedBody d, [])) ∧
  (f ≠ .close → rfcBody f (r.body ++ next) = some (intendedBody d, next)) ∧
  ((d.meth = .head ∨ isBodiless d.status = true) → r.body = []) ∧
  (d.status = 204 → Hdrs.has r.hdrs nContentLength = false)

theorem has_of_get_some {hs : List Hdr} {k v : Bytes} (h : get hs k = some v) : has hs k = !v.isEmpty := by
  simp [has, h]

theorem ltrim_of_head {v : Bytes} (h : ∀ b, v.head? = some b → isOws b = false) : ltrim v = v := by
  cases v with
  | nil => rfl
  | cons b t => simp [ltrim, List.dropWhile, h b rfl]

theorem ltrim_natToDec (n : Nat) : ltrim (natToDec n) = natToDec n := by
  apply ltrim_of_head
  intro b hb
  have hall := natToDec_all_digit n
  rw [List.all_eq_true] at hall
  have hm : b ∈ natToDec n := List.mem_of_mem_head? hb
  have := hall b hm
  simp only [isDigit, Bool.and_eq_true, decide_eq_true_eq] at this
  have h1 : b ≠ 32 := by intro e; subst e; revert this; decide
  have h2 : b ≠ 9 := by intro e; subst e; revert this; decide
  simp [isOws, sp, ht, h1, h2]

theorem vals_of_get {hs : List Hdr} {k v : Bytes} (h : Hdrs.get hs k = some v) (hv : v.isEmpty = false) :
    Hdrs.vals hs k = [ltrim v] := by
  simp [Hdrs.vals, h, hv]

theorem vals_of_not_has {hs : List Hdr} {k : Bytes} (h : Hdrs.has hs k = false) : Hdrs.vals hs k = [] := by
  unfold Hdrs.has at h
  unfold Hdrs.vals
  cases hg : Hdrs.get hs k with
  | none => rfl
  | some v =>
    simp only [hg] at h
    have : v.isEmpty = true := by simpa using h
    simp [this]

theorem finalHdrs_vals (d : RespIn) (st : RespSt) (k' : Bytes)
    (h1 : sameName nConnection k' = false) (h2 : sameName nContentEncoding k' = false) :
    Hdrs.vals (finalHdrs d st) k' = Hdrs.vals st.hdrs k' := by
  unfold Hdrs.vals; rw [finalHdrs_get d st k' h1 h2]

theorem rf_none (hd : Bool) (status : Nat) (hs : List Hdr)
    (h : hd = true ∨ status = 204 ∨ status = 304) : rfcFraming hd status hs = .none := by
  unfold rfcFraming framingOf
  rcases h with h | h | h <;> simp [h]

theorem rf_len (d : RespIn) (st : RespSt) (n : Nat) (h1 : ¬ st.status / 100 = 1) (h204 : st.status ≠ 204)
    (h304 : st.status ≠ 304) (hte : has st.hdrs nTransferEncoding = false)
    (hcl : get st.hdrs nContentLength = some (natToDec n)) :
    rfcFraming false st.status (finalHdrs d st) = .length n := by
  unfold rfcFraming
  rw [finalHdrs_vals d st _ nm_CO_TE nm_CE_TE, finalHdrs_vals d st _ nm_CO_CL nm_CE_CL,
    vals_of_not_has hte, vals_of_get hcl (natToDec_ne_nil n), ltrim_natToDec]
  simp [framingOf, h1, h204, h304, natToDec_ne_nil, natToDec_all_digit, decNat_natToDec]

theorem rf_chunked (d : RespIn) (st : RespSt) (h1 : ¬ st.status / 100 = 1) (h204 : st.status ≠ 204)
    (h304 : st.status ≠ 304) (hcl : has st.hdrs nContentLength = false)
    (hv : get st.hdrs nTransferEncoding = some (ofString "chunked")) :
    rfcFraming false st.status (finalHdrs d st) = .chunked := by
  unfold rfcFraming
  rw [finalHdrs_vals d st _ nm_CO_TE nm_CE_TE, finalHdrs_vals d st _ nm_CO_CL nm_CE_CL,
    vals_of_not_has hcl, vals_of_get hv (by decide)]
  have : ltrim (ofString "chunked") = ofString "chunked" := by decide
  rw [this]
  simp [framingOf, h1, h204, h304]

theorem rf_close (d : RespIn) (st : RespSt) (h1 : ¬ st.status / 100 = 1) (h204 : st.status ≠ 204)
    (h304 : st.status ≠ 304) (hte : has st.hdrs nTransferEncoding = false)
    (hcl : has st.hdrs nContentLength = false) :
    rfcFraming false st.status (finalHdrs d st) = .close := by
  unfold rfcFraming
  rw [finalHdrs_vals d st _ nm_CO_TE nm_CE_TE, finalHdrs_vals d st _ nm_CO_CL nm_CE_CL,
    vals_of_not_has hte, vals_of_not_has hcl]
  simp [framingOf, h1, h204, h304]

theorem intended_bodiless (d : RespIn) (h : d.meth = .head ∨ isBodiless d.status = true) :
    intendedBody d = [] := by
  unfold intendedBody
  rcases h with h | h <;> simp [h]

theorem goal_none (d : RespIn) (date next : Bytes) (st : RespSt) (hw : writePrepare d = st)
    (hs : st.status = d.status) (hn : d.meth = .head ∨ d.status = 204 ∨ d.status = 304)
    (hbody : st.body = []) (hfin : st.finished = true)
    (h204 : d.status = 204 → has st.hdrs nContentLength = false) : FramingGoal d date next := by
  have hint : intendedBody d = [] := by
    apply intended_bodiless
    rcases hn with h | h | h
    · exact Or.inl h
    · exact Or.inr (by simp [isBodiless, h])
    · exact Or.inr (by simp [isBodiless, h])
  have hf : rfcFraming (decide (d.meth = .head)) st.status (finalHdrs d st) = .none := by
    apply rf_none
    rcases hn with h | h | h
    · exact Or.inl (by simp [h])
    · exact Or.inr (Or.inl (by rw [hs]; exact h))
    · exact Or.inr (Or.inr (by rw [hs]; exact h))
  unfold FramingGoal respond
  simp only [hw, hf, hfin, hbody, hint]
  refine ⟨hs, by simp, by simp, by simp, by simp [rfcBody], by simp, ?_⟩
  intro h
  rw [finalHdrs_has d st _ nm_CO_CL nm_CE_CL]
  exact h204 h

theorem goal_len (d : RespIn) (date next : Bytes) (st : RespSt) (hw : writePrepare d = st)
    (hs : st.status = d.status) (hm : d.meth ≠ .head) (h1 : ¬ d.status / 100 = 1) (h204 : d.status ≠ 204)
    (h304 : d.status ≠ 304) (hte : has st.hdrs nTransferEncoding = false) (hch : st.sendChunked = false)
    (hbody : st.body ++ (if st.finished then [] else d.pieces.flatten) = intendedBody d)
    (hcl : get st.hdrs nContentLength = some (natToDec (intendedBody d).length))
    (hclose : d.closeNormally = true) : FramingGoal d date next := by
  have hf : rfcFraming (decide (d.meth = .head)) st.status (finalHdrs d st)
      = .length (intendedBody d).length := by
    have : decide (d.meth = .head) = false := by simp [hm]
    rw [this]
    exact rf_len d st _ (by rw [hs]; exact h1) (by rw [hs]; exact h204) (by rw [hs]; exact h304) hte hcl
  have hb : st.body ++ (if st.finished then [] else chunkStream st.sendChunked d.pieces d.closeNormally)
      = intendedBody d := by
    rw [hch, hclose, chunkStream_plain]; exact hbody
  unfold FramingGoal respond
  simp only [hw, hf, hb]
  refine ⟨hs, by simp [hclose], by simp, by simp, ?_, ?_, by intro h; exact absurd h h204⟩
  · intro _
    have := rfcBody_length (intendedBody d) next
    rw [decNat_natToDec] at this
    exact this
  · intro h
    rcases h with h | h
    · exact absurd h hm
    · exact intended_bodiless d (Or.inr h)

theorem goal_chunked (d : RespIn) (date next : Bytes) (st : RespSt) (hw : writePrepare d = st)
    (hs : st.status = d.status) (hm : d.meth ≠ .head) (h1 : ¬ d.status / 100 = 1) (hb : isBodiless d.status = false)
    (hcl : has st.hdrs nContentLength = false)
    (hv : get st.hdrs nTransferEncoding = some (ofString "chunked")) (hch : st.sendChunked = true)
    (hfin : st.finished = false) (hbody : st.body = chunkFirst d.queued)
    (hint : intendedBody d = d.queued ++ d.pieces.flatten)
    (hclose : d.closeNormally = true)
    (hsz : chunkSizeOk d.queued.length ∧ ∀ p ∈ d.pieces, chunkSizeOk p.length) : FramingGoal d date next := by
  have hb0 := hb
  simp only [isBodiless, Bool.or_eq_false_iff, decide_eq_false_iff_not] at hb
  obtain ⟨⟨h204, _⟩, h304⟩ := hb
  have hf : rfcFraming (decide (d.meth = .head)) st.status (finalHdrs d st) = .chunked := by
    have : decide (d.meth = .head) = false := by simp [hm]
    rw [this]
    exact rf_chunked d st (by rw [hs]; exact h1) (by rw [hs]; exact h204) (by rw [hs]; exact h304) hcl hv
  unfold FramingGoal respond
  simp only [hw, hf, hfin, hch, hclose, hbody, hint]
  refine ⟨hs, by simp, by simp, by simp, ?_, ?_, by intro h; exact absurd h h204⟩
  · intro _
    simpa using rfcBody_chunked d.queued d.pieces next hsz.1 hsz.2
  · intro h
    rcases h with h | h
    · exact absurd h hm
    · rw [hb0] at h; exact absurd h (by simp)

theorem goal_close (d : RespIn) (date next : Bytes) (st : RespSt) (hw : writePrepare d = st)
    (hs : st.status = d.status) (hm : d.meth ≠ .head) (h1 : ¬ d.status / 100 = 1) (hb : isBodiless d.status = false)
    (hte : has st.hdrs nTransferEncoding = false) (hcl : has st.hdrs nContentLength = false)
    (hch : st.sendChunked = false) (hka : st.keepAlive = false)
    (hbody : st.body ++ (if st.finished then [] else d.pieces.flatten) = intendedBody d)
    (hclose : d.closeNormally = true) : FramingGoal d date next := by
  simp only [isBodiless, Bool.or_eq_false_iff, decide_eq_false_iff_not] at hb
  obtain ⟨⟨h204, h205⟩, h304⟩ := hb
  have hf : rfcFraming (decide (d.meth = .head)) st.status (finalHdrs d st) = .close := by
    have : decide (d.meth = .head) = false := by simp [hm]
    rw [this]
    exact rf_close d st (by rw [hs]; exact h1) (by rw [hs]; exact h204) (by rw [hs]; exact h304) hte hcl
  have hbd : st.body ++ (if st.finished then [] else chunkStream st.sendChunked d.pieces d.closeNormally)
      = intendedBody d := by
    rw [hch, hclose, chunkStream_plain]; exact hbody
  unfold FramingGoal respond
  simp only [hw, hf, hbd]
  refine ⟨hs, by simp [hclose], by simp, ?_, by simp, ?_, by intro h; exact absurd h h204⟩
  · intro _
    refine ⟨?_, by simp [rfcBody]⟩
    simp [kaAfterLimits, hka]
  · intro h
    rcases h with h | h
    · exact absurd h hm
    · simp [isBodiless, h204, h205, h304] at h

theorem framing_normal (d : RespIn) (date next : Bytes) (h : HandlerSane d) (hm : d.meth ≠ .head)
    (hb : isBodiless d.status = false)
    (he : (400 ≤ d.status && d.status < 600 && errdocApplies d) = false) : FramingGoal d date next := by
  have hst := wpStatus_normal d hb he
  have h1xx : ¬ d.status / 100 = 1 := by have := h.status; omega
  have hbl := hb
  simp only [isBodiless, Bool.or_eq_false_iff, decide_eq_false_iff_not] at hbl
  obtain ⟨⟨h204, h205⟩, h304⟩ := hbl
  have hint : intendedBody d = d.queued ++ (if d.finished then [] else d.pieces.flatten) := by
    simp [intendedBody, hm, hb, he]
  have hwp : writePrepare d = wpFraming d (st0 d) := by
    unfold writePrepare; rw [hst]; simp [wpHead, hm]
  by_cases hfin : d.finished = true
  · by_cases hcl : has d.hdrs nContentLength = true
    · -- the handler declared the length itself
      have hw : writePrepare d = st0 d := by
        rw [hwp]; simp [wpFraming, st0, hfin, hcl]
      obtain ⟨v, hv⟩ : ∃ v, get d.hdrs nContentLength = some v := by
        unfold has at hcl
        cases hg : get d.hdrs nContentLength with
        | none => simp [hg] at hcl
        | some v => exact ⟨v, rfl⟩
      have hvne : v.isEmpty = false := by simpa [has, hv] using hcl
      have hdecl := h.declared hm hb v hv hvne
      refine goal_len d date next (st0 d) hw rfl hm h1xx h204 h304 h.noTE rfl ?_ ?_ h.closes
      · simp [st0, hint, hfin]
      · rw [hint]; simp only [st0, hv, hdecl]
    · have hcl' : has d.hdrs nContentLength = false := by simpa using hcl
      have hw : writePrepare d = { st0 d with hdrs := Hdrs.set d.hdrs nContentLength (natToDec d.queued.length) } := by
        rw [hwp]
        by_cases hq : d.queued.length > 0
        · simp [wpFraming, st0, hfin, hcl', h.noTE, hq]
        · have hz : d.queued.length = 0 := by omega
          simp [wpFraming, st0, hfin, hcl', h.noTE, hz, hm, h204, h304, natToDec_zero]
      refine goal_len d date next _ hw rfl hm h1xx h204 h304 ?_ rfl ?_ ?_ h.closes
      · simp [has_set, nm_CL_TE, h.noTE]
      · simp [st0, hint, hfin]
      · simp [get_set, nm_CL_CL, hint, hfin]
  · have hfin' : d.finished = false := by simpa using hfin
    by_cases hcl : has d.hdrs nContentLength = true
    · have hw : writePrepare d = st0 d := by
        rw [hwp]; simp [wpFraming, st0, hfin', hcl]
      obtain ⟨v, hv⟩ : ∃ v, get d.hdrs nContentLength = some v := by
        unfold has at hcl
        cases hg : get d.hdrs nContentLength with
        | none => simp [hg] at hcl
        | some v => exact ⟨v, rfl⟩
      have hvne : v.isEmpty = false := by simpa [has, hv] using hcl
      have hdecl := h.declared hm hb v hv hvne
      refine goal_len d date next (st0 d) hw rfl hm h1xx h204 h304 h.noTE rfl ?_ ?_ h.closes
      · simp [st0, hint, hfin']
      · rw [hint]; simp only [st0, hv, hdecl]
    · have hcl' : has d.hdrs nContentLength = false := by simpa using hcl
      have hnt : (d.meth = .connect && d.status = 200) = false := by
        have := h.notTunnel
        by_cases a : d.meth = .connect <;> by_cases b : d.status = 200 <;> simp_all
      by_cases hv : d.ver11 = true
      · have hw : writePrepare d = ⟨d.status, Hdrs.append d.hdrs nTransferEncoding (ofString "chunked"),
            chunkFirst d.queued, false, true, d.keepAlive⟩ := by
          rw [hwp]; simp [wpFraming, st0, hfin', hcl', h.noTE, h.noUpgrade, hnt, hv]
        have hce : (ofString "chunked").isEmpty = false := by decide
        refine goal_chunked d date next _ hw rfl hm h1xx hb ?_ ?_ rfl rfl rfl ?_ h.closes h.sizes
        · simp [has_append _ _ _ _ hce, nm_TE_CL, hcl']
        · exact get_append_fresh _ _ _ hce h.noTE
        · simp [hint, hfin']
      · have hv' : d.ver11 = false := by simpa using hv
        have hw : writePrepare d = { st0 d with keepAlive := false } := by
          rw [hwp]; simp [wpFraming, st0, hfin', hcl', h.noTE, h.noUpgrade, hnt, hv']
        refine goal_close d date next _ hw rfl hm h1xx hb h.noTE hcl' rfl rfl ?_ h.closes
        · simp [st0, hint, hfin']

theorem wpStatus_status (d : RespIn) : (wpStatus d).status = d.status := by
  unfold wpStatus
  simp only []
  repeat' split
  all_goals simp [bodyClear, staticErrdoc]
  all_goals (split <;> rfl)

theorem wpFraming_status (d : RespIn) (st : RespSt) : (wpFraming d st).status = st.status := by
  unfold wpFraming
  repeat' split
  all_goals rfl

/-- what `switch (r->http_status)` leaves behind for 204 / 205 -/
theorem wpStatus_2045 (d : RespIn) (h : d.status = 204 ∨ d.status = 205) :
    wpStatus d = ⟨d.status, Hdrs.unset (Hdrs.unset d.hdrs nContentLength) nTransferEncoding, [], true, false,
      d.keepAlive⟩ := by
  unfold wpStatus
  rcases h with h | h <;> simp [h, bodyClear]

theorem wpStatus_304 (d : RespIn) (h : d.status = 304) :
    wpStatus d = ⟨d.status, Hdrs.unset d.hdrs nTransferEncoding, [], true, false, d.keepAlive⟩ := by
  unfold wpStatus
  simp [h, bodyClear]

def errKeep (d : RespIn) : List Hdr :=
  if d.status = 401 then
    match Hdrs.get d.hdrs nWwwAuthenticate with
    | some v => if v.isEmpty then [] else [⟨nWwwAuthenticate, v⟩]
    | none => []
  else []

theorem errKeep_has (d : RespIn) (k : Bytes) (hk : sameName nWwwAuthenticate k = false) :
    has (errKeep d) k = false := by
  unfold errKeep
  split
  · split
    · split
      · simp [Hdrs.has, Hdrs.get]
      · simp [Hdrs.has, Hdrs.get, hk]
    · simp [Hdrs.has, Hdrs.get]
  · simp [Hdrs.has, Hdrs.get]

theorem wpStatus_err (d : RespIn) (hr : (400 ≤ d.status && d.status < 600) = true) (ha : errdocApplies d = true) :
    wpStatus d = ⟨d.status, Hdrs.set (errKeep d) nContentType (ofString "text/html"), errorPage d.status, true,
      false, d.keepAlive⟩ := by
  have h1 : 400 ≤ d.status ∧ d.status < 600 := by simpa using hr
  have h200 : d.status ≠ 200 := by omega
  have h204 : d.status ≠ 204 := by omega
  have h205 : d.status ≠ 205 := by omega
  have h304 : d.status ≠ 304 := by omega
  unfold wpStatus
  simp only [h200, h204, h205, h304, hr, if_false, if_true, decide_false, Bool.or_self, Bool.false_eq_true]
  unfold staticErrdoc
  simp only [ha, Bool.not_true, Bool.false_eq_true, if_false]
  rfl

theorem errorPage_pos (s : Nat) : 0 < (errorPage s).length := by
  unfold errorPage
  simp only [List.length_append]
  have : 0 < (ofString "<!DOCTYPE html>\n<html lang=\"en\">\n <head>\n  <meta charset=\"UTF-8\" />\n  <title>").length := by
    decide
  omega

theorem has_nil (k : Bytes) : has [] k = false := by simp [Hdrs.has, Hdrs.get]

theorem framing_head (d : RespIn) (date next : Bytes) (h : HandlerSane d) (hm : d.meth = .head) :
    FramingGoal d date next := by
  have hw : writePrepare d = ⟨d.status, Hdrs.unset (wpFraming d (wpStatus d)).hdrs nTransferEncoding, [], true,
      false, (wpFraming d (wpStatus d)).keepAlive⟩ := by
    unfold writePrepare wpHead
    simp [hm, bodyClear, wpFraming_status, wpStatus_status]
  refine goal_none d date next _ hw rfl (Or.inl hm) rfl rfl ?_
  intro h204
  simp only [has_unset, nm_TE_CL, Bool.false_eq_true, if_false]
  rw [wpStatus_2045 d (Or.inl h204)]
  simp [wpFraming, has_unset, nm_TE_CL, nm_CL_CL, nm_TE_TE, hm, h204]

theorem framing_bodiless (d : RespIn) (date next : Bytes) (h : HandlerSane d) (hm : d.meth ≠ .head)
    (hb : isBodiless d.status = true) : FramingGoal d date next := by
  have hcases : d.status = 204 ∨ d.status = 205 ∨ d.status = 304 := by
    simp only [isBodiless, Bool.or_eq_true, decide_eq_true_eq] at hb
    rcases hb with (h1 | h1) | h1
    · exact Or.inl h1
    · exact Or.inr (Or.inl h1)
    · exact Or.inr (Or.inr h1)
  have hwp : writePrepare d = wpFraming d (wpStatus d) := by
    unfold writePrepare; simp [wpHead, hm]
  rcases hcases with h204 | h205 | h304
  · have hw : writePrepare d = ⟨d.status, Hdrs.unset (Hdrs.unset d.hdrs nContentLength) nTransferEncoding, [],
        true, false, d.keepAlive⟩ := by
      rw [hwp, wpStatus_2045 d (Or.inl h204)]
      simp [wpFraming, has_unset, nm_TE_CL, nm_CL_CL, nm_TE_TE, h204]
    refine goal_none d date next _ hw rfl (Or.inr (Or.inl h204)) rfl rfl ?_
    intro _
    simp [has_unset, nm_TE_CL, nm_CL_CL]
  · have hw : writePrepare d = ⟨d.status, Hdrs.set (Hdrs.unset (Hdrs.unset d.hdrs nContentLength) nTransferEncoding)
        nContentLength [48], [], true, false, d.keepAlive⟩ := by
      rw [hwp, wpStatus_2045 d (Or.inr h205)]
      simp [wpFraming, has_unset, nm_TE_CL, nm_CL_CL, nm_TE_TE, h205, hm]
    have hint : intendedBody d = [] := intended_bodiless d (Or.inr hb)
    refine goal_len d date next _ hw rfl hm (by omega) (by omega) (by omega) ?_ rfl ?_ ?_ h.closes
    · simp [has_set, has_unset, nm_CL_TE, nm_TE_TE]
    · simp [hint]
    · simp [get_set, nm_CL_CL, hint, natToDec_zero]
  · have hw : writePrepare d = ⟨d.status, Hdrs.unset d.hdrs nTransferEncoding, [], true, false, d.keepAlive⟩ := by
      rw [hwp, wpStatus_304 d h304]
      by_cases hcl : has d.hdrs nContentLength = true <;>
        simp [wpFraming, has_unset, nm_TE_CL, nm_TE_TE, h304, hcl]
    refine goal_none d date next _ hw rfl (Or.inr (Or.inr h304)) rfl rfl ?_
    intro h204
    omega

theorem framing_errdoc (d : RespIn) (date next : Bytes) (h : HandlerSane d) (hm : d.meth ≠ .head)
    (he : (400 ≤ d.status && d.status < 600 && errdocApplies d) = true) : FramingGoal d date next := by
  have hr : (400 ≤ d.status && d.status < 600) = true := by
    simp only [Bool.and_eq_true] at he ⊢; exact he.1
  have ha : errdocApplies d = true := by
    simp only [Bool.and_eq_true] at he; exact he.2
  have h1 : 400 ≤ d.status ∧ d.status < 600 := by simpa using hr
  have hb : isBodiless d.status = false := by
    simp only [isBodiless, Bool.or_eq_false_iff, decide_eq_false_iff_not]; omega
  have hint : intendedBody d = errorPage d.status := by
    simp [intendedBody, hm, hb, he]
  have hpos := errorPage_pos d.status
  have hw : writePrepare d = ⟨d.status, Hdrs.set (Hdrs.set (errKeep d) nContentType (ofString "text/html"))
      nContentLength (natToDec (errorPage d.status).length), errorPage d.status, true, false, d.keepAlive⟩ := by
    unfold writePrepare
    rw [wpStatus_err d hr ha]
    simp [wpHead, hm, wpFraming, has_set, nm_CT_CL, nm_CT_TE, errKeep_has, nm_WA_CL, nm_WA_TE, hpos]
  refine goal_len d date next _ hw rfl hm (by omega) (by omega) (by omega) ?_ rfl ?_ ?_ h.closes
  · simp [has_set, nm_CL_TE, nm_CT_TE, errKeep_has, nm_WA_TE]
  · simp [hint]
  · simp [get_set, nm_CL_CL, hint]

theorem framing_sound_core (d : RespIn) (date next : Bytes) (h : HandlerSane d) : FramingGoal d date next := by
  by_cases hm : d.meth = .head
  · exact framing_head d date next h hm
  · by_cases hb : isBodiless d.status = true
    · exact framing_bodiless d date next h hm hb
    · by_cases he : (400 ≤ d.status && d.status < 600 && errdocApplies d) = true
      · exact framing_errdoc d date next h hm he
      · exact framing_normal d date next h hm (by simpa using hb) (by simpa using he)

theorem nm_CO_UP : Hdrs.sameName nConnection nUpgrade = false := by decide
theorem nm_CE_UP : Hdrs.sameName nContentEncoding nUpgrade = false := by decide
theorem nm_CT_UP : Hdrs.sameName nContentType nUpgrade = false := by decide
theorem nm_WA_UP : Hdrs.sameName nWwwAuthenticate nUpgrade = false := by decide

/-- a response that may have a body but carries neither Content-Length nor Transfer-Encoding (nor is
    a protocol upgrade) is always followed by connection close — for EVERY descriptor -/
theorem undelimited_closes (d : RespIn) (date : Bytes) (hm : d.meth ≠ .head)
    (hb : isBodiless d.status = false) (hnt : ¬ (d.meth = .connect ∧ d.status = 200))
    (hcl : Hdrs.has (respond d date).hdrs nContentLength = false)
    (hte : Hdrs.has (respond d date).hdrs nTransferEncoding = false)
    (hup : Hdrs.has (respond d date).hdrs nUpgrade = false) : (respond d date).keepAlive = false := by
  have hwp : writePrepare d = wpFraming d (wpStatus d) := by
    unfold writePrepare; simp [wpHead, hm]
  have e1 : (respond d date).hdrs = finalHdrs d (writePrepare d) := rfl
  have e2 : (respond d date).keepAlive = kaAfterLimits d (writePrepare d).keepAlive := rfl
  rw [e1, finalHdrs_has d _ _ nm_CO_CL nm_CE_CL, hwp] at hcl
  rw [e1, finalHdrs_has d _ _ nm_CO_TE nm_CE_TE, hwp] at hte
  rw [e1, finalHdrs_has d _ _ nm_CO_UP nm_CE_UP, hwp] at hup
  rw [e2, hwp]
  have hbl := hb
  simp only [isBodiless, Bool.or_eq_false_iff, decide_eq_false_iff_not] at hbl
  obtain ⟨⟨h204, h205⟩, h304⟩ := hbl
  suffices hk : (wpFraming d (wpStatus d)).keepAlive = false by simp [kaAfterLimits, hk]
  by_cases he : (400 ≤ d.status && d.status < 600 && errdocApplies d) = true
  · exfalso
    have hr : (400 ≤ d.status && d.status < 600) = true := by
      simp only [Bool.and_eq_true] at he ⊢; exact he.1
    have ha : errdocApplies d = true := by
      simp only [Bool.and_eq_true] at he; exact he.2
    rw [wpStatus_err d hr ha] at hcl
    have hpos := errorPage_pos d.status
    simp [wpFraming, Hdrs.has_set, nm_CT_CL, nm_CT_TE, errKeep_has, nm_WA_CL, nm_WA_TE, hpos, nm_CL_CL,
      natToDec_ne_nil] at hcl
  · rw [wpStatus_normal d hb (by simpa using he)] at hcl hte hup ⊢
    unfold wpFraming st0 at hcl hte hup ⊢
    by_cases hfin : d.finished = true
    · exfalso
      simp only [hfin, if_true] at hcl hte
      by_cases h1 : Hdrs.has d.hdrs nContentLength = true
      · simp [h1] at hcl
      · by_cases h2 : Hdrs.has d.hdrs nTransferEncoding = true
        · simp [h1, h2] at hte
        · by_cases hq : d.queued.length > 0
          · simp [h1, h2, hq, Hdrs.has_set, nm_CL_CL, natToDec_ne_nil] at hcl
          · simp [h1, h2, hq, Hdrs.has_set, nm_CL_CL, hm, h204, h304] at hcl
    · have hfin' : d.finished = false := by simpa using hfin
      simp only [hfin', Bool.false_eq_true, if_false] at hcl hte hup ⊢
      by_cases h1 : Hdrs.has d.hdrs nContentLength = true
      · simp [h1] at hcl
      · by_cases h2 : Hdrs.has d.hdrs nTransferEncoding = true
        · simp [h1, h2] at hte
        · by_cases h3 : Hdrs.has d.hdrs nUpgrade = true
          · simp [h1, h2, h3] at hup
          · have hnt' : (d.meth = .connect && d.status = 200) = false := by
              by_cases a : d.meth = .connect <;> by_cases b : d.status = 200 <;> simp_all
            by_cases hv : d.ver11 = true
            · exfalso
              have hce : (ofString "chunked").isEmpty = false := by decide
              simp [h1, h2, h3, hnt', hv, Hdrs.has_append _ _ _ _ hce, nm_TE_TE] at hte
            · simp [h1, h2, h3, hnt', hv]

end framing

/-! ### nothing in the header section can start a new line -/
section clean

theorem NoCRLF.append {a b : Bytes} (ha : NoCRLF a) (hb : NoCRLF b) : NoCRLF (a ++ b) :=
  ⟨fun h => (List.mem_append.mp h).elim ha.1 hb.1, fun h => (List.mem_append.mp h).elim ha.2 hb.2⟩

theorem NoCRLF.nil : NoCRLF [] := ⟨by simp, by simp⟩

theorem natToDec_clean (n : Nat) : NoCRLF (natToDec n) := by
  have hall := natToDec_all_digit n
  rw [List.all_eq_true] at hall
  constructor <;> intro hm <;> have := hall _ hm <;> simp [isDigit, cr, lf] at this

theorem get_mem {hs : List Hdr} {k v : Bytes} (h : Hdrs.get hs k = some v) : ∃ x ∈ hs, x.value = v := by
  unfold Hdrs.get at h
  cases hf : hs.find? (fun h => Hdrs.sameName h.key k) with
  | none => simp [hf] at h
  | some x =>
    simp only [hf, Option.map_some, Option.some.injEq] at h
    exact ⟨x, List.mem_of_find?_eq_some hf, h⟩

theorem clean_update {hs : List Hdr} (k v : Bytes) (h : HdrsClean hs) (hv : NoCRLF v) :
    HdrsClean (Hdrs.update hs k v) := by
  intro x hx
  unfold Hdrs.update at hx
  obtain ⟨y, hy, rfl⟩ := List.mem_map.mp hx
  split
  · exact ⟨(h y hy).1, hv⟩
  · exact h y hy

theorem clean_snoc {hs : List Hdr} (k v : Bytes) (h : HdrsClean hs) (hk : NoCRLF k) (hv : NoCRLF v) :
    HdrsClean (hs ++ [⟨k, v⟩]) := by
  intro x hx
  rcases List.mem_append.mp hx with h1 | h1
  · exact h x h1
  · simp at h1; subst h1; exact ⟨hk, hv⟩

theorem clean_set {hs : List Hdr} (k v : Bytes) (h : HdrsClean hs) (hk : NoCRLF k) (hv : NoCRLF v) :
    HdrsClean (Hdrs.set hs k v) := by
  unfold Hdrs.set
  split
  · exact clean_update k v h hv
  · exact clean_snoc k v h hk hv

theorem clean_unset {hs : List Hdr} (k : Bytes) (h : HdrsClean hs) : HdrsClean (Hdrs.unset hs k) := by
  unfold Hdrs.unset
  split
  · exact clean_update k [] h NoCRLF.nil
  · exact h

theorem clean_append {hs : List Hdr} (k v : Bytes) (h : HdrsClean hs) (hk : NoCRLF k) (hv : NoCRLF v) :
    HdrsClean (Hdrs.append hs k v) := by
  unfold Hdrs.append
  split
  · exact h
  · cases hg : Hdrs.get hs k with
    | some old =>
      simp only []
      obtain ⟨x, hx, hxv⟩ := get_mem hg
      have hold : NoCRLF old := hxv ▸ (h x hx).2
      split
      · exact clean_update k v h hv
      · exact clean_update k _ h ((hold.append ⟨by decide, by decide⟩).append hv)
    | none => exact clean_snoc k v h hk hv

theorem nCL_clean : NoCRLF nContentLength := ⟨by decide, by decide⟩
theorem nTE_clean : NoCRLF nTransferEncoding := ⟨by decide, by decide⟩
theorem nCO_clean : NoCRLF nConnection := ⟨by decide, by decide⟩
theorem nCT_clean : NoCRLF nContentType := ⟨by decide, by decide⟩
theorem lit_clean_chunked : NoCRLF (ofString "chunked") := ⟨by decide, by decide⟩
theorem lit_clean_close : NoCRLF (ofString "close") := ⟨by decide, by decide⟩
theorem lit_clean_upgrade : NoCRLF (ofString "upgrade") := ⟨by decide, by decide⟩
theorem lit_clean_keepalive : NoCRLF (ofString "keep-alive") := ⟨by decide, by decide⟩
theorem lit_clean_texthtml : NoCRLF (ofString "text/html") := ⟨by decide, by decide⟩
theorem lit_clean_zero : NoCRLF [48] := ⟨by decide, by decide⟩

theorem clean_nil : HdrsClean [] := by intro x hx; simp at hx

theorem errKeep_clean (d : RespIn) (h : HdrsClean d.hdrs) : HdrsClean (errKeep d) := by
  unfold errKeep
  split
  · split
    · rename_i v hg
      split
      · exact clean_nil
      · obtain ⟨x, hx, hxv⟩ := get_mem hg
        intro y hy
        simp at hy
        subst hy
        have hk : NoCRLF nWwwAuthenticate := ⟨by decide, by decide⟩
        exact ⟨hk, hxv ▸ (h x hx).2⟩
    · exact clean_nil
  · exact clean_nil

theorem wpStatus_clean (d : RespIn) (h : HdrsClean d.hdrs) : HdrsClean (wpStatus d).hdrs := by
  by_cases hb : isBodiless d.status = true
  · have hcases : d.status = 204 ∨ d.status = 205 ∨ d.status = 304 := by
      simp only [isBodiless, Bool.or_eq_true, decide_eq_true_eq] at hb
      rcases hb with (h1 | h1) | h1
      · exact Or.inl h1
      · exact Or.inr (Or.inl h1)
      · exact Or.inr (Or.inr h1)
    rcases hcases with h1 | h1 | h1
    · rw [wpStatus_2045 d (Or.inl h1)]; exact clean_unset _ (clean_unset _ h)
    · rw [wpStatus_2045 d (Or.inr h1)]; exact clean_unset _ (clean_unset _ h)
    · rw [wpStatus_304 d h1]; exact clean_unset _ h
  · by_cases he : (400 ≤ d.status && d.status < 600 && errdocApplies d) = true
    · have hr : (400 ≤ d.status && d.status < 600) = true := by
        simp only [Bool.and_eq_true] at he ⊢; exact he.1
      have ha : errdocApplies d = true := by
        simp only [Bool.and_eq_true] at he; exact he.2
      rw [wpStatus_err d hr ha]
      exact clean_set _ _ (errKeep_clean d h) nCT_clean lit_clean_texthtml
    · rw [wpStatus_normal d (by simpa using hb) (by simpa using he)]
      exact h

theorem wpFraming_clean (d : RespIn) (st : RespSt) (h : HdrsClean st.hdrs) : HdrsClean (wpFraming d st).hdrs := by
  unfold wpFraming
  repeat' split
  all_goals first
    | exact h
    | exact clean_set _ _ h nCL_clean (natToDec_clean _)
    | exact clean_set _ _ h nCL_clean lit_clean_zero
    | exact clean_append _ _ h nTE_clean lit_clean_chunked

theorem wpHead_clean (d : RespIn) (st : RespSt) (h : HdrsClean st.hdrs) : HdrsClean (wpHead d st).hdrs := by
  unfold wpHead
  split
  · simp only [bodyClear]; exact clean_unset _ h
  · exact h

theorem finalHdrs_clean (d : RespIn) (st : RespSt) (h : HdrsClean st.hdrs) : HdrsClean (finalHdrs d st) := by
  unfold finalHdrs
  simp only []
  repeat' split
  all_goals first
    | exact h
    | exact clean_set _ _ h nCO_clean lit_clean_upgrade
    | exact clean_set _ _ h nCO_clean lit_clean_close
    | exact clean_set _ _ h nCO_clean lit_clean_keepalive
    | exact clean_unset _ h
    | exact clean_unset _ (clean_set _ _ h nCO_clean lit_clean_upgrade)
    | exact clean_unset _ (clean_set _ _ h nCO_clean lit_clean_close)
    | exact clean_unset _ (clean_set _ _ h nCO_clean lit_clean_keepalive)

theorem respond_hdrs_clean (d : RespIn) (date : Bytes) (h : HdrsClean d.hdrs) :
    HdrsClean (respond d date).hdrs := by
  unfold respond writePrepare
  exact finalHdrs_clean d _ (wpHead_clean d _ (wpFraming_clean d _ (wpStatus_clean d h)))

theorem statusTable_clean : ∀ e ∈ Extracted.statusTable, NoCRLF (ofString e.2) := by
  unfold NoCRLF
  decide +kernel

theorem statusText_clean (s : Nat) : NoCRLF (statusText s) := by
  unfold statusText
  split
  · rename_i e hf
    exact statusTable_clean e (List.mem_of_find?_eq_some hf)
  · exact (natToDec_clean s).append ⟨by decide, by decide⟩

theorem headLines_clean (ver11 : Bool) (status : Nat) (hs : List Hdr) (date : Bytes) (tag : Option Bytes)
    (h : HdrsClean hs) (hd : NoCRLF date) (ht : ∀ t, tag = some t → NoCRLF t) :
    ∀ l ∈ headLines ver11 status hs date tag, NoCRLF l := by
  have hstat : NoCRLF ((if ver11 then ofString "HTTP/1.1 " else ofString "HTTP/1.0 ") ++ statusText status) := by
    cases ver11
    · exact NoCRLF.append ⟨by decide, by decide⟩ (statusText_clean status)
    · exact NoCRLF.append ⟨by decide, by decide⟩ (statusText_clean status)
  have hfield : ∀ l ∈ (hs.filter fieldVisible).map renderField, NoCRLF l := by
    intro l hl
    obtain ⟨x, hx, rfl⟩ := List.mem_map.mp hl
    have hx' := (List.mem_filter.mp hx).1
    unfold renderField
    exact ((h x hx').1.append ⟨by decide, by decide⟩).append (h x hx').2
  have hdate : ∀ l ∈ (if Hdrs.has hs nDate then [] else [ofString "Date: " ++ date]), NoCRLF l := by
    intro l hl
    split at hl
    · simp at hl
    · simp at hl; subst hl
      exact NoCRLF.append ⟨by decide, by decide⟩ hd
  have hsrv : ∀ l ∈ (match tag with
        | some t => if Hdrs.has hs nServer then [] else [ofString "Server: " ++ t]
        | none => []), NoCRLF l := by
    intro l hl
    cases tag with
    | none => simp at hl
    | some t =>
      simp only [] at hl
      split at hl
      · simp at hl
      · simp at hl; subst hl
        exact NoCRLF.append ⟨by decide, by decide⟩ (ht t rfl)
  intro l hl
  unfold headLines at hl
  rcases List.mem_cons.mp hl with rfl | hl
  · exact hstat
  · rcases List.mem_append.mp hl with hl | hl
    · rcases List.mem_append.mp hl with hl | hl
      · exact hfield l hl
      · exact hdate l hl
    · exact hsrv l hl

end clean

/-! ### decoded paths carry no control characters -/

theorem decodeByte_printable (hv lv : UInt8) : 32 ≤ decodeByte hv lv ∧ decodeByte hv lv ≠ 127 := by
  unfold decodeByte
  simp only []
  split
  · rename_i h
    simp only [ge_iff_le, ne_eq, Bool.and_eq_true, decide_eq_true_eq] at h
    exact h
  · decide

theorem urldecodePath_printable : ∀ (s : Bytes), (∀ b ∈ s, 32 ≤ b ∧ b ≠ 127) →
    ∀ b ∈ urldecodePath s, 32 ≤ b ∧ b ≠ 127 := by
  intro s
  fun_induction urldecodePath s with
  | case1 => intro _ b hb; simp at hb
  | case2 b => intro h x hx; simp at hx; subst hx; exact h _ (by simp)
  | case3 a b ih =>
    intro h x hx
    rcases List.mem_cons.mp hx with rfl | hx
    · exact h _ (by simp)
    · exact ih (fun y hy => h y (by simp at hy; simp [hy])) x hx
  | case4 hh l rest hv lv _ _ ih =>
    intro h x hx
    rcases List.mem_cons.mp hx with rfl | hx
    · exact decodeByte_printable hv lv
    · exact ih (fun y hy => h y (by simp [hy])) x hx
  | case5 hh l rest _ ih =>
    intro h x hx
    rcases List.mem_cons.mp hx with rfl | hx
    · exact h _ (by simp)
    · exact ih (fun y hy => h y (List.mem_cons_of_mem _ hy)) x hx
  | case6 b hh l rest _ ih =>
    intro h x hx
    rcases List.mem_cons.mp hx with rfl | hx
    · exact h _ (by simp)
    · exact ih (fun y hy => h y (List.mem_cons_of_mem _ hy)) x hx

/-! ### store invariant, wire-level decoding, repeated fields -/

theorem keys_update (hs : List Hdr) (k v : Bytes) : (Hdrs.update hs k v).map (·.key) = hs.map (·.key) := by
  unfold Hdrs.update
  induction hs with
  | nil => rfl
  | cons x t ih =>
    simp only [List.map_cons]
    rw [ih]
    split <;> rfl

theorem noDup_keys (hs : List Hdr) :
    Hdrs.NoDup hs ↔ (hs.map (·.key)).Pairwise (fun a b => Hdrs.sameName a b = false) := by
  unfold Hdrs.NoDup
  rw [List.pairwise_map]

theorem keysOk_keys (hs : List Hdr) : KeysOk hs ↔ ∀ k ∈ hs.map (·.key), k ≠ [] ∧ colon ∉ k := by
  unfold KeysOk
  simp

theorem storeOk_update {hs : List Hdr} (k v : Bytes) (h : StoreOk hs) : StoreOk (Hdrs.update hs k v) := by
  unfold StoreOk at *
  rw [noDup_keys, keysOk_keys, keys_update, ← noDup_keys, ← keysOk_keys]
  exact h

theorem get_none_all {hs : List Hdr} {k : Bytes} (h : Hdrs.get hs k = none) :
    ∀ x ∈ hs, Hdrs.sameName x.key k = false := by
  unfold Hdrs.get at h
  cases hf : hs.find? (fun h => Hdrs.sameName h.key k) with
  | some x => simp [hf] at h
  | none =>
    intro x hx
    have := List.find?_eq_none.mp hf x hx
    simpa using this

theorem storeOk_snoc {hs : List Hdr} (k v : Bytes) (h : StoreOk hs) (hg : Hdrs.get hs k = none)
    (hk : k ≠ [] ∧ colon ∉ k) : StoreOk (hs ++ [⟨k, v⟩]) := by
  refine ⟨?_, ?_⟩
  · unfold Hdrs.NoDup
    rw [List.pairwise_append]
    refine ⟨h.1, by simp, ?_⟩
    intro a ha b hb
    simp at hb
    subst hb
    exact get_none_all hg a ha
  · intro x hx
    rcases List.mem_append.mp hx with h1 | h1
    · exact h.2 x h1
    · simp at h1; subst h1; exact hk

theorem storeOk_set {hs : List Hdr} (k v : Bytes) (h : StoreOk hs) (hk : k ≠ [] ∧ colon ∉ k) :
    StoreOk (Hdrs.set hs k v) := by
  unfold Hdrs.set
  split
  · exact storeOk_update k v h
  · rename_i hn
    have : Hdrs.get hs k = none := by
      cases hg : Hdrs.get hs k with
      | none => rfl
      | some x => simp [hg] at hn
    exact storeOk_snoc k v h this hk

theorem storeOk_unset {hs : List Hdr} (k : Bytes) (h : StoreOk hs) : StoreOk (Hdrs.unset hs k) := by
  unfold Hdrs.unset
  split
  · exact storeOk_update k [] h
  · exact h

theorem storeOk_append {hs : List Hdr} (k v : Bytes) (h : StoreOk hs) (hk : k ≠ [] ∧ colon ∉ k) :
    StoreOk (Hdrs.append hs k v) := by
  unfold Hdrs.append
  split
  · exact h
  · cases hg : Hdrs.get hs k with
    | some old =>
      simp only []
      split <;> exact storeOk_update k _ h
    | none => exact storeOk_snoc k v h hg hk

theorem storeOk_insert {hs : List Hdr} (k v : Bytes) (h : StoreOk hs) (hk : k ≠ [] ∧ colon ∉ k) :
    StoreOk (Hdrs.insert hs k v) := by
  unfold Hdrs.insert
  split
  · exact h
  · cases hg : Hdrs.get hs k with
    | some old =>
      simp only []
      split <;> exact storeOk_update k _ h
    | none => exact storeOk_snoc k v h hg hk

theorem storeOk_nil : StoreOk [] := ⟨by simp [Hdrs.NoDup], by intro x hx; simp at hx⟩

theorem kCL : nContentLength ≠ [] ∧ colon ∉ nContentLength := by decide
theorem kTE : nTransferEncoding ≠ [] ∧ colon ∉ nTransferEncoding := by decide
theorem kCO : nConnection ≠ [] ∧ colon ∉ nConnection := by decide
theorem kCT : nContentType ≠ [] ∧ colon ∉ nContentType := by decide
theorem kWA : nWwwAuthenticate ≠ [] ∧ colon ∉ nWwwAuthenticate := by decide

theorem errKeep_storeOk (d : RespIn) : StoreOk (errKeep d) := by
  unfold errKeep
  split
  · split
    · split
      · exact storeOk_nil
      · exact storeOk_snoc _ _ storeOk_nil (by simp [Hdrs.get]) kWA
    · exact storeOk_nil
  · exact storeOk_nil

theorem wpStatus_storeOk (d : RespIn) (h : StoreOk d.hdrs) : StoreOk (wpStatus d).hdrs := by
  by_cases hb : isBodiless d.status = true
  · have hcases : d.status = 204 ∨ d.status = 205 ∨ d.status = 304 := by
      simp only [isBodiless, Bool.or_eq_true, decide_eq_true_eq] at hb
      rcases hb with (h1 | h1) | h1
      · exact Or.inl h1
      · exact Or.inr (Or.inl h1)
      · exact Or.inr (Or.inr h1)
    rcases hcases with h1 | h1 | h1
    · rw [wpStatus_2045 d (Or.inl h1)]; exact storeOk_unset _ (storeOk_unset _ h)
    · rw [wpStatus_2045 d (Or.inr h1)]; exact storeOk_unset _ (storeOk_unset _ h)
    · rw [wpStatus_304 d h1]; exact storeOk_unset _ h
  · by_cases he : (400 ≤ d.status && d.status < 600 && errdocApplies d) = true
    · have hr : (400 ≤ d.status && d.status < 600) = true := by
        simp only [Bool.and_eq_true] at he ⊢; exact he.1
      have ha : errdocApplies d = true := by
        simp only [Bool.and_eq_true] at he; exact he.2
      rw [wpStatus_err d hr ha]
      exact storeOk_set _ _ (errKeep_storeOk d) kCT
    · rw [wpStatus_normal d (by simpa using hb) (by simpa using he)]
      exact h

theorem wpFraming_storeOk (d : RespIn) (st : RespSt) (h : StoreOk st.hdrs) : StoreOk (wpFraming d st).hdrs := by
  unfold wpFraming
  repeat' split
  all_goals first
    | exact h
    | exact storeOk_set _ _ h kCL
    | exact storeOk_append nTransferEncoding (ofString "chunked") h kTE

theorem wpHead_storeOk (d : RespIn) (st : RespSt) (h : StoreOk st.hdrs) : StoreOk (wpHead d st).hdrs := by
  unfold wpHead
  split
  · simp only [bodyClear]; exact storeOk_unset _ h
  · exact h

theorem finalHdrs_storeOk (d : RespIn) (st : RespSt) (h : StoreOk st.hdrs) : StoreOk (finalHdrs d st) := by
  unfold finalHdrs
  simp only []
  repeat' split
  all_goals first
    | exact h
    | exact storeOk_set _ _ h kCO
    | exact storeOk_unset _ h
    | exact storeOk_unset _ (storeOk_set _ _ h kCO)

theorem respond_storeOk (d : RespIn) (date : Bytes) (h : StoreOk d.hdrs) : StoreOk (respond d date).hdrs := by
  unfold respond writePrepare
  exact finalHdrs_storeOk d _ (wpHead_storeOk d _ (wpFraming_storeOk d _ (wpStatus_storeOk d h)))

/-- with one entry per name, scanning every entry finds what the first-match lookup finds -/
theorem filter_eq_find (hs : List Hdr) (k : Bytes) (h : Hdrs.NoDup hs) :
    hs.filter (fun x => Hdrs.sameName x.key k) = (hs.find? (fun x => Hdrs.sameName x.key k)).toList := by
  induction hs with
  | nil => rfl
  | cons x t ih =>
    unfold Hdrs.NoDup at h
    rw [List.pairwise_cons] at h
    simp only [List.filter_cons, List.find?_cons]
    by_cases hx : Hdrs.sameName x.key k = true
    · simp only [hx, if_true, Option.toList_some]
      congr 1
      apply List.filter_eq_nil_iff.mpr
      intro y hy hyk
      have := h.1 y hy
      rw [Hdrs.sameName_false_iff] at this
      rw [Hdrs.sameName_iff] at hx hyk
      exact this (hx.trans hyk.symm)
    · simp only [hx, Bool.false_eq_true, if_false]
      exact ih h.2



theorem takeLine_append : ∀ (l r : Bytes), lf ∉ l → takeLine (l ++ lf :: r) = some (l, r)
  | [], r, _ => by simp [takeLine]
  | b :: t, r, h => by
    have hb : b ≠ lf := fun e => h (by simp [e])
    have ht : lf ∉ t := fun e => h (by simp [e])
    simp [takeLine, hb, takeLine_append t r ht]

theorem stripCR_snoc (l : Bytes) : stripCR (l ++ [cr]) = some l := by
  simp [stripCR]

theorem splitHead_render : ∀ (lines : List Bytes) (fuel : Nat) (rest : Bytes),
    (∀ l ∈ lines, lf ∉ l ∧ l ≠ []) → lines.length < fuel →
    splitHead fuel (renderHead lines ++ rest) = some (lines, rest)
  | [], fuel, rest, _, hf => by
    cases fuel with
    | zero => omega
    | succ f =>
      have : renderHead [] ++ rest = [cr] ++ lf :: rest := by simp [renderHead]
      rw [this]
      unfold splitHead
      rw [takeLine_append [cr] rest (by decide)]
      simp [stripCR]
  | l :: ls, fuel, rest, h, hf => by
    cases fuel with
    | zero => omega
    | succ f =>
      have hl := h l (by simp)
      have e : renderHead (l :: ls) ++ rest = (l ++ [cr]) ++ lf :: (renderHead ls ++ rest) := by
        simp [renderHead]
      rw [e]
      unfold splitHead
      have hlf : lf ∉ l ++ [cr] := by
        intro hm
        rcases List.mem_append.mp hm with h1 | h1
        · exact hl.1 h1
        · simp [cr, lf] at h1
      rw [takeLine_append _ _ hlf]
      simp only [stripCR_snoc]
      have hne : l.isEmpty = false := by
        cases l with
        | nil => exact absurd rfl hl.2
        | cons _ _ => rfl
      simp only [hne, Bool.false_eq_true, if_false]
      rw [splitHead_render ls f rest (fun x hx => h x (by simp [hx])) (by simp at hf; omega)]

theorem takeWhile_ne_append (k : Bytes) (c : UInt8) (r : Bytes) (h : c ∉ k) :
    (k ++ c :: r).takeWhile (· ≠ c) = k ∧ (k ++ c :: r).dropWhile (· ≠ c) = c :: r := by
  induction k with
  | nil => simp [List.takeWhile, List.dropWhile]
  | cons b t ih =>
    have hb : b ≠ c := fun e => h (by simp [e])
    have ht : c ∉ t := fun e => h (by simp [e])
    have := ih ht
    simp only [List.cons_append, List.takeWhile_cons, List.dropWhile_cons, ne_eq, hb, not_false_eq_true,
      decide_true, if_true]
    exact ⟨by rw [this.1], this.2⟩

theorem parseField_render (k v : Bytes) (hk : k ≠ [] ∧ colon ∉ k) :
    parseField (k ++ [colon, sp] ++ v) = some (k, ltrim v) := by
  have e : k ++ [colon, sp] ++ v = k ++ colon :: (sp :: v) := by simp
  obtain ⟨h1, h2⟩ := takeWhile_ne_append k colon (sp :: v) hk.2
  unfold parseField
  rw [e]
  simp only [h1, h2]
  have hne : k.isEmpty = false := by
    cases k with
    | nil => exact absurd rfl hk.1
    | cons _ _ => rfl
  simp [hne, ltrim, List.dropWhile, isOws]

theorem parseStatus_all : ∀ s, s < 1000 → 100 ≤ s →
    parseStatusLine (ofString "HTTP/1.1 " ++ statusText s) = some s ∧
    parseStatusLine (ofString "HTTP/1.0 " ++ statusText s) = some s := by
  decide +kernel

theorem renderHead_length (lines : List Bytes) : lines.length < (renderHead lines).length := by
  induction lines with
  | nil => simp [renderHead]
  | cons l t ih =>
    have : renderHead (l :: t) = l ++ [cr, lf] ++ renderHead t := by simp [renderHead]
    rw [this]
    simp only [List.length_append, List.length_cons, List.length_nil]
    omega

/-- the fields of the header section as (name, value) pairs, in wire order -/
def headFields (hs : List Hdr) (date : Bytes) (tag : Option Bytes) : List (Bytes × Bytes) :=
  (hs.filter fieldVisible).map (fun h => (h.key, h.value))
    ++ (if Hdrs.has hs nDate then [] else [(ofString "Date", date)])
    ++ (match tag with
        | some t => if Hdrs.has hs nServer then [] else [(ofString "Server", t)]
        | none => [])

theorem headLines_eq (ver11 : Bool) (status : Nat) (hs : List Hdr) (date : Bytes) (tag : Option Bytes) :
    headLines ver11 status hs date tag
      = ((if ver11 then ofString "HTTP/1.1 " else ofString "HTTP/1.0 ") ++ statusText status)
        :: (headFields hs date tag).map (fun f => f.1 ++ [colon, sp] ++ f.2) := by
  have e1 : ∀ x : Bytes, ofString "Date: " ++ x = ofString "Date" ++ [colon, sp] ++ x := fun x => by
    have : (ofString "Date: " : Bytes) = ofString "Date" ++ [colon, sp] := by decide
    rw [this]
  have e2 : ∀ x : Bytes, ofString "Server: " ++ x = ofString "Server" ++ [colon, sp] ++ x := fun x => by
    have : (ofString "Server: " : Bytes) = ofString "Server" ++ [colon, sp] := by decide
    rw [this]
  have e3 : (hs.filter fieldVisible).map renderField
      = ((hs.filter fieldVisible).map (fun h => (h.key, h.value))).map (fun f => f.1 ++ [colon, sp] ++ f.2) := by
    simp [List.map_map, Function.comp_def, renderField]
  unfold headLines headFields
  rw [e3]
  cases tag with
  | none => by_cases h : Hdrs.has hs nDate = true <;> simp [h, e1]
  | some t =>
    by_cases h : Hdrs.has hs nDate = true <;> by_cases h2 : Hdrs.has hs nServer = true <;>
      simp [h, h2, e1, e2]

theorem mapM_parse (fl : List (Bytes × Bytes)) (h : ∀ f ∈ fl, f.1 ≠ [] ∧ colon ∉ f.1) :
    (fl.map (fun f => f.1 ++ [colon, sp] ++ f.2)).mapM parseField = some (fl.map fun f => (f.1, ltrim f.2)) := by
  induction fl with
  | nil => rfl
  | cons f t ih =>
    have := ih (fun x hx => h x (by simp [hx]))
    simp only [List.map_cons, List.mapM_cons, parseField_render f.1 f.2 (h f (by simp)), this]
    rfl

theorem headFields_keys (hs : List Hdr) (date : Bytes) (tag : Option Bytes) (hk : KeysOk hs) :
    ∀ f ∈ headFields hs date tag, f.1 ≠ [] ∧ colon ∉ f.1 := by
  intro f hf
  unfold headFields at hf
  rcases List.mem_append.mp hf with h1 | h1
  · rcases List.mem_append.mp h1 with h2 | h2
    · obtain ⟨x, hx, rfl⟩ := List.mem_map.mp h2
      exact hk x (List.mem_filter.mp hx).1
    · split at h2
      · simp at h2
      · simp at h2; subst h2
        exact (by decide : (ofString "Date" : Bytes) ≠ [] ∧ colon ∉ (ofString "Date" : Bytes))
  · cases tag with
    | none => simp at h1
    | some t =>
      simp only [] at h1
      split at h1
      · simp at h1
      · simp at h1; subst h1
        exact (by decide : (ofString "Server" : Bytes) ≠ [] ∧ colon ∉ (ofString "Server" : Bytes))

theorem lower_c_not_x : ∀ b : UInt8, toLower b = 99 → (b &&& 0xdf) ≠ 88 := by
  apply uint8_forall; decide +kernel
theorem lower_t_not_x : ∀ b : UInt8, toLower b = 116 → (b &&& 0xdf) ≠ 88 := by
  apply uint8_forall; decide +kernel

/-- a stored field named `k` (k not an X- name) is on the wire exactly when its value is non-blank -/
theorem visible_of_same (x : Hdr) (k : Bytes) (c : UInt8) (ktl : Bytes) (hkl : k.map toLower = c :: ktl)
    (hc : ∀ b : UInt8, toLower b = c → (b &&& 0xdf) ≠ 88) (hx : Hdrs.sameName x.key k = true) :
    fieldVisible x = !x.value.isEmpty := by
  rw [Hdrs.sameName_iff] at hx
  unfold Hdrs.nm at hx
  rw [hkl] at hx
  cases hkey : x.key with
  | nil => rw [hkey] at hx; simp at hx
  | cons b t =>
    rw [hkey] at hx
    simp only [List.map_cons, List.cons.injEq] at hx
    have := hc b hx.1
    simp [fieldVisible, hkey, this]

theorem fieldVals_headFields (hs : List Hdr) (date : Bytes) (tag : Option Bytes) (k : Bytes) (c : UInt8)
    (ktl : Bytes) (hnd : Hdrs.NoDup hs) (hkl : k.map toLower = c :: ktl)
    (hc : ∀ b : UInt8, toLower b = c → (b &&& 0xdf) ≠ 88)
    (hdate : eqIcase (ofString "Date") k = false) (hsrv : eqIcase (ofString "Server") k = false) :
    fieldVals ((headFields hs date tag).map fun f => (f.1, ltrim f.2)) k = Hdrs.vals hs k := by
  have hvis : fieldVals (((hs.filter fieldVisible).map (fun h => (h.key, h.value))).map fun f => (f.1, ltrim f.2)) k
      = Hdrs.vals hs k := by
    unfold fieldVals
    simp only [List.map_map, List.filter_map, Function.comp_def]
    have e1 : (hs.filter fieldVisible).filter (fun x => eqIcase x.key k)
        = (hs.filter (fun x => Hdrs.sameName x.key k)).filter fieldVisible := by
      simp only [List.filter_filter, Hdrs.sameName]
      congr 1
      funext x
      exact Bool.and_comm _ _
    rw [e1, filter_eq_find hs k hnd]
    unfold Hdrs.vals Hdrs.get
    cases hf : hs.find? (fun x => Hdrs.sameName x.key k) with
    | none => simp
    | some x =>
      have hx : Hdrs.sameName x.key k = true := by
        have := List.find?_some hf
        simpa using this
      have hv := visible_of_same x k c ktl hkl hc hx
      by_cases he : x.value.isEmpty = true
      · simp [hv, he]
      · simp [hv, he]
  unfold headFields
  rw [List.map_append, List.map_append]
  have happ : ∀ (a b : List (Bytes × Bytes)), fieldVals (a ++ b) k = fieldVals a k ++ fieldVals b k := by
    intro a b; simp [fieldVals]
  rw [happ, happ, hvis]
  have hd0 : fieldVals ((if Hdrs.has hs nDate then [] else [(ofString "Date", date)]).map
      fun (f : Bytes × Bytes) => (f.1, ltrim f.2)) k = [] := by
    split <;> simp [fieldVals, hdate]
  have hs0 : fieldVals ((match tag with
        | some t => if Hdrs.has hs nServer then [] else [(ofString "Server", t)]
        | none => []).map fun (f : Bytes × Bytes) => (f.1, ltrim f.2)) k = [] := by
    cases tag with
    | none => simp [fieldVals]
    | some t => simp only []; split <;> simp [fieldVals, hsrv]
  rw [hd0, hs0]
  simp

/-- the client reading the bytes recovers status and fields, and frames the rest exactly as the
    header store says -/
theorem wireDecode_head (d : RespIn) (date after : Bytes) (isHead : Bool) (h200 : 100 ≤ d.status)
    (h1000 : d.status < 1000) (hso : StoreOk d.hdrs) (hc : HdrsClean d.hdrs) (hd : NoCRLF date)
    (ht : ∀ t, d.serverTag = some t → NoCRLF t) :
    wireDecode isHead ((respond d date).head ++ after)
      = (rfcBody (rfcFraming isHead (respond d date).status (respond d date).hdrs) after).map
          fun br => ((respond d date).status,
            (headFields (respond d date).hdrs date d.serverTag).map (fun f => (f.1, ltrim f.2)), br.1, br.2) := by
  have hst : (respond d date).status = d.status := by
    show (writePrepare d).status = d.status
    unfold writePrepare wpHead
    split <;> simp [bodyClear, wpFraming_status, wpStatus_status]
  have hfin := respond_storeOk d date hso
  have hcl := respond_hdrs_clean d date hc
  have hlines := headLines_clean d.ver11 (respond d date).status (respond d date).hdrs date d.serverTag hcl hd ht
  have heq := headLines_eq d.ver11 (respond d date).status (respond d date).hdrs date d.serverTag
  have hhead : (respond d date).head
      = renderHead (headLines d.ver11 (respond d date).status (respond d date).hdrs date d.serverTag) := rfl
  have hkeys := headFields_keys (respond d date).hdrs date d.serverTag hfin.2
  have hne : ∀ l ∈ headLines d.ver11 (respond d date).status (respond d date).hdrs date d.serverTag,
      lf ∉ l ∧ l ≠ [] := by
    intro l hl
    refine ⟨(hlines l hl).2, ?_⟩
    rw [heq] at hl
    rcases List.mem_cons.mp hl with rfl | hl
    · cases d.ver11 <;> simp [ofString]
    · obtain ⟨f, _, rfl⟩ := List.mem_map.mp hl
      simp
  have hsplit := splitHead_render _ (((respond d date).head ++ after).length + 1) after hne (by
    have := renderHead_length (headLines d.ver11 (respond d date).status (respond d date).hdrs date d.serverTag)
    rw [hhead]; simp only [List.length_append]; omega)
  rw [← hhead] at hsplit
  have hpst : parseStatusLine ((if d.ver11 then ofString "HTTP/1.1 " else ofString "HTTP/1.0 ")
      ++ statusText (respond d date).status) = some (respond d date).status := by
    rw [hst]
    have := parseStatus_all d.status h1000 h200
    cases d.ver11
    · simpa using this.2
    · simpa using this.1
  have hmap := mapM_parse (headFields (respond d date).hdrs date d.serverTag) hkeys
  have hvCL := fieldVals_headFields (respond d date).hdrs date d.serverTag nContentLength 99
    ((nContentLength.map toLower).tail) hfin.1 (by decide) lower_c_not_x (by decide) (by decide)
  have hvTE := fieldVals_headFields (respond d date).hdrs date d.serverTag nTransferEncoding 116
    ((nTransferEncoding.map toLower).tail) hfin.1 (by decide) lower_t_not_x (by decide) (by decide)
  unfold wireDecode
  rw [hsplit, heq]
  simp only [hpst, hmap, hvCL, hvTE]
  unfold rfcFraming
  cases rfcBody (framingOf isHead (respond d date).status (Hdrs.vals (respond d date).hdrs nContentLength)
      (Hdrs.vals (respond d date).hdrs nTransferEncoding)) after with
  | none => rfl
  | some br => rfl


theorem colonSp_clean : NoCRLF [colon, sp] := ⟨by decide, by decide⟩
theorem commaSp_clean : NoCRLF [44, sp] := ⟨by decide, by decide⟩

theorem ValueOk.append_clean {k old s : Bytes} (h : ValueOk k old) (hs : NoCRLF s) : ValueOk k (old ++ s) := by
  induction h with
  | plain v hv => exact .plain _ (hv.append hs)
  | more old k' v _ hsame hk' hne hv _ =>
    have : old ++ [cr, lf] ++ k' ++ [colon, sp] ++ v ++ s = old ++ [cr, lf] ++ k' ++ [colon, sp] ++ (v ++ s) := by
      simp
    rw [this]
    exact .more old k' (v ++ s) ‹_› hsame hk' hne (hv.append hs)

theorem ValueOk.congr {k k2 v : Bytes} (h : ValueOk k v) (hk : Hdrs.nm k = Hdrs.nm k2) : ValueOk k2 v := by
  induction h with
  | plain v hv => exact .plain v hv
  | more old k' v _ hsame hk' hne hv ih =>
    refine .more old k' v ih ?_ hk' hne hv
    rw [Hdrs.sameName_iff] at hsame ⊢
    exact hsame.trans hk

/-- the physical lines of one stored field -/
theorem ValueOk.pieces {k v : Bytes} (h : ValueOk k v) (hk : NoCRLF k) :
    ∃ ps : List Bytes, (k ++ [colon, sp] ++ v) ++ [cr, lf] = ps.flatMap (· ++ [cr, lf]) ∧
      ∀ p ∈ ps, NoCRLF p ∧ p ≠ [] := by
  induction h with
  | plain v hv =>
    refine ⟨[k ++ [colon, sp] ++ v], by simp, ?_⟩
    intro p hp
    simp at hp
    subst hp
    exact ⟨by simpa using (hk.append colonSp_clean).append hv, by simp⟩
  | more old k' v _ _ hk' _ hv ih =>
    obtain ⟨ps, hps, hall⟩ := ih
    refine ⟨ps ++ [k' ++ [colon, sp] ++ v], ?_, ?_⟩
    · have : k ++ [colon, sp] ++ (old ++ [cr, lf] ++ k' ++ [colon, sp] ++ v) ++ [cr, lf]
          = ((k ++ [colon, sp] ++ old) ++ [cr, lf]) ++ ((k' ++ [colon, sp] ++ v) ++ [cr, lf]) := by simp
      rw [this, hps]
      simp
    · intro p hp
      rcases List.mem_append.mp hp with h1 | h1
      · exact hall p h1
      · simp at h1
        subst h1
        exact ⟨by simpa using (hk'.append colonSp_clean).append hv, by simp⟩

theorem lines_pieces (P : Bytes → Prop) : ∀ (lines : List Bytes),
    (∀ l ∈ lines, ∃ ps : List Bytes, l ++ [cr, lf] = ps.flatMap (· ++ [cr, lf]) ∧ ∀ p ∈ ps, P p) →
    ∃ phys : List Bytes, lines.flatMap (· ++ [cr, lf]) = phys.flatMap (· ++ [cr, lf]) ∧ ∀ p ∈ phys, P p
  | [], _ => ⟨[], rfl, by intro p hp; simp at hp⟩
  | l :: t, h => by
    obtain ⟨ps, hps, hall⟩ := h l (by simp)
    obtain ⟨phys, hphys, hall2⟩ := lines_pieces P t (fun x hx => h x (by simp [hx]))
    refine ⟨ps ++ phys, by simp [hps, hphys], ?_⟩
    intro p hp
    rcases List.mem_append.mp hp with h1 | h1
    · exact hall p h1
    · exact hall2 p h1

theorem get_of_mem {hs : List Hdr} {h : Hdr} {k : Bytes} (hnd : Hdrs.NoDup hs) (hm : h ∈ hs)
    (hk : Hdrs.sameName h.key k = true) : Hdrs.get hs k = some h.value := by
  have hf : h ∈ hs.filter (fun x => Hdrs.sameName x.key k) := List.mem_filter.mpr ⟨hm, hk⟩
  rw [filter_eq_find hs k hnd] at hf
  unfold Hdrs.get
  cases hfind : hs.find? (fun x => Hdrs.sameName x.key k) with
  | none => rw [hfind] at hf; simp at hf
  | some x => rw [hfind] at hf; simp at hf; subst hf; rfl

theorem fieldsOk_update {hs : List Hdr} (k v : Bytes) (h : FieldsOk hs)
    (hv : ∀ x ∈ hs, Hdrs.sameName x.key k = true → ValueOk x.key v) : FieldsOk (Hdrs.update hs k v) := by
  intro x hx
  unfold Hdrs.update at hx
  obtain ⟨y, hy, rfl⟩ := List.mem_map.mp hx
  split
  · rename_i hs'
    exact ⟨(h y hy).1, hv y hy hs'⟩
  · exact h y hy

theorem fieldsOk_update_clean {hs : List Hdr} (k v : Bytes) (h : FieldsOk hs) (hv : NoCRLF v) :
    FieldsOk (Hdrs.update hs k v) :=
  fieldsOk_update k v h (fun _ _ _ => .plain v hv)

theorem fieldsOk_snoc {hs : List Hdr} (k v : Bytes) (h : FieldsOk hs) (hk : NoCRLF k) (hv : NoCRLF v) :
    FieldsOk (hs ++ [⟨k, v⟩]) := by
  intro x hx
  rcases List.mem_append.mp hx with h1 | h1
  · exact h x h1
  · simp at h1; subst h1; exact ⟨hk, .plain v hv⟩

theorem fieldsOk_set {hs : List Hdr} (k v : Bytes) (h : FieldsOk hs) (hk : NoCRLF k) (hv : NoCRLF v) :
    FieldsOk (Hdrs.set hs k v) := by
  unfold Hdrs.set
  split
  · exact fieldsOk_update_clean k v h hv
  · exact fieldsOk_snoc k v h hk hv

theorem fieldsOk_unset {hs : List Hdr} (k : Bytes) (h : FieldsOk hs) : FieldsOk (Hdrs.unset hs k) := by
  unfold Hdrs.unset
  split
  · exact fieldsOk_update_clean k [] h NoCRLF.nil
  · exact h

theorem fieldsOk_append {hs : List Hdr} (k v : Bytes) (h : FieldsOk hs) (hnd : Hdrs.NoDup hs) (hk : NoCRLF k)
    (hv : NoCRLF v) : FieldsOk (Hdrs.append hs k v) := by
  unfold Hdrs.append
  split
  · exact h
  · cases hg : Hdrs.get hs k with
    | some old =>
      simp only []
      split
      · exact fieldsOk_update_clean k v h hv
      · apply fieldsOk_update k _ h
        intro x hx hsame
        have := get_of_mem hnd hx hsame
        rw [hg] at this
        have e : old = x.value := by simpa using this
        have hval := (h x hx).2
        rw [← e] at hval
        have : old ++ [44, sp] ++ v = old ++ ([44, sp] ++ v) := by simp
        rw [this]
        exact hval.append_clean (commaSp_clean.append hv)
    | none => exact fieldsOk_snoc k v h hk hv

/-- http_header_response_insert() keeps the store well-formed: a repeated field becomes a
    continuation line with the same name -/
theorem fieldsOk_insert {hs : List Hdr} (k v : Bytes) (h : FieldsOk hs) (hnd : Hdrs.NoDup hs) (hk : NoCRLF k)
    (hne : k ≠ []) (hv : NoCRLF v) : FieldsOk (Hdrs.insert hs k v) := by
  unfold Hdrs.insert
  split
  · exact h
  · cases hg : Hdrs.get hs k with
    | some old =>
      simp only []
      split
      · exact fieldsOk_update_clean k v h hv
      · apply fieldsOk_update k _ h
        intro x hx hsame
        have := get_of_mem hnd hx hsame
        rw [hg] at this
        have e : old = x.value := by simpa using this
        have hval := (h x hx).2
        rw [← e] at hval
        refine .more old k v hval ?_ hk hne hv
        rw [Hdrs.sameName_iff] at hsame ⊢
        exact hsame.symm
    | none => exact fieldsOk_snoc k v h hk hv

theorem fieldsOk_of_clean {hs : List Hdr} (h : HdrsClean hs) : FieldsOk hs :=
  fun x hx => ⟨(h x hx).1, .plain _ (h x hx).2⟩

theorem get_mem' {hs : List Hdr} {k v : Bytes} (h : Hdrs.get hs k = some v) :
    ∃ x ∈ hs, Hdrs.sameName x.key k = true ∧ x.value = v := by
  unfold Hdrs.get at h
  cases hf : hs.find? (fun h => Hdrs.sameName h.key k) with
  | none => simp [hf] at h
  | some x =>
    simp only [hf, Option.map_some, Option.some.injEq] at h
    exact ⟨x, List.mem_of_find?_eq_some hf, by simpa using List.find?_some hf, h⟩

theorem errKeep_fieldsOk (d : RespIn) (h : FieldsOk d.hdrs) : FieldsOk (errKeep d) := by
  unfold errKeep
  split
  · split
    · rename_i v hg
      split
      · intro x hx; simp at hx
      · obtain ⟨x, hx, hsame, hxv⟩ := get_mem' hg
        intro y hy
        simp at hy
        subst hy
        have hk : NoCRLF nWwwAuthenticate := ⟨by decide, by decide⟩
        refine ⟨hk, ?_⟩
        have := (h x hx).2
        rw [hxv] at this
        exact this.congr ((Hdrs.sameName_iff _ _).mp hsame)
    · intro x hx; simp at hx
  · intro x hx; simp at hx

theorem wpStatus_fieldsOk (d : RespIn) (h : FieldsOk d.hdrs) : FieldsOk (wpStatus d).hdrs := by
  by_cases hb : isBodiless d.status = true
  · have hcases : d.status = 204 ∨ d.status = 205 ∨ d.status = 304 := by
      simp only [isBodiless, Bool.or_eq_true, decide_eq_true_eq] at hb
      rcases hb with (h1 | h1) | h1
      · exact Or.inl h1
      · exact Or.inr (Or.inl h1)
      · exact Or.inr (Or.inr h1)
    rcases hcases with h1 | h1 | h1
    · rw [wpStatus_2045 d (Or.inl h1)]; exact fieldsOk_unset _ (fieldsOk_unset _ h)
    · rw [wpStatus_2045 d (Or.inr h1)]; exact fieldsOk_unset _ (fieldsOk_unset _ h)
    · rw [wpStatus_304 d h1]; exact fieldsOk_unset _ h
  · by_cases he : (400 ≤ d.status && d.status < 600 && errdocApplies d) = true
    · have hr : (400 ≤ d.status && d.status < 600) = true := by
        simp only [Bool.and_eq_true] at he ⊢; exact he.1
      have ha : errdocApplies d = true := by
        simp only [Bool.and_eq_true] at he; exact he.2
      rw [wpStatus_err d hr ha]
      exact fieldsOk_set _ _ (errKeep_fieldsOk d h) nCT_clean lit_clean_texthtml
    · rw [wpStatus_normal d (by simpa using hb) (by simpa using he)]
      exact h

theorem wpFraming_fieldsOk (d : RespIn) (st : RespSt) (h : FieldsOk st.hdrs) (hnd : Hdrs.NoDup st.hdrs) :
    FieldsOk (wpFraming d st).hdrs := by
  unfold wpFraming
  repeat' split
  all_goals first
    | exact h
    | exact fieldsOk_set _ _ h nCL_clean (natToDec_clean _)
    | exact fieldsOk_set _ _ h nCL_clean lit_clean_zero
    | exact fieldsOk_append nTransferEncoding (ofString "chunked") h hnd nTE_clean lit_clean_chunked

theorem wpHead_fieldsOk (d : RespIn) (st : RespSt) (h : FieldsOk st.hdrs) : FieldsOk (wpHead d st).hdrs := by
  unfold wpHead
  split
  · simp only [bodyClear]; exact fieldsOk_unset _ h
  · exact h

theorem finalHdrs_fieldsOk (d : RespIn) (st : RespSt) (h : FieldsOk st.hdrs) : FieldsOk (finalHdrs d st) := by
  unfold finalHdrs
  simp only []
  repeat' split
  all_goals first
    | exact h
    | exact fieldsOk_set _ _ h nCO_clean lit_clean_upgrade
    | exact fieldsOk_set _ _ h nCO_clean lit_clean_close
    | exact fieldsOk_set _ _ h nCO_clean lit_clean_keepalive
    | exact fieldsOk_unset _ h
    | exact fieldsOk_unset _ (fieldsOk_set _ _ h nCO_clean lit_clean_upgrade)
    | exact fieldsOk_unset _ (fieldsOk_set _ _ h nCO_clean lit_clean_close)
    | exact fieldsOk_unset _ (fieldsOk_set _ _ h nCO_clean lit_clean_keepalive)

theorem respond_fieldsOk (d : RespIn) (date : Bytes) (hso : StoreOk d.hdrs) (h : FieldsOk d.hdrs) :
    FieldsOk (respond d date).hdrs := by
  unfold respond writePrepare
  exact finalHdrs_fieldsOk d _ (wpHead_fieldsOk d _
    (wpFraming_fieldsOk d _ (wpStatus_fieldsOk d h) (wpStatus_storeOk d hso).1))

/-- physical lines of a header section whose store may hold repeated fields -/
theorem headLines_pieces (ver11 : Bool) (status : Nat) (hs : List Hdr) (date : Bytes) (tag : Option Bytes)
    (h : FieldsOk hs) (hd : NoCRLF date) (ht : ∀ t, tag = some t → NoCRLF t) :
    ∃ phys : List Bytes, renderHead (headLines ver11 status hs date tag) = renderHead phys ∧
      ∀ p ∈ phys, NoCRLF p ∧ p ≠ [] := by
  have hone : ∀ l : Bytes, NoCRLF l → l ≠ [] →
      ∃ ps : List Bytes, l ++ [cr, lf] = ps.flatMap (· ++ [cr, lf]) ∧ ∀ p ∈ ps, NoCRLF p ∧ p ≠ [] :=
    fun l hl hne => ⟨[l], by simp, by intro p hp; simp at hp; subst hp; exact ⟨hl, hne⟩⟩
  have hall : ∀ l ∈ headLines ver11 status hs date tag,
      ∃ ps : List Bytes, l ++ [cr, lf] = ps.flatMap (· ++ [cr, lf]) ∧ ∀ p ∈ ps, NoCRLF p ∧ p ≠ [] := by
    intro l hl
    unfold headLines at hl
    rcases List.mem_cons.mp hl with rfl | hl
    · apply hone
      · cases ver11
        · exact NoCRLF.append ⟨by decide, by decide⟩ (statusText_clean status)
        · exact NoCRLF.append ⟨by decide, by decide⟩ (statusText_clean status)
      · cases ver11 <;> simp [ofString]
    · rcases List.mem_append.mp hl with hl | hl
      · rcases List.mem_append.mp hl with hl | hl
        · obtain ⟨x, hx, rfl⟩ := List.mem_map.mp hl
          have hx' := (List.mem_filter.mp hx).1
          exact (h x hx').2.pieces (h x hx').1
        · split at hl
          · simp at hl
          · simp at hl; subst hl
            exact hone _ (NoCRLF.append ⟨by decide, by decide⟩ hd) (by simp [ofString])
      · cases tag with
        | none => simp at hl
        | some t =>
          simp only [] at hl
          split at hl
          · simp at hl
          · simp at hl; subst hl
            exact hone _ (NoCRLF.append ⟨by decide, by decide⟩ (ht t rfl)) (by simp [ofString])
  obtain ⟨phys, hphys, hP⟩ := lines_pieces (fun p => NoCRLF p ∧ p ≠ []) _ hall
  exact ⟨phys, by unfold renderHead; rw [hphys], hP⟩

end LtVerif
