/-
  Lemmas about the HTTP/2 frame-level model (Model/H2.lean).
-/
import LtVerif.Model.H2
namespace LtVerif

/-- control frames: everything except response HEADERS / DATA -/
def Out.isCtl : Out → Bool
  | .headers _ _ _ => false
  | .data _ _ _ => false
  | _ => true

def AllCtl (o : List Out) : Prop := ∀ x ∈ o, x.isCtl = true

theorem AllCtl.nil : AllCtl [] := by intro x hx; simp at hx
theorem AllCtl.append {a b : List Out} (ha : AllCtl a) (hb : AllCtl b) : AllCtl (a ++ b) := by
  intro x hx; simp only [List.mem_append] at hx; rcases hx with h | h
  · exact ha x h
  · exact hb x h
theorem AllCtl.cons {x : Out} {b : List Out} (hx : x.isCtl = true) (hb : AllCtl b) : AllCtl (x :: b) := by
  intro y hy; simp only [List.mem_cons] at hy; rcases hy with h | h
  · subst h; exact hx
  · exact hb y h
theorem AllCtl.map_rst (l : List Strm) (code : Nat) : AllCtl (l.map fun s => Out.rst s.id code) := by
  intro x hx; simp only [List.mem_map] at hx; obtain ⟨s, _, rfl⟩ := hx; rfl

theorem goawayResets_ctl (c : H2Conn) (code : Nat) : AllCtl (goawayResets c code).2 := by
  unfold goawayResets
  split
  · simp only
    split
    · exact AllCtl.map_rst _ _
    · exact AllCtl.nil
  · exact AllCtl.nil

theorem sendGoaway_ctl (c : H2Conn) (code : Nat) : AllCtl (sendGoaway c code).2 := by
  unfold sendGoaway
  simp only
  split
  · exact goawayResets_ctl c code
  · exact AllCtl.append (goawayResets_ctl c code) (AllCtl.cons rfl AllCtl.nil)

theorem discardHeaders_ctl (c : H2Conn) : AllCtl (discardHeaders c).2 := by
  unfold discardHeaders
  split
  · exact AllCtl.nil
  · simp only
    split
    · exact sendGoaway_ctl _ _
    · exact AllCtl.nil

theorem recvEndData_ctl (c : H2Conn) (s : Strm) (alen : Nat) : AllCtl (recvEndData c s alen).2.1 := by
  unfold recvEndData
  simp only
  split
  · exact AllCtl.nil
  · split
    · exact AllCtl.cons rfl AllCtl.nil
    · exact AllCtl.nil

theorem recvWindowUpdate_ctl (c : H2Conn) (sid len inc : Nat) : AllCtl (recvWindowUpdate c sid len inc).2 := by
  unfold recvWindowUpdate
  repeat' split
  all_goals first
    | exact sendGoaway_ctl _ _
    | exact AllCtl.nil
    | exact AllCtl.cons rfl AllCtl.nil

theorem recvRstStream_ctl (c : H2Conn) (sid len : Nat) : AllCtl (recvRstStream c sid len).2 := by
  unfold recvRstStream
  repeat' split
  all_goals first
    | exact sendGoaway_ctl _ _
    | exact AllCtl.nil

theorem recvPriority_ctl (c : H2Conn) (sid len dep : Nat) : AllCtl (recvPriority c sid len dep).2 := by
  unfold recvPriority
  repeat' split
  all_goals first
    | exact sendGoaway_ctl _ _
    | exact AllCtl.nil
    | exact AllCtl.cons rfl AllCtl.nil

theorem recvGoaway_ctl (c : H2Conn) (sid len code : Nat) : AllCtl (recvGoaway c sid len code).2 := by
  unfold recvGoaway
  split
  · exact sendGoaway_ctl _ _
  · split
    · exact sendGoaway_ctl _ _
    · simp only; exact sendGoaway_ctl _ _

theorem recvPing_ctl (c : H2Conn) (ack : Bool) (sid len : Nat) : AllCtl (recvPing c ack sid len).2 := by
  unfold recvPing
  repeat' split
  all_goals first
    | exact sendGoaway_ctl _ _
    | exact AllCtl.nil
    | exact AllCtl.cons rfl AllCtl.nil

theorem applySettings_ctl : ∀ (ps : List (Nat × Nat)) (c : H2Conn), AllCtl (applySettings c ps).2 := by
  intro ps
  induction ps with
  | nil => intro c; simp [applySettings]; exact AllCtl.nil
  | cons p rest ih =>
    intro c
    obtain ⟨k, v⟩ := p
    unfold applySettings
    split
    · exact sendGoaway_ctl _ _
    · split
      · split
        · exact sendGoaway_ctl _ _
        · simp only
          exact AllCtl.append (AllCtl.map_rst _ _) (ih _)
      · split
        · split
          · exact sendGoaway_ctl _ _
          · exact ih _
        · exact ih _

theorem ite_ctl (p : Prop) [Decidable p] (x : Out) (hx : x.isCtl = true) :
    AllCtl (if p then [x] else []) := by
  split
  · exact AllCtl.cons hx AllCtl.nil
  · exact AllCtl.nil

theorem ite_res_ctl (p : Prop) [Decidable p] (a b : Res) (ha : AllCtl a.2) (hb : AllCtl b.2) :
    AllCtl (if p then a else b).2 := by
  split
  · exact ha
  · exact hb

theorem recvSettings_ctl (c : H2Conn) (ack : Bool) (sid : Nat) (ps : List (Nat × Nat)) (junk : Nat) :
    AllCtl (recvSettings c ack sid ps junk).2 := by
  unfold recvSettings
  split
  · exact sendGoaway_ctl _ _
  · split
    · simp only
      apply AllCtl.append
      · apply AllCtl.append (applySettings_ctl _ _)
        exact ite_res_ctl _ _ _ (sendGoaway_ctl _ _) AllCtl.nil
      · exact ite_ctl _ _ rfl
    · split
      · exact sendGoaway_ctl _ _
      · split
        · exact AllCtl.nil
        · exact sendGoaway_ctl _ _

end LtVerif
