/-
  Lemmas about the HTTP/2 frame-level model (Model/H2.lean).
-/
import LtVerif.Model.H2
namespace LtVerif

/-- control frames: everything except response HEADERS / DATA -/
def Out.isCtl : Out → Bool
  | .headers _ _ _ => false
  | .data _ _ _ => false
  | _ => true

def AllCtl (o : List Out) : Prop := ∀ x ∈ o, x.isCtl = true

theorem AllCtl.nil : AllCtl [] := by intro x hx; simp at hx
theorem AllCtl.append {a b : List Out} (ha : AllCtl a) (hb : AllCtl b) : AllCtl (a ++ b) := by
  intro x hx; simp only [List.mem_append] at hx; rcases hx with h | h
  · exact ha x h
  · exact hb x h
theorem AllCtl.cons {x : Out} {b : List Out} (hx : x.isCtl = true) (hb : AllCtl b) : AllCtl (x :: b) := by
  intro y hy; simp only [List.mem_cons] at hy; rcases hy with h | h
  · subst h; exact hx
  · exact hb y h
theorem AllCtl.map_rst (l : List Strm) (code : Nat) : AllCtl (l.map fun s => Out.rst s.id code) := by
  intro x hx; simp only [List.mem_map] at hx; obtain ⟨s, _, rfl⟩ := hx; rfl

theorem goawayResets_ctl (c : H2Conn) (code : Nat) : AllCtl (goawayResets c code).2 := by
  unfold goawayResets
  split
  · simp only
    split
    · exact AllCtl.map_rst _ _
    · exact AllCtl.nil
  · exact AllCtl.nil

theorem sendGoaway_ctl (c : H2Conn) (code : Nat) : AllCtl (sendGoaway c code).2 := by
  unfold sendGoaway
  simp only
  split
  · exact goawayResets_ctl c code
  · exact AllCtl.append (goawayResets_ctl c code) (AllCtl.cons rfl AllCtl.nil)

theorem discardCount_ctl (c : H2Conn) : AllCtl (discardCount c).2 := by
  unfold discardCount
  simp only
  split
  · exact sendGoaway_ctl _ _
  · exact AllCtl.nil

theorem discardHeaders_ctl (kind : HdrKind) (c : H2Conn) : AllCtl (discardHeaders c kind).2 := by
  unfold discardHeaders
  split
  · exact AllCtl.nil
  · split
    · exact AllCtl.append (discardCount_ctl c) (sendGoaway_ctl _ _)
    · exact discardCount_ctl c

theorem recvEndData_ctl (c : H2Conn) (s : Strm) (alen : Nat) : AllCtl (recvEndData c s alen).2.1 := by
  unfold recvEndData
  simp only
  split
  · exact AllCtl.nil
  · split
    · exact AllCtl.cons rfl AllCtl.nil
    · exact AllCtl.nil

theorem recvWindowUpdate_ctl (c : H2Conn) (sid len inc : Nat) : AllCtl (recvWindowUpdate c sid len inc).2 := by
  unfold recvWindowUpdate
  repeat' split
  all_goals first
    | exact sendGoaway_ctl _ _
    | exact AllCtl.nil
    | exact AllCtl.cons rfl AllCtl.nil

theorem recvRstStream_ctl (c : H2Conn) (sid len : Nat) : AllCtl (recvRstStream c sid len).2 := by
  unfold recvRstStream
  repeat' split
  all_goals first
    | exact sendGoaway_ctl _ _
    | exact AllCtl.nil

theorem recvPriority_ctl (c : H2Conn) (sid len dep : Nat) : AllCtl (recvPriority c sid len dep).2 := by
  unfold recvPriority
  repeat' split
  all_goals first
    | exact sendGoaway_ctl _ _
    | exact AllCtl.nil
    | exact AllCtl.cons rfl AllCtl.nil

theorem recvPriorityUpdate_ctl (c : H2Conn) (sid len prid prio : Nat) :
    AllCtl (recvPriorityUpdate c sid len prid prio).2 := by
  unfold recvPriorityUpdate
  repeat' split
  all_goals first
    | exact sendGoaway_ctl _ _
    | exact AllCtl.nil

theorem recvGoaway_ctl (c : H2Conn) (sid len code : Nat) : AllCtl (recvGoaway c sid len code).2 := by
  unfold recvGoaway
  split
  · exact sendGoaway_ctl _ _
  · split
    · exact sendGoaway_ctl _ _
    · simp only; exact sendGoaway_ctl _ _

theorem recvPing_ctl (c : H2Conn) (ack : Bool) (sid len : Nat) (o : Bytes) : AllCtl (recvPing c ack sid len o).2 := by
  unfold recvPing
  repeat' split
  all_goals first
    | exact sendGoaway_ctl _ _
    | exact AllCtl.nil
    | exact AllCtl.cons rfl AllCtl.nil

theorem applySettings_ctl : ∀ (ps : List (Nat × Nat)) (c : H2Conn), AllCtl (applySettings c ps).2 := by
  intro ps
  induction ps with
  | nil => intro c; simp [applySettings]; exact AllCtl.nil
  | cons p rest ih =>
    intro c
    obtain ⟨k, v⟩ := p
    unfold applySettings
    split
    · exact sendGoaway_ctl _ _
    · split
      · split
        · exact sendGoaway_ctl _ _
        · split
          · exact sendGoaway_ctl _ _
          · exact ih _
      · split
        · split
          · exact sendGoaway_ctl _ _
          · exact ih _
        · exact ih _

theorem ite_ctl (p : Prop) [Decidable p] (x : Out) (hx : x.isCtl = true) :
    AllCtl (if p then [x] else []) := by
  split
  · exact AllCtl.cons hx AllCtl.nil
  · exact AllCtl.nil

theorem ite_res_ctl (p : Prop) [Decidable p] (a b : Res) (ha : AllCtl a.2) (hb : AllCtl b.2) :
    AllCtl (if p then a else b).2 := by
  split
  · exact ha
  · exact hb

theorem recvSettings_ctl (c : H2Conn) (ack : Bool) (sid : Nat) (ps : List (Nat × Nat)) (junk : Nat) :
    AllCtl (recvSettings c ack sid ps junk).2 := by
  unfold recvSettings
  split
  · exact sendGoaway_ctl _ _
  · split
    · simp only
      apply AllCtl.append
      · apply AllCtl.append (applySettings_ctl _ _)
        exact ite_res_ctl _ _ _ (sendGoaway_ctl _ _) AllCtl.nil
      · exact ite_ctl _ _ rfl
    · split
      · exact sendGoaway_ctl _ _
      · split
        · exact AllCtl.nil
        · exact sendGoaway_ctl _ _

theorem connWinUpd_ctl (c : H2Conn) (len : Nat) : AllCtl (connWinUpd c len).2 := by
  unfold connWinUpd
  exact ite_ctl _ _ rfl

theorem andThen_ctl (r : Res) (f : H2Conn → Res) (hr : AllCtl r.2) (hf : ∀ c, AllCtl (f c).2) :
    AllCtl (r.andThen f).2 := by
  unfold Res.andThen
  exact AllCtl.append hr (hf _)

theorem recvDataStream_ctl (c : H2Conn) (s : Strm) (sid len alen : Nat) (es : Bool) :
    AllCtl (recvDataStream c s sid len alen es).2 := by
  unfold recvDataStream
  split
  · exact AllCtl.cons rfl (connWinUpd_ctl _ _)
  · simp only
    split
    · exact AllCtl.append (connWinUpd_ctl _ _) (AllCtl.cons rfl AllCtl.nil)
    · by_cases hes : es = true
      · simp only [hes, if_true]
        split
        · exact AllCtl.append (connWinUpd_ctl _ _) (recvEndData_ctl _ _ _)
        · exact AllCtl.append (AllCtl.append (connWinUpd_ctl _ _) (recvEndData_ctl _ _ _)) (ite_ctl _ _ rfl)
      · simp only [hes]
        simp only [Bool.false_eq_true, if_false, Bool.not_true]
        exact AllCtl.append (AllCtl.append (connWinUpd_ctl _ _) AllCtl.nil) (ite_ctl _ _ rfl)

theorem recvData_ctl (c : H2Conn) (sid len : Nat) (pad : Option Nat) (es : Bool) :
    AllCtl (recvData c sid len pad es).2 := by
  unfold recvData
  split
  · exact sendGoaway_ctl _ _
  · split
    · exact sendGoaway_ctl _ _
    · split
      · split
        · exact connWinUpd_ctl _ _
        · split
          · exact AllCtl.nil
          · split
            · exact AllCtl.nil
            · exact sendGoaway_ctl _ _
      · exact recvDataStream_ctl _ _ _ _ _ _

theorem refuseStream_ctl (c : H2Conn) (sid : Nat) : AllCtl (refuseStream c sid).2 := by
  unfold refuseStream
  split
  · exact sendGoaway_ctl _ _
  · simp only
    exact AllCtl.cons rfl (ite_res_ctl _ _ _ (sendGoaway_ctl _ _) AllCtl.nil)

theorem recvTrailers_ctl (c : H2Conn) (sid : Nat) (kind : HdrKind) (es : Bool) :
    AllCtl (recvTrailers c sid kind es).2 := by
  unfold recvTrailers
  split
  · exact andThen_ctl _ _ (sendGoaway_ctl _ _) (discardHeaders_ctl kind)
  · split
    · exact andThen_ctl _ _ (AllCtl.cons rfl AllCtl.nil) (discardHeaders_ctl kind)
    · split
      · exact andThen_ctl _ _ (AllCtl.cons rfl AllCtl.nil) (discardHeaders_ctl kind)
      · simp only
        split
        · split
          · exact andThen_ctl _ _ (recvEndData_ctl _ _ _) (fun c => sendGoaway_ctl c _)
          · exact recvEndData_ctl _ _ _
        · exact andThen_ctl _ _ (recvEndData_ctl _ _ _) (discardHeaders_ctl kind)

theorem newStream_ctl (c : H2Conn) (sid : Nat) (kind : HdrKind) (es : Bool) :
    AllCtl (newStream c sid kind es).2 := by
  unfold newStream
  split
  · exact sendGoaway_ctl _ _
  · exact ite_ctl _ _ rfl

theorem recvHeaders_ctl (c : H2Conn) (sid : Nat) (kind : HdrKind) (es : Bool) (dep : Option Nat) (padBad : Bool) :
    AllCtl (recvHeaders c sid kind es dep padBad).2 := by
  unfold recvHeaders
  split
  · exact sendGoaway_ctl _ _
  · split
    · exact sendGoaway_ctl _ _
    · split
      · exact AllCtl.cons rfl (sendGoaway_ctl _ _)
      · split
        · exact recvTrailers_ctl _ _ _ _
        · split
          · exact discardHeaders_ctl _ _
          · split
            · exact andThen_ctl _ _ (refuseStream_ctl _ _) (discardHeaders_ctl kind)
            · exact newStream_ctl _ _ _ _

/-- **the receive side never emits response HEADERS or DATA**: every frame it sends is a
    control frame (SETTINGS ack, PING ack, WINDOW_UPDATE, RST_STREAM, GOAWAY) -/
theorem recvFrame_ctl (c : H2Conn) (f : FrameIn) : AllCtl (recvFrame c f).2 := by
  unfold recvFrame
  split
  · exact AllCtl.nil
  · cases f with
    | oversize => exact sendGoaway_ctl _ _
    | settings ack sid ps junk => exact recvSettings_ctl _ _ _ _ _
    | ping ack sid len o => exact recvPing_ctl _ _ _ _ _
    | priorityUpdate sid len prid prio => exact recvPriorityUpdate_ctl _ _ _ _ _
    | windowUpdate sid len inc => exact recvWindowUpdate_ctl _ _ _ _
    | rstStream sid len code => exact recvRstStream_ctl _ _ _
    | priority sid len dep => exact recvPriority_ctl _ _ _ _
    | goaway sid len code => exact recvGoaway_ctl _ _ _ _
    | data sid len pad es => exact recvData_ctl _ _ _ _ _
    | headers sid kind es dep padBad contBad =>
      simp only
      split
      · exact sendGoaway_ctl _ _
      · exact recvHeaders_ctl _ _ _ _ _ _
    | continuation sid => exact sendGoaway_ctl _ _
    | pushPromise sid => exact sendGoaway_ctl _ _
    | unknown t => exact AllCtl.nil
    | contFlood => exact sendGoaway_ctl _ _

/-! ### number of tracked streams -/

@[simp] theorem updStrm_len (c : H2Conn) (sid : Nat) (f : Strm → Strm) :
    (updStrm c sid f).streams.length = c.streams.length := by simp [updStrm]

@[simp] theorem rstState_len (c : H2Conn) (sid : Nat) : (rstState c sid).streams.length = c.streams.length := by
  unfold rstState
  split
  · rfl
  · simp only
    split <;> simp

theorem foldl_rstState_len (l : List Strm) : ∀ (c : H2Conn),
    (l.foldl (fun c s => rstState c s.id) c).streams.length = c.streams.length := by
  induction l with
  | nil => intro c; rfl
  | cons x xs ih => intro c; simp only [List.foldl_cons]; rw [ih]; simp

@[simp] theorem goawayResets_len (c : H2Conn) (code : Nat) :
    (goawayResets c code).1.streams.length = c.streams.length := by
  unfold goawayResets
  split
  · simp only; exact foldl_rstState_len _ _
  · rfl

@[simp] theorem sendGoaway_len (c : H2Conn) (code : Nat) :
    (sendGoaway c code).1.streams.length = c.streams.length := by
  unfold sendGoaway
  simp only
  split <;> simp

@[simp] theorem discardCount_len (c : H2Conn) : (discardCount c).1.streams.length = c.streams.length := by
  unfold discardCount
  simp only
  split <;> simp

@[simp] theorem discardHeaders_len (kind : HdrKind) (c : H2Conn) :
    (discardHeaders c kind).1.streams.length = c.streams.length := by
  unfold discardHeaders
  split
  · rfl
  · split <;> simp

@[simp] theorem recvEndData_len (c : H2Conn) (s : Strm) (alen : Nat) :
    (recvEndData c s alen).1.streams.length = c.streams.length := by
  unfold recvEndData
  simp only
  split
  · simp
  · split <;> simp

@[simp] theorem connWinUpd_len (c : H2Conn) (len : Nat) : (connWinUpd c len).1.streams.length = c.streams.length := by
  simp [connWinUpd]

theorem andThen_len (r : Res) (f : H2Conn → Res) (hf : ∀ c, (f c).1.streams.length = c.streams.length) :
    (r.andThen f).1.streams.length = r.1.streams.length := by
  simp [Res.andThen, hf]

theorem recvDataStream_len (c : H2Conn) (s : Strm) (sid len alen : Nat) (es : Bool) :
    (recvDataStream c s sid len alen es).1.streams.length = c.streams.length := by
  unfold recvDataStream
  split
  · simp
  · simp only
    split
    · simp
    · by_cases hes : es = true
      · simp only [hes, if_true]
        split <;> simp
      · simp [hes]

theorem recvData_len (c : H2Conn) (sid len : Nat) (pad : Option Nat) (es : Bool) :
    (recvData c sid len pad es).1.streams.length = c.streams.length := by
  unfold recvData
  split
  · simp
  · split
    · simp
    · split
      · split
        · simp
        · split
          · rfl
          · split
            · rfl
            · simp
      · exact recvDataStream_len _ _ _ _ _ _

theorem recvWindowUpdate_len (c : H2Conn) (sid len inc : Nat) :
    (recvWindowUpdate c sid len inc).1.streams.length = c.streams.length := by
  unfold recvWindowUpdate
  repeat' split
  all_goals simp

theorem applySettings_len : ∀ (ps : List (Nat × Nat)) (c : H2Conn),
    (applySettings c ps).1.streams.length = c.streams.length := by
  intro ps
  induction ps with
  | nil => intro c; simp [applySettings]
  | cons p rest ih =>
    intro c
    obtain ⟨k, v⟩ := p
    unfold applySettings
    split
    · simp
    · split
      · split
        · simp
        · split
          · simp
          · rw [ih]; simp
      · split
        · split
          · simp
          · rw [ih]
        · rw [ih]

/-- a connection error raised while no error GOAWAY is out changes `goaway` -/
theorem sendGoaway_goaway (c : H2Conn) (code : Nat) (hc : code ≠ 0) (hg : c.goaway ≤ 0) :
    (sendGoaway c code).1.goaway = (code : Int) := by
  have hgr : (goawayResets c code).1.goaway = c.goaway := by
    unfold goawayResets
    simp only [hc, ne_eq, not_false_eq_true, if_true]
    generalize c.streams.filter (fun s => s.st ≠ .closed) = l
    induction l generalizing c with
    | nil => rfl
    | cons x xs ih =>
      simp only [List.foldl_cons]
      rw [ih]
      · unfold rstState
        split
        · rfl
        · simp only [updStrm]; split <;> rfl
      · unfold rstState
        split
        · exact hg
        · simp only [updStrm]; split <;> exact hg
  unfold sendGoaway
  simp only
  have : ¬ ((goawayResets c code).1.goaway ≠ 0 ∧ ((goawayResets c code).1.goaway > 0 ∨ code = 0)) := by
    rw [hgr]; intro ⟨_, h⟩; rcases h with h | h
    · omega
    · exact hc h
  rw [if_neg this]
  simp [hc]

/-- SETTINGS parameters that raise no connection error emit nothing -/
theorem applySettings_quiet : ∀ (ps : List (Nat × Nat)) (c : H2Conn), c.goaway ≤ 0 →
    (applySettings c ps).1.goaway = c.goaway → (applySettings c ps).2 = [] := by
  intro ps
  induction ps with
  | nil => intro c _ _; simp [applySettings]
  | cons p rest ih =>
    intro c hg hok
    obtain ⟨k, v⟩ := p
    have hne : ∀ code : Nat, code ≠ 0 → (sendGoaway c code).1.goaway = c.goaway → False := by
      intro code hc h
      rw [sendGoaway_goaway c code hc hg] at h
      have : (code : Int) > 0 := by omega
      omega
    unfold applySettings at hok ⊢
    split at hok
    · exact absurd hok (fun h => hne _ (by decide) h)
    · rename_i h1
      simp only [h1, if_false]
      split at hok
      · rename_i h2
        simp only [h2, if_true]
        split at hok
        · exact absurd hok (fun h => hne _ (by decide) h)
        · rename_i h3
          simp only [h3, if_false]
          split at hok
          · exact absurd hok (fun h => hne _ (by decide) h)
          · rename_i h4
            simp only [h4]
            exact ih _ hg hok
      · rename_i h2
        simp only [h2, if_false]
        split at hok
        · rename_i h5
          simp only [h5, if_true]
          split at hok
          · exact absurd hok (fun h => hne _ (by decide) h)
          · rename_i h6
            simp only [h6, if_false]
            exact ih _ hg hok
        · rename_i h5
          simp only [h5, if_false]
          exact ih _ hg hok

theorem recvSettings_len (c : H2Conn) (ack : Bool) (sid : Nat) (ps : List (Nat × Nat)) (junk : Nat) :
    (recvSettings c ack sid ps junk).1.streams.length = c.streams.length := by
  unfold recvSettings
  split
  · simp
  · split
    · simp only
      split
      · simp [applySettings_len]
      · simp [applySettings_len]
    · repeat' split
      all_goals simp

theorem recvRstStream_len (c : H2Conn) (sid len : Nat) :
    (recvRstStream c sid len).1.streams.length = c.streams.length := by
  unfold recvRstStream
  repeat' split
  all_goals simp

theorem recvPriority_len (c : H2Conn) (sid len dep : Nat) :
    (recvPriority c sid len dep).1.streams.length = c.streams.length := by
  unfold recvPriority
  repeat' split
  all_goals simp

theorem reprio_len (l : List Strm) (i : Nat) (s : Strm) (hi : i < l.length) :
    (reprio l i s).length = l.length := by
  unfold reprio
  have htd := congrArg List.length (List.takeWhile_append_dropWhile (p := fun x => x.lt s) (l := l.drop (i + 1)))
  simp only [List.length_append, List.length_drop] at htd
  split
  · simp only [List.length_append, List.length_take, List.length_drop, List.length_cons, List.length_nil]
    omega
  · simp only [List.length_append, List.length_take, List.length_cons, List.length_nil]
    omega

theorem findIdx_lt_of_find (l : List Strm) (p : Strm → Bool) (s : Strm) (h : l.find? p = some s) :
    l.findIdx p < l.length := by
  apply List.findIdx_lt_length_of_exists
  exact ⟨s, List.mem_of_find?_eq_some h, List.find?_some h⟩

theorem recvPriorityUpdate_len (c : H2Conn) (sid len prid prio : Nat) :
    (recvPriorityUpdate c sid len prid prio).1.streams.length = c.streams.length := by
  unfold recvPriorityUpdate
  split
  · simp
  · split
    · simp
    · split
      · simp
      · split
        · rfl
        · rename_i s hs
          split
          · rfl
          · simp only
            exact reprio_len _ _ _ (findIdx_lt_of_find _ _ s hs)

theorem recvGoaway_len (c : H2Conn) (sid len code : Nat) :
    (recvGoaway c sid len code).1.streams.length = c.streams.length := by
  unfold recvGoaway
  repeat' split
  all_goals simp

theorem recvPing_len (c : H2Conn) (ack : Bool) (sid len : Nat) (o : Bytes) :
    (recvPing c ack sid len o).1.streams.length = c.streams.length := by
  unfold recvPing
  repeat' split
  all_goals simp

theorem refuseStream_len (c : H2Conn) (sid : Nat) : (refuseStream c sid).1.streams.length = c.streams.length := by
  unfold refuseStream
  split
  · simp
  · simp only
    split <;> simp

theorem recvTrailers_len (c : H2Conn) (sid : Nat) (kind : HdrKind) (es : Bool) :
    (recvTrailers c sid kind es).1.streams.length = c.streams.length := by
  unfold recvTrailers
  split
  · rw [andThen_len _ _ (discardHeaders_len kind)]; simp
  · split
    · rw [andThen_len _ _ (discardHeaders_len kind)]; simp
    · split
      · rw [andThen_len _ _ (discardHeaders_len kind)]; simp
      · simp only
        split
        · split
          · rw [andThen_len _ _ (fun c => sendGoaway_len c _)]; simp
          · simp
        · rw [andThen_len _ _ (discardHeaders_len kind)]; simp

theorem addStrm_len (c : H2Conn) (s : Strm) : (addStrm c s).streams.length = c.streams.length + 1 := by
  have h := congrArg List.length (List.takeWhile_append_dropWhile (p := fun x => decide (x.prio > s.prio))
    (l := c.streams.reverse))
  simp only [List.length_append, List.length_reverse] at h
  simp only [addStrm, List.length_append, List.length_reverse, List.length_cons, List.length_nil]
  omega

/-- the number of tracked streams never exceeds the limit: a HEADERS frame adds a stream
    only while fewer than h2MaxStreams are active -/
theorem recvHeaders_len_le (c : H2Conn) (sid : Nat) (kind : HdrKind) (es : Bool) (dep : Option Nat) (padBad : Bool)
    (h : c.streams.length ≤ Extracted.h2MaxStreams) :
    (recvHeaders c sid kind es dep padBad).1.streams.length ≤ Extracted.h2MaxStreams := by
  unfold recvHeaders
  split
  · simpa using h
  · split
    · simpa using h
    · split
      · simpa using h
      · split
        · rw [recvTrailers_len]; exact h
        · split
          · simpa using h
          · split
            · rw [andThen_len _ _ (discardHeaders_len kind), refuseStream_len]; exact h
            · rename_i hfull
              unfold newStream
              split
              · rw [sendGoaway_len, addStrm_len]; omega
              · simp only; rw [addStrm_len]; omega

theorem recvFrame_len_le (c : H2Conn) (f : FrameIn) (h : c.streams.length ≤ Extracted.h2MaxStreams) :
    (recvFrame c f).1.streams.length ≤ Extracted.h2MaxStreams := by
  unfold recvFrame
  split
  · exact h
  · cases f with
    | oversize => simpa using h
    | settings ack sid ps junk => simp only; rw [recvSettings_len]; exact h
    | ping ack sid len o => simp only; rw [recvPing_len]; exact h
    | priorityUpdate sid len prid prio => simp only; rw [recvPriorityUpdate_len]; exact h
    | windowUpdate sid len inc => simp only; rw [recvWindowUpdate_len]; exact h
    | rstStream sid len code => simp only; rw [recvRstStream_len]; exact h
    | priority sid len dep => simp only; rw [recvPriority_len]; exact h
    | goaway sid len code => simp only; rw [recvGoaway_len]; exact h
    | data sid len pad es => simp only; rw [recvData_len]; exact h
    | headers sid kind es dep padBad contBad =>
      simp only
      split
      · simpa using h
      · exact recvHeaders_len_le _ _ _ _ _ _ h
    | continuation sid => simpa using h
    | pushPromise sid => simpa using h
    | unknown t => exact h
    | contFlood => simpa using h

theorem passAux_len_le (fsize : Nat) : ∀ (ss : List Strm) (cswin : Int) (budget : Nat),
    (passAux fsize cswin budget ss).streams.length ≤ ss.length := by
  intro ss
  induction ss with
  | nil => intro _ _; simp [passAux]
  | cons s rest ih =>
    intro cswin budget
    simp only [passAux]
    generalize strmTurn fsize cswin budget s = t
    obtain ⟨t1, t2, t3, t4⟩ := t
    have := ih (cswin - t3) (budget - t3)
    cases t1 <;> simp <;> omega

theorem processPass_len_le (c : H2Conn) (budget : Nat) :
    (processPass c budget).1.streams.length ≤ c.streams.length := by
  unfold processPass
  split
  · exact Nat.le_refl _
  · split
    · simp
    · simp only
      exact passAux_len_le _ _ _ _

theorem preSlot_len_le : ∀ (fuel : Nat) (c : H2Conn) (f : FrameIn),
    (preSlot fuel c f).1.streams.length ≤ c.streams.length := by
  intro fuel
  induction fuel with
  | zero => intro c f; exact Nat.le_refl _
  | succ n ih =>
    intro c f
    unfold preSlot
    split
    · exact Nat.le_trans (ih _ _) (processPass_len_le _ _)
    · exact Nat.le_refl _

theorem postStop_len_le (c : H2Conn) :
    (postStop c).1.streams.length ≤ c.streams.length := by
  unfold postStop
  split
  · exact processPass_len_le _ _
  · exact Nat.le_refl _

theorem recvBatch_len_le : ∀ (fs : List FrameIn) (c : H2Conn),
    c.streams.length ≤ Extracted.h2MaxStreams →
    (recvBatch c fs).1.streams.length ≤ Extracted.h2MaxStreams := by
  intro fs
  induction fs with
  | nil => intro c h; simpa [recvBatch] using h
  | cons f fs ihf =>
    intro c h
    simp only [recvBatch]
    apply ihf
    exact Nat.le_trans (postStop_len_le _)
      (recvFrame_len_le _ f (Nat.le_trans (preSlot_len_le 4096 c f) h))

theorem processQuiesce_len_le : ∀ (fuel : Nat) (c : H2Conn),
    (processQuiesce fuel c).1.streams.length ≤ c.streams.length := by
  intro fuel
  induction fuel with
  | zero => intro c; simp [processQuiesce]
  | succ n ihn =>
    intro c
    simp only [processQuiesce]
    split
    · exact processPass_len_le c 262144
    · exact Nat.le_trans (ihn _) (processPass_len_le c 262144)


/-! ### observable form of a connection error -/

theorem foldl_rstState_cid_goaway : ∀ (l : List Strm) (c' : H2Conn),
    (l.foldl (fun c s => rstState c s.id) c').cid = c'.cid ∧
    (l.foldl (fun c s => rstState c s.id) c').goaway = c'.goaway := by
  intro l
  induction l with
  | nil => intro c'; exact ⟨rfl, rfl⟩
  | cons x xs ih =>
    intro c'
    simp only [List.foldl_cons]
    have h1 := ih (rstState c' x.id)
    have h2 : (rstState c' x.id).cid = c'.cid ∧ (rstState c' x.id).goaway = c'.goaway := by
      unfold rstState
      split
      · exact ⟨rfl, rfl⟩
      · simp only [updStrm]; split <;> exact ⟨rfl, rfl⟩
    exact ⟨h1.1.trans h2.1, h1.2.trans h2.2⟩

theorem goawayResets_cid_goaway (c : H2Conn) (code : Nat) :
    (goawayResets c code).1.cid = c.cid ∧ (goawayResets c code).1.goaway = c.goaway := by
  unfold goawayResets
  split
  · exact foldl_rstState_cid_goaway _ _
  · exact ⟨rfl, rfl⟩

/-- **a connection error is visible**: while no error GOAWAY is out, raising one emits
    GOAWAY(last stream id, code) and leaves the connection in the terminal state -/
theorem sendGoaway_observable (c : H2Conn) (code : Nat) (hc : code ≠ 0) (hg : c.goaway ≤ 0) :
    Out.goaway c.cid code ∈ (sendGoaway c code).2 ∧ (sendGoaway c code).1.goaway = (code : Int) ∧
    (sendGoaway c code).1.goaway > 0 := by
  have hcg := goawayResets_cid_goaway c code
  have hgo := sendGoaway_goaway c code hc hg
  refine ⟨?_, hgo, by rw [hgo]; omega⟩
  unfold sendGoaway
  simp only
  have : ¬ ((goawayResets c code).1.goaway ≠ 0 ∧ ((goawayResets c code).1.goaway > 0 ∨ code = 0)) := by
    rw [hcg.2]; intro ⟨_, h⟩; rcases h with h | h
    · omega
    · exact hc h
  rw [if_neg this]
  simp [hcg.1]

/-! ### outbound frame sizes -/

/-- payload octets of an emitted frame (a response header block is framed by `hpackSplit`) -/
def Out.payloadLen : Out → Nat
  | .settingsAck => 0
  | .pingAck _ => 8
  | .goaway _ _ => 8
  | .rst _ _ => 4
  | .windowUpdate _ _ => 4
  | .headers _ _ _ => 0
  | .data _ len _ => len

theorem dataSplit_le (file : Bool) (fsize : Nat) : ∀ (fuel n x : Nat), x ∈ dataSplit file fsize fuel n → x ≤ fsize := by
  intro fuel
  induction fuel with
  | zero => intro n x h; simp [dataSplit] at h
  | succ f ih =>
    intro n x h
    cases n with
    | zero => simp [dataSplit] at h
    | succ m =>
      simp only [dataSplit, List.mem_cons] at h
      rcases h with h | h
      · subst h
        split
        · omega
        · split <;> omega
      · exact ih _ _ h

theorem dataSplit_sum (file : Bool) (fsize : Nat) (hf : fsize > 9) : ∀ (fuel n : Nat), n ≤ fuel →
    (dataSplit file fsize fuel n).sum = n := by
  intro fuel
  induction fuel with
  | zero => intro n h; have : n = 0 := by omega
            subst this; rfl
  | succ f ih =>
    intro n h
    cases n with
    | zero => rfl
    | succ m =>
      simp only [dataSplit, List.sum_cons]
      by_cases h1 : m + 1 < fsize
      · simp only [h1, if_true]
        rw [ih _ (by omega)]; omega
      · simp only [h1, if_false]
        cases file
        · simp only [Bool.false_eq_true, if_false]
          rw [ih _ (by omega)]; omega
        · simp only [if_true]
          rw [ih _ (by omega)]; omega

theorem hpackSplit_le (fsize : Nat) : ∀ (fuel n x : Nat), n ≤ fsize * (fuel + 1) → x ∈ hpackSplit fsize fuel n → x ≤ fsize := by
  intro fuel
  induction fuel with
  | zero => intro n x hn h; simp [hpackSplit] at h; subst h; omega
  | succ f ih =>
    intro n x hn h
    unfold hpackSplit at h
    split at h
    · simp at h; subst h; assumption
    · simp only [List.mem_cons] at h
      rcases h with h | h
      · omega
      · refine ih _ _ ?_ h
        have : fsize * (f + 1 + 1) = fsize * (f + 1) + fsize := by rw [Nat.mul_succ]
        omega

theorem hpackSplit_sum (fsize : Nat) : ∀ (fuel n : Nat), (hpackSplit fsize fuel n).sum = n := by
  intro fuel
  induction fuel with
  | zero => intro n; simp [hpackSplit]
  | succ f ih =>
    intro n
    unfold hpackSplit
    split
    · simp
    · simp only [List.sum_cons, ih]; omega

theorem endStream_payload (s : Strm) : ∀ o ∈ (endStream s).1, o.payloadLen ≤ 4 := by
  intro o ho
  unfold endStream at ho
  split at ho
  · simp at ho
  · split at ho
    · simp at ho; subst ho; simp [Out.payloadLen]
    · simp only at ho
      split at ho <;> split at ho <;> simp at ho
      all_goals (first | (rcases ho with h | h <;> subst h <;> simp [Out.payloadLen]) | (subst ho; simp [Out.payloadLen]))

theorem sendHdrs_payload (s : Strm) : ∀ o ∈ (sendHdrs s).2, o.payloadLen = 0 := by
  intro o ho
  unfold sendHdrs at ho
  split at ho
  · simp at ho
  · simp at ho; subst ho; rfl

/-- every frame of a stream's turn fits the limit given to it -/
theorem strmTurn_payload (fsize : Nat) (cswin : Int) (budget : Nat) (s : Strm) (hf : 4 ≤ fsize) :
    ∀ o ∈ (strmTurn fsize cswin budget s).2.1, o.payloadLen ≤ fsize := by
  intro o ho
  unfold strmTurn at ho
  split at ho
  · exact Nat.le_trans (endStream_payload s o ho) hf
  · simp only at ho
    split at ho
    · simp only [List.mem_append, List.mem_map] at ho
      rcases ho with (h | h) | h
      · rw [sendHdrs_payload s o h]; omega
      · obtain ⟨l, hl, rfl⟩ := h
        exact dataSplit_le _ _ _ _ _ hl
      · exact Nat.le_trans (endStream_payload _ o h) hf
    · simp only [List.mem_append, List.mem_map] at ho
      rcases ho with h | h
      · rw [sendHdrs_payload s o h]; omega
      · obtain ⟨l, hl, rfl⟩ := h
        exact dataSplit_le _ _ _ _ _ hl

theorem passAux_payload (fsize : Nat) (hf : 4 ≤ fsize) : ∀ (ss : List Strm) (cswin : Int) (budget : Nat),
    ∀ o ∈ (passAux fsize cswin budget ss).outs, o.payloadLen ≤ fsize := by
  intro ss
  induction ss with
  | nil => intro _ _ o ho; simp [passAux] at ho
  | cons s rest ih =>
    intro cswin budget o ho
    simp only [passAux] at ho
    have ht := strmTurn_payload fsize cswin budget s hf
    generalize strmTurn fsize cswin budget s = t at ho ht
    obtain ⟨t1, t2, t3, t4⟩ := t
    simp only [List.mem_append] at ho
    rcases ho with h | h
    · exact ht o h
    · exact ih _ _ o h

theorem processPass_payload (c : H2Conn) (budget : Nat) (hf : 4 ≤ c.peerMaxFrame) :
    ∀ o ∈ (processPass c budget).2, o.payloadLen ≤ c.peerMaxFrame := by
  intro o ho
  unfold processPass at ho
  split at ho
  · simp at ho
  · split at ho
    · simp at ho
    · exact passAux_payload _ hf _ _ _ o ho

theorem ctl_payload (o : Out) (h : o.isCtl = true) : o.payloadLen ≤ 8 := by
  cases o <;> simp [Out.isCtl] at h <;> simp [Out.payloadLen]

/-- the peer's SETTINGS_MAX_FRAME_SIZE the server works with stays in the RFC 9113 range -/
def FsOk (c : H2Conn) : Prop := 16384 ≤ c.peerMaxFrame ∧ c.peerMaxFrame ≤ 16777215

theorem rstState_fs (c : H2Conn) (sid : Nat) : (rstState c sid).peerMaxFrame = c.peerMaxFrame := by
  unfold rstState
  split
  · rfl
  · simp only [updStrm]; split <;> rfl

theorem foldl_rstState_fs : ∀ (l : List Strm) (c : H2Conn),
    (l.foldl (fun c s => rstState c s.id) c).peerMaxFrame = c.peerMaxFrame := by
  intro l
  induction l with
  | nil => intro c; rfl
  | cons x xs ih => intro c; simp only [List.foldl_cons]; rw [ih, rstState_fs]

theorem sendGoaway_fs (c : H2Conn) (code : Nat) : (sendGoaway c code).1.peerMaxFrame = c.peerMaxFrame := by
  have h : (goawayResets c code).1.peerMaxFrame = c.peerMaxFrame := by
    unfold goawayResets
    split
    · exact foldl_rstState_fs _ _
    · rfl
  unfold sendGoaway
  simp only
  split
  · exact h
  · exact h

theorem applySettings_fs : ∀ (ps : List (Nat × Nat)) (c : H2Conn), FsOk c → FsOk (applySettings c ps).1 := by
  intro ps
  induction ps with
  | nil => intro c h; simpa [applySettings] using h
  | cons p rest ih =>
    intro c h
    obtain ⟨k, v⟩ := p
    unfold applySettings
    split
    · unfold FsOk; rw [sendGoaway_fs]; exact h
    · split
      · split
        · unfold FsOk; rw [sendGoaway_fs]; exact h
        · split
          · unfold FsOk; rw [sendGoaway_fs]; exact h
          · exact ih _ h
      · split
        · split
          · unfold FsOk; rw [sendGoaway_fs]; exact h
          · rename_i hv
            exact ih _ (by unfold FsOk; simp only; omega)
        · exact ih _ h


@[simp] theorem updStrm_fs (c : H2Conn) (sid : Nat) (f : Strm → Strm) : (updStrm c sid f).peerMaxFrame = c.peerMaxFrame := rfl
@[simp] theorem connWinUpd_fs (c : H2Conn) (len : Nat) : (connWinUpd c len).1.peerMaxFrame = c.peerMaxFrame := rfl
attribute [simp] rstState_fs sendGoaway_fs

@[simp] theorem discardCount_fs (c : H2Conn) : (discardCount c).1.peerMaxFrame = c.peerMaxFrame := by
  unfold discardCount
  simp only; split <;> simp

@[simp] theorem discardHeaders_fs (kind : HdrKind) (c : H2Conn) :
    (discardHeaders c kind).1.peerMaxFrame = c.peerMaxFrame := by
  unfold discardHeaders
  split
  · rfl
  · split <;> simp

@[simp] theorem recvEndData_fs (c : H2Conn) (s : Strm) (alen : Nat) :
    (recvEndData c s alen).1.peerMaxFrame = c.peerMaxFrame := by
  unfold recvEndData
  simp only
  split
  · simp
  · split <;> simp

theorem recvDataStream_fs (c : H2Conn) (s : Strm) (sid len alen : Nat) (es : Bool) :
    (recvDataStream c s sid len alen es).1.peerMaxFrame = c.peerMaxFrame := by
  unfold recvDataStream
  split
  · simp
  · simp only
    split
    · simp
    · by_cases hes : es = true
      · simp only [hes, if_true]
        split <;> simp
      · simp [hes]

theorem recvData_fs (c : H2Conn) (sid len : Nat) (pad : Option Nat) (es : Bool) :
    (recvData c sid len pad es).1.peerMaxFrame = c.peerMaxFrame := by
  unfold recvData
  split
  · simp
  · split
    · simp
    · split
      · split
        · simp
        · split
          · rfl
          · split
            · rfl
            · simp
      · exact recvDataStream_fs _ _ _ _ _ _

theorem andThen_fs (r : Res) (f : H2Conn → Res) (hf : ∀ c, (f c).1.peerMaxFrame = c.peerMaxFrame) :
    (r.andThen f).1.peerMaxFrame = r.1.peerMaxFrame := by
  simp [Res.andThen, hf]

theorem refuseStream_fs (c : H2Conn) (sid : Nat) : (refuseStream c sid).1.peerMaxFrame = c.peerMaxFrame := by
  unfold refuseStream
  split
  · simp
  · simp only
    split <;> simp

theorem recvTrailers_fs (c : H2Conn) (sid : Nat) (kind : HdrKind) (es : Bool) :
    (recvTrailers c sid kind es).1.peerMaxFrame = c.peerMaxFrame := by
  unfold recvTrailers
  split
  · rw [andThen_fs _ _ (discardHeaders_fs kind)]; simp
  · split
    · rw [andThen_fs _ _ (discardHeaders_fs kind)]; simp
    · split
      · rw [andThen_fs _ _ (discardHeaders_fs kind)]; simp
      · simp only
        split
        · split
          · rw [andThen_fs _ _ (fun c => sendGoaway_fs c _)]; simp
          · simp
        · rw [andThen_fs _ _ (discardHeaders_fs kind)]; simp

theorem recvHeaders_fs (c : H2Conn) (sid : Nat) (kind : HdrKind) (es : Bool) (dep : Option Nat) (padBad : Bool) :
    (recvHeaders c sid kind es dep padBad).1.peerMaxFrame = c.peerMaxFrame := by
  unfold recvHeaders
  split
  · simp
  · split
    · simp
    · split
      · simp
      · split
        · exact recvTrailers_fs _ _ _ _
        · split
          · simp
          · split
            · rw [andThen_fs _ _ (discardHeaders_fs kind), refuseStream_fs]
            · unfold newStream
              split
              · simp [addStrm]
              · simp [addStrm]

theorem recvPing_fs (c : H2Conn) (ack : Bool) (sid len : Nat) (o : Bytes) :
    (recvPing c ack sid len o).1.peerMaxFrame = c.peerMaxFrame := by
  unfold recvPing
  repeat' split
  all_goals simp

theorem recvWindowUpdate_fs (c : H2Conn) (sid len inc : Nat) :
    (recvWindowUpdate c sid len inc).1.peerMaxFrame = c.peerMaxFrame := by
  unfold recvWindowUpdate
  repeat' split
  all_goals simp

theorem recvRstStream_fs (c : H2Conn) (sid len : Nat) :
    (recvRstStream c sid len).1.peerMaxFrame = c.peerMaxFrame := by
  unfold recvRstStream
  repeat' split
  all_goals simp

theorem recvPriority_fs (c : H2Conn) (sid len dep : Nat) :
    (recvPriority c sid len dep).1.peerMaxFrame = c.peerMaxFrame := by
  unfold recvPriority
  repeat' split
  all_goals simp

theorem recvPriorityUpdate_fs (c : H2Conn) (sid len prid prio : Nat) :
    (recvPriorityUpdate c sid len prid prio).1.peerMaxFrame = c.peerMaxFrame := by
  unfold recvPriorityUpdate
  repeat' split
  all_goals simp

theorem recvGoaway_fs (c : H2Conn) (sid len code : Nat) :
    (recvGoaway c sid len code).1.peerMaxFrame = c.peerMaxFrame := by
  unfold recvGoaway
  repeat' split
  all_goals simp

/-- the limit stays in range whatever arrives -/
theorem recvFrame_fs (c : H2Conn) (f : FrameIn) (h : FsOk c) : FsOk (recvFrame c f).1 := by
  have keep : ∀ c' : H2Conn, c'.peerMaxFrame = c.peerMaxFrame → FsOk c' := by
    intro c' e; unfold FsOk; rw [e]; exact h
  unfold recvFrame
  split
  · exact h
  · cases f with
    | oversize => exact keep _ (by simp)
    | settings ack sid ps junk =>
      simp only
      unfold recvSettings
      split
      · exact keep _ (by simp)
      · split
        · simp only
          have h1 := applySettings_fs ps c h
          split
          · unfold FsOk; simp only [sendGoaway_fs]; exact h1
          · exact h1
        · split
          · exact keep _ (by simp)
          · split
            · exact keep _ rfl
            · exact keep _ (by simp)
    | ping ack sid len o => exact keep _ (recvPing_fs _ _ _ _ _)
    | windowUpdate sid len inc => exact keep _ (recvWindowUpdate_fs _ _ _ _)
    | rstStream sid len code => exact keep _ (recvRstStream_fs _ _ _)
    | priority sid len dep => exact keep _ (recvPriority_fs _ _ _ _)
    | priorityUpdate sid len prid prio => exact keep _ (recvPriorityUpdate_fs _ _ _ _ _)
    | goaway sid len code => exact keep _ (recvGoaway_fs _ _ _ _)
    | data sid len pad es => exact keep _ (recvData_fs _ _ _ _ _)
    | headers sid kind es dep padBad contBad =>
      simp only
      split
      · exact keep _ (by simp)
      · exact keep _ (recvHeaders_fs _ _ _ _ _ _)
    | continuation sid => exact keep _ (by simp)
    | pushPromise sid => exact keep _ (by simp)
    | unknown t => exact h
    | contFlood => exact keep _ (by simp)

theorem processPass_fs (c : H2Conn) (budget : Nat) : (processPass c budget).1.peerMaxFrame = c.peerMaxFrame := by
  unfold processPass
  split
  · rfl
  · split <;> rfl

theorem preSlot_fs : ∀ (fuel : Nat) (c : H2Conn) (f : FrameIn), (preSlot fuel c f).1.peerMaxFrame = c.peerMaxFrame := by
  intro fuel
  induction fuel with
  | zero => intro c f; rfl
  | succ n ih =>
    intro c f
    unfold preSlot
    split
    · simp only; rw [ih, processPass_fs]
    · rfl

theorem postStop_fs (c : H2Conn) : (postStop c).1.peerMaxFrame = c.peerMaxFrame := by
  unfold postStop
  split
  · rw [processPass_fs]
  · rfl

theorem recvBatch_fs : ∀ (fs : List FrameIn) (c : H2Conn), FsOk c → FsOk (recvBatch c fs).1 := by
  intro fs
  induction fs with
  | nil => intro c h; simpa [recvBatch] using h
  | cons f fs ih =>
    intro c h
    simp only [recvBatch]
    apply ih
    have h0 : FsOk (preSlot 4096 c f).1 := by unfold FsOk; rw [preSlot_fs]; exact h
    have h1 := recvFrame_fs _ f h0
    unfold FsOk; rw [postStop_fs]; exact h1

theorem processQuiesce_fs : ∀ (fuel : Nat) (c : H2Conn), (processQuiesce fuel c).1.peerMaxFrame = c.peerMaxFrame := by
  intro fuel
  induction fuel with
  | zero => intro c; rfl
  | succ n ih =>
    intro c
    simp only [processQuiesce]
    split
    · exact processPass_fs _ _
    · simp only; rw [ih, processPass_fs]

end LtVerif
