/-
  Lemmas about the HTTP/2 frame-level model (Model/H2.lean).
-/
import LtVerif.Model.H2
namespace LtVerif

/-- control frames: everything except response HEADERS / DATA -/
def Out.isCtl : Out → Bool
  | .headers _ _ _ => false
  | .data _ _ _ => false
  | _ => true

def AllCtl (o : List Out) : Prop := ∀ x ∈ o, x.isCtl = true

theorem AllCtl.nil : AllCtl [] := by intro x hx; simp at hx
theorem AllCtl.append {a b : List Out} (ha : AllCtl a) (hb : AllCtl b) : AllCtl (a ++ b) := by
  intro x hx; simp only [List.mem_append] at hx; rcases hx with h | h
  · exact ha x h
  · exact hb x h
theorem AllCtl.cons {x : Out} {b : List Out} (hx : x.isCtl = true) (hb : AllCtl b) : AllCtl (x :: b) := by
  intro y hy; simp only [List.mem_cons] at hy; rcases hy with h | h
  · subst h; exact hx
  · exact hb y h
theorem AllCtl.map_rst (l : List Strm) (code : Nat) : AllCtl (l.map fun s => Out.rst s.id code) := by
  intro x hx; simp only [List.mem_map] at hx; obtain ⟨s, _, rfl⟩ := hx; rfl

theorem goawayResets_ctl (c : H2Conn) (code : Nat) : AllCtl (goawayResets c code).2 := by
  unfold goawayResets
  split
  · simp only
    split
    · exact AllCtl.map_rst _ _
    · exact AllCtl.nil
  · exact AllCtl.nil

theorem sendGoaway_ctl (c : H2Conn) (code : Nat) : AllCtl (sendGoaway c code).2 := by
  unfold sendGoaway
  simp only
  split
  · exact goawayResets_ctl c code
  · exact AllCtl.append (goawayResets_ctl c code) (AllCtl.cons rfl AllCtl.nil)

theorem discardHeaders_ctl (c : H2Conn) : AllCtl (discardHeaders c).2 := by
  unfold discardHeaders
  split
  · exact AllCtl.nil
  · simp only
    split
    · exact sendGoaway_ctl _ _
    · exact AllCtl.nil

theorem recvEndData_ctl (c : H2Conn) (s : Strm) (alen : Nat) : AllCtl (recvEndData c s alen).2.1 := by
  unfold recvEndData
  simp only
  split
  · exact AllCtl.nil
  · split
    · exact AllCtl.cons rfl AllCtl.nil
    · exact AllCtl.nil

theorem recvWindowUpdate_ctl (c : H2Conn) (sid len inc : Nat) : AllCtl (recvWindowUpdate c sid len inc).2 := by
  unfold recvWindowUpdate
  repeat' split
  all_goals first
    | exact sendGoaway_ctl _ _
    | exact AllCtl.nil
    | exact AllCtl.cons rfl AllCtl.nil

theorem recvRstStream_ctl (c : H2Conn) (sid len : Nat) : AllCtl (recvRstStream c sid len).2 := by
  unfold recvRstStream
  repeat' split
  all_goals first
    | exact sendGoaway_ctl _ _
    | exact AllCtl.nil

theorem recvPriority_ctl (c : H2Conn) (sid len dep : Nat) : AllCtl (recvPriority c sid len dep).2 := by
  unfold recvPriority
  repeat' split
  all_goals first
    | exact sendGoaway_ctl _ _
    | exact AllCtl.nil
    | exact AllCtl.cons rfl AllCtl.nil

theorem recvPriorityUpdate_ctl (c : H2Conn) (sid len prid prio : Nat) :
    AllCtl (recvPriorityUpdate c sid len prid prio).2 := by
  unfold recvPriorityUpdate
  repeat' split
  all_goals first
    | exact sendGoaway_ctl _ _
    | exact AllCtl.nil

theorem recvGoaway_ctl (c : H2Conn) (sid len code : Nat) : AllCtl (recvGoaway c sid len code).2 := by
  unfold recvGoaway
  split
  · exact sendGoaway_ctl _ _
  · split
    · exact sendGoaway_ctl _ _
    · simp only; exact sendGoaway_ctl _ _

theorem recvPing_ctl (c : H2Conn) (ack : Bool) (sid len : Nat) (o : Bytes) : AllCtl (recvPing c ack sid len o).2 := by
  unfold recvPing
  repeat' split
  all_goals first
    | exact sendGoaway_ctl _ _
    | exact AllCtl.nil
    | exact AllCtl.cons rfl AllCtl.nil

theorem applySettings_ctl : ∀ (ps : List (Nat × Nat)) (c : H2Conn), AllCtl (applySettings c ps).2 := by
  intro ps
  induction ps with
  | nil => intro c; simp [applySettings]; exact AllCtl.nil
  | cons p rest ih =>
    intro c
    obtain ⟨k, v⟩ := p
    unfold applySettings
    split
    · exact sendGoaway_ctl _ _
    · split
      · split
        · exact sendGoaway_ctl _ _
        · split
          · exact sendGoaway_ctl _ _
          · exact ih _
      · split
        · split
          · exact sendGoaway_ctl _ _
          · exact ih _
        · exact ih _

theorem ite_ctl (p : Prop) [Decidable p] (x : Out) (hx : x.isCtl = true) :
    AllCtl (if p then [x] else []) := by
  split
  · exact AllCtl.cons hx AllCtl.nil
  · exact AllCtl.nil

theorem ite_res_ctl (p : Prop) [Decidable p] (a b : Res) (ha : AllCtl a.2) (hb : AllCtl b.2) :
    AllCtl (if p then a else b).2 := by
  split
  · exact ha
  · exact hb

theorem recvSettings_ctl (c : H2Conn) (ack : Bool) (sid : Nat) (ps : List (Nat × Nat)) (junk : Nat) :
    AllCtl (recvSettings c ack sid ps junk).2 := by
  unfold recvSettings
  split
  · exact sendGoaway_ctl _ _
  · split
    · simp only
      apply AllCtl.append
      · apply AllCtl.append (applySettings_ctl _ _)
        exact ite_res_ctl _ _ _ (sendGoaway_ctl _ _) AllCtl.nil
      · exact ite_ctl _ _ rfl
    · split
      · exact sendGoaway_ctl _ _
      · split
        · exact AllCtl.nil
        · exact sendGoaway_ctl _ _

theorem connWinUpd_ctl (c : H2Conn) (len : Nat) : AllCtl (connWinUpd c len).2 := by
  unfold connWinUpd
  exact ite_ctl _ _ rfl

theorem andThen_ctl (r : Res) (f : H2Conn → Res) (hr : AllCtl r.2) (hf : ∀ c, AllCtl (f c).2) :
    AllCtl (r.andThen f).2 := by
  unfold Res.andThen
  exact AllCtl.append hr (hf _)

theorem recvDataStream_ctl (c : H2Conn) (s : Strm) (sid len alen : Nat) (es : Bool) :
    AllCtl (recvDataStream c s sid len alen es).2 := by
  unfold recvDataStream
  split
  · exact AllCtl.cons rfl (connWinUpd_ctl _ _)
  · simp only
    split
    · exact AllCtl.append (connWinUpd_ctl _ _) (AllCtl.cons rfl AllCtl.nil)
    · by_cases hes : es = true
      · simp only [hes, if_true]
        split
        · exact AllCtl.append (connWinUpd_ctl _ _) (recvEndData_ctl _ _ _)
        · exact AllCtl.append (AllCtl.append (connWinUpd_ctl _ _) (recvEndData_ctl _ _ _)) (ite_ctl _ _ rfl)
      · simp only [hes]
        simp only [Bool.false_eq_true, if_false, Bool.not_true]
        exact AllCtl.append (AllCtl.append (connWinUpd_ctl _ _) AllCtl.nil) (ite_ctl _ _ rfl)

theorem recvData_ctl (c : H2Conn) (sid len : Nat) (pad : Option Nat) (es : Bool) :
    AllCtl (recvData c sid len pad es).2 := by
  unfold recvData
  split
  · exact sendGoaway_ctl _ _
  · split
    · exact sendGoaway_ctl _ _
    · split
      · split
        · exact connWinUpd_ctl _ _
        · split
          · exact AllCtl.nil
          · split
            · exact AllCtl.nil
            · exact sendGoaway_ctl _ _
      · exact recvDataStream_ctl _ _ _ _ _ _

theorem refuseStream_ctl (c : H2Conn) (sid : Nat) : AllCtl (refuseStream c sid).2 := by
  unfold refuseStream
  split
  · exact sendGoaway_ctl _ _
  · simp only
    exact AllCtl.cons rfl (ite_res_ctl _ _ _ (sendGoaway_ctl _ _) AllCtl.nil)

theorem recvTrailers_ctl (c : H2Conn) (sid : Nat) (kind : HdrKind) (es : Bool) :
    AllCtl (recvTrailers c sid kind es).2 := by
  unfold recvTrailers
  split
  · exact andThen_ctl _ _ (sendGoaway_ctl _ _) discardHeaders_ctl
  · split
    · exact andThen_ctl _ _ (AllCtl.cons rfl AllCtl.nil) discardHeaders_ctl
    · split
      · exact andThen_ctl _ _ (AllCtl.cons rfl AllCtl.nil) discardHeaders_ctl
      · simp only
        split
        · split
          · exact andThen_ctl _ _ (recvEndData_ctl _ _ _) (fun c => sendGoaway_ctl c _)
          · exact recvEndData_ctl _ _ _
        · exact andThen_ctl _ _ (recvEndData_ctl _ _ _) discardHeaders_ctl

theorem newStream_ctl (c : H2Conn) (sid : Nat) (kind : HdrKind) (es : Bool) :
    AllCtl (newStream c sid kind es).2 := by
  unfold newStream
  split
  · exact sendGoaway_ctl _ _
  · exact ite_ctl _ _ rfl

theorem recvHeaders_ctl (c : H2Conn) (sid : Nat) (kind : HdrKind) (es : Bool) (dep : Option Nat) (padBad : Bool) :
    AllCtl (recvHeaders c sid kind es dep padBad).2 := by
  unfold recvHeaders
  split
  · exact sendGoaway_ctl _ _
  · split
    · exact sendGoaway_ctl _ _
    · split
      · exact AllCtl.cons rfl (sendGoaway_ctl _ _)
      · split
        · exact recvTrailers_ctl _ _ _ _
        · split
          · exact discardHeaders_ctl _
          · split
            · exact andThen_ctl _ _ (refuseStream_ctl _ _) discardHeaders_ctl
            · exact newStream_ctl _ _ _ _

/-- **the receive side never emits response HEADERS or DATA**: every frame it sends is a
    control frame (SETTINGS ack, PING ack, WINDOW_UPDATE, RST_STREAM, GOAWAY) -/
theorem recvFrame_ctl (c : H2Conn) (f : FrameIn) : AllCtl (recvFrame c f).2 := by
  unfold recvFrame
  split
  · exact AllCtl.nil
  · cases f with
    | oversize => exact sendGoaway_ctl _ _
    | settings ack sid ps junk => exact recvSettings_ctl _ _ _ _ _
    | ping ack sid len o => exact recvPing_ctl _ _ _ _ _
    | priorityUpdate sid len prid prio => exact recvPriorityUpdate_ctl _ _ _ _ _
    | windowUpdate sid len inc => exact recvWindowUpdate_ctl _ _ _ _
    | rstStream sid len code => exact recvRstStream_ctl _ _ _
    | priority sid len dep => exact recvPriority_ctl _ _ _ _
    | goaway sid len code => exact recvGoaway_ctl _ _ _ _
    | data sid len pad es => exact recvData_ctl _ _ _ _ _
    | headers sid kind es dep padBad contBad =>
      simp only
      split
      · exact sendGoaway_ctl _ _
      · exact recvHeaders_ctl _ _ _ _ _ _
    | continuation sid => exact sendGoaway_ctl _ _
    | pushPromise sid => exact sendGoaway_ctl _ _
    | unknown t => exact AllCtl.nil
    | contFlood => exact sendGoaway_ctl _ _

/-! ### number of tracked streams -/

@[simp] theorem updStrm_len (c : H2Conn) (sid : Nat) (f : Strm → Strm) :
    (updStrm c sid f).streams.length = c.streams.length := by simp [updStrm]

@[simp] theorem rstState_len (c : H2Conn) (sid : Nat) : (rstState c sid).streams.length = c.streams.length := by
  unfold rstState
  split
  · rfl
  · simp only
    split <;> simp

theorem foldl_rstState_len (l : List Strm) : ∀ (c : H2Conn),
    (l.foldl (fun c s => rstState c s.id) c).streams.length = c.streams.length := by
  induction l with
  | nil => intro c; rfl
  | cons x xs ih => intro c; simp only [List.foldl_cons]; rw [ih]; simp

@[simp] theorem goawayResets_len (c : H2Conn) (code : Nat) :
    (goawayResets c code).1.streams.length = c.streams.length := by
  unfold goawayResets
  split
  · simp only; exact foldl_rstState_len _ _
  · rfl

@[simp] theorem sendGoaway_len (c : H2Conn) (code : Nat) :
    (sendGoaway c code).1.streams.length = c.streams.length := by
  unfold sendGoaway
  simp only
  split <;> simp

@[simp] theorem discardHeaders_len (c : H2Conn) : (discardHeaders c).1.streams.length = c.streams.length := by
  unfold discardHeaders
  split
  · rfl
  · simp only
    split <;> simp

@[simp] theorem recvEndData_len (c : H2Conn) (s : Strm) (alen : Nat) :
    (recvEndData c s alen).1.streams.length = c.streams.length := by
  unfold recvEndData
  simp only
  split
  · simp
  · split <;> simp

@[simp] theorem connWinUpd_len (c : H2Conn) (len : Nat) : (connWinUpd c len).1.streams.length = c.streams.length := by
  simp [connWinUpd]

theorem andThen_len (r : Res) (f : H2Conn → Res) (hf : ∀ c, (f c).1.streams.length = c.streams.length) :
    (r.andThen f).1.streams.length = r.1.streams.length := by
  simp [Res.andThen, hf]

theorem recvDataStream_len (c : H2Conn) (s : Strm) (sid len alen : Nat) (es : Bool) :
    (recvDataStream c s sid len alen es).1.streams.length = c.streams.length := by
  unfold recvDataStream
  split
  · simp
  · simp only
    split
    · simp
    · by_cases hes : es = true
      · simp only [hes, if_true]
        split <;> simp
      · simp [hes]

theorem recvData_len (c : H2Conn) (sid len : Nat) (pad : Option Nat) (es : Bool) :
    (recvData c sid len pad es).1.streams.length = c.streams.length := by
  unfold recvData
  split
  · simp
  · split
    · simp
    · split
      · split
        · simp
        · split
          · rfl
          · split
            · rfl
            · simp
      · exact recvDataStream_len _ _ _ _ _ _

theorem recvWindowUpdate_len (c : H2Conn) (sid len inc : Nat) :
    (recvWindowUpdate c sid len inc).1.streams.length = c.streams.length := by
  unfold recvWindowUpdate
  repeat' split
  all_goals simp

theorem applySettings_len : ∀ (ps : List (Nat × Nat)) (c : H2Conn),
    (applySettings c ps).1.streams.length = c.streams.length := by
  intro ps
  induction ps with
  | nil => intro c; simp [applySettings]
  | cons p rest ih =>
    intro c
    obtain ⟨k, v⟩ := p
    unfold applySettings
    split
    · simp
    · split
      · split
        · simp
        · split
          · simp
          · rw [ih]; simp
      · split
        · split
          · simp
          · rw [ih]
        · rw [ih]

/-- a connection error raised while no error GOAWAY is out changes `goaway` -/
theorem sendGoaway_goaway (c : H2Conn) (code : Nat) (hc : code ≠ 0) (hg : c.goaway ≤ 0) :
    (sendGoaway c code).1.goaway = (code : Int) := by
  have hgr : (goawayResets c code).1.goaway = c.goaway := by
    unfold goawayResets
    simp only [hc, ne_eq, not_false_eq_true, if_true]
    generalize c.streams.filter (fun s => s.st ≠ .closed) = l
    induction l generalizing c with
    | nil => rfl
    | cons x xs ih =>
      simp only [List.foldl_cons]
      rw [ih]
      · unfold rstState
        split
        · rfl
        · simp only [updStrm]; split <;> rfl
      · unfold rstState
        split
        · exact hg
        · simp only [updStrm]; split <;> exact hg
  unfold sendGoaway
  simp only
  have : ¬ ((goawayResets c code).1.goaway ≠ 0 ∧ ((goawayResets c code).1.goaway > 0 ∨ code = 0)) := by
    rw [hgr]; intro ⟨_, h⟩; rcases h with h | h
    · omega
    · exact hc h
  rw [if_neg this]
  simp [hc]

/-- SETTINGS parameters that raise no connection error emit nothing -/
theorem applySettings_quiet : ∀ (ps : List (Nat × Nat)) (c : H2Conn), c.goaway ≤ 0 →
    (applySettings c ps).1.goaway = c.goaway → (applySettings c ps).2 = [] := by
  intro ps
  induction ps with
  | nil => intro c _ _; simp [applySettings]
  | cons p rest ih =>
    intro c hg hok
    obtain ⟨k, v⟩ := p
    have hne : ∀ code : Nat, code ≠ 0 → (sendGoaway c code).1.goaway = c.goaway → False := by
      intro code hc h
      rw [sendGoaway_goaway c code hc hg] at h
      have : (code : Int) > 0 := by omega
      omega
    unfold applySettings at hok ⊢
    split at hok
    · exact absurd hok (fun h => hne _ (by decide) h)
    · rename_i h1
      simp only [h1, if_false]
      split at hok
      · rename_i h2
        simp only [h2, if_true]
        split at hok
        · exact absurd hok (fun h => hne _ (by decide) h)
        · rename_i h3
          simp only [h3, if_false]
          split at hok
          · exact absurd hok (fun h => hne _ (by decide) h)
          · rename_i h4
            simp only [h4]
            exact ih _ hg hok
      · rename_i h2
        simp only [h2, if_false]
        split at hok
        · rename_i h5
          simp only [h5, if_true]
          split at hok
          · exact absurd hok (fun h => hne _ (by decide) h)
          · rename_i h6
            simp only [h6, if_false]
            exact ih _ hg hok
        · rename_i h5
          simp only [h5, if_false]
          exact ih _ hg hok

theorem recvSettings_len (c : H2Conn) (ack : Bool) (sid : Nat) (ps : List (Nat × Nat)) (junk : Nat) :
    (recvSettings c ack sid ps junk).1.streams.length = c.streams.length := by
  unfold recvSettings
  split
  · simp
  · split
    · simp only
      split
      · simp [applySettings_len]
      · simp [applySettings_len]
    · repeat' split
      all_goals simp

theorem recvRstStream_len (c : H2Conn) (sid len : Nat) :
    (recvRstStream c sid len).1.streams.length = c.streams.length := by
  unfold recvRstStream
  repeat' split
  all_goals simp

theorem recvPriority_len (c : H2Conn) (sid len dep : Nat) :
    (recvPriority c sid len dep).1.streams.length = c.streams.length := by
  unfold recvPriority
  repeat' split
  all_goals simp

theorem reprio_len (l : List Strm) (i : Nat) (s : Strm) (hi : i < l.length) :
    (reprio l i s).length = l.length := by
  unfold reprio
  have htd := congrArg List.length (List.takeWhile_append_dropWhile (p := fun x => x.lt s) (l := l.drop (i + 1)))
  simp only [List.length_append, List.length_drop] at htd
  split
  · simp only [List.length_append, List.length_take, List.length_drop, List.length_cons, List.length_nil]
    omega
  · simp only [List.length_append, List.length_take, List.length_cons, List.length_nil]
    omega

theorem findIdx_lt_of_find (l : List Strm) (p : Strm → Bool) (s : Strm) (h : l.find? p = some s) :
    l.findIdx p < l.length := by
  apply List.findIdx_lt_length_of_exists
  exact ⟨s, List.mem_of_find?_eq_some h, List.find?_some h⟩

theorem recvPriorityUpdate_len (c : H2Conn) (sid len prid prio : Nat) :
    (recvPriorityUpdate c sid len prid prio).1.streams.length = c.streams.length := by
  unfold recvPriorityUpdate
  split
  · simp
  · split
    · simp
    · split
      · simp
      · split
        · rfl
        · rename_i s hs
          split
          · rfl
          · simp only
            exact reprio_len _ _ _ (findIdx_lt_of_find _ _ s hs)

theorem recvGoaway_len (c : H2Conn) (sid len code : Nat) :
    (recvGoaway c sid len code).1.streams.length = c.streams.length := by
  unfold recvGoaway
  repeat' split
  all_goals simp

theorem recvPing_len (c : H2Conn) (ack : Bool) (sid len : Nat) (o : Bytes) :
    (recvPing c ack sid len o).1.streams.length = c.streams.length := by
  unfold recvPing
  repeat' split
  all_goals simp

theorem refuseStream_len (c : H2Conn) (sid : Nat) : (refuseStream c sid).1.streams.length = c.streams.length := by
  unfold refuseStream
  split
  · simp
  · simp only
    split <;> split <;> simp

theorem recvTrailers_len (c : H2Conn) (sid : Nat) (kind : HdrKind) (es : Bool) :
    (recvTrailers c sid kind es).1.streams.length = c.streams.length := by
  unfold recvTrailers
  split
  · rw [andThen_len _ _ discardHeaders_len]; simp
  · split
    · rw [andThen_len _ _ discardHeaders_len]; simp
    · split
      · rw [andThen_len _ _ discardHeaders_len]; simp
      · simp only
        split
        · split
          · rw [andThen_len _ _ (fun c => sendGoaway_len c _)]; simp
          · simp
        · rw [andThen_len _ _ discardHeaders_len]; simp

theorem addStrm_len (c : H2Conn) (s : Strm) : (addStrm c s).streams.length = c.streams.length + 1 := by
  have h := congrArg List.length (List.takeWhile_append_dropWhile (p := fun x => decide (x.prio > s.prio))
    (l := c.streams.reverse))
  simp only [List.length_append, List.length_reverse] at h
  simp only [addStrm, List.length_append, List.length_reverse, List.length_cons, List.length_nil]
  omega

/-- the number of tracked streams never exceeds the limit: a HEADERS frame adds a stream
    only while fewer than h2MaxStreams are active -/
theorem recvHeaders_len_le (c : H2Conn) (sid : Nat) (kind : HdrKind) (es : Bool) (dep : Option Nat) (padBad : Bool)
    (h : c.streams.length ≤ Extracted.h2MaxStreams) :
    (recvHeaders c sid kind es dep padBad).1.streams.length ≤ Extracted.h2MaxStreams := by
  unfold recvHeaders
  split
  · simpa using h
  · split
    · simpa using h
    · split
      · simpa using h
      · split
        · rw [recvTrailers_len]; exact h
        · split
          · simpa using h
          · split
            · rw [andThen_len _ _ discardHeaders_len, refuseStream_len]; exact h
            · rename_i hfull
              unfold newStream
              split
              · rw [sendGoaway_len, addStrm_len]; omega
              · simp only; rw [addStrm_len]; omega

theorem recvFrame_len_le (c : H2Conn) (f : FrameIn) (h : c.streams.length ≤ Extracted.h2MaxStreams) :
    (recvFrame c f).1.streams.length ≤ Extracted.h2MaxStreams := by
  unfold recvFrame
  split
  · exact h
  · cases f with
    | oversize => simpa using h
    | settings ack sid ps junk => simp only; rw [recvSettings_len]; exact h
    | ping ack sid len o => simp only; rw [recvPing_len]; exact h
    | priorityUpdate sid len prid prio => simp only; rw [recvPriorityUpdate_len]; exact h
    | windowUpdate sid len inc => simp only; rw [recvWindowUpdate_len]; exact h
    | rstStream sid len code => simp only; rw [recvRstStream_len]; exact h
    | priority sid len dep => simp only; rw [recvPriority_len]; exact h
    | goaway sid len code => simp only; rw [recvGoaway_len]; exact h
    | data sid len pad es => simp only; rw [recvData_len]; exact h
    | headers sid kind es dep padBad contBad =>
      simp only
      split
      · simpa using h
      · exact recvHeaders_len_le _ _ _ _ _ _ h
    | continuation sid => simpa using h
    | pushPromise sid => simpa using h
    | unknown t => exact h
    | contFlood => simpa using h

theorem passAux_len_le (fsize : Nat) : ∀ (ss : List Strm) (cswin : Int) (budget : Nat),
    (passAux fsize cswin budget ss).streams.length ≤ ss.length := by
  intro ss
  induction ss with
  | nil => intro _ _; simp [passAux]
  | cons s rest ih =>
    intro cswin budget
    simp only [passAux]
    generalize strmTurn fsize cswin budget s = t
    obtain ⟨t1, t2, t3, t4⟩ := t
    have := ih (cswin - t3) (budget - t3)
    cases t1 <;> simp <;> omega

theorem processPass_len_le (c : H2Conn) (budget : Nat) :
    (processPass c budget).1.streams.length ≤ c.streams.length := by
  unfold processPass
  split
  · exact Nat.le_refl _
  · split
    · simp
    · simp only
      exact passAux_len_le _ _ _ _

theorem preSlot_len_le : ∀ (fuel : Nat) (c : H2Conn) (f : FrameIn),
    (preSlot fuel c f).1.streams.length ≤ c.streams.length := by
  intro fuel
  induction fuel with
  | zero => intro c f; exact Nat.le_refl _
  | succ n ih =>
    intro c f
    unfold preSlot
    split
    · exact Nat.le_trans (ih _ _) (processPass_len_le _ _)
    · exact Nat.le_refl _

theorem postStop_len_le (c : H2Conn) :
    (postStop c).1.streams.length ≤ c.streams.length := by
  unfold postStop
  split
  · exact processPass_len_le _ _
  · exact Nat.le_refl _

theorem recvBatch_len_le : ∀ (fs : List FrameIn) (c : H2Conn),
    c.streams.length ≤ Extracted.h2MaxStreams →
    (recvBatch c fs).1.streams.length ≤ Extracted.h2MaxStreams := by
  intro fs
  induction fs with
  | nil => intro c h; simpa [recvBatch] using h
  | cons f fs ihf =>
    intro c h
    simp only [recvBatch]
    apply ihf
    exact Nat.le_trans (postStop_len_le _)
      (recvFrame_len_le _ f (Nat.le_trans (preSlot_len_le 4096 c f) h))

theorem processQuiesce_len_le : ∀ (fuel : Nat) (c : H2Conn),
    (processQuiesce fuel c).1.streams.length ≤ c.streams.length := by
  intro fuel
  induction fuel with
  | zero => intro c; simp [processQuiesce]
  | succ n ihn =>
    intro c
    simp only [processQuiesce]
    split
    · exact processPass_len_le c 262144
    · exact Nat.le_trans (ihn _) (processPass_len_le c 262144)

end LtVerif
