/-
  Invariants of the HTTP/2 flow-control model (Model/H2Flow.lean).
-/
import LtVerif.Model.H2Flow
namespace LtVerif

/-- exact accounting for one stream: window = credit granted − DATA sent -/
def SInv (s : FcStream) : Prop := s.swin = s.credit - (s.sent : Int)

/-- exact accounting for the connection -/
structure CInv (c : FcConn) : Prop where
  conn : c.swin = c.credit - (c.sent : Int)
  init : c.initWin = c.clientInit
  streams : ∀ s ∈ c.streams, SInv s

theorem sendAmount_le (swinS swinC : Int) (pending dlen : Nat) :
    sendAmount swinS swinC pending dlen = 0 ∨
    ((sendAmount swinS swinC pending dlen : Int) ≤ swinS ∧
     (sendAmount swinS swinC pending dlen : Int) ≤ swinC ∧
     sendAmount swinS swinC pending dlen ≤ pending ∧
     sendAmount swinS swinC pending dlen ≤ dlen) := by
  unfold sendAmount
  by_cases h : swinS < 0 ∨ swinC < 0
  · left; simp [h]
  · right
    simp only [h, if_false]
    split
    · omega
    · split
      · omega
      · omega

theorem sendAmount_pos_of (swinS swinC : Int) (pending dlen : Nat)
    (hs : 0 < swinS) (hc : 0 < swinC) (hp : 0 < pending) (hd : 0 < dlen)
    (hbig : pending < 2048 ∨ (2048 ≤ swinS ∧ 2048 ≤ swinC ∧ 2048 ≤ dlen) ∨
            ((pending : Int) ≤ swinS ∧ (pending : Int) ≤ swinC ∧ pending ≤ dlen)) :
    0 < sendAmount swinS swinC pending dlen := by
  unfold sendAmount
  have h : ¬ (swinS < 0 ∨ swinC < 0) := by omega
  simp only [h, if_false]
  split
  · omega
  · split
    · omega
    · omega

theorem streamTurn_spec (cswin : Int) (budget : Nat) (s : FcStream) :
    (streamTurn cswin budget s).1.credit = s.credit ∧ (streamTurn cswin budget s).1.id = s.id ∧
    (streamTurn cswin budget s).1.swin = s.swin - (streamTurn cswin budget s).2 ∧
    (streamTurn cswin budget s).1.sent = s.sent + (streamTurn cswin budget s).2 ∧
    (streamTurn cswin budget s).1.pending = s.pending - (streamTurn cswin budget s).2 ∧
    ((streamTurn cswin budget s).2 = 0 ∨
      (((streamTurn cswin budget s).2 : Int) ≤ s.swin ∧ ((streamTurn cswin budget s).2 : Int) ≤ cswin ∧
       (streamTurn cswin budget s).2 ≤ budget ∧ (streamTurn cswin budget s).2 ≤ s.pending)) := by
  unfold streamTurn
  by_cases h1 : s.st ≠ .open
  · simp [h1]
  · simp only [h1, if_false]
    by_cases h2 : s.pending = 0
    · simp [h2]
    · simp only [h2, if_false]
      by_cases h3 : budget = 0
      · simp [h3]
      · simp only [h3, if_false]
        refine ⟨trivial, trivial, trivial, trivial, trivial, ?_⟩
        rcases sendAmount_le s.swin cswin s.pending (min (perCallCap s) budget) with h0 | ⟨ha, hb, hc, hd⟩
        · left; exact h0
        · right
          refine ⟨ha, hb, ?_, hc⟩
          have : min (perCallCap s) budget ≤ budget := Nat.min_le_right _ _
          omega

theorem streamTurn_SInv {cswin : Int} {budget : Nat} {s : FcStream} (h : SInv s) :
    SInv (streamTurn cswin budget s).1 := by
  obtain ⟨hc, _, hsw, hse, _, _⟩ := streamTurn_spec cswin budget s
  unfold SInv at *
  rw [hsw, hc, hse, h]
  push_cast
  omega

/-- the pass bookkeeping: connection window decreases by exactly the total sent, and the
    total is within the connection window it started from (or zero) -/
theorem writePassAux_spec : ∀ (ss : List FcStream) (cswin : Int) (budget : Nat),
    (writePassAux cswin budget ss).cswin = cswin - ((writePassAux cswin budget ss).total : Int) ∧
    ((writePassAux cswin budget ss).total = 0 ∨ ((writePassAux cswin budget ss).total : Int) ≤ cswin) ∧
    (writePassAux cswin budget ss).total ≤ budget ∧
    ((∀ s ∈ ss, SInv s) → ∀ s ∈ (writePassAux cswin budget ss).streams, SInv s) := by
  intro ss
  induction ss with
  | nil => intro cswin budget; simp [writePassAux]
  | cons s rest ih =>
    intro cswin budget
    obtain ⟨_, _, _, _, _, hn⟩ := streamTurn_spec cswin budget s
    obtain ⟨h1, h2, h3, h5⟩ :=
      ih (cswin - ((streamTurn cswin budget s).2 : Int)) (budget - (streamTurn cswin budget s).2)
    simp only [writePassAux]
    generalize hT : (streamTurn cswin budget s).2 = n at *
    generalize hR : writePassAux (cswin - (n : Int)) (budget - n) rest = r at *
    refine ⟨?_, ?_, ?_, ?_⟩
    · rw [h1]; push_cast; omega
    · rcases hn with hn | ⟨_, hb, hc, _⟩
      · rcases h2 with h2 | h2
        · left; omega
        · right; push_cast; omega
      · rcases h2 with h2 | h2
        · right; push_cast; omega
        · right; push_cast; omega
    · rcases hn with hn | ⟨_, _, hc, _⟩ <;> omega
    · intro hall x hx
      simp only [List.mem_cons] at hx
      rcases hx with hx | hx
      · subst hx; exact streamTurn_SInv (hall s (by simp))
      · exact h5 (fun y hy => hall y (by simp [hy])) x hx

theorem mem_insertPrio {s y : FcStream} : ∀ {l : List FcStream}, y ∈ insertPrio s l ↔ y = s ∨ y ∈ l := by
  intro l
  induction l with
  | nil => simp [insertPrio]
  | cons x xs ih =>
    simp only [insertPrio]
    split
    · simp
    · simp only [List.mem_cons, ih]
      constructor
      · rintro (h | h | h)
        · right; left; exact h
        · left; exact h
        · right; right; exact h
      · rintro (h | h | h)
        · right; left; exact h
        · left; exact h
        · right; right; exact h

theorem CInv.init_holds (h : Extracted.h2ConnSendWindow = rfcInitialWindow ∧
                             Extracted.h2PeerInitialWindow = rfcInitialWindow) : CInv FcConn.init := by
  refine ⟨?_, ?_, ?_⟩
  · simp [FcConn.init, h.1]
  · simp [FcConn.init, h.2]
  · intro s hs; simp [FcConn.init] at hs

theorem CInv.openStream {c : FcConn} (inv : CInv c) (id body : Nat) (inc : Bool) :
    CInv (openStream c id body inc) := by
  refine ⟨inv.conn, inv.init, ?_⟩
  intro s hs
  simp only [LtVerif.openStream, mem_insertPrio] at hs
  rcases hs with hs | hs
  · subst hs; simp [SInv, inv.init]
  · exact inv.streams s hs

theorem CInv.applyInitialWindow {c : FcConn} (inv : CInv c) (v : Nat) :
    CInv (applyInitialWindow c v).1 := by
  unfold LtVerif.applyInitialWindow
  split
  · exact ⟨inv.conn, inv.init, inv.streams⟩
  · split
    · exact ⟨inv.conn, inv.init, inv.streams⟩
    · refine ⟨inv.conn, rfl, ?_⟩
      intro s hs
      simp only [List.mem_map] at hs
      obtain ⟨s0, hs0, rfl⟩ := hs
      have h0 := inv.streams s0 hs0
      split
      · unfold SInv at *
        simp only
        rw [h0, inv.init]
        omega
      · exact h0

theorem mem_updFirst {sid : Nat} {f : FcStream → FcStream} : ∀ {l : List FcStream} {s : FcStream},
    l.find? (·.id = sid) = some s → ∀ y ∈ updFirst sid f l, y ∈ l ∨ y = f s := by
  intro l
  induction l with
  | nil => intro s h; simp at h
  | cons x xs ih =>
    intro s h y hy
    simp only [updFirst] at hy
    by_cases hx : x.id = sid
    · simp only [hx, if_true, List.mem_cons] at hy
      have hs : x = s := by simpa [List.find?, hx] using h
      rcases hy with hy | hy
      · right; rw [hy, hs]
      · left; simp [hy]
    · simp only [hx, if_false, List.mem_cons] at hy
      have h' : xs.find? (·.id = sid) = some s := by simpa [List.find?, hx] using h
      rcases hy with hy | hy
      · left; simp [hy]
      · rcases ih h' y hy with h1 | h1
        · left; simp [h1]
        · right; exact h1

theorem find?_id_mem {sid : Nat} : ∀ {l : List FcStream} {s : FcStream},
    l.find? (·.id = sid) = some s → s ∈ l := by
  intro l s h
  exact List.mem_of_find?_eq_some h

theorem CInv.windowUpdate {c : FcConn} (inv : CInv c) (sid inc : Nat) :
    CInv (windowUpdate c sid inc).1 := by
  unfold LtVerif.windowUpdate
  by_cases h0 : sid = 0
  · simp only [h0, if_true]
    split
    · exact ⟨inv.conn, inv.init, inv.streams⟩
    · split
      · exact ⟨inv.conn, inv.init, inv.streams⟩
      · refine ⟨?_, inv.init, inv.streams⟩
        simp only; rw [inv.conn]; omega
  · simp only [h0, if_false]
    split
    · split
      · exact ⟨inv.conn, inv.init, inv.streams⟩
      · exact inv
    · rename_i s hs
      have hmem := find?_id_mem hs
      have hupd : ∀ (f : FcStream → FcStream), SInv (f s) →
          CInv { c with streams := updFirst sid f c.streams } := by
        intro f hf
        refine ⟨inv.conn, inv.init, ?_⟩
        intro y hy
        rcases mem_updFirst hs y hy with h1 | h1
        · exact inv.streams y h1
        · rw [h1]; exact hf
      have hsi := inv.streams s hmem
      split
      · exact inv
      · split
        · exact hupd _ (by unfold SInv at *; simpa using hsi)
        · split
          · exact hupd _ (by unfold SInv at *; simpa using hsi)
          · exact hupd _ (by unfold SInv at *; simp only; rw [hsi]; omega)

theorem CInv.writePass {c : FcConn} (inv : CInv c) (budget : Nat) : CInv (writePass c budget).1 := by
  unfold LtVerif.writePass
  by_cases h : c.goaway.isSome = true
  · simp only [h, if_true]; exact inv
  · simp only [h]
    obtain ⟨h1, _, _, h5⟩ := writePassAux_spec c.streams c.swin budget
    refine ⟨?_, inv.init, ?_⟩
    · simp only [Bool.false_eq_true, if_false]
      rw [h1, inv.conn]; push_cast; omega
    · simp only [Bool.false_eq_true, if_false]
      exact h5 inv.streams

theorem CInv.step {c : FcConn} (inv : CInv c) (e : FcEv) : CInv (fcStep c e).1 := by
  cases e with
  | openStream id body inc =>
    simp only [fcStep]; split
    · exact inv
    · exact inv.openStream id body inc
  | settingsInitialWindow v =>
    simp only [fcStep]; split
    · exact inv
    · exact inv.applyInitialWindow v
  | windowUpdate sid inc =>
    simp only [fcStep]; split
    · exact inv
    · exact inv.windowUpdate sid inc
  | write budget => simp only [fcStep]; exact inv.writePass budget

theorem CInv.run {c : FcConn} (inv : CInv c) (es : List FcEv) : CInv (fcRun c es).1 := by
  induction es generalizing c with
  | nil => simpa [fcRun] using inv
  | cons e rest ih =>
    simp only [fcRun]
    exact ih (inv.step e)

/-- successive turns of one stream; the connection window is charged with what was sent -/
def turns : FcStream → Int → List Nat → FcStream × Int
  | s, cw, [] => (s, cw)
  | s, cw, b :: bs => turns (streamTurn cw b s).1 (cw - (streamTurn cw b s).2) bs

theorem sendAmount_enough (swinS swinC : Int) (pending dlen : Nat)
    (hs : (pending : Int) ≤ swinS) (hc : (pending : Int) ≤ swinC) (hd : 2048 ≤ dlen) :
    sendAmount swinS swinC pending dlen = min pending dlen := by
  unfold sendAmount
  have h : ¬ (swinS < 0 ∨ swinC < 0) := by omega
  simp only [h, if_false]
  split
  · omega
  · split
    · omega
    · omega

theorem turns_not_open : ∀ (bs : List Nat) (s : FcStream) (cw : Int), s.st ≠ .open →
    turns s cw bs = (s, cw) := by
  intro bs
  induction bs with
  | nil => intro s cw _; rfl
  | cons b bs ih =>
    intro s cw h
    have : streamTurn cw b s = (s, 0) := by simp [streamTurn, h]
    simp only [turns, this]
    simpa using ih s cw h

theorem perCallCap_ge (s : FcStream) : 2048 ≤ perCallCap s := by
  unfold perCallCap; split <;> omega

theorem streamTurn_enough (s : FcStream) (cw : Int) (b : Nat)
    (hopen : s.st = .open) (hp : s.pending ≠ 0) (hb : 2048 ≤ b)
    (hs : (s.pending : Int) ≤ s.swin) (hc : (s.pending : Int) ≤ cw) :
    (streamTurn cw b s).2 = min s.pending (min (perCallCap s) b) ∧
    (streamTurn cw b s).1.pending = s.pending - (streamTurn cw b s).2 ∧
    (streamTurn cw b s).1.swin = s.swin - (streamTurn cw b s).2 ∧
    (streamTurn cw b s).1.sent = s.sent + (streamTurn cw b s).2 ∧
    (streamTurn cw b s).1.st = (if s.pending - (streamTurn cw b s).2 = 0 then .closed else .open) := by
  have hcap := perCallCap_ge s
  have hd : 2048 ≤ min (perCallCap s) b := by omega
  have hb0 : b ≠ 0 := by omega
  have hn := sendAmount_enough s.swin cw s.pending (min (perCallCap s) b) hs hc hd
  unfold streamTurn
  simp only [hopen, ne_eq, not_true_eq_false, if_false, hp, hb0, hn]
  first | trivial | (refine ⟨trivial, trivial, trivial, trivial, ?_⟩; split <;> simp_all)

theorem turns_complete : ∀ (bs : List Nat) (s : FcStream) (cw : Int),
    s.st = .open → (s.pending : Int) ≤ s.swin → (s.pending : Int) ≤ cw →
    (∀ b ∈ bs, 2048 ≤ b) → s.pending < 2048 * bs.length →
    (turns s cw bs).1.st = .closed ∧ (turns s cw bs).1.pending = 0 ∧
    (turns s cw bs).1.sent = s.sent + s.pending := by
  intro bs
  induction bs with
  | nil => intro s cw _ _ _ _ hl; simp at hl
  | cons b bs ih =>
    intro s cw hopen hs hc hb hl
    have hb0 : 2048 ≤ b := hb b (by simp)
    have hbs : ∀ x ∈ bs, 2048 ≤ x := fun x hx => hb x (by simp [hx])
    simp only [turns]
    by_cases hp : s.pending = 0
    · have h1 : streamTurn cw b s = ({ s with st := .closed }, 0) := by
        simp [streamTurn, hopen, hp]
      rw [h1, turns_not_open bs _ _ (by simp)]
      simp [hp]
    · obtain ⟨hn, hpe, hsw, hse, hst⟩ := streamTurn_enough s cw b hopen hp hb0 hs hc
      have hcap := perCallCap_ge s
      generalize hT : streamTurn cw b s = r at *
      by_cases hall : s.pending - r.2 = 0
      · have hclosed : r.1.st ≠ .open := by rw [hst]; simp [hall]
        rw [turns_not_open bs _ _ hclosed]
        refine ⟨by rw [hst]; simp [hall], by dsimp only; omega, by dsimp only; omega⟩
      · have hopen' : r.1.st = .open := by rw [hst]; simp [hall]
        have hlen : (List.length (b :: bs)) = bs.length + 1 := rfl
        rw [hlen] at hl
        obtain ⟨a1, a2, a3⟩ := ih r.1 (cw - r.2) hopen' (by rw [hpe, hsw]; omega) (by rw [hpe]; omega) hbs
          (by rw [hpe]; omega)
        refine ⟨a1, a2, ?_⟩
        rw [a3, hse, hpe]; omega

theorem writePassAux_mem : ∀ (ss : List FcStream) (cswin : Int) (budget : Nat),
    ∀ s' ∈ (writePassAux cswin budget ss).streams, ∃ s ∈ ss, ∃ cw b, s' = (streamTurn cw b s).1 := by
  intro ss
  induction ss with
  | nil => intro cswin budget s' h; simp [writePassAux] at h
  | cons s rest ih =>
    intro cswin budget s' h
    simp only [writePassAux, List.mem_cons] at h
    rcases h with h | h
    · exact ⟨s, by simp, cswin, budget, h⟩
    · obtain ⟨s0, hs0, cw, b, e⟩ := ih _ _ s' h
      exact ⟨s0, by simp [hs0], cw, b, e⟩


/-- body octets still to be sent on open streams -/
def openPending : List FcStream → Nat
  | [] => 0
  | s :: r => (if s.st = .open then s.pending else 0) + openPending r

/-- successive write passes with the given budgets -/
def passes : FcConn → List Nat → FcConn
  | c, [] => c
  | c, b :: bs => passes (writePass c b).1 bs

theorem streamTurn_pos_of (s : FcStream) (cswin : Int) (budget : Nat)
    (hopen : s.st = .open) (hp : 0 < s.pending) (hb : 2048 ≤ budget)
    (hwin : (s.pending : Int) ≤ s.swin ∧ (s.pending : Int) ≤ cswin) :
    0 < (streamTurn cswin budget s).2 := by
  have hcap := perCallCap_ge s
  obtain ⟨hn, _⟩ := streamTurn_enough s cswin budget hopen (by omega) hb hwin.1 hwin.2
  rw [hn]; omega

theorem streamTurn_open {cswin : Int} {budget : Nat} {s : FcStream}
    (h : (streamTurn cswin budget s).1.st = .open) : s.st = .open := by
  unfold streamTurn at h
  by_cases a : s.st ≠ .open
  · simp [a] at h
  · simpa using a

theorem streamTurn_openPending (cswin : Int) (budget : Nat) (s : FcStream) :
    (if (streamTurn cswin budget s).1.st = .open then (streamTurn cswin budget s).1.pending else 0)
      + (streamTurn cswin budget s).2 = (if s.st = .open then s.pending else 0) := by
  unfold streamTurn
  by_cases a : s.st ≠ .open
  · simp [a]
  · have a' : s.st = .open := by simpa using a
    simp only [a', ne_eq, not_true_eq_false, if_false, if_true]
    by_cases hp : s.pending = 0
    · simp [hp]
    · simp only [hp, if_false]
      by_cases hb : budget = 0
      · simp [hb, a']
      · simp only [hb, if_false]
        rcases sendAmount_le s.swin cswin s.pending (min (perCallCap s) budget) with h0 | ⟨_, _, hc, _⟩
        · simp [h0, hp]
        · generalize sendAmount s.swin cswin s.pending (min (perCallCap s) budget) = n at *
          by_cases hz : s.pending - n = 0
          · simp [hz]; omega
          · simp [hz, a']; omega

theorem writePassAux_openPending : ∀ (ss : List FcStream) (cswin : Int) (budget : Nat),
    openPending (writePassAux cswin budget ss).streams + (writePassAux cswin budget ss).total
      = openPending ss := by
  intro ss
  induction ss with
  | nil => intro cswin budget; simp [writePassAux, openPending]
  | cons s rest ih =>
    intro cswin budget
    have h1 := streamTurn_openPending cswin budget s
    have h2 := ih (cswin - ((streamTurn cswin budget s).2 : Int)) (budget - (streamTurn cswin budget s).2)
    simp only [writePassAux, openPending]
    omega

/-- **pass progress**: if some open stream has data pending and enough credit for it on both
    levels, a write pass with a budget of at least 2048 octets sends something -/
theorem writePassAux_progress : ∀ (ss : List FcStream) (cswin : Int) (budget : Nat),
    2048 ≤ budget →
    (∃ s ∈ ss, s.st = .open ∧ 0 < s.pending ∧ (s.pending : Int) ≤ s.swin ∧ (s.pending : Int) ≤ cswin) →
    0 < (writePassAux cswin budget ss).total := by
  intro ss
  induction ss with
  | nil => intro cswin budget _ h; obtain ⟨s, hs, _⟩ := h; simp at hs
  | cons t rest ih =>
    intro cswin budget hb h
    simp only [writePassAux]
    by_cases hn : (streamTurn cswin budget t).2 = 0
    · obtain ⟨s, hs, ho, hp, h1, h2⟩ := h
      simp only [List.mem_cons] at hs
      rcases hs with hs | hs
      · subst hs
        have := streamTurn_pos_of s cswin budget ho hp hb ⟨h1, h2⟩
        omega
      · have := ih (cswin - ((streamTurn cswin budget t).2 : Int)) (budget - (streamTurn cswin budget t).2)
          (by rw [hn]; omega) ⟨s, hs, ho, hp, h1, by rw [hn]; simpa using h2⟩
        omega
    · omega

theorem openPending_pos {ss : List FcStream} (h : 0 < openPending ss) :
    ∃ s ∈ ss, s.st = .open ∧ 0 < s.pending ∧ s.pending ≤ openPending ss := by
  induction ss with
  | nil => simp [openPending] at h
  | cons t rest ih =>
    simp only [openPending] at h ⊢
    by_cases ht : t.st = .open ∧ 0 < t.pending
    · exact ⟨t, by simp, ht.1, ht.2, by simp only [ht.1, if_true]; omega⟩
    · have : 0 < openPending rest := by
        by_cases a : t.st = .open
        · have : t.pending = 0 := Nat.eq_zero_of_not_pos (fun hp => ht ⟨a, hp⟩)
          simp [a, this] at h; exact h
        · simp [a] at h; exact h
      obtain ⟨s, hs, ho, hp, hle⟩ := ih this
      exact ⟨s, by simp [hs], ho, hp, by omega⟩


/-- credit suffices for everything still to be sent: every open stream's window covers its
    remainder and the connection window covers the sum -/
structure Ample (c : FcConn) : Prop where
  noGoaway : c.goaway = none
  streams : ∀ s ∈ c.streams, s.st = .open → (s.pending : Int) ≤ s.swin
  conn : (openPending c.streams : Int) ≤ c.swin

theorem writePass_ample {c : FcConn} (h : Ample c) (b : Nat) :
    Ample (writePass c b).1 ∧
    openPending (writePass c b).1.streams + (writePassAux c.swin b c.streams).total = openPending c.streams ∧
    (writePass c b).1.sent = c.sent + (writePassAux c.swin b c.streams).total := by
  have hg : c.goaway.isSome = false := by simp [h.noGoaway]
  obtain ⟨h1, _, _, _⟩ := writePassAux_spec c.streams c.swin b
  have h2 := writePassAux_openPending c.streams c.swin b
  unfold writePass
  simp only [hg, Bool.false_eq_true, if_false]
  refine ⟨⟨h.noGoaway, ?_, ?_⟩, h2, trivial⟩
  · intro s' hs' ho
    obtain ⟨s, hs, cw, bb, e⟩ := writePassAux_mem _ _ _ s' hs'
    subst e
    have hso := streamTurn_open ho
    have := h.streams s hs hso
    obtain ⟨_, _, hsw, _, hpe, hn⟩ := streamTurn_spec cw bb s
    rw [hsw, hpe]
    rcases hn with hn | ⟨_, _, _, hle⟩ <;> omega
  · have := h.conn
    simp only
    rw [h1]; omega

/-- **Every response completes.**  Once the credit granted covers what is still to be sent
    (per stream and on the connection), every sequence of write passes with budgets of at
    least 2048 octets drains all open streams, however many there are and in whatever order
    the scheduler visits them: after at most as many passes as there are octets pending
    nothing is pending on any open stream, and exactly the pending octets were sent. -/
theorem passes_complete : ∀ (bs : List Nat) (c : FcConn), Ample c → (∀ b ∈ bs, 2048 ≤ b) →
    openPending c.streams ≤ bs.length →
    openPending (passes c bs).streams = 0 ∧ (passes c bs).sent = c.sent + openPending c.streams := by
  intro bs
  induction bs with
  | nil => intro c _ _ hl; simp at hl; simp [passes, hl]
  | cons b bs ih =>
    intro c ha hb hl
    have hb0 : 2048 ≤ b := hb b (by simp)
    have hbs : ∀ x ∈ bs, 2048 ≤ x := fun x hx => hb x (by simp [hx])
    obtain ⟨ha', hsum, hsent⟩ := writePass_ample ha b
    simp only [passes]
    by_cases hz : openPending c.streams = 0
    · have h0 : (writePassAux c.swin b c.streams).total = 0 := by omega
      have := ih (writePass c b).1 ha' hbs (by omega)
      refine ⟨this.1, ?_⟩
      rw [this.2, hsent]; omega
    · obtain ⟨s, hs, ho, hp, hle⟩ := openPending_pos (Nat.pos_of_ne_zero hz)
      have hprog := writePassAux_progress c.streams c.swin b hb0
        ⟨s, hs, ho, hp, ha.streams s hs ho, by have := ha.conn; omega⟩
      have hlen : (b :: bs).length = bs.length + 1 := rfl
      have := ih (writePass c b).1 ha' hbs (by omega)
      refine ⟨this.1, ?_⟩
      rw [this.2, hsent]; omega


/-- a stream window fits int32 (with room), and a live stream's window is never more than
    2^31-1 below the current initial window -/
def SRange (initWin : Int) (s : FcStream) : Prop :=
  s.swin ≤ int32Max ∧ -int32Max ≤ s.swin ∧ (s.live = true → initWin - int32Max ≤ s.swin)

structure RInv (c : FcConn) : Prop where
  init : 0 ≤ c.initWin ∧ c.initWin ≤ int32Max
  conn : 0 ≤ c.swin ∧ c.swin ≤ int32Max
  streams : ∀ s ∈ c.streams, SRange c.initWin s

theorem streamTurn_range {iw cswin : Int} {budget : Nat} {s : FcStream} (hi : 0 ≤ iw ∧ iw ≤ int32Max)
    (h : SRange iw s) : SRange iw (streamTurn cswin budget s).1 := by
  obtain ⟨_, _, hsw, _, _, hn⟩ := streamTurn_spec cswin budget s
  unfold SRange int32Max at *
  obtain ⟨h1, h2, h3⟩ := h
  rcases hn with hn | ⟨ha, _, _, _⟩
  · refine ⟨by rw [hsw, hn]; simpa using h1, by rw [hsw, hn]; simpa using h2, ?_⟩
    intro hl
    rw [hsw, hn]
    have : s.live = true := by
      revert hl
      unfold streamTurn FcStream.live
      by_cases a : s.st ≠ .open
      · simp [a]
      · simp only [a, if_false]
        have a' : s.st = .open := by simpa using a
        simp [a']
    simpa using h3 this
  · refine ⟨by rw [hsw]; omega, by rw [hsw]; omega, ?_⟩
    intro _; rw [hsw]; omega

theorem RInv.init_holds (h : Extracted.h2ConnSendWindow = rfcInitialWindow ∧
                             Extracted.h2PeerInitialWindow = rfcInitialWindow) : RInv FcConn.init := by
  refine ⟨?_, ?_, ?_⟩
  · simp [FcConn.init, h.2, rfcInitialWindow, int32Max]
  · simp [FcConn.init, h.1, rfcInitialWindow, int32Max]
  · intro s hs; simp [FcConn.init] at hs

theorem RInv.openStream {c : FcConn} (inv : RInv c) (id body : Nat) (inc : Bool) :
    RInv (openStream c id body inc) := by
  refine ⟨inv.init, inv.conn, ?_⟩
  intro s hs
  simp only [LtVerif.openStream, mem_insertPrio] at hs
  rcases hs with hs | hs
  · subst hs
    have := inv.init
    unfold SRange int32Max at *
    simp only [LtVerif.openStream]
    omega
  · exact inv.streams s hs

theorem RInv.writePass {c : FcConn} (inv : RInv c) (budget : Nat) : RInv (writePass c budget).1 := by
  unfold LtVerif.writePass
  by_cases h : c.goaway.isSome = true
  · simp only [h, if_true]; exact inv
  · simp only [h]
    obtain ⟨h1, h2, _, _⟩ := writePassAux_spec c.streams c.swin budget
    simp only [Bool.false_eq_true, if_false]
    refine ⟨inv.init, ?_, ?_⟩
    · have := inv.conn
      simp only
      rcases h2 with h2 | h2 <;> omega
    · intro s' hs'
      obtain ⟨s, hs, cw, b, e⟩ := writePassAux_mem _ _ _ s' hs'
      rw [e]
      exact streamTurn_range inv.init (inv.streams s hs)


theorem RInv.applyInitialWindow {c : FcConn} (inv : RInv c) (v : Nat) :
    RInv (applyInitialWindow c v).1 := by
  unfold LtVerif.applyInitialWindow
  split
  · exact ⟨inv.init, inv.conn, inv.streams⟩
  · rename_i hv
    split
    · exact ⟨inv.init, inv.conn, inv.streams⟩
    · rename_i hany
      have hi := inv.init
      refine ⟨?_, inv.conn, ?_⟩
      · simp only; unfold int32Max at *; omega
      · intro s hs
        simp only [List.mem_map] at hs
        obtain ⟨s0, hs0, rfl⟩ := hs
        obtain ⟨h1, h2, h3⟩ := inv.streams s0 hs0
        have hno : ¬ (s0.live = true ∧ winOverflows s0.swin ((v : Int) - c.initWin) = true) := by
          intro hh
          apply hany
          simp only [List.any_eq_true, Bool.and_eq_true]
          exact ⟨s0, hs0, hh⟩
        by_cases hl : s0.live = true
        · simp only [hl, if_true]
          have hov : ¬ winOverflows s0.swin ((v : Int) - c.initWin) = true := fun h => hno ⟨hl, h⟩
          have h3' := h3 hl
          unfold winOverflows at hov
          unfold SRange int32Max int32Min at *
          have hlive : ({ s0 with swin := s0.swin + ((v : Int) - c.initWin),
                                   credit := s0.credit + ((v : Int) - c.clientInit) } : FcStream).live = true := by
            simpa [FcStream.live] using hl
          simp only
          by_cases hd : (v : Int) - c.initWin ≥ 0
          · simp only [hd, if_true, decide_eq_true_eq] at hov
            refine ⟨by omega, by omega, fun _ => by omega⟩
          · simp only [hd, if_false, decide_eq_true_eq] at hov
            refine ⟨by omega, by omega, fun _ => by omega⟩
        · simp only [hl]
          unfold SRange at *
          refine ⟨h1, h2, fun h => absurd h hl⟩

theorem RInv.windowUpdate {c : FcConn} (inv : RInv c) (sid inc : Nat) :
    RInv (windowUpdate c sid inc).1 := by
  unfold LtVerif.windowUpdate
  by_cases h0 : sid = 0
  · simp only [h0, if_true]
    split
    · exact ⟨inv.init, inv.conn, inv.streams⟩
    · split
      · exact ⟨inv.init, inv.conn, inv.streams⟩
      · rename_i hov
        have := inv.conn
        refine ⟨inv.init, ?_, inv.streams⟩
        simp only; unfold int32Max at *; omega
  · simp only [h0, if_false]
    split
    · split
      · exact ⟨inv.init, inv.conn, inv.streams⟩
      · exact inv
    · rename_i s hs
      have hmem := List.mem_of_find?_eq_some hs
      have hupd : ∀ (f : FcStream → FcStream), SRange c.initWin (f s) →
          RInv { c with streams := updFirst sid f c.streams } := by
        intro f hf
        refine ⟨inv.init, inv.conn, ?_⟩
        intro y hy
        rcases mem_updFirst hs y hy with h1 | h1
        · exact inv.streams y h1
        · rw [h1]; exact hf
      obtain ⟨h1, h2, h3⟩ := inv.streams s hmem
      split
      · exact inv
      · rename_i hst
        split
        · exact hupd _ ⟨h1, h2, fun h => by simp [FcStream.live] at h⟩
        · split
          · exact hupd _ ⟨h1, h2, fun h => by simp [FcStream.live] at h⟩
          · rename_i hov
            have hl : s.live = true := by
              unfold FcStream.live
              cases hs' : s.st <;> simp_all
            have h3' := h3 hl
            refine hupd _ ?_
            unfold SRange int32Max at *
            refine ⟨by simp only; omega, by simp only; omega, fun _ => by simp only; omega⟩

theorem RInv.step {c : FcConn} (inv : RInv c) (e : FcEv) : RInv (fcStep c e).1 := by
  cases e with
  | openStream id body inc =>
    simp only [fcStep]; split
    · exact inv
    · exact inv.openStream id body inc
  | settingsInitialWindow v =>
    simp only [fcStep]; split
    · exact inv
    · exact inv.applyInitialWindow v
  | windowUpdate sid inc =>
    simp only [fcStep]; split
    · exact inv
    · exact inv.windowUpdate sid inc
  | write budget => simp only [fcStep]; exact inv.writePass budget

theorem RInv.run {c : FcConn} (inv : RInv c) (es : List FcEv) : RInv (fcRun c es).1 := by
  induction es generalizing c with
  | nil => simpa [fcRun] using inv
  | cons e rest ih =>
    simp only [fcRun]
    exact ih (inv.step e)


end LtVerif
