/-
  Invariants of the HTTP/2 flow-control model (Model/H2Flow.lean).
-/
import LtVerif.Model.H2Flow
namespace LtVerif

/-- exact accounting for one stream: window = credit granted − DATA sent -/
def SInv (s : FcStream) : Prop := s.swin = s.credit - (s.sent : Int)

/-- exact accounting for the connection -/
structure CInv (c : FcConn) : Prop where
  conn : c.swin = c.credit - (c.sent : Int)
  init : c.initWin = c.clientInit
  streams : ∀ s ∈ c.streams, SInv s

theorem sendAmount_le (swinS swinC : Int) (pending dlen : Nat) :
    sendAmount swinS swinC pending dlen = 0 ∨
    ((sendAmount swinS swinC pending dlen : Int) ≤ swinS ∧
     (sendAmount swinS swinC pending dlen : Int) ≤ swinC ∧
     sendAmount swinS swinC pending dlen ≤ pending ∧
     sendAmount swinS swinC pending dlen ≤ dlen) := by
  unfold sendAmount
  by_cases h : swinS < 0 ∨ swinC < 0
  · left; simp [h]
  · right
    simp only [h, if_false]
    split
    · omega
    · split
      · omega
      · omega

theorem sendAmount_pos_of (swinS swinC : Int) (pending dlen : Nat)
    (hs : 0 < swinS) (hc : 0 < swinC) (hp : 0 < pending) (hd : 0 < dlen)
    (hbig : pending < 2048 ∨ (2048 ≤ swinS ∧ 2048 ≤ swinC ∧ 2048 ≤ dlen) ∨
            ((pending : Int) ≤ swinS ∧ (pending : Int) ≤ swinC ∧ pending ≤ dlen)) :
    0 < sendAmount swinS swinC pending dlen := by
  unfold sendAmount
  have h : ¬ (swinS < 0 ∨ swinC < 0) := by omega
  simp only [h, if_false]
  split
  · omega
  · split
    · omega
    · omega

theorem streamTurn_spec (cswin : Int) (budget : Nat) (s : FcStream) :
    (streamTurn cswin budget s).1.credit = s.credit ∧ (streamTurn cswin budget s).1.id = s.id ∧
    (streamTurn cswin budget s).1.swin = s.swin - (streamTurn cswin budget s).2 ∧
    (streamTurn cswin budget s).1.sent = s.sent + (streamTurn cswin budget s).2 ∧
    (streamTurn cswin budget s).1.pending = s.pending - (streamTurn cswin budget s).2 ∧
    ((streamTurn cswin budget s).2 = 0 ∨
      (((streamTurn cswin budget s).2 : Int) ≤ s.swin ∧ ((streamTurn cswin budget s).2 : Int) ≤ cswin ∧
       (streamTurn cswin budget s).2 ≤ budget ∧ (streamTurn cswin budget s).2 ≤ s.pending)) := by
  unfold streamTurn
  by_cases h1 : s.st ≠ .open
  · simp [h1]
  · simp only [h1, if_false]
    by_cases h2 : s.pending = 0
    · simp [h2]
    · simp only [h2, if_false]
      by_cases h3 : budget = 0
      · simp [h3]
      · simp only [h3, if_false]
        refine ⟨trivial, trivial, trivial, trivial, trivial, ?_⟩
        rcases sendAmount_le s.swin cswin s.pending (min (perCallCap s) budget) with h0 | ⟨ha, hb, hc, hd⟩
        · left; exact h0
        · right
          refine ⟨ha, hb, ?_, hc⟩
          have : min (perCallCap s) budget ≤ budget := Nat.min_le_right _ _
          omega

theorem streamTurn_SInv {cswin : Int} {budget : Nat} {s : FcStream} (h : SInv s) :
    SInv (streamTurn cswin budget s).1 := by
  obtain ⟨hc, _, hsw, hse, _, _⟩ := streamTurn_spec cswin budget s
  unfold SInv at *
  rw [hsw, hc, hse, h]
  push_cast
  omega

/-- the pass bookkeeping: connection window decreases by exactly the total sent, and the
    total is within the connection window it started from (or zero) -/
theorem writePassAux_spec : ∀ (ss : List FcStream) (cswin : Int) (budget : Nat),
    (writePassAux cswin budget ss).cswin = cswin - ((writePassAux cswin budget ss).total : Int) ∧
    ((writePassAux cswin budget ss).total = 0 ∨ ((writePassAux cswin budget ss).total : Int) ≤ cswin) ∧
    (writePassAux cswin budget ss).total ≤ budget ∧
    ((∀ s ∈ ss, SInv s) → ∀ s ∈ (writePassAux cswin budget ss).streams, SInv s) := by
  intro ss
  induction ss with
  | nil => intro cswin budget; simp [writePassAux]
  | cons s rest ih =>
    intro cswin budget
    obtain ⟨_, _, _, _, _, hn⟩ := streamTurn_spec cswin budget s
    obtain ⟨h1, h2, h3, h5⟩ :=
      ih (cswin - ((streamTurn cswin budget s).2 : Int)) (budget - (streamTurn cswin budget s).2)
    simp only [writePassAux]
    generalize hT : (streamTurn cswin budget s).2 = n at *
    generalize hR : writePassAux (cswin - (n : Int)) (budget - n) rest = r at *
    refine ⟨?_, ?_, ?_, ?_⟩
    · rw [h1]; push_cast; omega
    · rcases hn with hn | ⟨_, hb, hc, _⟩
      · rcases h2 with h2 | h2
        · left; omega
        · right; push_cast; omega
      · rcases h2 with h2 | h2
        · right; push_cast; omega
        · right; push_cast; omega
    · rcases hn with hn | ⟨_, _, hc, _⟩ <;> omega
    · intro hall x hx
      simp only [List.mem_cons] at hx
      rcases hx with hx | hx
      · subst hx; exact streamTurn_SInv (hall s (by simp))
      · exact h5 (fun y hy => hall y (by simp [hy])) x hx

theorem CInv.init_holds (h : Extracted.h2ConnSendWindow = rfcInitialWindow ∧
                             Extracted.h2PeerInitialWindow = rfcInitialWindow) : CInv FcConn.init := by
  refine ⟨?_, ?_, ?_⟩
  · simp [FcConn.init, h.1]
  · simp [FcConn.init, h.2]
  · intro s hs; simp [FcConn.init] at hs

theorem CInv.openStream {c : FcConn} (inv : CInv c) (id body : Nat) (inc : Bool) :
    CInv (openStream c id body inc) := by
  refine ⟨inv.conn, inv.init, ?_⟩
  intro s hs
  simp only [LtVerif.openStream, List.mem_append, List.mem_singleton] at hs
  rcases hs with hs | hs
  · exact inv.streams s hs
  · subst hs; simp [SInv, inv.init]

theorem CInv.applyInitialWindow {c : FcConn} (inv : CInv c) (v : Nat) :
    CInv (applyInitialWindow c v).1 := by
  unfold LtVerif.applyInitialWindow
  by_cases h : (v : Int) > int32Max
  · simp only [h, if_true]; exact ⟨inv.conn, inv.init, inv.streams⟩
  · simp only [h, if_false]
    refine ⟨inv.conn, rfl, ?_⟩
    intro s hs
    simp only [List.map_map, List.mem_map, Function.comp] at hs
    obtain ⟨s0, hs0, rfl⟩ := hs
    have h0 := inv.streams s0 hs0
    by_cases ha : s0.st = .halfClosedLocal ∨ s0.st = .closed
    · simp only [ha, if_true]; exact h0
    · simp only [ha, if_false]
      by_cases hov : winOverflows s0.swin ((v : Int) - c.initWin) = true
      · simp only [hov, if_true]; exact h0
      · simp only [hov]
        unfold SInv at *
        simp only [Bool.false_eq_true, if_false]
        rw [h0, inv.init]
        omega

theorem CInv.windowUpdate {c : FcConn} (inv : CInv c) (sid inc : Nat) :
    CInv (windowUpdate c sid inc).1 := by
  unfold LtVerif.windowUpdate
  by_cases h0 : sid = 0
  · simp only [h0, if_true]
    split
    · exact ⟨inv.conn, inv.init, inv.streams⟩
    · split
      · exact ⟨inv.conn, inv.init, inv.streams⟩
      · refine ⟨?_, inv.init, inv.streams⟩
        simp only; rw [inv.conn]; omega
  · simp only [h0, if_false]
    split
    · exact inv
    · rename_i s hs
      split
      · exact inv
      · have hmap : ∀ (f : FcStream → FcStream), (∀ x, SInv x → SInv (f x)) →
            CInv { c with streams := c.streams.map fun x => if x.id = sid then f x else x } := by
          intro f hf
          refine ⟨inv.conn, inv.init, ?_⟩
          intro y hy
          simp only [List.mem_map] at hy
          obtain ⟨x, hx, rfl⟩ := hy
          split
          · exact hf x (inv.streams x hx)
          · exact inv.streams x hx
        split
        · exact hmap _ (fun x hx => by unfold SInv at *; simpa using hx)
        · split
          · exact hmap _ (fun x hx => by unfold SInv at *; simpa using hx)
          · exact hmap _ (fun x hx => by unfold SInv at *; simp only; rw [hx]; omega)

theorem CInv.writePass {c : FcConn} (inv : CInv c) (budget : Nat) : CInv (writePass c budget).1 := by
  unfold LtVerif.writePass
  by_cases h : c.goaway.isSome = true
  · simp only [h, if_true]; exact inv
  · simp only [h]
    obtain ⟨h1, _, _, h5⟩ := writePassAux_spec c.streams c.swin budget
    refine ⟨?_, inv.init, ?_⟩
    · simp only [Bool.false_eq_true, if_false]
      rw [h1, inv.conn]; push_cast; omega
    · simp only [Bool.false_eq_true, if_false]
      exact h5 inv.streams

theorem CInv.step {c : FcConn} (inv : CInv c) (e : FcEv) : CInv (fcStep c e).1 := by
  cases e with
  | openStream id body inc =>
    simp only [fcStep]; split
    · exact inv
    · exact inv.openStream id body inc
  | settingsInitialWindow v =>
    simp only [fcStep]; split
    · exact inv
    · exact inv.applyInitialWindow v
  | windowUpdate sid inc =>
    simp only [fcStep]; split
    · exact inv
    · exact inv.windowUpdate sid inc
  | write budget => simp only [fcStep]; exact inv.writePass budget

theorem CInv.run {c : FcConn} (inv : CInv c) (es : List FcEv) : CInv (fcRun c es).1 := by
  induction es generalizing c with
  | nil => simpa [fcRun] using inv
  | cons e rest ih =>
    simp only [fcRun]
    exact ih (inv.step e)

/-- successive turns of one stream; the connection window is charged with what was sent -/
def turns : FcStream → Int → List Nat → FcStream × Int
  | s, cw, [] => (s, cw)
  | s, cw, b :: bs => turns (streamTurn cw b s).1 (cw - (streamTurn cw b s).2) bs

theorem sendAmount_enough (swinS swinC : Int) (pending dlen : Nat)
    (hs : (pending : Int) ≤ swinS) (hc : (pending : Int) ≤ swinC) (hd : 2048 ≤ dlen) :
    sendAmount swinS swinC pending dlen = min pending dlen := by
  unfold sendAmount
  have h : ¬ (swinS < 0 ∨ swinC < 0) := by omega
  simp only [h, if_false]
  split
  · omega
  · split
    · omega
    · omega

theorem turns_not_open : ∀ (bs : List Nat) (s : FcStream) (cw : Int), s.st ≠ .open →
    turns s cw bs = (s, cw) := by
  intro bs
  induction bs with
  | nil => intro s cw _; rfl
  | cons b bs ih =>
    intro s cw h
    have : streamTurn cw b s = (s, 0) := by simp [streamTurn, h]
    simp only [turns, this]
    simpa using ih s cw h

theorem perCallCap_ge (s : FcStream) : 2048 ≤ perCallCap s := by
  unfold perCallCap; split <;> omega

theorem streamTurn_enough (s : FcStream) (cw : Int) (b : Nat)
    (hopen : s.st = .open) (hp : s.pending ≠ 0) (hb : 2048 ≤ b)
    (hs : (s.pending : Int) ≤ s.swin) (hc : (s.pending : Int) ≤ cw) :
    (streamTurn cw b s).2 = min s.pending (min (perCallCap s) b) ∧
    (streamTurn cw b s).1.pending = s.pending - (streamTurn cw b s).2 ∧
    (streamTurn cw b s).1.swin = s.swin - (streamTurn cw b s).2 ∧
    (streamTurn cw b s).1.sent = s.sent + (streamTurn cw b s).2 ∧
    (streamTurn cw b s).1.st = (if s.pending - (streamTurn cw b s).2 = 0 then .closed else .open) := by
  have hcap := perCallCap_ge s
  have hd : 2048 ≤ min (perCallCap s) b := by omega
  have hb0 : b ≠ 0 := by omega
  have hn := sendAmount_enough s.swin cw s.pending (min (perCallCap s) b) hs hc hd
  unfold streamTurn
  simp only [hopen, ne_eq, not_true_eq_false, if_false, hp, hb0, hn]
  first | trivial | (refine ⟨trivial, trivial, trivial, trivial, ?_⟩; split <;> simp_all)

theorem turns_complete : ∀ (bs : List Nat) (s : FcStream) (cw : Int),
    s.st = .open → (s.pending : Int) ≤ s.swin → (s.pending : Int) ≤ cw →
    (∀ b ∈ bs, 2048 ≤ b) → s.pending < 2048 * bs.length →
    (turns s cw bs).1.st = .closed ∧ (turns s cw bs).1.pending = 0 ∧
    (turns s cw bs).1.sent = s.sent + s.pending := by
  intro bs
  induction bs with
  | nil => intro s cw _ _ _ _ hl; simp at hl
  | cons b bs ih =>
    intro s cw hopen hs hc hb hl
    have hb0 : 2048 ≤ b := hb b (by simp)
    have hbs : ∀ x ∈ bs, 2048 ≤ x := fun x hx => hb x (by simp [hx])
    simp only [turns]
    by_cases hp : s.pending = 0
    · have h1 : streamTurn cw b s = ({ s with st := .closed }, 0) := by
        simp [streamTurn, hopen, hp]
      rw [h1, turns_not_open bs _ _ (by simp)]
      simp [hp]
    · obtain ⟨hn, hpe, hsw, hse, hst⟩ := streamTurn_enough s cw b hopen hp hb0 hs hc
      have hcap := perCallCap_ge s
      generalize hT : streamTurn cw b s = r at *
      by_cases hall : s.pending - r.2 = 0
      · have hclosed : r.1.st ≠ .open := by rw [hst]; simp [hall]
        rw [turns_not_open bs _ _ hclosed]
        refine ⟨by rw [hst]; simp [hall], by dsimp only; omega, by dsimp only; omega⟩
      · have hopen' : r.1.st = .open := by rw [hst]; simp [hall]
        have hlen : (List.length (b :: bs)) = bs.length + 1 := rfl
        rw [hlen] at hl
        obtain ⟨a1, a2, a3⟩ := ih r.1 (cw - r.2) hopen' (by rw [hpe, hsw]; omega) (by rw [hpe]; omega) hbs
          (by rw [hpe]; omega)
        refine ⟨a1, a2, ?_⟩
        rw [a3, hse, hpe]; omega

end LtVerif
