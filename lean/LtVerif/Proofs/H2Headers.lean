/-
  HTTP/2 header glue (C07): the header-id maps of h2.c / http_header.c /
  ls-hpack are mutually consistent (finite tables, regenerated from the C on
  every run, checked by `decide`), and therefore the field names
  h2_send_headers() makes the peer see are the lower-cased response field names.
-/
import LtVerif.Model.H2Headers
namespace LtVerif.H2Headers
open LtVerif B Hpack

def lcName (id : Nat) : Bytes := Extracted.httpHeaderLc.getD id []
def staticName (idx : Nat) : Bytes := (staticTable.getD (idx - 1) ([], [])).1
def numIds : Nat := Extracted.httpHeaderLc.length

/-- name of the pseudo-header an h2 pseudo id stands for (":status" is not a request pseudo-header) -/
def pseudoName (id : Int) : Bytes :=
  if id = Extracted.h2Authority then ofString ":authority"
  else if id = Extracted.h2Method then ofString ":method"
  else if id = Extracted.h2Path then ofString ":path"
  else if id = Extracted.h2Scheme then ofString ":scheme"
  else if id = Extracted.h2Protocol then ofString ":protocol"
  else ofString ":status"

theorem lc_hashes_to_id : ∀ id, id < numIds → id ≠ 0 → hkeyGet (lcName id) = id ∧ lower (lcName id) = lcName id := by
  decide

theorem lshpack_idx_names : numIds ≤ Extracted.httpHeaderLshpackIdx.length ∧
    ∀ id, id < numIds → Extracted.httpHeaderLshpackIdx.getD id 0 ≠ 0 →
      Extracted.httpHeaderLshpackIdx.getD id 0 ≤ 61 ∧
      staticName (Extracted.httpHeaderLshpackIdx.getD id 0) = lcName id := by
  decide

theorem idx_to_id_names : Extracted.lshpackIdxHttpHeader.length = 62 ∧
    ∀ idx, idx < 62 → idx ≠ 0 →
      let id := Extracted.lshpackIdxHttpHeader.getD idx 0
      (0 < id → id.toNat < numIds ∧ lcName id.toNat = staticName idx) ∧
      (id = 0 → hkeyGet (staticName idx) = 0) ∧
      (id < 0 → pseudoName id = staticName idx) := by
  decide

theorem hkey_table_names : ∀ e ∈ Extracted.httpHeaders, e.1 ≠ 0 → 0 < e.1 ∧ e.1.toNat < numIds ∧ lcName e.1.toNat = e.2 := by
  decide

theorem lower_length (s : Bytes) : (lower s).length = s.length := by simp [lower]

/-- the name the peer sees for a response header is the lower-cased field name -/
theorem emitName_eq_lower (k v : Bytes) : emitName ⟨hkeyGet k, k, v⟩ = lower k := by
  unfold hkeyGet
  cases hf : Extracted.httpHeaders.find?
      (fun e => e.2.length == k.length && e.2 == lower k) with
  | none => simp [emitName]
  | some e =>
    obtain ⟨id, name⟩ := e
    have hp := List.find?_some hf
    have hmem := List.mem_of_find?_eq_some hf
    simp only [Bool.and_eq_true, beq_iff_eq] at hp
    obtain ⟨hlen, hname⟩ := hp
    by_cases h0 : id = 0
    · subst h0; simp [emitName]
    · obtain ⟨hpos, hlt, hlc⟩ := hkey_table_names (id, name) hmem h0
      simp only [] at hpos hlt hlc
      have hne : id.toNat ≠ 0 := by omega
      simp only [emitName, hne, ne_eq, not_false_eq_true, if_true]
      cases hi : Extracted.httpHeaderLshpackIdx.getD id.toNat 0 with
      | zero =>
        simp only
        have : Extracted.httpHeaderLc.getD id.toNat [] = lower k := by
          rw [← hname, ← hlc]; rfl
        rw [this]
        have hl : (lower k).length = k.length := lower_length k
        rw [List.take_left' hl]
      | succ idx =>
        simp only
        have h2 := (lshpack_idx_names.2 id.toNat hlt (by rw [hi]; simp)).2
        rw [hi] at h2
        rw [← hname, ← hlc, ← h2]
        simp [staticName]

end LtVerif.H2Headers
