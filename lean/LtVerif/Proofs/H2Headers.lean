/-
  HTTP/2 header glue (C07): the header-id maps of h2.c / http_header.c /
  ls-hpack are mutually consistent (finite tables, regenerated from the C on
  every run, checked by `decide`), and therefore the field names
  h2_send_headers() makes the peer see are the lower-cased response field names.
-/
import LtVerif.Model.H2Headers
import LtVerif.Proofs.Hpack
namespace LtVerif.H2Headers
open LtVerif B Hpack

def lcName (id : Nat) : Bytes := Extracted.httpHeaderLc.getD id []
def staticName (idx : Nat) : Bytes := (staticTable.getD (idx - 1) ([], [])).1
def numIds : Nat := Extracted.httpHeaderLc.length

/-- name of the pseudo-header an h2 pseudo id stands for (":status" is not a request pseudo-header) -/
def pseudoName (id : Int) : Bytes :=
  if id = Extracted.h2Authority then ofString ":authority"
  else if id = Extracted.h2Method then ofString ":method"
  else if id = Extracted.h2Path then ofString ":path"
  else if id = Extracted.h2Scheme then ofString ":scheme"
  else if id = Extracted.h2Protocol then ofString ":protocol"
  else ofString ":status"

theorem lc_hashes_to_id : ∀ id, id < numIds → id ≠ 0 → hkeyGet (lcName id) = id ∧ lower (lcName id) = lcName id := by
  decide

theorem lshpack_idx_names : numIds ≤ Extracted.httpHeaderLshpackIdx.length ∧
    ∀ id, id < numIds → Extracted.httpHeaderLshpackIdx.getD id 0 ≠ 0 →
      Extracted.httpHeaderLshpackIdx.getD id 0 ≤ 61 ∧
      staticName (Extracted.httpHeaderLshpackIdx.getD id 0) = lcName id := by
  decide

theorem idx_to_id_names : Extracted.lshpackIdxHttpHeader.length = 62 ∧
    ∀ idx, idx < 62 → idx ≠ 0 →
      let id := Extracted.lshpackIdxHttpHeader.getD idx 0
      (0 < id → id.toNat < numIds ∧ lcName id.toNat = staticName idx) ∧
      (id = 0 → hkeyGet (staticName idx) = 0) ∧
      (id < 0 → pseudoName id = staticName idx) := by
  decide

theorem hkey_table_names : ∀ e ∈ Extracted.httpHeaders, e.1 ≠ 0 → 0 < e.1 ∧ e.1.toNat < numIds ∧ lcName e.1.toNat = e.2 := by
  decide

theorem lower_length (s : Bytes) : (lower s).length = s.length := by simp [lower]

/-- the name the peer sees for a response header is the lower-cased field name -/
theorem emitName_eq_lower (k v : Bytes) : emitName ⟨hkeyGet k, k, v⟩ = lower k := by
  unfold hkeyGet
  cases hf : Extracted.httpHeaders.find?
      (fun e => e.2.length == k.length && e.2 == lower k) with
  | none => simp [emitName]
  | some e =>
    obtain ⟨id, name⟩ := e
    have hp := List.find?_some hf
    have hmem := List.mem_of_find?_eq_some hf
    simp only [Bool.and_eq_true, beq_iff_eq] at hp
    obtain ⟨hlen, hname⟩ := hp
    by_cases h0 : id = 0
    · subst h0; simp [emitName]
    · obtain ⟨hpos, hlt, hlc⟩ := hkey_table_names (id, name) hmem h0
      simp only [] at hpos hlt hlc
      have hne : id.toNat ≠ 0 := by omega
      simp only [emitName, hne, ne_eq, not_false_eq_true, if_true]
      cases hi : Extracted.httpHeaderLshpackIdx.getD id.toNat 0 with
      | zero =>
        simp only
        have : Extracted.httpHeaderLc.getD id.toNat [] = lower k := by
          rw [← hname, ← hlc]; rfl
        rw [this]
        have hl : (lower k).length = k.length := lower_length k
        rw [List.take_left' hl]
      | succ idx =>
        simp only
        have h2 := (lshpack_idx_names.2 id.toNat hlt (by rw [hi]; simp)).2
        rw [hi] at h2
        rw [← hname, ← hlc, ← h2]
        simp [staticName]

/-! ### repeated fields: http_header_response_insert() and the split in h2_send_headers() -/

/-- what http_header_response_insert() builds for a field sent several times -/
def joinRepeated (name : Bytes) : List Bytes → Bytes
  | [] => []
  | [v] => v
  | v :: w :: rest => v ++ [cr, lf] ++ name ++ [colon, sp] ++ joinRepeated name (w :: rest)

theorem idxOf?_lf_none (v : Bytes) (h : lf ∉ v) : v.idxOf? lf = none := by
  simp [List.idxOf?, List.findIdx?_eq_none_iff]
  intro x hx hxe; subst hxe; exact h hx

theorem idxOf?_lf_append (v rest : Bytes) (h : lf ∉ v) :
    (v ++ cr :: lf :: rest).idxOf? lf = some (v.length + 1) := by
  induction v with
  | nil => simp [List.idxOf?, List.findIdx?_cons, cr, lf]
  | cons x xs ih =>
    have hx : x ≠ lf := fun e => h (by simp [e])
    have hxs : lf ∉ xs := fun e => h (by simp [e])
    have := ih hxs
    simp only [List.idxOf?] at this ⊢
    simp only [List.cons_append, List.findIdx?_cons, beq_iff_eq, hx, if_false, this]
    simp

theorem joinRepeated_length (name : Bytes) (vs : List Bytes) : vs.length ≤ (joinRepeated name vs).length + 1 := by
  induction vs with
  | nil => simp [joinRepeated]
  | cons v rest ih =>
    cases rest with
    | nil => simp [joinRepeated]
    | cons w r =>
      simp only [joinRepeated, List.length_append, List.length_cons] at ih ⊢
      omega

theorem splitRepeated_join (name : Bytes) : ∀ (vs : List Bytes) (fuel : Nat), vs ≠ [] →
    (∀ v ∈ vs, lf ∉ v) → vs.length ≤ fuel + 1 →
    splitRepeated name.length fuel (joinRepeated name vs) = vs := by
  intro vs
  induction vs with
  | nil => intro _ h; exact absurd rfl h
  | cons v rest ih =>
    intro fuel _ hlf hfuel
    have hv : lf ∉ v := hlf v (by simp)
    cases rest with
    | nil =>
      cases fuel with
      | zero => simp [splitRepeated, joinRepeated]
      | succ f => simp [splitRepeated, joinRepeated, idxOf?_lf_none v hv]
    | cons w r =>
      cases fuel with
      | zero => simp at hfuel
      | succ f =>
        have hrest : ∀ x ∈ w :: r, lf ∉ x := fun x hx => hlf x (by simp [hx])
        have hj : joinRepeated name (v :: w :: r) =
            v ++ cr :: lf :: (name ++ [colon, sp] ++ joinRepeated name (w :: r)) := by
          simp [joinRepeated]
        rw [hj]
        simp only [splitRepeated, idxOf?_lf_append v _ hv]
        have h1 : (v ++ cr :: lf :: (name ++ [colon, sp] ++ joinRepeated name (w :: r))).take
            (v.length + 1 - 1) = v := by simp
        have h2 : (v ++ cr :: lf :: (name ++ [colon, sp] ++ joinRepeated name (w :: r))).drop
            (v.length + 1 + 1 + name.length + 2) = joinRepeated name (w :: r) := by
          rw [show v.length + 1 + 1 + name.length + 2 = v.length + (2 + (name.length + 2)) by omega,
            ← List.drop_drop, List.drop_left, ← List.drop_drop]
          show ((name ++ [colon, sp]) ++ joinRepeated name (w :: r)).drop (name.length + 2) = _
          rw [show name.length + 2 = (name ++ [colon, sp]).length by simp, List.drop_left]
        rw [h1, h2, ih f (by simp) hrest (by simp only [List.length_cons] at hfuel ⊢; omega)]


theorem joinRepeated_snoc (name : Bytes) (vs : List Bytes) (v : Bytes) (h : vs ≠ []) :
    joinRepeated name (vs ++ [v]) = joinRepeated name vs ++ [cr, lf] ++ name ++ [colon, sp] ++ v := by
  induction vs with
  | nil => exact absurd rfl h
  | cons x rest ih =>
    cases rest with
    | nil => simp [joinRepeated]
    | cons y r =>
      have := ih (by simp)
      simp only [List.cons_append, joinRepeated] at this ⊢
      rw [this]; simp [List.append_assoc]

theorem joinRepeated_ne_nil (name : Bytes) (vs : List Bytes) (h : vs ≠ []) (hv : ∀ v ∈ vs, v ≠ []) :
    joinRepeated name vs ≠ [] := by
  cases vs with
  | nil => exact absurd rfl h
  | cons x rest =>
    have hx : x ≠ [] := hv x (by simp)
    cases rest with
    | nil => simpa [joinRepeated] using hx
    | cons y r => simp [joinRepeated, hx]

theorem sameSlot_self (k v : Bytes) : sameSlot (hkeyGet k) k ⟨hkeyGet k, k, v⟩ = true := by
  unfold sameSlot
  by_cases h : hkeyGet k = 0 <;> simp [h]

theorem insert_step (k v : Bytes) (init : List Bytes) (r0 : Resp) (hv : v ≠ []) (hinit : init ≠ [])
    (hvs : ∀ x ∈ init, x ≠ [])
    (harr : r0.arr = [⟨hkeyGet k, k, joinRepeated (lower k) init⟩]) :
    (r0.insert k v).arr = [⟨hkeyGet k, k, joinRepeated (lower k) (init ++ [v])⟩] ∧
      (r0.insert k v).repeated = true := by
  have hjne := joinRepeated_ne_nil (lower k) init hinit hvs
  have hfind : r0.find (hkeyGet k) k = some ⟨hkeyGet k, k, joinRepeated (lower k) init⟩ := by
    simp [Resp.find, harr, sameSlot_self]
  constructor
  · simp only [Resp.insert, hv, if_false, Resp.update, hfind, harr, List.map_cons, List.map_nil,
      sameSlot_self, if_true, hjne]
    rw [joinRepeated_snoc _ _ _ hinit]
  · simp [Resp.insert, hv, hfind, hjne]

theorem insert_fold_from (k : Bytes) : ∀ (rest init : List Bytes) (r0 : Resp), init ≠ [] →
    (∀ x ∈ init, x ≠ []) → (∀ x ∈ rest, x ≠ []) →
    r0.arr = [⟨hkeyGet k, k, joinRepeated (lower k) init⟩] →
    r0.repeated = decide (1 < init.length) →
    let r := rest.foldl (fun r v => Resp.insert r k v) r0
    r.arr = [⟨hkeyGet k, k, joinRepeated (lower k) (init ++ rest)⟩] ∧
      r.repeated = decide (1 < (init ++ rest).length) := by
  intro rest
  induction rest with
  | nil => intro init r0 _ _ _ harr hrep; simpa using ⟨harr, hrep⟩
  | cons v t ih =>
    intro init r0 hinit hvs hrest harr hrep
    have hv : v ≠ [] := hrest v (by simp)
    obtain ⟨h1, h2⟩ := insert_step k v init r0 hv hinit hvs harr
    have hlen : 1 < (init ++ [v]).length := by
      have := List.length_pos_iff.mpr hinit
      simp; omega
    have := ih (init ++ [v]) (r0.insert k v) (by simp)
      (fun x hx => by
        rcases List.mem_append.mp hx with h | h
        · exact hvs x h
        · simp at h; subst h; exact hv)
      (fun x hx => hrest x (by simp [hx])) h1 (by rw [h2]; exact (decide_eq_true hlen).symm)
    simpa [List.append_assoc] using this

/-- inserting the values one after the other builds exactly the joined text -/
theorem insert_fold (k : Bytes) (vs : List Bytes) (hne : vs ≠ []) (hvs : ∀ v ∈ vs, v ≠ []) :
    let r := vs.foldl (fun r v => Resp.insert r k v) ({} : Resp)
    r.arr = [⟨hkeyGet k, k, joinRepeated (lower k) vs⟩] ∧ r.repeated = decide (1 < vs.length) := by
  cases vs with
  | nil => exact absurd rfl hne
  | cons v t =>
    have hv : v ≠ [] := hvs v (by simp)
    have h0 : (Resp.insert {} k v).arr = [⟨hkeyGet k, k, joinRepeated (lower k) [v]⟩] ∧
        (Resp.insert {} k v).repeated = false := by
      simp [Resp.insert, hv, Resp.update, Resp.find, joinRepeated]
    have := insert_fold_from k t [v] (Resp.insert {} k v) (by simp) (by simpa using hv)
      (fun x hx => hvs x (by simp [hx])) h0.1 (by rw [h0.2]; simp)
    simpa using this


theorem repeated_fields (k : Bytes) (vs : List Bytes) (hk : k ≠ []) (hne : vs ≠ [])
    (hv : ∀ v ∈ vs, v ≠ [] ∧ lf ∉ v)
    (hsize : 14 + k.length + (joinRepeated (lower k) vs).length + 4 ≤ 65535)
    (homit : ¬ ((k.headD 0 &&& 0xdf) = 88 ∧ omitHeader k = true)) :
    let r := vs.foldl (fun r v => Resp.insert r k v) ({} : Resp)
    ∃ a, bodyFields r.repeated r.arr 14 = some (vs.map (fun v => (lower k, v)), a) := by
  obtain ⟨harr, hrep⟩ := insert_fold k vs hne (fun v h => (hv v h).1)
  simp only at harr hrep ⊢
  rw [harr, hrep]
  have hjne := joinRepeated_ne_nil (lower k) vs hne (fun v h => (hv v h).1)
  have hname := emitName_eq_lower k (joinRepeated (lower k) vs)
  have hvals : (if decide (1 < vs.length) = true then
        splitRepeated k.length (joinRepeated (lower k) vs).length (joinRepeated (lower k) vs)
      else [joinRepeated (lower k) vs]) = vs := by
    by_cases h1 : 1 < vs.length
    · simp only [h1, decide_true, if_true]
      have := splitRepeated_join (lower k) vs (joinRepeated (lower k) vs).length hne
        (fun v h => (hv v h).2) (joinRepeated_length _ _)
      rwa [lower_length] at this
    · simp only [h1, decide_false, Bool.false_eq_true, if_false]
      cases vs with
      | nil => exact absurd rfl hne
      | cons x t =>
        cases t with
        | nil => simp [joinRepeated]
        | cons y r => simp at h1
  refine ⟨14 + k.length + (joinRepeated (lower k) vs).length + 4, ?_⟩
  simp only [bodyFields, hk, hjne, or_self, if_false]
  rw [if_neg (by omega)]
  have homit' : ¬ (hkeyGet k = 0 ∧ (k.headD 0 &&& 0xdf) = 88 ∧ omitHeader k = true) :=
    fun h => homit h.2
  simp only [homit', if_false, hname, hvals, List.append_nil]

/-! ### SETTINGS_HEADER_TABLE_SIZE changes are announced to the peer's decoder -/

theorem evict_evict (a b : Nat) (l : List Header) : evict a (evict b l) = evict (min a b) l := by
  induction l generalizing a b with
  | nil => simp [evict]
  | cons h t ih =>
    simp only [evict]
    by_cases hb : entrySize h ≤ b
    · simp only [hb, if_true, evict]
      by_cases ha : entrySize h ≤ a
      · have hm : entrySize h ≤ min a b := by omega
        simp only [ha, hm, if_true, ih]
        congr 2; omega
      · have hm : ¬ entrySize h ≤ min a b := by omega
        simp [ha, hm]
    · have hm : ¬ entrySize h ≤ min a b := by omega
      simp [hb, hm, evict]

/-- encoder table after the peer's SETTINGS values -/
def encAfter (t : Table) (vs : List Nat) : Table :=
  vs.foldl (fun t v => t.setMaxCapacity (peerTableSize v)) t

/-- invariant tying h2con's bookkeeping to lshpack's encoder table -/
def GlueInv (t0 : Table) (g : EncGlue) (te : Table) : Prop :=
  te.curMax = g.size ∧ tableSize te.dyn ≤ te.curMax ∧
    (if g.pending then te.dyn = evict g.tszMin t0.dyn ∧ g.tszMin ≤ g.size
     else te.dyn = t0.dyn ∧ g.size = t0.curMax)

theorem glueInv_step (t0 : Table) (g : EncGlue) (te : Table) (v : Nat) (h : GlueInv t0 g te) :
    GlueInv t0 (g.settings v) (te.setMaxCapacity (peerTableSize v)) := by
  obtain ⟨hcur, hsz, hcase⟩ := h
  unfold EncGlue.settings
  by_cases heq : peerTableSize v = g.size
  · simp only [heq, if_true]
    have hdyn : (te.setMaxCapacity g.size).dyn = te.dyn := by
      simp only [Table.setMaxCapacity]
      exact evict_of_le _ _ (by omega)
    refine ⟨rfl, ?_, ?_⟩
    · rw [hdyn]; simpa [Table.setMaxCapacity, ← hcur] using hsz
    · rw [hdyn]; exact hcase
  · simp only [heq, if_false]
    refine ⟨rfl, tableSize_evict_le _ _, ?_⟩
    simp only [if_true]
    by_cases hp : g.pending = true
    · simp only [hp, if_true] at hcase
      obtain ⟨hd, hle⟩ := hcase
      simp only [hp, not_true_eq_false, false_or]
      constructor
      · simp only [Table.setMaxCapacity, hd, evict_evict]
        by_cases hlt : peerTableSize v < g.tszMin
        · simp only [hlt, if_true]; congr 1; omega
        · simp only [hlt, if_false]; congr 1; omega
      · by_cases hlt : peerTableSize v < g.tszMin
        · simp [hlt]
        · simp only [hlt, if_false]; omega
    · have hp' : g.pending = false := by simpa using hp
      simp only [hp', Bool.false_eq_true, if_false] at hcase
      simp only [hp', Bool.false_eq_true, not_false_eq_true, true_or, if_true]
      exact ⟨by simp [Table.setMaxCapacity, hcase.1], Nat.le_refl _⟩

theorem glueInv_fold (t0 : Table) : ∀ (vs : List Nat) (g : EncGlue) (te : Table), GlueInv t0 g te →
    GlueInv t0 (vs.foldl EncGlue.settings g) (vs.foldl (fun t v => t.setMaxCapacity (peerTableSize v)) te) := by
  intro vs
  induction vs with
  | nil => intro g te h; exact h
  | cons v rest ih => intro g te h; exact ih _ _ (glueInv_step t0 g te v h)

/-- the updates lighttpd announces bring a conformant decoder's table to the
    encoder's table: same entries, same size limit -/
theorem settings_resize_sync (t0 : Table) (hwf : t0.WF) (vs : List Nat) :
    let g := vs.foldl EncGlue.settings ({ size := t0.curMax } : EncGlue)
    let te := encAfter t0 vs
    let td := g.updates.foldl Table.updateMax t0
    td.dyn = te.dyn ∧ td.curMax = te.curMax := by
  have h0 : GlueInv t0 ({ size := t0.curMax } : EncGlue) t0 :=
    ⟨rfl, hwf.size_le, by simp⟩
  have h := glueInv_fold t0 vs _ _ h0
  simp only [encAfter]
  generalize vs.foldl EncGlue.settings ({ size := t0.curMax } : EncGlue) = g at h ⊢
  generalize vs.foldl (fun t v => t.setMaxCapacity (peerTableSize v)) t0 = te at h ⊢
  obtain ⟨hcur, _, hcase⟩ := h
  unfold EncGlue.updates
  by_cases hp : g.pending = true
  · simp only [hp, if_true] at hcase ⊢
    obtain ⟨hd, hle⟩ := hcase
    by_cases hm : g.tszMin = g.size
    · simp only [hm, if_true, List.foldl_cons, List.foldl_nil, Table.updateMax]
      exact ⟨by rw [hd, hm], hcur.symm⟩
    · simp only [hm, if_false, List.foldl_cons, List.foldl_nil, Table.updateMax, evict_evict]
      refine ⟨?_, hcur.symm⟩
      rw [hd]; congr 1; omega
  · have hp' : g.pending = false := by simpa using hp
    simp only [hp', Bool.false_eq_true, if_false, List.foldl_nil] at hcase ⊢
    exact ⟨hcase.1.symm, by rw [hcur, hcase.2]⟩

end LtVerif.H2Headers
