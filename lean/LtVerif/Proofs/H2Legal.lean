/-
  History-level stream legality of the HTTP/2 model (Model/H2.lean): a monitor for ALL streams
  of a connection at once, an invariant tying it to the connection state, and its preservation
  by every receive action and every scheduler pass.
-/
import LtVerif.Proofs.H2
import LtVerif.Model.H2Monitor
namespace LtVerif

theorem monAll_append (a b : List Out) : ∀ m, monAll m (a ++ b) = (monAll m a).bind fun m' => monAll m' b := by
  induction a with
  | nil => intro m; rfl
  | cons o os ih =>
    intro m
    simp only [List.cons_append, monAll]
    cases monOut m o with
    | none => rfl
    | some m' => exact ih m'

/-- control frames are always accepted; they only add the reset streams to `fin` -/
theorem monAll_ctl : ∀ (os : List Out) (m : Mon), AllCtl os →
    ∃ m', monAll m os = some m' ∧ m'.hdr = m.hdr ∧
      (∀ x, x ∈ m'.fin ↔ x ∈ m.fin ∨ ∃ code, Out.rst x code ∈ os) := by
  intro os
  induction os with
  | nil => intro m _; exact ⟨m, rfl, rfl, fun x => by simp⟩
  | cons o os ih =>
    intro m h
    have ho : o.isCtl = true := h o (by simp)
    have hos : AllCtl os := fun x hx => h x (by simp [hx])
    cases o with
    | headers a b c => simp [Out.isCtl] at ho
    | data a b c => simp [Out.isCtl] at ho
    | rst sid code =>
      obtain ⟨m', h1, h2, h3⟩ := ih ⟨m.hdr, sid :: m.fin⟩ hos
      refine ⟨m', by simpa [monAll, monOut] using h1, h2, fun x => ?_⟩
      rw [h3 x]
      simp only [List.mem_cons]
      constructor
      · rintro ((h | h) | ⟨code', h⟩)
        · exact Or.inr ⟨code, Or.inl (by rw [h])⟩
        · exact Or.inl h
        · exact Or.inr ⟨code', Or.inr h⟩
      · rintro (h | ⟨code', h | h⟩)
        · exact Or.inl (Or.inr h)
        · injection h with h1 _; exact Or.inl (Or.inl h1)
        · exact Or.inr ⟨code', h⟩
    | settingsAck =>
      obtain ⟨m', h1, h2, h3⟩ := ih m hos
      exact ⟨m', by simpa [monAll, monOut] using h1, h2, fun x => by rw [h3 x]; simp⟩
    | pingAck o' =>
      obtain ⟨m', h1, h2, h3⟩ := ih m hos
      exact ⟨m', by simpa [monAll, monOut] using h1, h2, fun x => by rw [h3 x]; simp⟩
    | goaway a b =>
      obtain ⟨m', h1, h2, h3⟩ := ih m hos
      exact ⟨m', by simpa [monAll, monOut] using h1, h2, fun x => by rw [h3 x]; simp⟩
    | windowUpdate a b =>
      obtain ⟨m', h1, h2, h3⟩ := ih m hos
      exact ⟨m', by simpa [monAll, monOut] using h1, h2, fun x => by rw [h3 x]; simp⟩

/-- the connection state agrees with what the monitor has seen -/
structure Inv (c : H2Conn) (m : Mon) : Prop where
  hs : ∀ s ∈ c.streams, s.err = false → (s.headersSent = true ↔ s.id ∈ m.hdr) ∧ s.id ∉ m.fin
  le : ∀ s ∈ c.streams, s.id ≤ c.cid
  nd : (c.streams.map (·.id)).Nodup
  fresh : ∀ sid, c.cid < sid → sid ∉ m.hdr ∧ sid ∉ m.fin


/-! ### send side -/

theorem monAll_data (sid : Nat) (m : Mon) (h1 : sid ∈ m.hdr) (h2 : sid ∉ m.fin) :
    ∀ l : List Nat, monAll m (l.map fun x => Out.data sid x false) = some m := by
  intro l
  induction l with
  | nil => rfl
  | cons x xs ih => simp [monAll, monOut, h1, h2, ih]

/-- `m'` differs from `m` at most on stream `sid` -/
def Mon.sameBut (m m' : Mon) (sid : Nat) : Prop :=
  ∀ x, x ≠ sid → (x ∈ m'.hdr ↔ x ∈ m.hdr) ∧ (x ∈ m'.fin ↔ x ∈ m.fin)

theorem Mon.sameBut_refl (m : Mon) (sid : Nat) : m.sameBut m sid := fun _ _ => ⟨Iff.rfl, Iff.rfl⟩

/-- the frames `endStream` emits, from a stream whose HEADERS are out and that is not finished -/
theorem endStream_mon (s : Strm) (m : Mon) (h1 : s.id ∈ m.hdr) (h2 : s.id ∉ m.fin) :
    ∃ m', monAll m (endStream s).1 = some m' ∧ m.sameBut m' s.id := by
  cases hst : s.st <;> cases herr : s.err <;>
    simp only [endStream, hst, herr, monAll, monOut, h1, h2, ne_eq, not_true_eq_false, not_false_eq_true,
      reduceCtorEq, if_true, if_false, and_self, List.nil_append, List.cons_append, List.append_nil,
      Bool.false_eq_true, decide_true, decide_false, not_false_eq_true] <;>
    exact ⟨_, rfl, fun x hx => by simp [hx]⟩

/-- after END_STREAM went out on the HEADERS only RST_STREAM can follow, and does -/
theorem endStream_mon_fin (s : Strm) (m : Mon) (hst : s.st = .closed ∨ s.st = .hcLocal) (he : s.err = false) :
    ∃ m', monAll m (endStream s).1 = some m' ∧ m.sameBut m' s.id := by
  rcases hst with hst | hst <;>
    simp only [endStream, hst, he, monAll, monOut, ne_eq, not_true_eq_false, not_false_eq_true,
      reduceCtorEq, if_true, if_false, List.nil_append, List.cons_append, Bool.false_eq_true] <;>
    exact ⟨_, rfl, fun x hx => by simp [hx]⟩


theorem Mon.sameBut_trans {m m1 m2 : Mon} {sid : Nat} (a : m.sameBut m1 sid) (b : m1.sameBut m2 sid) :
    m.sameBut m2 sid := fun x hx => ⟨(b x hx).1.trans (a x hx).1, (b x hx).2.trans (a x hx).2⟩

/-- one turn of a stream that is not in error: accepted, other streams untouched, and a stream
    that stays has its HEADERS out and is not finished -/
theorem strmTurn_mon (fsize : Nat) (cswin : Int) (budget : Nat) (s : Strm) (m : Mon) (he : s.err = false)
    (hh : s.headersSent = true ↔ s.id ∈ m.hdr) (hf : s.id ∉ m.fin) :
    ∃ m', monAll m (strmTurn fsize cswin budget s).2.1 = some m' ∧ m.sameBut m' s.id ∧
      (∀ s', (strmTurn fsize cswin budget s).1 = some s' →
         s'.id = s.id ∧ s'.err = false ∧ s'.headersSent = true ∧ s.id ∈ m'.hdr ∧ s.id ∉ m'.fin) := by
  have hn0 : s.pending = 0 → turnAmount cswin budget s = 0 := by intro h; simp [turnAmount, h]
  unfold strmTurn
  simp only [he, Bool.false_eq_true, if_false]
  generalize hn : turnAmount cswin budget s = n at hn0
  generalize hdl : dataSplit s.file fsize n n = dl
  by_cases hs : s.headersSent = true
  · -- HEADERS are out
    have h1 := hh.mp hs
    have hsh : sendHdrs s = (s, []) := by simp [sendHdrs, hs]
    simp only [hsh, List.nil_append]
    by_cases hp : s.pending - n = 0
    · simp only [hp, if_true]
      obtain ⟨m', e, sb⟩ := endStream_mon { s with swin := s.swin - n, pending := s.pending - n } m h1 hf
      refine ⟨m', ?_, sb, fun s' h => by simp at h⟩
      rw [monAll_append, monAll_data s.id m h1 hf dl]
      exact e
    · simp only [hp, if_false]
      refine ⟨m, monAll_data s.id m h1 hf dl, m.sameBut_refl _, fun s' h => ?_⟩
      simp only [Option.some.injEq] at h
      subst h
      exact ⟨rfl, he, hs, h1, hf⟩
  · have hnh : s.id ∉ m.hdr := fun h => hs (hh.mpr h)
    have hsf : s.headersSent = false := by cases h : s.headersSent <;> simp_all
    by_cases hp0 : s.pending = 0
    · -- no body: END_STREAM on the HEADERS, then at most RST_STREAM
      have hnz : n = 0 := hn0 hp0
      subst hnz
      have hdl0 : dl = [] := by rw [← hdl]; rfl
      subst hdl0
      have hp : s.pending - 0 = 0 := by omega
      simp only [hp, if_true, List.map_nil, List.append_nil]
      have hst : ({ (sendHdrs s).1 with swin := s.swin - (0 : Nat), pending := s.pending - 0 } : Strm).st = .closed ∨
          ({ (sendHdrs s).1 with swin := s.swin - (0 : Nat), pending := s.pending - 0 } : Strm).st = .hcLocal := by
        simp only [sendHdrs, hsf, Bool.false_eq_true, if_false, hp0, if_true]
        cases s.st <;> simp
      have herr : ({ (sendHdrs s).1 with swin := s.swin - (0 : Nat), pending := s.pending - 0 } : Strm).err = false := by
        simp [sendHdrs, hsf, he]
      have hid : ({ (sendHdrs s).1 with swin := s.swin - (0 : Nat), pending := s.pending - 0 } : Strm).id = s.id := by
        simp [sendHdrs, hsf]
      obtain ⟨m', e, sb⟩ := endStream_mon_fin _ ⟨s.id :: m.hdr, s.id :: m.fin⟩ hst herr
      rw [hid] at sb
      refine ⟨m', ?_, ?_, fun s' h => by simp at h⟩
      · rw [monAll_append]
        have : monAll m (sendHdrs s).2 = some ⟨s.id :: m.hdr, s.id :: m.fin⟩ := by
          simp [sendHdrs, hsf, hp0, monAll, monOut, hnh, hf]
        rw [this]
        exact e
      · refine Mon.sameBut_trans (fun x hx => ?_) sb
        simp [hx]
    · -- HEADERS now, then DATA
      have hm1 : monAll m (sendHdrs s).2 = some ⟨s.id :: m.hdr, m.fin⟩ := by
        simp [sendHdrs, hsf, hp0, monAll, monOut, hnh, hf]
      have hin1 : s.id ∈ (⟨s.id :: m.hdr, m.fin⟩ : Mon).hdr := by simp
      have sb1 : m.sameBut ⟨s.id :: m.hdr, m.fin⟩ s.id := fun x hx => by simp [hx]
      have hid : (sendHdrs s).1.id = s.id := by simp [sendHdrs, hsf]
      have herr : (sendHdrs s).1.err = false := by simp [sendHdrs, hsf, he]
      have hsent : (sendHdrs s).1.headersSent = true := by simp [sendHdrs, hsf]
      by_cases hp : s.pending - n = 0
      · simp only [hp, if_true]
        obtain ⟨m', e, sb⟩ := endStream_mon { (sendHdrs s).1 with swin := s.swin - n, pending := s.pending - n }
          ⟨s.id :: m.hdr, m.fin⟩ (by simp [hid]) (by simpa [hid] using hf)
        simp only [hid] at sb
        refine ⟨m', ?_, Mon.sameBut_trans sb1 sb, fun s' h => by simp at h⟩
        rw [List.append_assoc, monAll_append, hm1]
        simp only [Option.bind]
        rw [monAll_append, monAll_data s.id _ hin1 hf dl]
        exact e
      · simp only [hp, if_false]
        refine ⟨⟨s.id :: m.hdr, m.fin⟩, ?_, sb1, fun s' h => ?_⟩
        · rw [monAll_append, hm1]
          simp only [Option.bind]
          exact monAll_data s.id _ hin1 hf dl
        · simp only [Option.some.injEq] at h
          subst h
          exact ⟨hid, herr, hsent, hin1, hf⟩


theorem strmTurn_mon_err (fsize : Nat) (cswin : Int) (budget : Nat) (s : Strm) (m : Mon) (he : s.err = true) :
    ∃ m', monAll m (strmTurn fsize cswin budget s).2.1 = some m' ∧ m.sameBut m' s.id ∧
      (strmTurn fsize cswin budget s).1 = none := by
  unfold strmTurn
  simp only [he, if_true]
  cases hst : s.st <;>
    simp only [endStream, hst, he, monAll, monOut, ne_eq, not_true_eq_false, not_false_eq_true,
      reduceCtorEq, if_true, if_false] <;>
    exact ⟨_, rfl, fun x hx => by simp [hx], trivial⟩

/-- the per-stream part of the invariant -/
def StrmsOk (ss : List Strm) (m : Mon) : Prop :=
  ∀ s ∈ ss, s.err = false → (s.headersSent = true ↔ s.id ∈ m.hdr) ∧ s.id ∉ m.fin

/-- a scheduler pass: accepted; the streams that stay satisfy the invariant; only the streams
    of the pass are touched in the monitor -/
theorem passAux_mon (fsize : Nat) : ∀ (ss : List Strm) (cswin : Int) (budget : Nat) (m : Mon),
    StrmsOk ss m → (ss.map (·.id)).Nodup →
    ∃ m', monAll m (passAux fsize cswin budget ss).outs = some m' ∧
      StrmsOk (passAux fsize cswin budget ss).streams m' ∧
      ((passAux fsize cswin budget ss).streams.map (·.id)).Sublist (ss.map (·.id)) ∧
      (∀ x, x ∉ ss.map (·.id) → (x ∈ m'.hdr ↔ x ∈ m.hdr) ∧ (x ∈ m'.fin ↔ x ∈ m.fin)) := by
  intro ss
  induction ss with
  | nil => intro cswin budget m _ _; exact ⟨m, rfl, fun s hs => by simp [passAux] at hs, by simp [passAux], fun x _ => ⟨Iff.rfl, Iff.rfl⟩⟩
  | cons s rest ih =>
    intro cswin budget m hok hnd
    simp only [List.map_cons, List.nodup_cons] at hnd
    obtain ⟨hnotin, hndr⟩ := hnd
    -- the first stream's turn
    have hturn : ∃ m1, monAll m (strmTurn fsize cswin budget s).2.1 = some m1 ∧ m.sameBut m1 s.id ∧
        (∀ s', (strmTurn fsize cswin budget s).1 = some s' →
           s'.id = s.id ∧ s'.err = false ∧ s'.headersSent = true ∧ s.id ∈ m1.hdr ∧ s.id ∉ m1.fin) := by
      by_cases he : s.err = true
      · obtain ⟨m1, e, sb, hn⟩ := strmTurn_mon_err fsize cswin budget s m he
        exact ⟨m1, e, sb, fun s' h => by rw [hn] at h; cases h⟩
      · have he' : s.err = false := by cases h : s.err <;> simp_all
        have h0 := hok s (by simp) he'
        exact strmTurn_mon fsize cswin budget s m he' h0.1 h0.2
    obtain ⟨m1, e1, sb1, hstay⟩ := hturn
    -- the rest is untouched by it
    have hok1 : StrmsOk rest m1 := by
      intro x hx hxe
      have hne : x.id ≠ s.id := by
        intro h; apply hnotin; rw [← h]; exact List.mem_map_of_mem hx
      have h0 := hok x (by simp [hx]) hxe
      have hsb := sb1 x.id hne
      exact ⟨h0.1.trans hsb.1.symm, fun h => h0.2 (hsb.2.mp h)⟩
    simp only [passAux]
    generalize hgt : strmTurn fsize cswin budget s = t at e1 hstay
    obtain ⟨t1, t2, t3, t4⟩ := t
    simp only at e1 hstay
    obtain ⟨m', e2, hok2, hsub, hout⟩ := ih (cswin - t3) (budget - t3) m1 hok1 hndr
    refine ⟨m', ?_, ?_, ?_, ?_⟩
    · rw [monAll_append, e1]; exact e2
    · cases t1 with
      | none => exact hok2
      | some s' =>
        obtain ⟨hid, herr, hsent, hin, hnf⟩ := hstay s' rfl
        intro x hx hxe
        simp only [List.mem_cons] at hx
        rcases hx with rfl | hx
        · have ho := hout x.id (by rw [hid]; exact hnotin)
          exact ⟨⟨fun _ => ho.1.mpr (by rw [hid]; exact hin), fun _ => hsent⟩, fun h => hnf (by rw [← hid]; exact ho.2.mp h)⟩
        · exact hok2 x hx hxe
    · cases t1 with
      | none => exact List.Sublist.cons _ hsub
      | some s' =>
        obtain ⟨hid, _⟩ := hstay s' rfl
        simp only [List.map_cons, hid]
        exact List.Sublist.cons₂ _ hsub
    · intro x hx
      simp only [List.map_cons, List.mem_cons, not_or] at hx
      have h1 := sb1 x hx.1
      have h2 := hout x hx.2
      exact ⟨h2.1.trans h1.1, h2.2.trans h1.2⟩


theorem processPass_inv (c : H2Conn) (budget : Nat) (m : Mon) (h : Inv c m) :
    ∃ m', monAll m (processPass c budget).2 = some m' ∧ Inv (processPass c budget).1 m' := by
  unfold processPass
  split
  · exact ⟨m, rfl, h⟩
  · split
    · exact ⟨m, rfl, ⟨fun s hs => by simp at hs, fun s hs => by simp at hs, by simp, h.fresh⟩⟩
    · obtain ⟨m', e, hok, hsub, hout⟩ := passAux_mon c.peerMaxFrame c.streams c.swin budget m h.hs h.nd
      refine ⟨m', e, ⟨hok, ?_, hsub.nodup h.nd, ?_⟩⟩
      · intro s hs
        have : s.id ∈ c.streams.map (·.id) := hsub.subset (List.mem_map_of_mem hs)
        obtain ⟨s0, hs0, e0⟩ := List.mem_map.mp this
        simp only at e0 ⊢
        rw [← e0]; exact h.le s0 hs0
      · intro sid hsid
        have hni : sid ∉ c.streams.map (·.id) := by
          intro hin
          obtain ⟨s0, hs0, e0⟩ := List.mem_map.mp hin
          have := h.le s0 hs0
          simp only at e0 hsid
          omega
        have ho := hout sid hni
        have hf := h.fresh sid hsid
        exact ⟨fun x => hf.1 (ho.1.mp x), fun x => hf.2 (ho.2.mp x)⟩

/-! ### receive side -/

/-- effect of a receive action on the tracked streams: ids and `headersSent` are kept, `err` only
    rises, a new stream has an id above every id seen and nothing sent; `cid` only grows -/
structure Recv (c c' : H2Conn) : Prop where
  cid : c.cid ≤ c'.cid
  ga : c.goaway > 0 → c'.goaway > 0
  old : ∀ s' ∈ c'.streams,
    (∃ s ∈ c.streams, s.id = s'.id ∧ s.headersSent = s'.headersSent ∧ (s.err = true → s'.err = true)) ∨
    (c.cid < s'.id ∧ s'.headersSent = false)
  le : (∀ s ∈ c.streams, s.id ≤ c.cid) → ∀ s ∈ c'.streams, s.id ≤ c'.cid
  nd : (∀ s ∈ c.streams, s.id ≤ c.cid) → (c.streams.map (·.id)).Nodup → (c'.streams.map (·.id)).Nodup

theorem Recv.refl (c : H2Conn) : Recv c c :=
  ⟨Nat.le_refl _, id, fun s hs => Or.inl ⟨s, hs, rfl, rfl, id⟩, fun h => h, fun _ h => h⟩

theorem Recv.trans {a b c : H2Conn} (h1 : Recv a b) (h2 : Recv b c) : Recv a c := by
  refine ⟨Nat.le_trans h1.cid h2.cid, fun h => h2.ga (h1.ga h), ?_, fun h => h2.le (h1.le h),
          fun hl h => h2.nd (h1.le hl) (h1.nd hl h)⟩
  intro s' hs'
  rcases h2.old s' hs' with ⟨s, hs, e1, e2, e3⟩ | ⟨hlt, hh⟩
  · rcases h1.old s hs with ⟨s0, hs0, f1, f2, f3⟩ | ⟨hlt, hh⟩
    · exact Or.inl ⟨s0, hs0, f1.trans e1, f2.trans e2, fun h => e3 (f3 h)⟩
    · exact Or.inr ⟨by rw [← e1]; exact hlt, by rw [← e2]; exact hh⟩
  · exact Or.inr ⟨Nat.lt_of_le_of_lt h1.cid hlt, hh⟩

/-- only fields other than the stream list change; `cid` and `goaway` do not fall -/
theorem Recv.of_streams_eq {c c' : H2Conn} (hs : c'.streams = c.streams) (hc : c.cid ≤ c'.cid)
    (hg : c.goaway > 0 → c'.goaway > 0) : Recv c c' := by
  refine ⟨hc, hg, ?_, ?_, ?_⟩
  · intro s' h; rw [hs] at h; exact Or.inl ⟨s', h, rfl, rfl, id⟩
  · intro hl s h; rw [hs] at h; exact Nat.le_trans (hl s h) hc
  · intro _ h; rw [hs]; exact h

theorem Recv.upd (c : H2Conn) (sid : Nat) (f : Strm → Strm)
    (hf : ∀ s, (f s).id = s.id ∧ (f s).headersSent = s.headersSent ∧ (s.err = true → (f s).err = true)) :
    Recv c (updStrm c sid f) := by
  have hmap : (updStrm c sid f).streams.map (·.id) = c.streams.map (·.id) := by
    simp only [updStrm, List.map_map]
    apply List.map_congr_left
    intro s _
    simp only [Function.comp]
    split
    · exact (hf s).1
    · rfl
  refine ⟨Nat.le_refl _, id, ?_, ?_, ?_⟩
  · intro s' hs'
    simp only [updStrm, List.mem_map] at hs'
    obtain ⟨s, hs, rfl⟩ := hs'
    refine Or.inl ⟨s, hs, ?_⟩
    split
    · exact ⟨(hf s).1.symm, (hf s).2.1.symm, (hf s).2.2⟩
    · exact ⟨rfl, rfl, id⟩
  · intro hl s' hs'
    simp only [updStrm, List.mem_map] at hs'
    obtain ⟨s, hs, rfl⟩ := hs'
    have := hl s hs
    split
    · rw [(hf s).1]; exact this
    · exact this
  · intro _ h; rw [hmap]; exact h

theorem Recv.rst (c : H2Conn) (sid : Nat) : Recv c (rstState c sid) := by
  unfold LtVerif.rstState
  split
  · exact Recv.refl c
  · simp only
    split
    · refine Recv.trans (Recv.of_streams_eq (c' := { c with hcRecent := true }) rfl (Nat.le_refl _) id) ?_
      exact Recv.upd _ sid _ (by intro x; exact ⟨rfl, rfl, fun _ => rfl⟩)
    · exact Recv.upd _ sid _ (by intro x; exact ⟨rfl, rfl, fun _ => rfl⟩)

theorem Recv.rstFold : ∀ (l : List Strm) (c : H2Conn), Recv c (l.foldl (fun c s => LtVerif.rstState c s.id) c) := by
  intro l
  induction l with
  | nil => intro c; exact Recv.refl c
  | cons x xs ih => intro c; simp only [List.foldl_cons]; exact Recv.trans (Recv.rst c x.id) (ih _)

theorem Recv.goaway (c : H2Conn) (code : Nat) : Recv c (sendGoaway c code).1 := by
  have h0 : Recv c (goawayResets c code).1 := by
    unfold goawayResets
    split
    · exact Recv.rstFold _ _
    · exact Recv.refl c
  unfold LtVerif.sendGoaway
  simp only
  split
  · exact h0
  · refine Recv.trans h0 (Recv.of_streams_eq rfl (Nat.le_refl _) ?_)
    intro hg
    rename_i hn
    exact absurd ⟨by omega, Or.inl hg⟩ hn


/-- the RST_STREAM frames of `os` are for streams that were opened and that the connection has
    given up (or the connection is in error anyway) -/
def RstOk (c' : H2Conn) (os : List Out) : Prop :=
  c'.goaway > 0 ∨ ∀ sid code, Out.rst sid code ∈ os → sid ≤ c'.cid ∧ ∀ s' ∈ c'.streams, s'.id = sid → s'.err = true

theorem RstOk.nil (c : H2Conn) : RstOk c [] := Or.inr fun _ _ h => by simp at h

theorem RstOk.mono {c1 c' : H2Conn} {os : List Out} (h : RstOk c1 os) (r : Recv c1 c') : RstOk c' os := by
  rcases h with h | h
  · exact Or.inl (r.ga h)
  · refine Or.inr fun sid code hm => ?_
    obtain ⟨h1, h2⟩ := h sid code hm
    refine ⟨Nat.le_trans h1 r.cid, fun s' hs' e => ?_⟩
    rcases r.old s' hs' with ⟨s, hs, e1, _, e3⟩ | ⟨hlt, _⟩
    · exact e3 (h2 s hs (e1.trans e))
    · omega

theorem RstOk.append {c : H2Conn} {a b : List Out} (ha : RstOk c a) (hb : RstOk c b) : RstOk c (a ++ b) := by
  rcases ha with ha | ha
  · exact Or.inl ha
  · rcases hb with hb | hb
    · exact Or.inl hb
    · refine Or.inr fun sid code hm => ?_
      simp only [List.mem_append] at hm
      rcases hm with hm | hm
      · exact ha sid code hm
      · exact hb sid code hm

/-- a receive action with its immediate answer -/
structure Act (c : H2Conn) (r : Res) : Prop where
  recv : Recv c r.1
  ctl : AllCtl r.2
  rst : (∀ s ∈ c.streams, s.id ≤ c.cid) → RstOk r.1 r.2

theorem Act.quiet {c c' : H2Conn} (h : Recv c c') : Act c (c', []) := ⟨h, AllCtl.nil, fun _ => RstOk.nil _⟩

theorem Act.andThen {c : H2Conn} {r : Res} {f : H2Conn → Res} (h1 : Act c r) (h2 : ∀ c1, Act c1 (f c1)) :
    Act c (r.andThen f) := by
  refine ⟨Recv.trans h1.recv (h2 r.1).recv, AllCtl.append h1.ctl (h2 r.1).ctl, fun hl => ?_⟩
  exact RstOk.append ((h1.rst hl).mono (h2 r.1).recv) ((h2 r.1).rst (h1.recv.le hl))

/-- outputs without RST_STREAM -/
theorem Act.noRst {c c' : H2Conn} {os : List Out} (h : Recv c c') (hc : AllCtl os)
    (hn : ∀ sid code, Out.rst sid code ∉ os) : Act c (c', os) :=
  ⟨h, hc, fun _ => Or.inr fun sid code hm => absurd hm (hn sid code)⟩

theorem goawayResets_zero (c : H2Conn) : goawayResets c 0 = (c, []) := by simp [goawayResets]

theorem Act.goaway (c : H2Conn) (code : Nat) : Act c (sendGoaway c code) := by
  refine ⟨Recv.goaway c code, sendGoaway_ctl c code, fun _ => ?_⟩
  by_cases hc : code = 0
  · subst hc
    refine Or.inr fun sid code' hm => ?_
    exfalso
    unfold sendGoaway at hm
    simp only [goawayResets_zero] at hm
    split at hm <;> simp at hm
  · by_cases hg : c.goaway > 0
    · exact Or.inl ((Recv.goaway c code).ga hg)
    · exact Or.inl (sendGoaway_observable c code hc (by omega)).2.2

theorem findStrm_id {c : H2Conn} {sid : Nat} {s : Strm} (h : findStrm c sid = some s) : s.id = sid ∧ s ∈ c.streams := by
  unfold findStrm at h
  exact ⟨by simpa using List.find?_some h, List.mem_of_find?_eq_some h⟩

theorem findStrm_none {c : H2Conn} {sid : Nat} (h : findStrm c sid = none) : ∀ s ∈ c.streams, s.id ≠ sid := by
  unfold findStrm at h
  intro s hs e
  have := List.find?_eq_none.mp h s hs
  simp [e] at this

/-- the stream `sid` of `rstState c sid` is in error -/
theorem rstState_err (c : H2Conn) (sid : Nat) : ∀ s' ∈ (rstState c sid).streams, s'.id = sid → s'.err = true := by
  intro s' hs' e
  unfold rstState at hs'
  split at hs'
  · rename_i hn
    exact absurd e (findStrm_none hn s' hs')
  · simp only at hs'
    split at hs' <;>
    · simp only [updStrm, List.mem_map] at hs'
      obtain ⟨s, _, rfl⟩ := hs'
      by_cases hi : s.id = sid
      · simp [hi]
      · simp only [hi, if_false] at e

/-- RST_STREAM for a tracked stream that is given up at the same time (plus frames without RST) -/
theorem Act.rstTracked (c : H2Conn) (sid code : Nat) (hex : ∃ s ∈ c.streams, s.id = sid)
    (pre post : List Out) (hpre : AllCtl pre) (hpost : AllCtl post)
    (hn1 : ∀ a b, Out.rst a b ∉ pre) (hn2 : ∀ a b, Out.rst a b ∉ post) :
    Act c (rstState c sid, pre ++ [Out.rst sid code] ++ post) := by
  refine ⟨Recv.rst c sid, AllCtl.append (AllCtl.append hpre (AllCtl.cons rfl AllCtl.nil)) hpost, fun hl => ?_⟩
  refine Or.inr fun a b hm => ?_
  simp only [List.mem_append, List.mem_singleton] at hm
  rcases hm with (hm | hm) | hm
  · exact absurd hm (hn1 a b)
  · injection hm with h1 _
    subst h1
    obtain ⟨s, hs, e⟩ := hex
    refine ⟨?_, rstState_err c a⟩
    have := hl s hs
    rw [e] at this
    exact Nat.le_trans this (Recv.rst c a).cid
  · exact absurd hm (hn2 a b)

theorem Act.pre {c c1 : H2Conn} {r : Res} (h : Recv c c1) (a : Act c1 r) : Act c r :=
  ⟨Recv.trans h a.recv, a.ctl, fun hl => a.rst (h.le hl)⟩

theorem Act.post {c : H2Conn} {r : Res} {c2 : H2Conn} (a : Act c r) (h : Recv r.1 c2) : Act c (c2, r.2) :=
  ⟨Recv.trans a.recv h, a.ctl, fun hl => (a.rst hl).mono h⟩

theorem Act.addOut {c : H2Conn} {r : Res} (a : Act c r) (pre post : List Out) (h1 : AllCtl pre) (h2 : AllCtl post)
    (hn1 : ∀ x y, Out.rst x y ∉ pre) (hn2 : ∀ x y, Out.rst x y ∉ post) : Act c (r.1, pre ++ r.2 ++ post) := by
  refine ⟨a.recv, AllCtl.append (AllCtl.append h1 a.ctl) h2, fun hl => ?_⟩
  rcases a.rst hl with h | h
  · exact Or.inl h
  · refine Or.inr fun sid code hm => ?_
    simp only [List.mem_append] at hm
    rcases hm with (hm | hm) | hm
    · exact absurd hm (hn1 sid code)
    · exact h sid code hm
    · exact absurd hm (hn2 sid code)

theorem upd_mem_id (c : H2Conn) (x sid : Nat) (f : Strm → Strm) (hf : ∀ s, (f s).id = s.id)
    (hex : ∃ s ∈ c.streams, s.id = sid) : ∃ s ∈ (updStrm c x f).streams, s.id = sid := by
  obtain ⟨s, hs, e⟩ := hex
  refine ⟨if s.id = x then f s else s, ?_, ?_⟩
  · simp only [updStrm, List.mem_map]; exact ⟨s, hs, rfl⟩
  · split
    · rw [hf]; exact e
    · exact e

theorem ite_noRst (p : Prop) [Decidable p] (o : Out) (ho : ∀ a b, o ≠ Out.rst a b) :
    ∀ a b, Out.rst a b ∉ (if p then [o] else []) := by
  intro a b h
  split at h
  · simp at h; exact ho a b h.symm
  · simp at h

theorem Act.discardCnt (c : H2Conn) : Act c (discardCount c) := by
  unfold discardCount
  simp only
  split
  · exact Act.pre (c1 := { c with nDiscarded := c.nDiscarded + 1 })
      (Recv.of_streams_eq rfl (Nat.le_refl _) id) (Act.goaway _ _)
  · exact Act.quiet (Recv.of_streams_eq rfl (Nat.le_refl _) id)

theorem Act.discard (c : H2Conn) (kind : HdrKind) : Act c (discardHeaders c kind) := by
  unfold discardHeaders
  split
  · exact Act.quiet (Recv.refl c)
  · split
    · exact Act.andThen (f := fun c => sendGoaway c E.compression) (Act.discardCnt c) (fun c1 => Act.goaway c1 _)
    · exact Act.discardCnt c

theorem Act.connWin (c : H2Conn) (len : Nat) : Act c (connWinUpd c len) := by
  unfold connWinUpd
  exact Act.noRst (Recv.of_streams_eq rfl (Nat.le_refl _) id) (ite_ctl _ _ rfl) (ite_noRst _ _ (by intro a b h; cases h))

/-- h2_recv_end_data() for a tracked stream -/
theorem Act.endData (c : H2Conn) (s : Strm) (alen : Nat) (hs : ∃ x ∈ c.streams, x.id = s.id) :
    Act c ((recvEndData c s alen).1, (recvEndData c s alen).2.1) := by
  have hu : ∀ f : Strm → Strm, (∀ x, (f x).id = x.id ∧ (f x).headersSent = x.headersSent ∧ (x.err = true → (f x).err = true)) →
      Recv c (updStrm c s.id f) := fun f hf => Recv.upd c s.id f hf
  unfold recvEndData
  simp only
  split
  · refine ⟨?_, AllCtl.nil, fun _ => RstOk.nil _⟩
    show Recv c (updStrm (updStrm c s.id _) s.id _)
    exact Recv.trans (Recv.upd c s.id _ (by intro x; exact ⟨rfl, rfl, id⟩)) (Recv.upd _ s.id _ (by intro x; exact ⟨rfl, rfl, id⟩))
  · split
    · have h1 := hu (fun x => { x with st := if s.st = .open then StSt.hcRemote else StSt.closed }) (by intro x; exact ⟨rfl, rfl, id⟩)
      refine Act.pre h1 ?_
      have := Act.rstTracked (updStrm c s.id fun x => { x with st := if s.st = .open then StSt.hcRemote else StSt.closed })
        s.id E.protocol (upd_mem_id c s.id s.id _ (fun _ => rfl) hs) [] [] AllCtl.nil AllCtl.nil
        (fun _ _ h => by simp at h) (fun _ _ h => by simp at h)
      simpa using this
    · exact Act.quiet (hu _ (by intro x; exact ⟨rfl, rfl, id⟩))


theorem noRst_nil : ∀ a b, Out.rst a b ∉ ([] : List Out) := fun _ _ h => by simp at h

theorem noRst_wu (p : Prop) [Decidable p] (x y : Nat) : ∀ a b, Out.rst a b ∉ (if p then [Out.windowUpdate x y] else []) :=
  ite_noRst _ _ (by intro a b h; cases h)

theorem connWinUpd_streams (c : H2Conn) (len : Nat) : (connWinUpd c len).1.streams = c.streams := rfl

theorem Act.dataStream (c : H2Conn) (s : Strm) (sid len alen : Nat) (es : Bool) (hs : findStrm c sid = some s) :
    Act c (recvDataStream c s sid len alen es) := by
  have hid := findStrm_id hs
  have hex : ∃ x ∈ c.streams, x.id = sid := ⟨s, hid.2, hid.1⟩
  unfold recvDataStream
  split
  · -- stream error STREAM_CLOSED
    have a := Act.rstTracked c sid E.streamClosed hex [] (connWinUpd (rstState c sid) len).2 AllCtl.nil
      (connWinUpd_ctl _ _) noRst_nil (noRst_wu _ _ _)
    have := Act.post (c2 := (connWinUpd (rstState c sid) len).1) a (Recv.of_streams_eq rfl (Nat.le_refl _) id)
    simpa using this
  · simp only
    split
    · -- more DATA than the content-length
      have a := Act.rstTracked (connWinUpd c len).1 sid E.protocol hex (connWinUpd c len).2 [] (connWinUpd_ctl _ _)
        AllCtl.nil (noRst_wu _ _ _) noRst_nil
      have := Act.pre (Recv.of_streams_eq (c := c) (c' := (connWinUpd c len).1) rfl (Nat.le_refl _) id) a
      simpa using this
    · have hex1 : ∃ x ∈ (connWinUpd c len).1.streams, x.id = s.id := ⟨s, hid.2, rfl⟩
      have hpre : Recv c (connWinUpd c len).1 := Recv.of_streams_eq rfl (Nat.le_refl _) id
      by_cases hes : es = true
      · simp only [hes, if_true]
        have a := Act.pre hpre (Act.endData (connWinUpd c len).1 s alen hex1)
        split
        · have := a.addOut (connWinUpd c len).2 [] (connWinUpd_ctl _ _) AllCtl.nil (noRst_wu _ _ _) noRst_nil
          simpa using this
        · have b := a.addOut (connWinUpd c len).2
            (if (fudgeUpdate s.fudge 0).2 = true then [Out.windowUpdate sid 16384] else [])
            (connWinUpd_ctl _ _) (ite_ctl _ _ rfl) (noRst_wu _ _ _) (noRst_wu _ _ _)
          have := Act.post (c2 := updStrm (recvEndData (connWinUpd c len).1 s alen).1 sid fun x =>
            { x with fudge := (fudgeUpdate s.fudge 0).1, bodyIn := x.bodyIn + alen }) b
            (Recv.upd _ sid _ (by intro x; exact ⟨rfl, rfl, id⟩))
          simpa using this
      · simp only [hes, Bool.false_eq_true, if_false, Bool.not_true, List.append_nil]
        have a : Act c ((connWinUpd c len).1, (connWinUpd c len).2) :=
          Act.noRst hpre (connWinUpd_ctl _ _) (noRst_wu _ _ _)
        have b := a.addOut [] (if (fudgeUpdate s.fudge len).2 = true then [Out.windowUpdate sid 16384] else [])
          AllCtl.nil (ite_ctl _ _ rfl) noRst_nil (noRst_wu _ _ _)
        have := Act.post (c2 := updStrm (connWinUpd c len).1 sid fun x =>
          { x with fudge := (fudgeUpdate s.fudge len).1, bodyIn := x.bodyIn + alen }) b
          (Recv.upd _ sid _ (by intro x; exact ⟨rfl, rfl, id⟩))
        simpa using this

theorem Act.data (c : H2Conn) (sid len : Nat) (pad : Option Nat) (es : Bool) : Act c (recvData c sid len pad es) := by
  unfold recvData
  split
  · exact Act.goaway _ _
  · split
    · exact Act.goaway _ _
    · split
      · split
        · exact Act.connWin _ _
        · split
          · exact Act.quiet (Recv.refl c)
          · split
            · exact Act.quiet (Recv.refl c)
            · exact Act.post (Act.goaway c 0) (Recv.of_streams_eq rfl (Nat.le_refl _) id)
      · rename_i s hs
        exact Act.dataStream c s sid len _ es hs

theorem Act.rstOne (c : H2Conn) (sid code : Nat) (hex : ∃ s ∈ c.streams, s.id = sid) :
    Act c (rstState c sid, [Out.rst sid code]) := by
  have := Act.rstTracked c sid code hex [] [] AllCtl.nil AllCtl.nil noRst_nil noRst_nil
  simpa using this

theorem Act.windowUpdate (c : H2Conn) (sid len inc : Nat) : Act c (recvWindowUpdate c sid len inc) := by
  unfold recvWindowUpdate
  split
  · exact Act.goaway _ _
  · split
    · split
      · exact Act.goaway _ _
      · split
        · exact Act.goaway _ _
        · exact Act.quiet (Recv.of_streams_eq rfl (Nat.le_refl _) id)
    · split
      · split
        · exact Act.goaway _ _
        · exact Act.quiet (Recv.refl c)
      · rename_i s hs
        have hid := findStrm_id hs
        have hex : ∃ x ∈ c.streams, x.id = sid := ⟨s, hid.2, hid.1⟩
        split
        · exact Act.quiet (Recv.refl c)
        · split
          · exact Act.rstOne c sid _ hex
          · split
            · exact Act.rstOne c sid _ hex
            · exact Act.quiet (Recv.upd c sid _ (by intro x; exact ⟨rfl, rfl, id⟩))

theorem Act.rstStream (c : H2Conn) (sid len : Nat) : Act c (recvRstStream c sid len) := by
  unfold recvRstStream
  split
  · exact Act.goaway _ _
  · split
    · exact Act.goaway _ _
    · split
      · exact Act.quiet (Recv.upd c sid _ (by intro x; exact ⟨rfl, rfl, fun _ => rfl⟩))
      · split
        · exact Act.goaway _ _
        · exact Act.quiet (Recv.refl c)

theorem Act.priority (c : H2Conn) (sid len dep : Nat) : Act c (recvPriority c sid len dep) := by
  unfold recvPriority
  split
  · exact Act.goaway _ _
  · split
    · exact Act.goaway _ _
    · split
      · rename_i s hs
        have hid := findStrm_id hs
        split
        · exact Act.rstOne c sid _ ⟨s, hid.2, hid.1⟩
        · exact Act.quiet (Recv.refl c)
      · rename_i hn
        split
        · rename_i hc
          refine ⟨Recv.refl c, AllCtl.cons rfl AllCtl.nil, fun _ => Or.inr fun a b hm => ?_⟩
          simp only [List.mem_singleton] at hm
          injection hm with h1 _
          subst h1
          exact ⟨hc.2.2, fun s' hs' e => absurd e (findStrm_none hn s' hs')⟩
        · exact Act.quiet (Recv.refl c)

theorem Act.goawayRecv (c : H2Conn) (sid len code : Nat) : Act c (recvGoaway c sid len code) := by
  unfold recvGoaway
  split
  · exact Act.goaway _ _
  · split
    · exact Act.goaway _ _
    · exact Act.post (Act.goaway c _) (Recv.of_streams_eq rfl (Nat.le_refl _) id)

theorem Act.ping (c : H2Conn) (ack : Bool) (sid len : Nat) (o : Bytes) : Act c (recvPing c ack sid len o) := by
  unfold recvPing
  split
  · exact Act.goaway _ _
  · split
    · exact Act.goaway _ _
    · split
      · exact Act.quiet (Recv.refl c)
      · exact Act.noRst (Recv.refl c) (AllCtl.cons rfl AllCtl.nil) (fun a b h => by simp at h)


theorem Recv.mapStreams {c c' : H2Conn} (f : Strm → Strm) (hs : c'.streams = c.streams.map f) (hc : c.cid ≤ c'.cid)
    (hg : c.goaway > 0 → c'.goaway > 0)
    (hf : ∀ s, (f s).id = s.id ∧ (f s).headersSent = s.headersSent ∧ (s.err = true → (f s).err = true)) :
    Recv c c' := by
  refine ⟨hc, hg, ?_, ?_, ?_⟩
  · intro s' h
    rw [hs, List.mem_map] at h
    obtain ⟨s, hm, rfl⟩ := h
    exact Or.inl ⟨s, hm, (hf s).1.symm, (hf s).2.1.symm, (hf s).2.2⟩
  · intro hl s' h
    rw [hs, List.mem_map] at h
    obtain ⟨s, hm, rfl⟩ := h
    rw [(hf s).1]; exact Nat.le_trans (hl s hm) hc
  · intro _ h
    rw [hs, List.map_map]
    have : (fun s => ((fun x => x.id) ∘ f) s) = fun s : Strm => s.id := by funext s; exact (hf s).1
    simp only [Function.comp_def] at this ⊢
    rw [this]; exact h

theorem Act.settingsParams : ∀ (ps : List (Nat × Nat)) (c : H2Conn), Act c (applySettings c ps) := by
  intro ps
  induction ps with
  | nil => intro c; simp only [applySettings]; exact Act.quiet (Recv.refl c)
  | cons p rest ih =>
    intro c
    obtain ⟨k, v⟩ := p
    unfold applySettings
    split
    · exact Act.goaway _ _
    · split
      · split
        · exact Act.goaway _ _
        · split
          · exact Act.goaway _ _
          · refine Act.pre ?_ (ih _)
            exact Recv.mapStreams (fun s => if s.live then { s with swin := s.swin + ((v : Int) - c.initWin) } else s)
              rfl (Nat.le_refl _) id (by intro s; split <;> exact ⟨rfl, rfl, id⟩)
      · split
        · split
          · exact Act.goaway _ _
          · exact Act.pre (c1 := { c with peerMaxFrame := v }) (Recv.of_streams_eq rfl (Nat.le_refl _) id) (ih _)
        · exact ih _

theorem Act.settings (c : H2Conn) (ack : Bool) (sid : Nat) (ps : List (Nat × Nat)) (junk : Nat) :
    Act c (recvSettings c ack sid ps junk) := by
  unfold recvSettings
  split
  · exact Act.goaway _ _
  · split
    · simp only
      have a := Act.settingsParams ps c
      by_cases hj : (applySettings c ps).1.goaway = c.goaway ∧ junk ≠ 0
      · have hj1 := hj.1
        have hj2 : ¬ junk = 0 := hj.2
        simp only [hj1, hj2, ne_eq, not_false_eq_true, and_self, if_true]
        have b : Act c ((applySettings c ps).andThen fun c1 => sendGoaway c1 E.frameSize) :=
          a.andThen (fun c1 => Act.goaway _ _)
        have d := b.addOut [] (if (sendGoaway (applySettings c ps).1 E.frameSize).1.goaway ≤ 0 then [Out.settingsAck] else [])
          AllCtl.nil (ite_ctl _ _ rfl) noRst_nil (ite_noRst _ _ (by intro a b h; cases h))
        simpa [Res.andThen, List.append_assoc] using d
      · simp only [hj, if_false, List.append_nil]
        have d := a.addOut [] (if (applySettings c ps).1.goaway ≤ 0 then [Out.settingsAck] else [])
          AllCtl.nil (ite_ctl _ _ rfl) noRst_nil (ite_noRst _ _ (by intro a b h; cases h))
        simpa using d
    · split
      · exact Act.goaway _ _
      · split
        · exact Act.quiet (Recv.of_streams_eq rfl (Nat.le_refl _) id)
        · exact Act.goaway _ _

theorem reprio_perm (l : List Strm) (i : Nat) (s : Strm) : (reprio l i s).Perm (l.take i ++ s :: l.drop (i + 1)) := by
  unfold reprio
  split
  · generalize (l.take i).reverse.takeWhile (·.gt s) = tw
    have hb := (List.take_append_drop (i - tw.length) (l.take i)).symm
    generalize l.take i = b at hb ⊢
    generalize l.drop (i + 1) = a
    rw [List.append_assoc, List.append_assoc]
    conv => rhs; rw [hb, List.append_assoc]
    apply List.Perm.append_left
    simp only [List.singleton_append]
    exact (List.perm_middle).symm
  · have htd := (List.takeWhile_append_dropWhile (p := fun x => x.lt s) (l := l.drop (i + 1))).symm
    generalize l.take i = b
    generalize (l.drop (i + 1)).takeWhile (·.lt s) = tw at htd ⊢
    generalize (l.drop (i + 1)).dropWhile (·.lt s) = dw at htd ⊢
    rw [htd, List.append_assoc, List.append_assoc]
    apply List.Perm.append_left
    simp only [List.singleton_append]
    exact List.perm_middle

theorem Act.priorityUpdate (c : H2Conn) (sid len prid prio : Nat) : Act c (recvPriorityUpdate c sid len prid prio) := by
  unfold recvPriorityUpdate
  split
  · exact Act.goaway _ _
  · split
    · exact Act.goaway _ _
    · split
      · exact Act.goaway _ _
      · split
        · exact Act.quiet (Recv.refl c)
        · rename_i s hs
          split
          · exact Act.quiet (Recv.refl c)
          · refine Act.quiet ?_
            -- the list is a permutation of the old one with stream `prid` replaced by itself, re-prioritised
            have hid := findStrm_id hs
            have hi : c.streams.findIdx (·.id = prid) < c.streams.length := findIdx_lt_of_find _ _ s hs
            have ht : (c.streams[c.streams.findIdx (·.id = prid)]).id = prid := by
              simpa using List.findIdx_getElem (w := hi)
            have hsplit : c.streams = c.streams.take (c.streams.findIdx (·.id = prid)) ++
                c.streams[c.streams.findIdx (·.id = prid)] :: c.streams.drop (c.streams.findIdx (·.id = prid) + 1) := by
              conv => lhs; rw [← List.take_append_drop (c.streams.findIdx (·.id = prid)) c.streams]
              rw [List.drop_eq_getElem_cons hi]
            generalize c.streams[c.streams.findIdx (·.id = prid)] = t at ht hsplit
            have hperm := reprio_perm c.streams (c.streams.findIdx (·.id = prid))
              { s with urg := prio / 2, incremental := prio % 2 = 0 }
            generalize c.streams.findIdx (·.id = prid) = i at hperm hsplit
            generalize hb : c.streams.take i = b at hperm hsplit
            generalize ha : c.streams.drop (i + 1) = a at hperm hsplit
            -- ids
            have hids : List.Perm ((reprio c.streams i { s with urg := prio / 2, incremental := prio % 2 = 0 }).map (·.id))
                (c.streams.map (·.id)) := by
              have := hperm.map (·.id)
              conv => rhs; rw [hsplit]
              simpa [hid.1, ht] using this
            refine ⟨Nat.le_refl _, id, ?_, ?_, ?_⟩
            · intro s' hs'
              have hm := hperm.mem_iff.mp hs'
              simp only [List.mem_append, List.mem_cons] at hm
              rcases hm with hm | rfl | hm
              · exact Or.inl ⟨s', by rw [hsplit]; simp [hm], rfl, rfl, id⟩
              · exact Or.inl ⟨s, hid.2, rfl, rfl, id⟩
              · exact Or.inl ⟨s', by rw [hsplit]; simp [hm], rfl, rfl, id⟩
            · intro hl s' hs'
              have : s'.id ∈ c.streams.map (·.id) := hids.mem_iff.mp (List.mem_map_of_mem hs')
              obtain ⟨s0, h0, e0⟩ := List.mem_map.mp this
              simp only at e0 ⊢
              rw [← e0]; exact hl s0 h0
            · intro _ h
              exact hids.nodup_iff.mpr h


theorem refuse_core (c c1 : H2Conn) (sid : Nat) (h1 : c1.streams = c.streams ∧ c1.cid = sid ∧ c1.goaway = c.goaway)
    (hsid : c.cid < sid) (r : Res) (ar : Act c1 r) : Act c (r.1, [Out.rst sid E.refused] ++ r.2) := by
  have r01 : Recv c c1 := Recv.of_streams_eq h1.1 (by rw [h1.2.1]; omega) (by rw [h1.2.2]; exact id)
  refine ⟨Recv.trans r01 ar.recv, AllCtl.cons rfl ar.ctl, fun hl => ?_⟩
  have hl1 : ∀ s ∈ c1.streams, s.id ≤ c1.cid := r01.le hl
  rcases ar.rst hl1 with hg | hr
  · exact Or.inl hg
  · refine Or.inr fun a b hm => ?_
    simp only [List.singleton_append, List.mem_cons] at hm
    rcases hm with hm | hm
    · injection hm with e1 _
      subst e1
      refine ⟨by have := ar.recv.cid; rw [h1.2.1] at this; exact this, fun s' hs' e => ?_⟩
      exfalso
      rcases ar.recv.old s' hs' with ⟨s0, hs0, e1, _, _⟩ | ⟨hlt, _⟩
      · rw [h1.1] at hs0
        have := hl s0 hs0
        omega
      · rw [h1.2.1] at hlt; omega
    · exact hr a b hm

theorem Act.refuse (c : H2Conn) (sid : Nat) (hsid : c.cid < sid) : Act c (refuseStream c sid) := by
  unfold refuseStream
  split
  · exact Act.goaway _ _
  · simp only
    refine refuse_core c { c with hcRecent := c.hcRecent || c.sentSettings, cid := sid, nRefused := c.nRefused + 1 }
      sid ⟨rfl, rfl, rfl⟩ hsid _ ?_
    split
    · exact Act.goaway _ _
    · exact Act.quiet (Recv.refl _)

theorem Recv.add (c : H2Conn) (s : Strm) (hid : c.cid < s.id) (hh : s.headersSent = false) :
    Recv c (addStrm c s) := by
  have hperm : List.Perm (addStrm c s).streams (c.streams ++ [s]) := by
    have htd := List.takeWhile_append_dropWhile (p := fun x : Strm => decide (x.prio > s.prio)) (l := c.streams.reverse)
    have hrev : c.streams = (c.streams.reverse.dropWhile fun x => decide (x.prio > s.prio)).reverse ++
        (c.streams.reverse.takeWhile fun x => decide (x.prio > s.prio)).reverse := by
      rw [← List.reverse_append, htd, List.reverse_reverse]
    simp only [addStrm]
    generalize (c.streams.reverse.dropWhile fun x => decide (x.prio > s.prio)).reverse = d at hrev ⊢
    generalize (c.streams.reverse.takeWhile fun x => decide (x.prio > s.prio)).reverse = t at hrev ⊢
    rw [hrev, List.append_assoc, List.append_assoc]
    exact List.Perm.append_left d List.perm_append_comm
  refine ⟨Nat.le_of_lt hid, id, ?_, ?_, ?_⟩
  · intro s' hs'
    have := hperm.mem_iff.mp hs'
    simp only [List.mem_append, List.mem_singleton] at this
    rcases this with h | rfl
    · exact Or.inl ⟨s', h, rfl, rfl, id⟩
    · exact Or.inr ⟨hid, hh⟩
  · intro hl s' hs'
    have := hperm.mem_iff.mp hs'
    simp only [List.mem_append, List.mem_singleton] at this
    show s'.id ≤ s.id
    rcases this with h | rfl
    · exact Nat.le_trans (hl s' h) (Nat.le_of_lt hid)
    · exact Nat.le_refl _
  · intro hl hnd
    have := (hperm.map (·.id)).nodup_iff
    rw [this, List.map_append, List.nodup_append]
    refine ⟨hnd, by simp, ?_⟩
    intro a ha b hb
    simp only [List.map_cons, List.map_nil, List.mem_singleton] at hb
    obtain ⟨x, hx, rfl⟩ := List.mem_map.mp ha
    have := hl x hx
    rw [hb]
    intro h
    omega

theorem Act.trailers (c : H2Conn) (sid : Nat) (kind : HdrKind) (es : Bool) : Act c (recvTrailers c sid kind es) := by
  unfold recvTrailers
  split
  · exact (Act.goaway c _).andThen (fun c1 => Act.discard c1 kind)
  · rename_i s hs
    have hid := findStrm_id hs
    have hex : ∃ x ∈ c.streams, x.id = sid := ⟨s, hid.2, hid.1⟩
    split
    · exact (Act.rstOne c sid _ hex).andThen (fun c1 => Act.discard c1 kind)
    · split
      · exact (Act.rstOne c sid _ hex).andThen (fun c1 => Act.discard c1 kind)
      · simp only
        have a := Act.endData c s 0 ⟨s, hid.2, rfl⟩
        split
        · split
          · exact a.andThen (fun c1 => Act.goaway c1 _)
          · exact a
        · exact a.andThen (fun c1 => Act.discard c1 kind)

theorem Act.headers (c : H2Conn) (sid : Nat) (kind : HdrKind) (es : Bool) (dep : Option Nat) (padBad : Bool)
    (hg : c.goaway ≤ 0) : Act c (recvHeaders c sid kind es dep padBad) := by
  unfold recvHeaders
  split
  · exact Act.goaway _ _
  · split
    · exact Act.goaway _ _
    · split
      · refine ⟨Recv.goaway c _, AllCtl.cons rfl (sendGoaway_ctl _ _), fun _ => Or.inl ?_⟩
        exact (sendGoaway_observable c E.protocol (by decide) hg).2.2
      · split
        · exact Act.trailers _ _ _ _
        · rename_i hsid
          have hsid' : c.cid < sid := by omega
          split
          · exact Act.discard c kind
          · split
            · exact (Act.refuse c sid hsid').andThen (fun c1 => Act.discard c1 kind)
            · rename_i hg0 _
              have hg0' : c.goaway = 0 := by simpa using hg0
              unfold newStream
              split
              · exact Act.pre (Recv.add c (mkStrm c sid es 0 0 (-1) false false) hsid' rfl) (Act.goaway _ _)
              · exact Act.noRst (Recv.add c (mkStrm c sid es _ _ _ _ _) hsid' rfl) (ite_ctl _ _ rfl) (noRst_wu _ _ _)


theorem Act.frame (c : H2Conn) (f : FrameIn) : Act c (recvFrame c f) := by
  unfold recvFrame
  split
  · exact Act.quiet (Recv.refl c)
  · rename_i hguard
    have hg : c.goaway ≤ 0 := by
      have : ¬ c.goaway > 0 := fun h => hguard (Or.inl h)
      omega
    cases f with
    | oversize => exact Act.goaway _ _
    | settings ack sid ps junk => exact Act.settings _ _ _ _ _
    | ping ack sid len o => exact Act.ping _ _ _ _ _
    | windowUpdate sid len inc => exact Act.windowUpdate _ _ _ _
    | rstStream sid len code => exact Act.rstStream _ _ _
    | priority sid len dep => exact Act.priority _ _ _ _
    | priorityUpdate sid len prid prio => exact Act.priorityUpdate _ _ _ _ _
    | goaway sid len code => exact Act.goawayRecv _ _ _ _
    | data sid len pad es => exact Act.data _ _ _ _ _
    | headers sid kind es dep padBad contBad =>
      simp only
      split
      · exact Act.goaway _ _
      · exact Act.headers _ _ _ _ _ _ hg
    | continuation sid => exact Act.goaway _ _
    | pushPromise sid => exact Act.goaway _ _
    | unknown t => exact Act.quiet (Recv.refl c)
    | contFlood => exact Act.goaway _ _

/-- a receive action keeps the invariant (or ends in the terminal error state) -/
theorem Act.inv {c : H2Conn} {r : Res} {m : Mon} (a : Act c r) (h : Inv c m) :
    ∃ m', monAll m r.2 = some m' ∧ (r.1.goaway > 0 ∨ Inv r.1 m') := by
  obtain ⟨m', e, hh, hfin⟩ := monAll_ctl r.2 m a.ctl
  refine ⟨m', e, ?_⟩
  rcases a.rst h.le with hg | hr
  · exact Or.inl hg
  · refine Or.inr ⟨?_, a.recv.le h.le, a.recv.nd h.le h.nd, ?_⟩
    · intro s' hs' he
      have hnotrst : ¬ ∃ code, Out.rst s'.id code ∈ r.2 := by
        rintro ⟨code, hm⟩
        have := (hr s'.id code hm).2 s' hs' rfl
        rw [he] at this; cases this
      rcases a.recv.old s' hs' with ⟨s, hs, e1, e2, e3⟩ | ⟨hlt, hsent⟩
      · have hes : s.err = false := by
          cases hx : s.err
          · rfl
          · have := e3 hx; rw [he] at this; cases this
        have h0 := h.hs s hs hes
        rw [e1, e2] at h0
        refine ⟨by rw [hh]; exact h0.1, fun hf => ?_⟩
        rcases (hfin s'.id).mp hf with hf | hf
        · exact h0.2 hf
        · exact hnotrst hf
      · have hf := h.fresh s'.id hlt
        refine ⟨?_, fun hx => ?_⟩
        · rw [hh, hsent]
          exact ⟨fun x => Bool.noConfusion x, fun x => absurd x hf.1⟩
        rcases (hfin s'.id).mp hx with hx | hx
        · exact hf.2 hx
        · exact hnotrst hx
    · intro sid hsid
      have hsid0 : c.cid < sid := Nat.lt_of_le_of_lt a.recv.cid hsid
      have hf := h.fresh sid hsid0
      refine ⟨by rw [hh]; exact hf.1, fun hx => ?_⟩
      rcases (hfin sid).mp hx with hx | ⟨code, hx⟩
      · exact hf.2 hx
      · have := (hr sid code hx).1
        omega

/-! ### whole runs -/

/-- the invariant, or the terminal state after a connection error (nothing is emitted any more) -/
def Good (c : H2Conn) (m : Mon) : Prop := c.goaway > 0 ∨ Inv c m

theorem processPass_term (c : H2Conn) (budget : Nat) (h : c.goaway > 0) :
    (processPass c budget).2 = [] ∧ (processPass c budget).1.goaway > 0 := by
  unfold processPass
  split
  · exact ⟨rfl, h⟩
  · simp [h]

theorem good_pass (c : H2Conn) (budget : Nat) (m : Mon) (h : Good c m) :
    ∃ m', monAll m (processPass c budget).2 = some m' ∧ Good (processPass c budget).1 m' := by
  rcases h with h | h
  · have := processPass_term c budget h
    exact ⟨m, by rw [this.1]; rfl, Or.inl this.2⟩
  · obtain ⟨m', e, hi⟩ := processPass_inv c budget m h
    exact ⟨m', e, Or.inr hi⟩

theorem good_frame (c : H2Conn) (f : FrameIn) (m : Mon) (h : Good c m) :
    ∃ m', monAll m (recvFrame c f).2 = some m' ∧ Good (recvFrame c f).1 m' := by
  rcases h with h | h
  · have : recvFrame c f = (c, []) := by simp [recvFrame, h]
    rw [this]; exact ⟨m, rfl, Or.inl h⟩
  · exact (Act.frame c f).inv h

theorem good_preSlot : ∀ (fuel : Nat) (c : H2Conn) (f : FrameIn) (m : Mon), Good c m →
    ∃ m', monAll m (preSlot fuel c f).2 = some m' ∧ Good (preSlot fuel c f).1 m' := by
  intro fuel
  induction fuel with
  | zero => intro c f m h; exact ⟨m, rfl, h⟩
  | succ n ih =>
    intro c f m h
    unfold preSlot
    split
    · obtain ⟨m1, e1, g1⟩ := good_pass c 262144 m h
      obtain ⟨m2, e2, g2⟩ := ih _ f m1 g1
      exact ⟨m2, by simp only; rw [monAll_append, e1]; exact e2, g2⟩
    · exact ⟨m, rfl, h⟩

theorem good_stopClear (c : H2Conn) (m : Mon) (h : Good c m) : Good { c with stop := false } m := by
  rcases h with h | h
  · exact Or.inl h
  · exact Or.inr ⟨h.hs, h.le, h.nd, h.fresh⟩

theorem good_postStop (c : H2Conn) (m : Mon) (h : Good c m) :
    ∃ m', monAll m (postStop c).2 = some m' ∧ Good (postStop c).1 m' := by
  unfold postStop
  split
  · exact good_pass _ _ m (good_stopClear c m h)
  · exact ⟨m, rfl, h⟩

theorem good_batch : ∀ (fs : List FrameIn) (c : H2Conn) (m : Mon), Good c m →
    ∃ m', monAll m (recvBatch c fs).2 = some m' ∧ Good (recvBatch c fs).1 m' := by
  intro fs
  induction fs with
  | nil => intro c m h; exact ⟨m, rfl, h⟩
  | cons f fs ih =>
    intro c m h
    simp only [recvBatch]
    obtain ⟨m0, e0, g0⟩ := good_preSlot 4096 c f m h
    obtain ⟨m1, e1, g1⟩ := good_frame _ f m0 g0
    obtain ⟨m2, e2, g2⟩ := good_postStop _ m1 g1
    obtain ⟨m3, e3, g3⟩ := ih _ m2 g2
    refine ⟨m3, ?_, g3⟩
    rw [monAll_append, monAll_append, monAll_append, e0]
    simp only [Option.bind]
    rw [e1]
    simp only [Option.bind]
    rw [e2]
    exact e3

theorem good_quiesce : ∀ (fuel : Nat) (c : H2Conn) (m : Mon), Good c m →
    ∃ m', monAll m (processQuiesce fuel c).2 = some m' ∧ Good (processQuiesce fuel c).1 m' := by
  intro fuel
  induction fuel with
  | zero => intro c m h; exact ⟨m, rfl, h⟩
  | succ n ih =>
    intro c m h
    simp only [processQuiesce]
    obtain ⟨m1, e1, g1⟩ := good_pass c 262144 m h
    split
    · exact ⟨m, rfl, by
        rename_i hemp
        have : (processPass c 262144).2 = [] := by simpa using hemp
        rw [this] at e1
        simp only [monAll, Option.some.injEq] at e1
        rw [e1]; exact g1⟩
    · obtain ⟨m2, e2, g2⟩ := ih _ m1 g1
      exact ⟨m2, by simp only; rw [monAll_append, e1]; exact e2, g2⟩

theorem good_step (c : H2Conn) (batch : List FrameIn) (m : Mon) (h : Good c m) :
    ∃ m', monAll m (h2Step c batch).2 = some m' ∧ Good (h2Step c batch).1 m' := by
  unfold h2Step
  obtain ⟨m1, e1, g1⟩ := good_batch batch c m h
  obtain ⟨m2, e2, g2⟩ := good_quiesce 100000 _ m1 g1
  exact ⟨m2, by simp only; rw [monAll_append, e1]; exact e2, g2⟩

theorem good_run : ∀ (bs : List (List FrameIn)) (c : H2Conn) (m : Mon), Good c m →
    ∃ m', monAll m (runOuts c bs) = some m' := by
  intro bs
  induction bs with
  | nil => intro c m _; exact ⟨m, rfl⟩
  | cons b bs ih =>
    intro c m h
    obtain ⟨m1, e1, g1⟩ := good_step c b m h
    obtain ⟨m2, e2⟩ := ih _ m1 g1
    exact ⟨m2, by simp only [runOuts]; rw [monAll_append, e1]; exact e2⟩

theorem inv_init (ss : Bool) : Inv { sentSettings := ss } {} :=
  ⟨fun s hs => by simp at hs, fun s hs => by simp at hs, by simp, fun _ _ => by simp⟩


/-! ### after a connection error -/

theorem preSlot_term : ∀ (fuel : Nat) (c : H2Conn) (f : FrameIn), c.goaway > 0 → preSlot fuel c f = (c, []) := by
  intro fuel c f h
  have : needsSlot c f = false := by
    cases f <;> simp [needsSlot]
    intro h0; omega
  cases fuel with
  | zero => rfl
  | succ n => simp [preSlot, this]

theorem postStop_term (c : H2Conn) (h : c.goaway > 0) : (postStop c).2 = [] ∧ (postStop c).1.goaway > 0 := by
  unfold postStop
  split
  · exact processPass_term _ _ h
  · exact ⟨rfl, h⟩

theorem recvBatch_term : ∀ (fs : List FrameIn) (c : H2Conn), c.goaway > 0 →
    (recvBatch c fs).2 = [] ∧ (recvBatch c fs).1.goaway > 0 := by
  intro fs
  induction fs with
  | nil => intro c h; exact ⟨rfl, h⟩
  | cons f fs ih =>
    intro c h
    have hf : recvFrame c f = (c, []) := by simp [recvFrame, h]
    simp only [recvBatch, preSlot_term 4096 c f h, hf]
    have hp := postStop_term c h
    have := ih _ hp.2
    exact ⟨by simp [hp.1, this.1], this.2⟩

theorem quiesce_term : ∀ (fuel : Nat) (c : H2Conn), c.goaway > 0 →
    (processQuiesce fuel c).2 = [] ∧ (processQuiesce fuel c).1.goaway > 0 := by
  intro fuel
  induction fuel with
  | zero => intro c h; exact ⟨rfl, h⟩
  | succ n ih =>
    intro c h
    have hp := processPass_term c 262144 h
    simp only [processQuiesce, hp.1, List.isEmpty_nil, if_true]
    exact ⟨trivial, hp.2⟩

theorem step_term (c : H2Conn) (b : List FrameIn) (h : c.goaway > 0) :
    (h2Step c b).2 = [] ∧ (h2Step c b).1.goaway > 0 := by
  unfold h2Step
  have h1 := recvBatch_term b c h
  have h2 := quiesce_term 100000 _ h1.2
  exact ⟨by simp [h1.1, h2.1], h2.2⟩

theorem run_term : ∀ (bs : List (List FrameIn)) (c : H2Conn), c.goaway > 0 → runOuts c bs = [] := by
  intro bs
  induction bs with
  | nil => intro c _; rfl
  | cons b bs ih =>
    intro c h
    have := step_term c b h
    simp [runOuts, this.1, ih _ this.2]

theorem step_fs (c : H2Conn) (b : List FrameIn) (h : FsOk c) : FsOk (h2Step c b).1 := by
  unfold h2Step
  have := recvBatch_fs b c h
  unfold FsOk
  simp only
  rw [processQuiesce_fs]
  exact this

theorem runState_fs : ∀ (bs : List (List FrameIn)) (c : H2Conn), FsOk c → FsOk (runState c bs) := by
  intro bs
  induction bs with
  | nil => intro c h; exact h
  | cons b bs ih => intro c h; exact ih _ (step_fs c b h)

end LtVerif
