/-
  Lemmas about the byte-level HTTP/2 frame reader (Model/H2Reader.lean): prefix stability of
  one parse round, the reader loop on a ++ x, the reference encoder, and the composition with
  the frame-level machine.
-/
import LtVerif.Model.H2Reader
import LtVerif.Proofs.H2
namespace LtVerif

theorem slice_append (b x : Bytes) (off n : Nat) (h : off + n ≤ b.length) :
    slice (b ++ x) off n = slice b off n := by
  unfold slice
  rw [List.drop_append_of_le_length (by omega)]
  rw [List.take_append_of_le_length (by simp [List.length_drop]; omega)]

/-- a definite (non-`more`) result of the CONTINUATION scan is stable under more octets -/
theorem contScan_append (fsize id : Nat) (b x : Bytes) :
    ∀ (fuel n : Nat) (acc : Bytes) (k : Nat),
      contScan fsize id b fuel n acc k ≠ .more →
      contScan fsize id (b ++ x) fuel n acc k = contScan fsize id b fuel n acc k := by
  intro fuel
  induction fuel with
  | zero => intro n acc k h; simp [contScan] at h
  | succ fuel ih =>
    intro n acc k h
    unfold contScan at h ⊢
    by_cases h1 : b.length < n + 9
    · simp [h1] at h
    · have h1' : ¬ (b ++ x).length < n + 9 := by simp [List.length_append]; omega
      have hs : slice (b ++ x) n 9 = slice b n 9 := slice_append b x n 9 (by omega)
      simp only [h1, h1', hs, if_false] at h ⊢
      by_cases h2 : (fhdr (slice b n 9)).ftype ≠ 9
      · simp [h2]
      · simp only [h2, if_false] at h ⊢
        by_cases h3 : (fhdr (slice b n 9)).sid ≠ id
        · simp [h3]
        · simp only [h3, if_false] at h ⊢
          by_cases h4 : (fhdr (slice b n 9)).len > fsize
          · simp [h4]
          · simp only [h4, if_false] at h ⊢
            by_cases h5 : n + 9 + (fhdr (slice b n 9)).len ≥ 65536
            · simp [h5]
            · simp only [h5, if_false] at h ⊢
              by_cases h6 : b.length < n + 9 + (fhdr (slice b n 9)).len
              · simp [h6] at h
              · have h6' : ¬ (b ++ x).length < n + 9 + (fhdr (slice b n 9)).len := by
                  simp [List.length_append]; omega
                have hs2 : slice (b ++ x) (n + 9) (fhdr (slice b n 9)).len = slice b (n + 9) (fhdr (slice b n 9)).len :=
                  slice_append b x (n + 9) _ (by omega)
                simp only [h6, h6', hs2, if_false] at h ⊢
                by_cases h7 : flagSet (fhdr (slice b n 9)).flags 4 = true
                · simp [h7]
                · simp only [h7] at h ⊢
                  exact ih _ _ _ h
/-- where the scan ends: within the buffer, at least one frame header further -/
theorem contScan_done_bound (fsize id : Nat) (b : Bytes) :
    ∀ (fuel n : Nat) (acc : Bytes) (k n' : Nat) (acc' : Bytes) (k' : Nat),
      contScan fsize id b fuel n acc k = .done n' acc' k' → n + 9 ≤ n' ∧ n' ≤ b.length := by
  intro fuel
  induction fuel with
  | zero => intro n acc k n' acc' k' h; simp [contScan] at h
  | succ fuel ih =>
    intro n acc k n' acc' k' h
    unfold contScan at h
    by_cases h1 : b.length < n + 9
    · simp [h1] at h
    · simp only [h1, if_false] at h
      by_cases h2 : (fhdr (slice b n 9)).ftype ≠ 9
      · simp [h2] at h
      · simp only [h2, if_false] at h
        by_cases h3 : (fhdr (slice b n 9)).sid ≠ id
        · simp [h3] at h
        · simp only [h3, if_false] at h
          by_cases h4 : (fhdr (slice b n 9)).len > fsize
          · simp [h4] at h
          · simp only [h4, if_false] at h
            by_cases h5 : n + 9 + (fhdr (slice b n 9)).len ≥ 65536
            · simp [h5] at h
            · simp only [h5, if_false] at h
              by_cases h6 : b.length < n + 9 + (fhdr (slice b n 9)).len
              · simp [h6] at h
              · simp only [h6, if_false] at h
                by_cases h7 : flagSet (fhdr (slice b n 9)).flags 4 = true
                · simp only [h7, if_true] at h
                  injection h with hn _ _
                  omega
                · simp only [h7] at h
                  have := ih _ _ _ _ _ _ h
                  omega

theorem mergeHeaders_append (b x : Bytes) (h : FHdr) (n : Nat) (acc : Bytes) (k : Nat)
    (hn : 9 + h.len + 9 ≤ n) (hb : n ≤ b.length) :
    mergeHeaders (b ++ x) h n acc k = mergeHeaders b h n acc k := by
  have e1 := slice_append b x 9 1 (by omega)
  have e2 := slice_append b x (9 + h.len) 9 (by omega)
  have e3 := slice_append b x 10 (h.len - 1 - be (slice b 9 1)) (by omega)
  have e4 := slice_append b x 9 h.len (by omega)
  unfold mergeHeaders
  simp only [e1, e2, e3, e4]

theorem mergeHeaders_not_more (b : Bytes) (h : FHdr) (n : Nat) (acc : Bytes) (k : Nat) :
    mergeHeaders b h n acc k ≠ .more := by
  unfold mergeHeaders
  repeat' split
  all_goals simp

/-- **prefix stability**: once `parseOne` has decided (a frame or an error), more octets behind
    do not change the decision -/
theorem parseOne_append (fsize : Nat) (b x : Bytes) (h : parseOne fsize b ≠ .more) :
    parseOne fsize (b ++ x) = parseOne fsize b := by
  unfold parseOne at h ⊢
  by_cases h1 : b.length < 9
  · simp [h1] at h
  · have h1' : ¬ (b ++ x).length < 9 := by simp [List.length_append]; omega
    have hs : slice (b ++ x) 0 9 = slice b 0 9 := slice_append b x 0 9 (by omega)
    simp only [h1, h1', hs, if_false] at h ⊢
    by_cases h2 : (fhdr (slice b 0 9)).len > fsize
    · simp [h2]
    · simp only [h2, if_false] at h ⊢
      by_cases h3 : b.length < 9 + (fhdr (slice b 0 9)).len
      · simp [h3] at h
      · have h3' : ¬ (b ++ x).length < 9 + (fhdr (slice b 0 9)).len := by simp [List.length_append]; omega
        simp only [h3, h3', if_false] at h ⊢
        by_cases h4 : (fhdr (slice b 0 9)).ftype = 1 ∧ flagSet (fhdr (slice b 0 9)).flags 4 = false
        · simp only [h4, and_self, if_true] at h ⊢
          generalize hsc : contScan fsize ((fhdr (slice b 0 9)).sid % 2147483648) b contFuel
            (9 + (fhdr (slice b 0 9)).len) [] 0 = sc at h
          have hne : sc ≠ .more := by
            intro hm; subst hm; simp at h
          have := contScan_append fsize ((fhdr (slice b 0 9)).sid % 2147483648) b x contFuel
            (9 + (fhdr (slice b 0 9)).len) [] 0 (by rw [hsc]; exact hne)
          rw [this, hsc]
          cases sc with
          | more => exact absurd rfl hne
          | err code k => rfl
          | done n acc k =>
            simp only
            have hb := contScan_done_bound fsize _ b _ _ _ _ _ _ _ hsc
            exact mergeHeaders_append b x _ n acc k (by omega) hb.2
        · simp only [h4, if_false] at h ⊢
          rw [slice_append b x 9 _ (by omega)]
theorem mergeHeaders_used (b : Bytes) (h : FHdr) (n : Nat) (acc : Bytes) (k : Nat) (f : RawFrame) (k' used : Nat)
    (hm : mergeHeaders b h n acc k = .frame f k' used) : used = n := by
  unfold mergeHeaders at hm
  by_cases hp : flagSet h.flags 8 = true
  · simp only [hp, if_true] at hm
    by_cases hl : h.len < 1 + be (slice b 9 1)
               + (if flagSet (fhdr (slice b (9 + h.len) 9)).flags 32 then 5 else 0)
    · simp [hl] at hm
    · simp only [hl, if_false] at hm
      injection hm with _ _ hu; exact hu.symm
  · simp only [hp] at hm
    injection hm with _ _ hu; exact hu.symm

/-- a frame consumes at least its header and never more than is there -/
theorem parseOne_used (fsize : Nat) (b : Bytes) (f : RawFrame) (k used : Nat)
    (h : parseOne fsize b = .frame f k used) : 9 ≤ used ∧ used ≤ b.length := by
  unfold parseOne at h
  by_cases h1 : b.length < 9
  · simp [h1] at h
  · simp only [h1, if_false] at h
    by_cases h2 : (fhdr (slice b 0 9)).len > fsize
    · simp [h2] at h
    · simp only [h2, if_false] at h
      by_cases h3 : b.length < 9 + (fhdr (slice b 0 9)).len
      · simp [h3] at h
      · simp only [h3, if_false] at h
        by_cases h4 : (fhdr (slice b 0 9)).ftype = 1 ∧ flagSet (fhdr (slice b 0 9)).flags 4 = false
        · simp only [h4, and_self, if_true] at h
          generalize hsc : contScan fsize ((fhdr (slice b 0 9)).sid % 2147483648) b contFuel
            (9 + (fhdr (slice b 0 9)).len) [] 0 = sc at h
          cases sc with
          | more => simp at h
          | err code k => simp at h
          | done n acc k2 =>
            simp only at h
            have hb := contScan_done_bound fsize _ b _ _ _ _ _ _ _ hsc
            have := mergeHeaders_used _ _ _ _ _ _ _ _ h
            omega
        · simp only [h4, if_false] at h
          injection h with _ _ hu
          omega

theorem parseOne_nil (fsize : Nat) : parseOne fsize [] = .more := by simp [parseOne]

/-- enough fuel is enough -/
theorem drain_fuel (fsize : Nat) : ∀ (f1 f2 : Nat) (b : Bytes), b.length ≤ f1 → b.length ≤ f2 →
    drain fsize f1 b = drain fsize f2 b := by
  intro f1
  induction f1 with
  | zero =>
    intro f2 b h1 _
    have hb : b = [] := List.eq_nil_of_length_eq_zero (by omega)
    subst hb
    cases f2 with
    | zero => rfl
    | succ f2 => simp [drain, parseOne_nil]
  | succ f1 ih =>
    intro f2 b h1 h2
    cases f2 with
    | zero =>
      have hb : b = [] := List.eq_nil_of_length_eq_zero (by omega)
      subst hb
      simp [drain, parseOne_nil]
    | succ f2 =>
      simp only [drain]
      cases hp : parseOne fsize b with
      | more => rfl
      | err code k => rfl
      | frame f k used =>
        simp only
        have hu := parseOne_used fsize b f k used hp
        have hl : (b.drop used).length ≤ f1 := by simp [List.length_drop]; omega
        have hl2 : (b.drop used).length ≤ f2 := by simp [List.length_drop]; omega
        rw [ih f2 (b.drop used) hl hl2]

/-- **the reader loop on a ++ x**: what `a` alone yields, then the rest -/
theorem drain_append (fsize : Nat) (x : Bytes) : ∀ (fuel : Nat) (b : Bytes), b.length ≤ fuel →
    drain fsize (fuel + x.length) (b ++ x) =
      if (drain fsize fuel b).1.dead then drain fsize fuel b
      else ((drain fsize ((drain fsize fuel b).1.buf.length + x.length) ((drain fsize fuel b).1.buf ++ x)).1,
            (drain fsize fuel b).2 ++
              (drain fsize ((drain fsize fuel b).1.buf.length + x.length) ((drain fsize fuel b).1.buf ++ x)).2) := by
  intro fuel
  induction fuel with
  | zero =>
    intro b hb
    have hb : b = [] := List.eq_nil_of_length_eq_zero (by omega)
    subst hb
    simp [drain]
  | succ fuel ih =>
    intro b hb
    have e : fuel + 1 + x.length = (fuel + x.length) + 1 := by omega
    rw [e]
    cases hp : parseOne fsize b with
    | more =>
      have hd : drain fsize (fuel + 1) b = (⟨b, false⟩, []) := by simp [drain, hp]
      rw [hd]
      simp only [Bool.false_eq_true, if_false, List.nil_append]
      exact drain_fuel fsize _ _ _ (by simp [List.length_append]; omega) (by simp [List.length_append])
    | err code k =>
      have hd : drain fsize (fuel + 1) b = (⟨[], true⟩, [.err code k]) := by simp [drain, hp]
      have hp' : parseOne fsize (b ++ x) = .err code k := by
        rw [parseOne_append fsize b x (by rw [hp]; simp), hp]
      rw [hd]
      simp [drain, hp']
    | frame f k used =>
      have hu := parseOne_used fsize b f k used hp
      have hp' : parseOne fsize (b ++ x) = .frame f k used := by
        rw [parseOne_append fsize b x (by rw [hp]; simp), hp]
      have hdrop : (b ++ x).drop used = b.drop used ++ x := List.drop_append_of_le_length hu.2
      have hl : (b.drop used).length ≤ fuel := by simp [List.length_drop]; omega
      have hd : drain fsize (fuel + 1) b =
          ((drain fsize fuel (b.drop used)).1, .frame f k :: (drain fsize fuel (b.drop used)).2) := by
        simp [drain, hp]
      have hd' : drain fsize (fuel + x.length + 1) (b ++ x) =
          ((drain fsize (fuel + x.length) (b.drop used ++ x)).1,
           .frame f k :: (drain fsize (fuel + x.length) (b.drop used ++ x)).2) := by
        simp [drain, hp', hdrop]
      rw [hd', hd, ih (b.drop used) hl]
      simp only
      split <;> simp
theorem be_beBytes3 (n : Nat) (h : n < 16777216) : be (beBytes 3 n) = n := by
  simp [be, beBytes]; omega
theorem be_beBytes1 (n : Nat) (h : n < 256) : be (beBytes 1 n) = n := by
  simp [be, beBytes]; omega
theorem be_beBytes4 (n : Nat) (h : n < 4294967296) : be (beBytes 4 n) = n := by
  simp [be, beBytes]; omega

@[simp] theorem beBytes_length (k n : Nat) : (beBytes k n).length = k := by
  induction k with
  | zero => rfl
  | succ k ih => simp [beBytes, ih]

/-- the 9-octet header of the reference encoder -/
def hdr9 (f : RawFrame) : Bytes :=
  beBytes 3 f.payload.length ++ beBytes 1 f.ftype ++ beBytes 1 f.flags ++ beBytes 4 f.sid

theorem hdr9_length (f : RawFrame) : (hdr9 f).length = 9 := by simp [hdr9]

theorem serialize_eq (f : RawFrame) : serialize f = hdr9 f ++ f.payload := by simp [serialize, hdr9]

/-- well-formed raw frame within the size limit; a HEADERS frame carries END_HEADERS -/
structure WfRaw (fsize : Nat) (f : RawFrame) : Prop where
  ftype : f.ftype < 256
  flags : f.flags < 256
  sid : f.sid < 4294967296
  len : f.payload.length ≤ fsize
  complete : f.ftype = 1 → flagSet f.flags 4 = true

theorem fhdr_hdr9 (f : RawFrame) (h1 : f.payload.length < 16777216) (h2 : f.ftype < 256) (h3 : f.flags < 256)
    (h4 : f.sid < 4294967296) : fhdr (hdr9 f) = ⟨f.payload.length, f.ftype, f.flags, f.sid⟩ := by
  have e3 := be_beBytes3 _ h1
  have e1 := be_beBytes1 _ h2
  have e2 := be_beBytes1 _ h3
  have e4 := be_beBytes4 _ h4
  unfold fhdr hdr9 slice
  have a : ((beBytes 3 f.payload.length ++ beBytes 1 f.ftype ++ beBytes 1 f.flags ++ beBytes 4 f.sid).drop 0).take 3
      = beBytes 3 f.payload.length := by
    simp [List.append_assoc]
  have b : ((beBytes 3 f.payload.length ++ beBytes 1 f.ftype ++ beBytes 1 f.flags ++ beBytes 4 f.sid).drop 3).take 1
      = beBytes 1 f.ftype := by
    rw [List.append_assoc, List.append_assoc, List.drop_left' (by simp)]
    rw [List.take_left' (by simp)]
  have c : ((beBytes 3 f.payload.length ++ beBytes 1 f.ftype ++ beBytes 1 f.flags ++ beBytes 4 f.sid).drop 4).take 1
      = beBytes 1 f.flags := by
    rw [List.append_assoc, List.drop_left' (by simp)]
    rw [List.take_left' (by simp)]
  have d : ((beBytes 3 f.payload.length ++ beBytes 1 f.ftype ++ beBytes 1 f.flags ++ beBytes 4 f.sid).drop 5).take 4
      = beBytes 4 f.sid := by
    rw [List.drop_left' (by simp)]
    rw [List.take_of_length_le (by simp)]
  rw [a, b, c, d, e1, e2, e3, e4]

theorem parseOne_serialize (fsize : Nat) (hf : fsize < 16777216) (f : RawFrame) (hw : WfRaw fsize f) (rest : Bytes) :
    parseOne fsize (serialize f ++ rest) = .frame f 0 (9 + f.payload.length) := by
  have hlen : (serialize f ++ rest).length = 9 + f.payload.length + rest.length := by
    simp [serialize_eq, hdr9_length]; omega
  have hs0 : slice (serialize f ++ rest) 0 9 = hdr9 f := by
    unfold slice
    rw [serialize_eq, List.append_assoc, List.drop_zero, List.take_left' (hdr9_length f)]
  have hs9 : slice (serialize f ++ rest) 9 f.payload.length = f.payload := by
    unfold slice
    rw [serialize_eq, List.append_assoc, List.drop_left' (hdr9_length f), List.take_left' rfl]
  have hh := fhdr_hdr9 f (by have := hw.len; omega) hw.ftype hw.flags hw.sid
  unfold parseOne
  rw [hs0, hh]
  simp only
  have h1 : ¬ (serialize f ++ rest).length < 9 := by omega
  have h2 : ¬ f.payload.length > fsize := by have := hw.len; omega
  have h3 : ¬ (serialize f ++ rest).length < 9 + f.payload.length := by omega
  have h4 : ¬ (f.ftype = 1 ∧ flagSet f.flags 4 = false) := by
    intro ⟨a, b⟩; have := hw.complete a; rw [this] at b; cases b
  simp only [h1, h2, h3, h4, if_false, hs9]

/-- the reader on a sequence of serialised frames -/
theorem drain_frames (fsize : Nat) (hf : fsize < 16777216) :
    ∀ (fs : List RawFrame), (∀ f ∈ fs, WfRaw fsize f) → ∀ fuel, (fs.flatMap serialize).length ≤ fuel →
      drain fsize fuel (fs.flatMap serialize) = (⟨[], false⟩, fs.map fun f => REv.frame f 0) := by
  intro fs
  induction fs with
  | nil =>
    intro _ fuel _
    cases fuel with
    | zero => rfl
    | succ n => simp [drain, parseOne_nil]
  | cons f fs ih =>
    intro hw fuel hfuel
    have hwf := hw f (by simp)
    simp only [List.flatMap_cons] at hfuel ⊢
    have hlen : (serialize f).length = 9 + f.payload.length := by simp [serialize_eq, hdr9_length]
    cases fuel with
    | zero => simp [List.length_append, hlen] at hfuel
    | succ fuel =>
      have hd : (serialize f ++ fs.flatMap serialize).drop (9 + f.payload.length) = fs.flatMap serialize :=
        List.drop_left' hlen
      simp only [drain, parseOne_serialize fsize hf f hwf, hd]
      rw [ih (fun g hg => hw g (by simp [hg])) fuel (by rw [List.length_append, hlen] at hfuel; omega)]
      simp

/-! ### header blocks in CONTINUATION frames -/

theorem serialize_length (f : RawFrame) : (serialize f).length = 9 + f.payload.length := by
  simp [serialize_eq, hdr9_length]

theorem slice_mid_hdr (pre more : Bytes) (c : RawFrame) :
    slice (pre ++ serialize c ++ more) pre.length 9 = hdr9 c := by
  unfold slice
  rw [List.append_assoc, List.drop_left' rfl, serialize_eq, List.append_assoc, List.take_left' (hdr9_length c)]

theorem slice_mid_payload (pre more : Bytes) (c : RawFrame) :
    slice (pre ++ serialize c ++ more) (pre.length + 9) c.payload.length = c.payload := by
  unfold slice
  have : pre ++ serialize c ++ more = (pre ++ hdr9 c) ++ (c.payload ++ more) := by
    simp [serialize_eq, List.append_assoc]
  rw [this, List.drop_left' (by simp [hdr9_length]), List.take_left' rfl]

/-- one round of the CONTINUATION scan on a serialised CONTINUATION frame -/
theorem contScan_step (fsize sid : Nat) (pre more : Bytes) (c : RawFrame) (fuel : Nat) (acc : Bytes) (k : Nat)
    (ht : c.ftype = 9) (hfl : c.flags < 256) (hs : c.sid = sid) (hs32 : sid < 4294967296)
    (hl : c.payload.length ≤ fsize) (hf : fsize < 16777216)
    (h64 : pre.length + 9 + c.payload.length < 65536) :
    contScan fsize sid (pre ++ serialize c ++ more) (fuel + 1) pre.length acc k =
      if flagSet c.flags 4 then .done (pre.length + 9 + c.payload.length) (acc ++ c.payload) (k + 1)
      else contScan fsize sid (pre ++ serialize c ++ more) fuel (pre.length + 9 + c.payload.length)
             (acc ++ c.payload) (k + 1) := by
  have hlen : (pre ++ serialize c ++ more).length = pre.length + 9 + c.payload.length + more.length := by
    simp [List.length_append, serialize_length]; omega
  have hh : fhdr (hdr9 c) = ⟨c.payload.length, c.ftype, c.flags, c.sid⟩ :=
    fhdr_hdr9 c (by omega) (by omega) hfl (by omega)
  rw [contScan]
  simp only [slice_mid_hdr, hh, slice_mid_payload]
  have h1 : ¬ (pre ++ serialize c ++ more).length < pre.length + 9 := by omega
  have h2 : ¬ c.ftype ≠ 9 := by simp [ht]
  have h3 : ¬ c.sid ≠ sid := by simp [hs]
  have h4 : ¬ c.payload.length > fsize := by omega
  have h5 : ¬ pre.length + 9 + c.payload.length ≥ 65536 := by omega
  have h6 : ¬ (pre ++ serialize c ++ more).length < pre.length + 9 + c.payload.length := by omega
  simp only [h1, h2, h3, h4, h5, h6, if_false]

theorem contFrames_length_ge (sid : Nat) : ∀ ps : List Bytes,
    9 * ps.length ≤ ((contFrames sid ps).flatMap serialize).length
  | [] => by simp [contFrames]
  | [p] => by simp [contFrames, serialize_length]
  | p :: q :: ps => by
    have := contFrames_length_ge sid (q :: ps)
    simp only [contFrames, List.flatMap_cons, List.length_append, serialize_length, List.length_cons] at this ⊢
    omega

/-- the scan over a whole chain of serialised CONTINUATION frames -/
theorem contScan_frames (fsize sid : Nat) (hf : fsize < 16777216) (hs32 : sid < 4294967296) :
    ∀ (ps : List Bytes), ps ≠ [] → (∀ p ∈ ps, p.length ≤ fsize) →
    ∀ (pre rest acc : Bytes) (k fuel : Nat),
      pre.length + ((contFrames sid ps).flatMap serialize).length < 65536 → ps.length ≤ fuel →
      contScan fsize sid (pre ++ (contFrames sid ps).flatMap serialize ++ rest) fuel pre.length acc k =
        .done (pre.length + ((contFrames sid ps).flatMap serialize).length) (acc ++ ps.flatten) (k + ps.length)
  | [], hne, _ => absurd rfl hne
  | [p], _, hl => by
    intro pre rest acc k fuel h64 hfuel
    cases fuel with
    | zero => simp at hfuel
    | succ fuel =>
      simp only [contFrames, List.flatMap_cons, List.flatMap_nil, List.append_nil, serialize_length] at h64 ⊢
      rw [contScan_step fsize sid pre rest ⟨9, 4, sid, p⟩ fuel acc k rfl (by simp) rfl hs32
            (hl p (by simp)) hf (by simp only; omega)]
      have : flagSet 4 4 = true := by decide
      simp [this]
      omega
  | p :: q :: ps, _, hl => by
    intro pre rest acc k fuel h64 hfuel
    cases fuel with
    | zero => simp at hfuel
    | succ fuel =>
      have ih := contScan_frames fsize sid hf hs32 (q :: ps) (by simp) (fun x hx => hl x (by simp [hx]))
      simp only [contFrames, List.flatMap_cons, List.length_append, serialize_length] at h64 ⊢
      have e : pre ++ (serialize ⟨9, 0, sid, p⟩ ++ (contFrames sid (q :: ps)).flatMap serialize) ++ rest =
          pre ++ serialize ⟨9, 0, sid, p⟩ ++ ((contFrames sid (q :: ps)).flatMap serialize ++ rest) := by
        simp [List.append_assoc]
      rw [e, contScan_step fsize sid pre _ ⟨9, 0, sid, p⟩ fuel acc k rfl (by simp) rfl hs32
            (hl p (by simp)) hf (by simp only; omega)]
      have : flagSet 0 4 = false := by decide
      simp only [this, Bool.false_eq_true, if_false]
      have e2 : pre ++ serialize ⟨9, 0, sid, p⟩ ++ ((contFrames sid (q :: ps)).flatMap serialize ++ rest) =
          (pre ++ serialize ⟨9, 0, sid, p⟩) ++ (contFrames sid (q :: ps)).flatMap serialize ++ rest := by
        simp [List.append_assoc]
      have e3 : pre.length + 9 + p.length = (pre ++ serialize (⟨9, 0, sid, p⟩ : RawFrame)).length := by
        simp [List.length_append, serialize_length]; omega
      rw [e2, e3, ih (pre ++ serialize ⟨9, 0, sid, p⟩) rest (acc ++ p) (k + 1) fuel
            (by simp only [List.length_append, serialize_length]; omega)
            (by simp at hfuel ⊢; omega)]
      simp only [List.length_append, serialize_length, List.flatten_cons, List.length_cons, List.append_assoc]
      congr 1
      · omega
      · omega

/-- a header block cut into HEADERS + CONTINUATION frames is read as ONE HEADERS frame carrying
    the concatenated block, END_HEADERS set -/
theorem parseOne_continuation (fsize sid flags : Nat) (hf : fsize < 16777216) (hs : sid < 2147483648)
    (hfl : flags < 256) (h4 : flagSet flags 4 = false) (h8 : flagSet flags 8 = false)
    (p0 : Bytes) (ps : List Bytes) (hne : ps ≠ []) (hl : ∀ p ∈ p0 :: ps, p.length ≤ fsize) (rest : Bytes)
    (h64 : 9 + p0.length + ((contFrames sid ps).flatMap serialize).length < 65536) :
    parseOne fsize (serialize ⟨1, flags, sid, p0⟩ ++ (contFrames sid ps).flatMap serialize ++ rest) =
      .frame ⟨1, flags + 4, sid, p0 ++ ps.flatten⟩ ps.length
        (9 + p0.length + ((contFrames sid ps).flatMap serialize).length) := by
  have hge := contFrames_length_ge sid ps
  have hlen : (serialize (⟨1, flags, sid, p0⟩ : RawFrame) ++ (contFrames sid ps).flatMap serialize ++ rest).length =
      9 + p0.length + ((contFrames sid ps).flatMap serialize).length + rest.length := by
    simp only [List.length_append, serialize_length]
  have hs0 : slice (serialize (⟨1, flags, sid, p0⟩ : RawFrame) ++ (contFrames sid ps).flatMap serialize ++ rest) 0 9
      = hdr9 ⟨1, flags, sid, p0⟩ := by
    have := slice_mid_hdr [] ((contFrames sid ps).flatMap serialize ++ rest) ⟨1, flags, sid, p0⟩
    simpa [List.append_assoc] using this
  have hs9 : slice (serialize (⟨1, flags, sid, p0⟩ : RawFrame) ++ (contFrames sid ps).flatMap serialize ++ rest) 9 p0.length
      = p0 := by
    have := slice_mid_payload [] ((contFrames sid ps).flatMap serialize ++ rest) ⟨1, flags, sid, p0⟩
    simpa [List.append_assoc] using this
  have hh : fhdr (hdr9 ⟨1, flags, sid, p0⟩) = ⟨p0.length, 1, flags, sid⟩ :=
    fhdr_hdr9 ⟨1, flags, sid, p0⟩ (by have := hl p0 (by simp); simp only; omega) (by simp) hfl (by simp only; omega)
  have hscan := contScan_frames fsize sid hf (by omega) ps hne (fun p hp => hl p (by simp [hp]))
    (serialize ⟨1, flags, sid, p0⟩) rest [] 0 contFuel
    (by simp only [serialize_length]; omega) (by simp only [contFuel]; omega)
  simp only [serialize_length] at hscan
  unfold parseOne
  rw [hs0, hh]
  simp only
  have c1 : ¬ (serialize (⟨1, flags, sid, p0⟩ : RawFrame) ++ (contFrames sid ps).flatMap serialize ++ rest).length < 9 := by
    omega
  have c2 : ¬ p0.length > fsize := by have := hl p0 (by simp); omega
  have c3 : ¬ (serialize (⟨1, flags, sid, p0⟩ : RawFrame) ++ (contFrames sid ps).flatMap serialize ++ rest).length
      < 9 + p0.length := by omega
  have hmod : sid % 2147483648 = sid := Nat.mod_eq_of_lt hs
  simp only [c1, c2, c3, if_false, h4, and_self, if_true, hmod, hscan, mergeHeaders, h8, Bool.false_eq_true,
    hs9, List.nil_append, Nat.zero_add]

/-! ### one read after another -/

theorem readerFeed_append (st : RSt) (a b : Bytes) :
    readerFeed st (a ++ b) =
      ((readerFeed (readerFeed st a).1 b).1, (readerFeed st a).2 ++ (readerFeed (readerFeed st a).1 b).2) := by
  unfold readerFeed
  by_cases hd : st.dead = true
  · simp [hd]
  · simp only [hd, Bool.false_eq_true, if_false]
    have e1 : st.buf.length + (a ++ b).length = (st.buf.length + a.length) + b.length := by
      simp [List.length_append]; omega
    have e2 : st.buf ++ (a ++ b) = (st.buf ++ a) ++ b := by simp
    rw [e1, e2, drain_append readerMaxFrame b (st.buf.length + a.length) (st.buf ++ a) (by simp [List.length_append])]
    split
    · simp
    · rfl

/-- a read that brings nothing changes nothing (after any read) -/
theorem readerFeed_nil_after (st : RSt) (a : Bytes) :
    readerFeed (readerFeed st a).1 [] = ((readerFeed st a).1, []) := by
  have h := readerFeed_append st a []
  rw [List.append_nil] at h
  have h1 : (readerFeed (readerFeed st a).1 []).1 = (readerFeed st a).1 := (congrArg Prod.fst h).symm
  have h2 : (readerFeed st a).2 = (readerFeed st a).2 ++ (readerFeed (readerFeed st a).1 []).2 := congrArg Prod.snd h
  have h3 : (readerFeed (readerFeed st a).1 []).2 = [] := by
    have := List.self_eq_append_right.mp h2
    exact this
  exact Prod.ext h1 h3

/-- any non-empty list of read segments = one read of their concatenation -/
theorem readerFeedSegs_cons : ∀ (xs : List Bytes) (st : RSt) (x : Bytes),
    readerFeedSegs st (x :: xs) = readerFeed st (x ++ xs.flatten) := by
  intro xs
  induction xs with
  | nil => intro st x; simp [readerFeedSegs]
  | cons y ys ih =>
    intro st x
    rw [readerFeedSegs, ih, List.flatten_cons, readerFeed_append st x (y ++ ys.flatten)]

/-! ### composition with the frame-level machine -/

theorem recvBatch_append : ∀ (a b : List FrameIn) (c : H2Conn),
    recvBatch c (a ++ b) = ((recvBatch (recvBatch c a).1 b).1, (recvBatch c a).2 ++ (recvBatch (recvBatch c a).1 b).2) := by
  intro a
  induction a with
  | nil => intro b c; simp [recvBatch]
  | cons f fs ih =>
    intro b c
    simp only [List.cons_append, recvBatch, ih, List.append_assoc]

theorem feedSeg_append (dec : Bytes → HdrKind) (s : BConn) (a b : Bytes) :
    feedSeg dec s (a ++ b) =
      ((feedSeg dec (feedSeg dec s a).1 b).1, (feedSeg dec s a).2 ++ (feedSeg dec (feedSeg dec s a).1 b).2) := by
  simp only [feedSeg, readerFeed_append, List.flatMap_append, recvBatch_append]

theorem feedSegs_cons (dec : Bytes → HdrKind) : ∀ (xs : List Bytes) (s : BConn) (x : Bytes),
    feedSegs dec s (x :: xs) = feedSeg dec s (x ++ xs.flatten) := by
  intro xs
  induction xs with
  | nil => intro s x; simp [feedSegs]
  | cons y ys ih =>
    intro s x
    rw [feedSegs, ih, List.flatten_cons, feedSeg_append dec s x (y ++ ys.flatten)]

theorem feedSeg_len_le (dec : Bytes → HdrKind) (s : BConn) (x : Bytes)
    (h : s.c.streams.length ≤ Extracted.h2MaxStreams) :
    (feedSeg dec s x).1.c.streams.length ≤ Extracted.h2MaxStreams := by
  simp only [feedSeg]
  exact recvBatch_len_le _ _ h

theorem feedSegs_len_le (dec : Bytes → HdrKind) : ∀ (xs : List Bytes) (s : BConn),
    s.c.streams.length ≤ Extracted.h2MaxStreams →
    (feedSegs dec s xs).1.c.streams.length ≤ Extracted.h2MaxStreams := by
  intro xs
  induction xs with
  | nil => intro s h; simpa [feedSegs] using h
  | cons x xs ih =>
    intro s h
    simp only [feedSegs]
    exact ih _ (feedSeg_len_le dec s x h)

end LtVerif
