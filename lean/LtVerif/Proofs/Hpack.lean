/-
  HPACK (C07): helper lemmas for the property theorems of Props/C07.lean.
    * integer coding round trip (`decInt_encInt`), including the 5-octet branch
      of lshpack_dec_dec_int()
    * string literal round trip, raw and Huffman (`decStr_encStr`)
    * dynamic table: eviction keeps the size bound (`tableSize_evict_le`), the
      invariant `Table.WF` is kept by every operation
    * one representation decoded = the field encoded (`decodeItem_encodeFieldCore`)
    * block level: `decodeBlockAux_encodeBlock` (induction over the header list)
-/
import LtVerif.Model.Hpack
import LtVerif.Proofs.HpackHuffman
namespace LtVerif.Hpack
open LtVerif B

/-! ### integers -/

theorem toUInt8_toNat_lt (n : Nat) (h : n < 256) : n.toUInt8.toNat = n := by
  simp [Nat.toUInt8, UInt8.toNat_ofNat']
  omega

/-- admissible shifts of the continuation loop -/
def ShiftOk (sh : Nat) : Prop := sh = 0 ∨ sh = 7 ∨ sh = 14 ∨ sh = 21 ∨ sh = 28

theorem decIntTail_encIntTailF (f : Nat) : ∀ (n sh acc : Nat) (rest : Bytes),
    n ≤ f → ShiftOk sh → acc + n * 2 ^ sh < 2 ^ 32 → (sh = 28 → 1 ≤ n) →
    decIntTail (encIntTailF f n ++ rest) sh acc = some (acc + n * 2 ^ sh, rest) := by
  induction f with
  | zero =>
    intro n sh acc rest hn hsh hb h28
    have : n = 0 := by omega
    subst this
    rcases hsh with h | h | h | h | h <;> subst h <;>
      simp [encIntTailF, decIntTail] at * 
  | succ f ih =>
    intro n sh acc rest hn hsh hb h28
    unfold encIntTailF
    by_cases hlt : n < 128
    · simp only [hlt, if_true, List.singleton_append, decIntTail]
      rw [toUInt8_toNat_lt n (by omega)]
      have hmod : n % 128 = n := Nat.mod_eq_of_lt hlt
      rw [hmod]
      have hn128 : ¬ 128 ≤ n := by omega
      simp only [hn128, if_false]
      rcases hsh with h | h | h | h | h <;> subst h <;> simp at *
      omega
    · simp only [hlt, if_false, List.cons_append, decIntTail]
      rw [toUInt8_toNat_lt (n % 128 + 128) (by omega)]
      have h1 : 128 ≤ n % 128 + 128 := by omega
      have h2 : (n % 128 + 128) % 128 = n % 128 := by omega
      simp only [h1, if_true, h2]
      have hsh' : sh ≠ 28 := by
        intro h; subst h; simp at hb; omega
      have key : acc + n % 128 * 2 ^ sh + n / 128 * 2 ^ (sh + 7) = acc + n * 2 ^ sh := by
        rw [Nat.pow_add]
        have : n = n % 128 + 128 * (n / 128) := (Nat.mod_add_div n 128).symm
        generalize 2 ^ sh = p at *
        have e : n * p = (n % 128 + 128 * (n / 128)) * p := by rw [← this]
        rw [e, Nat.add_mul]
        simp [Nat.mul_comm, Nat.mul_left_comm, Nat.add_assoc]
      rw [ih (n / 128) (sh + 7) (acc + n % 128 * 2 ^ sh) rest (by omega)
        (by rcases hsh with h | h | h | h | h <;> subst h <;> simp [ShiftOk] at * )
        (by rw [key]; exact hb) (by intro _; omega), key]

theorem decInt_encInt (pbits hi n : Nat) (rest : Bytes)
    (hhi : hi % 2 ^ pbits = 0) (hfit : hi + 2 ^ pbits ≤ 256) (hn : n < 2 ^ 32) :
    decInt pbits (encInt pbits hi n ++ rest) = some (n, rest) := by
  have hP : 0 < 2 ^ pbits := Nat.pow_pos (by decide)
  obtain ⟨k, hk⟩ := Nat.dvd_of_mod_eq_zero hhi
  unfold encInt
  by_cases hlt : n < 2 ^ pbits - 1
  · simp only [hlt, if_true, List.singleton_append, decInt]
    rw [toUInt8_toNat_lt (hi + n) (by omega)]
    have : (hi + n) % 2 ^ pbits = n := by
      rw [hk, Nat.mul_add_mod]; exact Nat.mod_eq_of_lt (by omega)
    simp [this, hlt]
  · simp only [hlt, if_false, List.cons_append, decInt]
    rw [toUInt8_toNat_lt (hi + (2 ^ pbits - 1)) (by omega)]
    have : (hi + (2 ^ pbits - 1)) % 2 ^ pbits = 2 ^ pbits - 1 := by
      rw [hk, Nat.mul_add_mod]; exact Nat.mod_eq_of_lt (by omega)
    simp only [this, Nat.lt_irrefl, if_false]
    unfold encIntTail
    rw [decIntTail_encIntTailF (n - (2 ^ pbits - 1)) (n - (2 ^ pbits - 1)) 0 (2 ^ pbits - 1) rest
      (Nat.le_refl _) (Or.inl rfl) (by simp; omega) (by intro h; cases h)]
    simp; omega


/-- shape of an encoded integer: first octet carries `hi` plus the (saturated) prefix -/
theorem encInt_cons (pbits hi n : Nat) (hfit : hi + 2 ^ pbits ≤ 256) :
    ∃ b tl, encInt pbits hi n = b :: tl ∧ b.toNat = hi + min n (2 ^ pbits - 1) := by
  have hP : 0 < 2 ^ pbits := Nat.pow_pos (by decide)
  unfold encInt
  by_cases hlt : n < 2 ^ pbits - 1
  · refine ⟨(hi + n).toUInt8, [], by simp [hlt], ?_⟩
    rw [toUInt8_toNat_lt _ (by omega)]; omega
  · refine ⟨(hi + (2 ^ pbits - 1)).toUInt8, encIntTail (n - (2 ^ pbits - 1)), by simp [hlt], ?_⟩
    rw [toUInt8_toNat_lt _ (by omega)]; omega

theorem decStr_encStr (cap : Nat) (huff : Bool) (s rest : Bytes)
    (hlen : s.length < cap) (hcap : cap ≤ 2 ^ 28) :
    decStr cap (encStr huff s ++ rest) = .ok (s, rest) := by
  unfold encStr
  cases huff with
  | false =>
    simp only [Bool.false_eq_true, if_false]
    obtain ⟨b, tl, he, hb⟩ := encInt_cons 7 0 s.length (by decide)
    have hd := decInt_encInt 7 0 s.length (s ++ rest) (by decide) (by decide) (by omega)
    rw [List.append_assoc]
    rw [he] at hd ⊢
    simp only [List.cons_append] at hd ⊢
    unfold decStr
    simp only [hd]
    have h1 : ¬ (s ++ rest).length < s.length := by simp
    have h2 : ¬ 128 ≤ b.toNat := by rw [hb]; simp; omega
    have h3 : ¬ cap < s.length := by omega
    simp [h2, h3]
  | true =>
    simp only [if_true]
    have hl := huffEncode_length_le s
    obtain ⟨b, tl, he, hb⟩ := encInt_cons 7 128 (huffEncode s).length (by decide)
    have hd := decInt_encInt 7 128 (huffEncode s).length (huffEncode s ++ rest) (by decide) (by decide) (by omega)
    rw [List.append_assoc]
    rw [he] at hd ⊢
    simp only [List.cons_append] at hd ⊢
    unfold decStr
    simp only [hd]
    have h1 : ¬ (huffEncode s ++ rest).length < (huffEncode s).length := by simp
    have h2 : 128 ≤ b.toNat := by rw [hb]; omega
    simp [h2, huffDecode_huffEncode cap s hlen]


/-! ### tables -/
theorem overhead_eq : Extracted.hpackEntryOverhead = 32 := rfl
theorem staticSize_eq : Extracted.hpackStaticTableSize = 61 := rfl

theorem tableSize_cons (h : Header) (t : List Header) :
    tableSize (h :: t) = entrySize h + tableSize t := by
  simp [tableSize]

theorem tableSize_evict_le (cap : Nat) (t : List Header) : tableSize (evict cap t) ≤ cap := by
  induction t generalizing cap with
  | nil => simp [evict, tableSize]
  | cons h t ih =>
    simp only [evict]
    split
    · have := ih (cap - entrySize h)
      rw [tableSize_cons]; omega
    · simp [tableSize]

theorem evict_of_le (cap : Nat) (t : List Header) (h : tableSize t ≤ cap) : evict cap t = t := by
  induction t generalizing cap with
  | nil => rfl
  | cons x t ih =>
    rw [tableSize_cons] at h
    simp only [evict]
    rw [if_pos (by omega), ih (cap - entrySize x) (by omega)]

theorem length_le_tableSize (t : List Header) : 32 * t.length ≤ tableSize t := by
  induction t with
  | nil => simp [tableSize]
  | cons x t ih =>
    rw [tableSize_cons]
    simp only [List.length_cons, entrySize, overhead_eq]; omega

theorem Table.WF.updateMax {t : Table} (h : t.WF) (n : Nat) (hn : n ≤ t.maxCap) : (t.updateMax n).WF :=
  ⟨hn, h.max_lt, tableSize_evict_le _ _⟩

theorem Table.WF.push {t : Table} (h : t.WF) (x : Header) : (t.push x).WF :=
  ⟨h.cur_le, h.max_lt, tableSize_evict_le _ _⟩

theorem Table.WF.setMaxCapacity {t : Table} (n : Nat) (hn : n < 2 ^ 32) : (t.setMaxCapacity n).WF :=
  ⟨Nat.le_refl _, hn, tableSize_evict_le _ _⟩

theorem Table.init_WF : Table.init.WF := ⟨Nat.le_refl _, by decide, by decide⟩

theorem Table.lookup_zero (t : Table) : t.lookup 0 = none := by simp [Table.lookup]

theorem Table.lookup_lt {t : Table} (hwf : t.WF) {i : Nat} {h : Header} (hl : t.lookup i = some h) :
    0 < i ∧ i < 2 ^ 28 := by
  unfold Table.lookup at hl
  by_cases h0 : i = 0
  · simp [h0] at hl
  · simp only [h0, if_false] at hl
    refine ⟨by omega, ?_⟩
    by_cases h1 : i ≤ Extracted.hpackStaticTableSize
    · rw [staticSize_eq] at h1; omega
    · simp only [h1, if_false] at hl
      obtain ⟨hlen, _⟩ := List.getElem?_eq_some_iff.mp hl
      have := length_le_tableSize t.dyn
      have := hwf.size_le; have := hwf.cur_le; have := hwf.max_lt
      rw [staticSize_eq] at hlen
      omega

theorem Dec.lookup_of_tbl (d : Dec) {i : Nat} {h : Header} (hl : d.tbl.lookup i = some h) :
    ∃ hint, d.lookup i = some (h, hint) := by
  unfold Dec.lookup
  rw [hl]
  by_cases h1 : i ≤ Extracted.hpackStaticTableSize
  · exact ⟨i, by simp [h1]⟩
  · exact ⟨d.hints.getD (i - Extracted.hpackStaticTableSize - 1) 0, by simp [h1]⟩


theorem decodeItem_indexed (cap : Nat) (d : Dec) (idx : Nat) (h : Header) (rest : Bytes)
    (hwf : d.tbl.WF) (hl : d.tbl.lookup idx = some h) (hfit : h.1.length + h.2.length < cap) :
    ∃ hint, decodeItem cap d (encInt 7 128 idx ++ rest) = .fld ⟨h.1, h.2, hint, false⟩ rest d := by
  obtain ⟨hpos, hlt⟩ := Table.lookup_lt hwf hl
  obtain ⟨hint, hdl⟩ := d.lookup_of_tbl hl
  obtain ⟨b, tl, he, hb⟩ := encInt_cons 7 128 idx (by decide)
  have hd := decInt_encInt 7 128 idx rest (by decide) (by decide) (by omega)
  rw [he] at hd ⊢
  simp only [List.cons_append] at hd ⊢
  refine ⟨hint, ?_⟩
  have hb128 : 128 ≤ b.toNat := by omega
  have hnot : ¬ (32 ≤ b.toNat ∧ b.toNat < 64) := by omega
  have hrepr : reprOf b.toNat = (.indexed, some 7) := by simp [reprOf, hb128]
  have hidx : idx ≠ 0 := by omega
  obtain ⟨n, v⟩ := h
  simp only at hfit
  have h1 : ¬ cap < n.length := by omega
  have h2 : ¬ cap - n.length < v.length := by omega
  simp [decodeItem, hnot, hrepr, hd, hidx, hdl, h1, h2]


theorem encStr_ne_nil (huff : Bool) (s : Bytes) : encStr huff s ≠ [] := by
  unfold encStr
  cases huff
  · obtain ⟨b, tl, he, _⟩ := encInt_cons 7 0 s.length (by decide)
    simp [he]
  · obtain ⟨b, tl, he, _⟩ := encInt_cons 7 128 (huffEncode s).length (by decide)
    simp [he]

theorem decodeValue_encStr (cap : Nat) (d : Dec) (kind : Kind) (n v : Bytes) (hint : Nat)
    (huff : Bool) (rest : Bytes) (hfit : n.length + v.length < cap) (hcap : cap ≤ 2 ^ 28) :
    decodeValue cap d kind n hint (encStr huff v ++ rest) =
      .fld ⟨n, v, hint, decide (kind = .never)⟩ rest
        (if kind = .incr then d.push (n, v) hint else d) := by
  unfold decodeValue
  rw [if_neg (by simp [encStr_ne_nil]),
    decStr_encStr (cap - n.length) huff v rest (by omega) (by omega)]

/-- literal representation with indexed name -/
theorem decodeItem_nameRef (cap : Nat) (d : Dec) (kind : Kind) (pbits flag idx : Nat)
    (n v0 v : Bytes) (huff : Bool) (rest : Bytes)
    (hmod : flag % 2 ^ pbits = 0) (hfl : flag + 2 ^ pbits ≤ 256) (hp2 : 2 ≤ 2 ^ pbits)
    (hrepr : ∀ b, flag + 1 ≤ b → b ≤ flag + (2 ^ pbits - 1) →
      ¬ (32 ≤ b ∧ b < 64) ∧ reprOf b = (kind, some pbits))
    (hkind : kind ≠ .indexed)
    (hwf : d.tbl.WF) (hl : d.tbl.lookup idx = some (n, v0))
    (hfit : n.length + v.length < cap) (hcap : cap ≤ 2 ^ 28) :
    ∃ hint, decodeItem cap d (encInt pbits flag idx ++ encStr huff v ++ rest) =
      .fld ⟨n, v, hint, decide (kind = .never)⟩ rest
        (if kind = .incr then d.push (n, v) hint else d) := by
  obtain ⟨hpos, hlt⟩ := Table.lookup_lt hwf hl
  obtain ⟨hint, hdl⟩ := d.lookup_of_tbl hl
  obtain ⟨b, tl, he, hb⟩ := encInt_cons pbits flag idx hfl
  have hd := decInt_encInt pbits flag idx (encStr huff v ++ rest) hmod hfl (by omega)
  rw [List.append_assoc]
  rw [he] at hd ⊢
  simp only [List.cons_append] at hd ⊢
  refine ⟨hint, ?_⟩
  have hP : 0 < 2 ^ pbits := Nat.pow_pos (by decide)
  have hb1 : flag + 1 ≤ b.toNat := by
    rw [hb]; have : 1 ≤ min idx (2 ^ pbits - 1) := by
      generalize 2 ^ pbits = P at *
      rcases Nat.lt_or_ge idx (P - 1) with h | h
      · rw [Nat.min_eq_left (by omega)]; omega
      · rw [Nat.min_eq_right h]; omega
    omega
  have hb2 : b.toNat ≤ flag + (2 ^ pbits - 1) := by
    rw [hb]; have := Nat.min_le_right idx (2 ^ pbits - 1); omega
  obtain ⟨hnot, hr⟩ := hrepr b.toNat hb1 hb2
  have hidx : idx ≠ 0 := by omega
  have h1 : ¬ cap < n.length := by omega
  simp only [decodeItem, hnot, if_false, hr, hd, hidx, hdl, h1, hkind]
  exact decodeValue_encStr cap d kind n v hint huff rest hfit hcap


/-- literal representation with literal name -/
theorem decodeItem_literal (cap : Nat) (d : Dec) (kind : Kind) (flag : Nat)
    (n v : Bytes) (hn hv : Bool) (rest : Bytes) (hfl : flag < 256)
    (hrepr : ¬ (32 ≤ flag ∧ flag < 64) ∧ reprOf flag = (kind, none))
    (hkind : kind ≠ .indexed) (hok : HeaderOk cap (n, v)) (hcap : cap ≤ 2 ^ 28) :
    decodeItem cap d (flag.toUInt8 :: encStr hn n ++ encStr hv v ++ rest) =
      .fld ⟨n, v, 0, decide (kind = .never)⟩ rest
        (if kind = .incr then d.push (n, v) 0 else d) := by
  have hfit := hok.fits
  simp only at hfit
  have hs := decStr_encStr cap hn n (encStr hv v ++ rest) (by omega) hcap
  have hne : encStr hn n ++ (encStr hv v ++ rest) ≠ [] := by
    simp [encStr_ne_nil]
  have hnn : n ≠ [] := hok.name_ne
  simp only [List.cons_append, List.append_assoc, decodeItem, toUInt8_toNat_lt flag hfl, hrepr.1,
    if_false, hrepr.2, hkind, hne, hs, hnn]
  exact decodeValue_encStr cap d kind n v 0 hv rest hfit hcap


theorem Dec.push_tbl (d : Dec) (h : Header) (hint : Nat) : (d.push h hint).tbl = d.tbl.push h := rfl
theorem Dec.updateMax_tbl (d : Dec) (n : Nat) : (d.updateMax n).tbl = d.tbl.updateMax n := rfl

theorem reprOf_incr (b : Nat) (h1 : 64 + 1 ≤ b) (h2 : b ≤ 64 + (2 ^ 6 - 1)) :
    ¬ (32 ≤ b ∧ b < 64) ∧ reprOf b = (.incr, some 6) := by
  refine ⟨by omega, ?_⟩
  unfold reprOf
  rw [if_neg (by omega), if_pos (by omega)]

theorem reprOf_never (b : Nat) (h1 : 16 + 1 ≤ b) (h2 : b ≤ 16 + (2 ^ 4 - 1)) :
    ¬ (32 ≤ b ∧ b < 64) ∧ reprOf b = (.never, some 4) := by
  refine ⟨by omega, ?_⟩
  unfold reprOf
  rw [if_neg (by omega), if_neg (by omega), if_neg (by omega), if_neg (by omega), if_pos (by omega)]

theorem reprOf_without (b : Nat) (h1 : 0 + 1 ≤ b) (h2 : b ≤ 0 + (2 ^ 4 - 1)) :
    ¬ (32 ≤ b ∧ b < 64) ∧ reprOf b = (.without, some 4) := by
  refine ⟨by omega, ?_⟩
  unfold reprOf
  rw [if_neg (by omega), if_neg (by omega), if_neg (by omega), if_neg (by omega), if_neg (by omega),
    if_neg (by omega)]

theorem decodeItem_encodeFieldCore (cap : Nat) (d : Dec) (c : Choice) (h : Header) (rest : Bytes)
    (hwf : d.tbl.WF) (hok : HeaderOk cap h) (hcap : cap ≤ 2 ^ 28) :
    ∃ f d', decodeItem cap d ((encodeFieldCore d.tbl c h).1 ++ rest) = .fld f rest d' ∧
      f.header = h ∧ d'.tbl = (encodeFieldCore d.tbl c h).2 := by
  obtain ⟨n, v⟩ := h
  have hfit := hok.fits
  simp only at hfit
  unfold encodeFieldCore
  by_cases hix : c.mode = .indexed ∧ d.tbl.lookup c.idx = some (n, v)
  · simp only [hix, and_self, if_true]
    obtain ⟨hint, hd⟩ := decodeItem_indexed cap d c.idx (n, v) rest hwf hix.2 hfit
    exact ⟨_, _, hd, rfl, rfl⟩
  · simp only [hix, if_false]
    by_cases hnr : (d.tbl.lookup c.idx).map (·.1) = some n
    · -- indexed name
      have hne : c.idx ≠ 0 := by
        intro h0; rw [h0, Table.lookup_zero] at hnr; simp at hnr
      obtain ⟨⟨n', v0⟩, hl, hn'⟩ := Option.map_eq_some_iff.mp hnr
      simp only at hn'; subst hn'
      simp only [hnr, if_true, hne, ne_eq, not_false_eq_true]
      cases hm : c.mode with
      | incr =>
        obtain ⟨hint, hd⟩ := decodeItem_nameRef cap d .incr 6 64 c.idx n' v0 v c.huffValue rest
          (by decide) (by decide) (by decide)
          reprOf_incr (by decide) hwf hl hfit hcap
        exact ⟨_, _, hd, rfl, by simp [Dec.push_tbl]⟩
      | never =>
        obtain ⟨hint, hd⟩ := decodeItem_nameRef cap d .never 4 16 c.idx n' v0 v c.huffValue rest
          (by decide) (by decide) (by decide)
          reprOf_never (by decide) hwf hl hfit hcap
        exact ⟨_, _, hd, rfl, by simp⟩
      | without =>
        obtain ⟨hint, hd⟩ := decodeItem_nameRef cap d .without 4 0 c.idx n' v0 v c.huffValue rest
          (by decide) (by decide) (by decide)
          reprOf_without (by decide) hwf hl hfit hcap
        exact ⟨_, _, hd, rfl, by simp⟩
      | indexed =>
        obtain ⟨hint, hd⟩ := decodeItem_nameRef cap d .without 4 0 c.idx n' v0 v c.huffValue rest
          (by decide) (by decide) (by decide)
          reprOf_without (by decide) hwf hl hfit hcap
        exact ⟨_, _, hd, rfl, by simp⟩
    · simp only [hnr, if_false, ne_eq, not_true_eq_false]
      cases hm : c.mode with
      | incr =>
        have hd := decodeItem_literal cap d .incr 64 n v c.huffName c.huffValue rest (by decide)
          (by simp [reprOf]) (by decide) hok hcap
        exact ⟨_, _, hd, rfl, by simp [Dec.push_tbl]⟩
      | never =>
        have hd := decodeItem_literal cap d .never 16 n v c.huffName c.huffValue rest (by decide)
          (by simp [reprOf]) (by decide) hok hcap
        exact ⟨_, _, hd, rfl, by simp⟩
      | without =>
        have hd := decodeItem_literal cap d .without 0 n v c.huffName c.huffValue rest (by decide)
          (by simp [reprOf]) (by decide) hok hcap
        exact ⟨_, _, hd, rfl, by simp⟩
      | indexed =>
        have hd := decodeItem_literal cap d .without 0 n v c.huffName c.huffValue rest (by decide)
          (by simp [reprOf]) (by decide) hok hcap
        exact ⟨_, _, hd, rfl, by simp⟩


/-! ### block level -/

theorem decodeItem_sizeUpdate (cap : Nat) (d : Dec) (n : Nat) (rest : Bytes)
    (hn : n ≤ d.tbl.maxCap) (hmax : d.tbl.maxCap < 2 ^ 32) (hrest : rest ≠ []) :
    decodeItem cap d (encInt 5 32 n ++ rest) = .upd rest (d.updateMax n) := by
  obtain ⟨b, tl, he, hb⟩ := encInt_cons 5 32 n (by decide)
  have hd := decInt_encInt 5 32 n rest (by decide) (by decide) (by omega)
  rw [he] at hd ⊢
  simp only [List.cons_append] at hd ⊢
  have hin : 32 ≤ b.toNat ∧ b.toNat < 64 := by
    have := Nat.min_le_right n (2 ^ 5 - 1); omega
  have h1 : ¬ d.tbl.maxCap < n := by omega
  simp [decodeItem, hin, hd, h1, hrest]

theorem encInt_length_pos (pbits hi n : Nat) (hfit : hi + 2 ^ pbits ≤ 256) :
    0 < (encInt pbits hi n).length := by
  obtain ⟨b, tl, he, _⟩ := encInt_cons pbits hi n hfit
  simp [he]

theorem decodeItem_ne_nil {cap : Nat} {d : Dec} {bs : Bytes} {r : ItemRes}
    (h : decodeItem cap d bs = r) (hr : ∀ e d', r ≠ .err e d') : bs ≠ [] := by
  intro hb; subst hb
  exact hr _ _ (by rw [← h]; rfl)

theorem decodeBlockAux_succ (cap fuel : Nat) (d : Dec) (bs : Bytes) (acc : List Field) :
    decodeBlockAux cap (fuel + 1) d bs acc =
      if bs = [] then ⟨acc.reverse, none, d⟩
      else
        match decodeItem cap d bs with
        | .err e d' => ⟨acc.reverse, some e, d'⟩
        | .upd rest d' => decodeBlockAux cap fuel d' rest acc
        | .fld f rest d' => decodeBlockAux cap fuel d' rest (f :: acc) := rfl

theorem decodeBlockAux_resize (cap : Nat) : ∀ (rs : List Nat) (d : Dec) (fuel : Nat) (rest : Bytes)
    (acc : List Field), d.tbl.WF → rest ≠ [] →
    ∃ d', d'.tbl = (encResize d.tbl rs).2 ∧ d'.tbl.WF ∧
      decodeBlockAux cap (fuel + rs.length) d ((encResize d.tbl rs).1 ++ rest) acc =
        decodeBlockAux cap fuel d' rest acc := by
  intro rs
  induction rs with
  | nil => intro d fuel rest acc hwf _; exact ⟨d, rfl, hwf, by simp [encResize]⟩
  | cons n ns ih =>
    intro d fuel rest acc hwf hrest
    have hle : min n d.tbl.maxCap ≤ d.tbl.maxCap := Nat.min_le_right _ _
    have hwf1 : (d.updateMax (min n d.tbl.maxCap)).tbl.WF := hwf.updateMax _ hle
    obtain ⟨d', ht, hwf', hrec⟩ := ih (d.updateMax (min n d.tbl.maxCap)) fuel rest acc hwf1 hrest
    refine ⟨d', ?_, hwf', ?_⟩
    · rw [ht]; simp [encResize, Dec.updateMax_tbl]
    · have hne : (encResize (d.tbl.updateMax (min n d.tbl.maxCap)) ns).1 ++ rest ≠ [] := by
        simp [hrest]
      have hit := decodeItem_sizeUpdate cap d (min n d.tbl.maxCap) _ hle hwf.max_lt hne
      have hlen : fuel + (n :: ns).length = (fuel + ns.length) + 1 := by simp; omega
      rw [hlen]
      simp only [encResize, List.append_assoc]
      have hne2 := decodeItem_ne_nil hit (by simp)
      rw [decodeBlockAux_succ, if_neg hne2, hit]
      simpa [Dec.updateMax_tbl] using hrec


/-- number of items (size updates + fields) the reference encoder emits -/
def itemCount : List Choice → List Header → Nat
  | _, [] => 0
  | cs, _ :: hs => (cs.headD {}).resize.length + 1 + itemCount cs.tail hs

theorem decodeBlockAux_encodeBlock (cap : Nat) (hcap : cap ≤ 2 ^ 28) :
    ∀ (hs : List Header) (cs : List Choice) (d : Dec) (acc : List Field) (fuel : Nat),
    d.tbl.WF → (∀ h ∈ hs, HeaderOk cap h) → itemCount cs hs < fuel →
    ∃ fs d', decodeBlockAux cap fuel d (encodeBlock d.tbl cs hs).1 acc =
        ⟨acc.reverse ++ fs, none, d'⟩ ∧
      fs.map Field.header = hs ∧ d'.tbl = (encodeBlock d.tbl cs hs).2 ∧ d'.tbl.WF := by
  intro hs
  induction hs with
  | nil =>
    intro cs d acc fuel hwf _ hf
    obtain ⟨k, rfl⟩ : ∃ k, fuel = k + 1 := ⟨fuel - 1, by simp [itemCount] at hf; omega⟩
    exact ⟨[], d, by simp [encodeBlock, decodeBlockAux_succ], rfl, rfl, hwf⟩
  | cons h hs ih =>
    intro cs d acc fuel hwf hok hf
    simp only [itemCount] at hf
    have hokh : HeaderOk cap h := hok h (by simp)
    have hoks : ∀ x ∈ hs, HeaderOk cap x := fun x hx => hok x (by simp [hx])
    -- the bytes of this field
    simp only [encodeBlock, encodeField, List.append_assoc]
    generalize hc : cs.headD {} = c at hf ⊢
    -- size updates
    have hcore_ne : ∀ (d1 : Dec) (rest : Bytes), d1.tbl.WF →
        (encodeFieldCore d1.tbl c h).1 ++ rest ≠ [] := by
      intro d1 rest hw
      obtain ⟨f, d2, hd, _, _⟩ := decodeItem_encodeFieldCore cap d1 c h rest hw hokh hcap
      exact decodeItem_ne_nil hd (by simp)
    obtain ⟨k, hk⟩ : ∃ k, fuel = (k + 1) + c.resize.length :=
      ⟨fuel - c.resize.length - 1, by omega⟩
    subst hk
    have hrest_ne : (encodeFieldCore (encResize d.tbl c.resize).2 c h).1 ++
        (encodeBlock (encodeFieldCore (encResize d.tbl c.resize).2 c h).2 cs.tail hs).1 ≠ [] := by
      obtain ⟨d1, ht1, hwf1, _⟩ := decodeBlockAux_resize cap c.resize d 0 [0] acc hwf (by simp)
      rw [← ht1]; exact hcore_ne d1 _ hwf1
    obtain ⟨d1, ht1, hwf1, hres⟩ := decodeBlockAux_resize cap c.resize d (k + 1) _ acc hwf hrest_ne
    rw [hres, ← ht1]
    -- the field itself
    obtain ⟨f, d2, hd, hfh, ht2⟩ := decodeItem_encodeFieldCore cap d1 c h
      (encodeBlock (encodeFieldCore d1.tbl c h).2 cs.tail hs).1 hwf1 hokh hcap
    have hwf2 : d2.tbl.WF := by
      rw [ht2]; unfold encodeFieldCore
      split
      · exact hwf1
      · simp only; split
        · exact hwf1.push _
        · exact hwf1
    rw [decodeBlockAux_succ, if_neg (hcore_ne d1 _ hwf1), hd]
    simp only
    rw [← ht2]
    obtain ⟨fs, d3, hrec, hmap, ht3, hwf3⟩ := ih cs.tail d2 (f :: acc) k hwf2 hoks (by omega)
    refine ⟨f :: fs, d3, ?_, by simp [hmap, hfh], ht3, hwf3⟩
    rw [hrec]; simp

/-! ### the table invariant holds whatever bytes arrive -/

def ItemRes.dec : ItemRes → Dec
  | .err _ d => d
  | .upd _ d => d
  | .fld _ _ d => d

theorem decodeValue_WF (cap : Nat) (d : Dec) (kind : Kind) (n : Bytes) (hint : Nat) (rest : Bytes)
    (hwf : d.tbl.WF) : (decodeValue cap d kind n hint rest).dec.tbl.WF := by
  unfold decodeValue
  split
  · exact hwf
  · split
    · exact hwf
    · simp only [ItemRes.dec]
      split
      · exact hwf.push _
      · exact hwf

theorem decodeItem_WF (cap : Nat) (d : Dec) (bs : Bytes) (hwf : d.tbl.WF) :
    (decodeItem cap d bs).dec.tbl.WF := by
  unfold decodeItem
  repeat' first
    | exact hwf
    | exact decodeValue_WF _ _ _ _ _ _ hwf
    | exact hwf.updateMax _ (by omega)
    | split
    | simp only []


theorem decodeBlockAux_WF (cap : Nat) : ∀ (fuel : Nat) (d : Dec) (bs : Bytes) (acc : List Field),
    d.tbl.WF → (decodeBlockAux cap fuel d bs acc).dec.tbl.WF := by
  intro fuel
  induction fuel with
  | zero => intro d bs acc hwf; exact hwf
  | succ k ih =>
    intro d bs acc hwf
    rw [decodeBlockAux_succ]
    split
    · exact hwf
    · have h := decodeItem_WF cap d bs hwf
      split <;> rename_i heq <;> rw [heq] at h
      · exact h
      · exact ih _ _ _ h
      · exact ih _ _ _ h

theorem decodeBlock_WF (cap : Nat) (d : Dec) (bs : Bytes) (hwf : d.tbl.WF) :
    (decodeBlock cap d bs).dec.tbl.WF := decodeBlockAux_WF cap _ d bs [] hwf

theorem recvConn_WF (cap : Nat) : ∀ (ws : List Wire) (d : Dec), d.tbl.WF →
    (recvConn cap d ws).2.1.tbl.WF := by
  intro ws
  induction ws with
  | nil => intro d hwf; exact hwf
  | cons w ws ih =>
    intro d hwf
    simp only [recvConn]
    split
    · exact decodeBlock_WF cap d w.bs hwf
    · exact ih _ (decodeBlock_WF cap d w.bs hwf)

/-! ### the reference encoder against the decoder, block and connection level -/

theorem encodeFieldCore_length_pos (t : Table) (c : Choice) (h : Header) :
    0 < (encodeFieldCore t c h).1.length := by
  unfold encodeFieldCore
  split
  · exact encInt_length_pos 7 128 _ (by decide)
  · simp only [List.length_append]
    have := List.length_pos_iff.mpr (encStr_ne_nil c.huffValue h.2)
    omega

theorem encResize_length (t : Table) (rs : List Nat) : rs.length ≤ (encResize t rs).1.length := by
  induction rs generalizing t with
  | nil => simp [encResize]
  | cons n ns ih =>
    simp only [encResize, List.length_append, List.length_cons]
    have := encInt_length_pos 5 32 (min n t.maxCap) (by decide)
    have := ih (t.updateMax (min n t.maxCap))
    omega

theorem itemCount_le_length (t : Table) (cs : List Choice) (hs : List Header) :
    itemCount cs hs ≤ (encodeBlock t cs hs).1.length := by
  induction hs generalizing t cs with
  | nil => simp [itemCount]
  | cons h hs ih =>
    simp only [itemCount, encodeBlock, encodeField, List.length_append]
    have h1 := encResize_length t (cs.headD {}).resize
    have h2 := encodeFieldCore_length_pos (encResize t (cs.headD {}).resize).2 (cs.headD {}) h
    have h3 := ih (encodeFieldCore (encResize t (cs.headD {}).resize).2 (cs.headD {}) h).2 cs.tail
    omega

theorem decodeBlock_encodeBlock (cap : Nat) (hcap : cap ≤ 2 ^ 28) (d : Dec) (cs : List Choice)
    (hs : List Header) (hwf : d.tbl.WF) (hok : ∀ h ∈ hs, HeaderOk cap h) :
    ∃ fs d', decodeBlock cap d (encodeBlock d.tbl cs hs).1 = ⟨fs, none, d'⟩ ∧
      fs.map Field.header = hs ∧ d'.tbl = (encodeBlock d.tbl cs hs).2 ∧ d'.tbl.WF := by
  have hlen := itemCount_le_length d.tbl cs hs
  obtain ⟨fs, d', h, hm, ht, hw⟩ := decodeBlockAux_encodeBlock cap hcap hs cs d []
    ((encodeBlock d.tbl cs hs).1.length + 1) hwf hok (by omega)
  exact ⟨fs, d', by simpa [decodeBlock] using h, hm, ht, hw⟩

def ItemOk (cap : Nat) (it : ConnItem) : Prop := ∀ h ∈ it.hs, HeaderOk cap h

theorem recvConn_encodeConn (cap : Nat) (hcap : cap ≤ 2 ^ 28) : ∀ (items : List ConnItem) (d : Dec),
    d.tbl.WF → (∀ it ∈ items, ItemOk cap it) →
    ∃ lists d', recvConn cap d (encodeConn d.tbl items).1 = (lists, d', true) ∧
      lists.map (·.map Field.header) = servedLists items ∧
      d'.tbl = (encodeConn d.tbl items).2 := by
  intro items
  induction items with
  | nil => intro d _ _; exact ⟨[], d, rfl, rfl, rfl⟩
  | cons it items ih =>
    intro d hwf hok
    have hoks : ∀ x ∈ items, ItemOk cap x := fun x hx => hok x (by simp [hx])
    have hokb : ∀ h ∈ it.hs, HeaderOk cap h := hok it (by simp)
    obtain ⟨fs, d1, hdec, hmap, ht1, hwf1⟩ := decodeBlock_encodeBlock cap hcap d it.cs it.hs hwf hokb
    obtain ⟨ls, d', h, hm, ht⟩ := ih d1 hwf1 hoks
    rw [ht1] at h ht
    by_cases hdisp : it.disp = .serve
    · refine ⟨fs :: ls, d', ?_, by simp [servedLists, hdisp, hm, hmap], by simpa [encodeConn] using ht⟩
      simp only [encodeConn, recvConn, hdec, hdisp, if_true]
      rw [h]
    · refine ⟨ls, d', ?_, by simpa [servedLists, hdisp] using hm, by simpa [encodeConn] using ht⟩
      simp only [encodeConn, recvConn, hdec, hdisp, if_false]
      rw [h]

/-! ### a literal representation without its value string -/

theorem decodeValue_nil (cap : Nat) (d : Dec) (kind : Kind) (n : Bytes) (hint : Nat) :
    decodeValue cap d kind n hint [] = .err .badData d := by
  simp [decodeValue]

theorem decodeBlock_of_item_err (cap : Nat) (d d' : Dec) (bs : Bytes) (e : Err) (hne : bs ≠ [])
    (h : decodeItem cap d bs = .err e d') : (decodeBlock cap d bs).err = some e := by
  simp [decodeBlock, decodeBlockAux_succ, hne, h]

/-- literal name, then nothing: the value string is missing -/
theorem decodeItem_literal_noValue (cap : Nat) (d : Dec) (kind : Kind) (flag : Nat)
    (n : Bytes) (hn : Bool) (hfl : flag < 256)
    (hrepr : ¬ (32 ≤ flag ∧ flag < 64) ∧ reprOf flag = (kind, none))
    (hkind : kind ≠ .indexed) (hnn : n ≠ []) (hlen : n.length < cap) (hcap : cap ≤ 2 ^ 28) :
    decodeItem cap d (flag.toUInt8 :: encStr hn n) = .err .badData d := by
  have hs := decStr_encStr cap hn n [] hlen hcap
  rw [List.append_nil] at hs
  have hne : encStr hn n ≠ [] := encStr_ne_nil hn n
  simp only [decodeItem, toUInt8_toNat_lt flag hfl, hrepr.1, if_false, hrepr.2, hkind, hne, hs, hnn]
  exact decodeValue_nil cap d kind n 0

/-- name by index, then nothing -/
theorem decodeItem_nameRef_noValue (cap : Nat) (d : Dec) (kind : Kind) (pbits flag idx : Nat)
    (n v0 : Bytes)
    (hmod : flag % 2 ^ pbits = 0) (hfl : flag + 2 ^ pbits ≤ 256) (hp2 : 2 ≤ 2 ^ pbits)
    (hrepr : ∀ b, flag + 1 ≤ b → b ≤ flag + (2 ^ pbits - 1) →
      ¬ (32 ≤ b ∧ b < 64) ∧ reprOf b = (kind, some pbits))
    (hkind : kind ≠ .indexed)
    (hwf : d.tbl.WF) (hl : d.tbl.lookup idx = some (n, v0)) (hfit : n.length ≤ cap) :
    decodeItem cap d (encInt pbits flag idx) = .err .badData d := by
  obtain ⟨hpos, hlt⟩ := Table.lookup_lt hwf hl
  obtain ⟨hint, hdl⟩ := d.lookup_of_tbl hl
  obtain ⟨b, tl, he, hb⟩ := encInt_cons pbits flag idx hfl
  have hd := decInt_encInt pbits flag idx [] hmod hfl (by omega)
  rw [List.append_nil] at hd
  rw [he] at hd ⊢
  have hb1 : flag + 1 ≤ b.toNat := by
    rw [hb]; have : 1 ≤ min idx (2 ^ pbits - 1) := by
      generalize 2 ^ pbits = P at *
      rcases Nat.lt_or_ge idx (P - 1) with h | h
      · rw [Nat.min_eq_left (by omega)]; omega
      · rw [Nat.min_eq_right h]; omega
    omega
  have hb2 : b.toNat ≤ flag + (2 ^ pbits - 1) := by
    rw [hb]; have := Nat.min_le_right idx (2 ^ pbits - 1); omega
  obtain ⟨hnot, hr⟩ := hrepr b.toNat hb1 hb2
  have hidx : idx ≠ 0 := by omega
  have h1 : ¬ cap < n.length := by omega
  simp only [decodeItem, hnot, if_false, hr, hd, hidx, hdl, h1, hkind]
  exact decodeValue_nil cap d kind n hint

/-- a literal representation without its value string is BAD_DATA, whatever the
    table state, the name (literal or by index) and the indexing mode -/
theorem missing_value_badData (cap : Nat) (hcap : cap ≤ 2 ^ 28) (d : Dec) (hwf : d.tbl.WF) :
    (∀ (flag : Nat) (n : Bytes) (hn : Bool), flag = 0 ∨ flag = 16 ∨ flag = 64 → n ≠ [] →
      n.length < cap → (decodeBlock cap d (flag.toUInt8 :: encStr hn n)).err = some .badData) ∧
    (∀ (pbits flag idx : Nat) (n v0 : Bytes),
      (pbits = 6 ∧ flag = 64) ∨ (pbits = 4 ∧ flag = 16) ∨ (pbits = 4 ∧ flag = 0) →
      d.tbl.lookup idx = some (n, v0) → n.length ≤ cap →
      (decodeBlock cap d (encInt pbits flag idx)).err = some .badData) := by
  constructor
  · intro flag n hn hf hnn hlen
    apply decodeBlock_of_item_err cap d d _ _ (by simp)
    rcases hf with rfl | rfl | rfl
    · exact decodeItem_literal_noValue cap d .without 0 n hn (by decide) (by simp [reprOf]) (by decide)
        hnn hlen hcap
    · exact decodeItem_literal_noValue cap d .never 16 n hn (by decide) (by simp [reprOf]) (by decide)
        hnn hlen hcap
    · exact decodeItem_literal_noValue cap d .incr 64 n hn (by decide) (by simp [reprOf]) (by decide)
        hnn hlen hcap
  · intro pbits flag idx n v0 hf hl hfit
    have hne : encInt pbits flag idx ≠ [] := by
      have hpos : 0 < (encInt pbits flag idx).length := by
        rcases hf with ⟨rfl, rfl⟩ | ⟨rfl, rfl⟩ | ⟨rfl, rfl⟩ <;>
          exact encInt_length_pos _ _ idx (by decide)
      intro h; rw [h] at hpos; simp at hpos
    apply decodeBlock_of_item_err cap d d _ _ hne
    rcases hf with ⟨rfl, rfl⟩ | ⟨rfl, rfl⟩ | ⟨rfl, rfl⟩
    · exact decodeItem_nameRef_noValue cap d .incr 6 64 idx n v0 (by decide) (by decide) (by decide)
        reprOf_incr (by decide) hwf hl hfit
    · exact decodeItem_nameRef_noValue cap d .never 4 16 idx n v0 (by decide) (by decide) (by decide)
        reprOf_never (by decide) hwf hl hfit
    · exact decodeItem_nameRef_noValue cap d .without 4 0 idx n v0 (by decide) (by decide) (by decide)
        reprOf_without (by decide) hwf hl hfit

end LtVerif.Hpack
