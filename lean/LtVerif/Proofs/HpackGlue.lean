/-
  HPACK (C07), h2.c glue around the decoder:
    * the hint the decoder attaches to a field selects the right header id
      (`hint_id`, from `HintOk` and the extracted id maps)
    * h2_recv_headers(): every HEADERS sequence is either decoded to its end by
      the connection's one decoder, or left unread in the queue, or the
      connection has sent an error GOAWAY (`recvHeaders_spec`); hence, along any
      sequence of HEADERS the peer sends, lighttpd's table equals the peer's
      encoder table for as long as the connection is not dead (`runPeer_sync`)
    * every dynamic table size update lighttpd announces is within the size the
      peer last set (`updates_le_last`)
-/
import LtVerif.Proofs.H2Headers
import LtVerif.Proofs.HpackWeak
import LtVerif.Proofs.HpackHints
namespace LtVerif.H2Headers
open LtVerif B Hpack

/-! ### hint → header id -/

theorem staticName_of_hint {hint : Nat} {name : Bytes} (h : HintOk hint name) (h0 : hint ≠ 0) :
    hint ≤ 61 ∧ staticName hint = name := by
  rcases h with h | ⟨hle, hn⟩
  · exact absurd h h0
  · obtain ⟨e, he, hen⟩ := Option.map_eq_some_iff.mp hn
    refine ⟨hle, ?_⟩
    unfold staticName
    rw [List.getD_eq_getElem?_getD, he]
    exact hen

/-- h2.c: `hpctx.id = lshpack_idx_http_header[lsx.hpack_index]`.  A positive id
    is the id http_header_hkey_get() gives that name, and the name is already
    lower case; id 0 is given only to names lighttpd has no id for; a negative
    id is the pseudo-header of that name. -/
theorem hint_id {hint : Nat} {name : Bytes} (h : HintOk hint name) (h0 : hint ≠ 0) :
    (0 < Extracted.lshpackIdxHttpHeader.getD hint 0 →
      hkeyGet name = (Extracted.lshpackIdxHttpHeader.getD hint 0).toNat ∧ lower name = name) ∧
    (Extracted.lshpackIdxHttpHeader.getD hint 0 = 0 → hkeyGet name = 0) ∧
    (Extracted.lshpackIdxHttpHeader.getD hint 0 < 0 →
      pseudoName (Extracted.lshpackIdxHttpHeader.getD hint 0) = name) := by
  obtain ⟨hle, hname⟩ := staticName_of_hint h h0
  have hmap := idx_to_id_names.2 hint (by omega) h0
  simp only at hmap
  rw [hname] at hmap
  refine ⟨fun hpos => ?_, hmap.2.1, hmap.2.2⟩
  obtain ⟨hlt, hlc⟩ := hmap.1 hpos
  have hne : (Extracted.lshpackIdxHttpHeader.getD hint 0).toNat ≠ 0 := by omega
  have := lc_hashes_to_id _ hlt hne
  rw [hlc] at this
  exact this

/-! ### h2_recv_headers() -/

theorem setGoaway_dec (c : GConn) (code : Int) : (setGoaway c code).dec = c.dec := by
  unfold setGoaway; split <;> rfl

theorem setGoaway_pos (c : GConn) (code : Int) (h : 0 < code) : 0 < (setGoaway c code).goaway := by
  unfold setGoaway
  split
  · rename_i hc
    rcases hc.2 with h1 | h1
    · exact h1
    · omega
  · exact h

theorem setGoaway_keeps (c : GConn) (code : Int) (h : 0 < c.goaway) : 0 < (setGoaway c code).goaway := by
  unfold setGoaway
  split
  · exact h
  · rename_i hc
    exact absurd ⟨by omega, Or.inl h⟩ hc

theorem errGoaway_pos (e : Err) : 0 < errGoaway e := by cases e <;> decide

theorem decodeInto_spec (cap : Nat) (c0 c : GConn) (block : Bytes) (hdec : c.dec = c0.dec) :
    0 < (decodeInto cap c block).goaway ∨
      ((decodeInto cap c block).dec = (decodeBlock cap c0.dec block).dec ∧
        (decodeBlock cap c0.dec block).err = none) := by
  unfold decodeInto
  simp only [hdec]
  cases herr : (decodeBlock cap c0.dec block).err with
  | none => exact Or.inr ⟨rfl, rfl⟩
  | some e => exact Or.inl (setGoaway_pos _ _ (errGoaway_pos e))

theorem decodeInto_keeps (cap : Nat) (c : GConn) (block : Bytes) (h : 0 < c.goaway) :
    0 < (decodeInto cap c block).goaway := by
  unfold decodeInto
  simp only
  split
  · exact h
  · exact setGoaway_keeps _ _ h

theorem discardPath_spec (cap : Nat) (c0 c : GConn) (block : Bytes) (hdec : c.dec = c0.dec) :
    0 < (discardPath cap c block).goaway ∨
      ((discardPath cap c block).dec = (decodeBlock cap c0.dec block).dec ∧
        (decodeBlock cap c0.dec block).err = none) := by
  unfold discardPath
  split
  · rename_i hg; exact Or.inl hg
  · refine decodeInto_spec cap c0 _ block ?_
    simp only
    split
    · rw [setGoaway_dec]; exact hdec
    · exact hdec

theorem discardPath_keeps (cap : Nat) (c : GConn) (block : Bytes) (h : 0 < c.goaway) :
    0 < (discardPath cap c block).goaway := by
  unfold discardPath
  rw [if_pos h]
  exact h

theorem leaf3 {cap : Nat} {c : GConn} {block : Bytes} (X : GConn) (o : Outcome)
    (h : 0 < X.goaway ∨ (X.dec = (decodeBlock cap c.dec block).dec ∧ (decodeBlock cap c.dec block).err = none)) :
    0 < X.goaway ∨ (o = .deferred ∧ X = c) ∨
      (X.dec = (decodeBlock cap c.dec block).dec ∧ (decodeBlock cap c.dec block).err = none) :=
  h.elim Or.inl (fun h => Or.inr (Or.inr h))

/-- every HEADERS sequence: dead connection, or frame left unread (state
    untouched), or the block was decoded to its end without error by the
    connection's decoder -/
theorem recvHeaders_spec (cap : Nat) (c : GConn) (id : Nat) (es : Bool) (dep : Option Nat)
    (block : Bytes) (keep pb : Bool) :
    0 < (recvHeaders cap c id es dep block keep pb).1.goaway ∨
    ((recvHeaders cap c id es dep block keep pb).2 = .deferred ∧
      (recvHeaders cap c id es dep block keep pb).1 = c) ∨
    ((recvHeaders cap c id es dep block keep pb).1.dec = (decodeBlock cap c.dec block).dec ∧
      (decodeBlock cap c.dec block).err = none) := by
  unfold recvHeaders
  repeat' first
    | exact Or.inl (setGoaway_pos _ _ (by decide))
    | exact Or.inr (Or.inl ⟨rfl, rfl⟩)
    | (refine leaf3 _ _ (decodeInto_spec cap c _ block ?_); rfl)
    | (refine leaf3 _ _ (discardPath_spec cap c _ block ?_); first | rfl | (split <;> simp [setGoaway_dec]))
    | split
    | simp only []

theorem recvHeaders_keeps (cap : Nat) (c : GConn) (id : Nat) (es : Bool) (dep : Option Nat)
    (block : Bytes) (keep pb : Bool) (h : 0 < c.goaway) :
    0 < (recvHeaders cap c id es dep block keep pb).1.goaway := by
  unfold recvHeaders
  repeat' first
    | exact h
    | exact setGoaway_keeps _ _ h
    | exact decodeInto_keeps _ _ _ h
    | exact discardPath_keeps _ _ _ h
    | exact discardPath_keeps _ _ _ (by split <;> first | exact h | exact setGoaway_keeps _ _ h)
    | split
    | simp only []

theorem decodeInto_dec (cap : Nat) (c : GConn) (block : Bytes) :
    (decodeInto cap c block).dec = (decodeBlock cap c.dec block).dec := by
  unfold decodeInto
  simp only
  split
  · rfl
  · rw [setGoaway_dec]

theorem decodeInto_hints (cap : Nat) (c : GConn) (block : Bytes) (h : HintsOk c.dec) :
    HintsOk (decodeInto cap c block).dec := by
  rw [decodeInto_dec]; exact (decodeBlock_hint cap c.dec block h).1

theorem discardPath_hints (cap : Nat) (c : GConn) (block : Bytes) (h : HintsOk c.dec) :
    HintsOk (discardPath cap c block).dec := by
  unfold discardPath
  split
  · exact h
  · refine decodeInto_hints cap _ block ?_
    simp only
    split
    · rw [setGoaway_dec]; exact h
    · exact h

/-- the decoder's hints stay right across everything h2_recv_headers() does -/
theorem recvHeaders_hints (cap : Nat) (c : GConn) (id : Nat) (es : Bool) (dep : Option Nat)
    (block : Bytes) (keep pb : Bool) (h : HintsOk c.dec) :
    HintsOk (recvHeaders cap c id es dep block keep pb).1.dec := by
  unfold recvHeaders
  repeat' first
    | exact h
    | (rw [setGoaway_dec]; exact h)
    | exact decodeInto_hints _ _ _ h
    | exact discardPath_hints _ _ _ h
    | exact discardPath_hints _ _ _ (by split <;> first | exact h | (rw [setGoaway_dec]; exact h))
    | split
    | simp only []

/-- one HEADERS(+CONTINUATION) sequence of the peer: the frame fields h2.c looks
    at and the header list `hs`, HPACK-encoded with the peer's choices `cs` -/
structure HEvent where
  id : Nat
  endStream : Bool
  dep : Option Nat
  keep : Bool
  pendingBody : Bool
  cs : List Choice
  hs : List Header

/-- the peer encodes every header list with its one encoder (table `t`);
    lighttpd handles the frames in order; a frame it leaves in the read queue
    blocks everything behind it.  Result: lighttpd's state and the peer's
    encoder table after the last frame lighttpd consumed. -/
def runPeer (cap : Nat) : GConn → Table → List HEvent → GConn × Table
  | c, t, [] => (c, t)
  | c, t, e :: es =>
    let enc := encodeBlock t e.cs e.hs
    let r := recvHeaders cap c e.id e.endStream e.dep enc.1 e.keep e.pendingBody
    if r.2 = .deferred then (c, t) else runPeer cap r.1 enc.2 es

theorem runPeer_keeps (cap : Nat) : ∀ (evs : List HEvent) (c : GConn) (t : Table), 0 < c.goaway →
    0 < (runPeer cap c t evs).1.goaway := by
  intro evs
  induction evs with
  | nil => intro c t h; exact h
  | cons e es ih =>
    intro c t h
    simp only [runPeer]
    split
    · exact h
    · exact ih _ _ (recvHeaders_keeps _ _ _ _ _ _ _ _ h)

/-- as long as lighttpd has not sent an error GOAWAY, its decoder table is the
    peer's encoder table — for ANY header lists (any sizes), any stream ids,
    flags, refusals, trailers, discarded blocks -/
theorem runPeer_sync (cap : Nat) : ∀ (evs : List HEvent) (c : GConn) (t : Table),
    c.dec.tbl = t → t.WF → (runPeer cap c t evs).1.goaway ≤ 0 →
    (runPeer cap c t evs).1.dec.tbl = (runPeer cap c t evs).2 := by
  intro evs
  induction evs with
  | nil => intro c t h _ _; exact h
  | cons e es ih =>
    intro c t ht hwf hg
    subst ht
    simp only [runPeer] at hg ⊢
    split
    · rfl
    · rename_i hdef
      rw [if_neg hdef] at hg
      rcases recvHeaders_spec cap c e.id e.endStream e.dep (encodeBlock c.dec.tbl e.cs e.hs).1 e.keep
        e.pendingBody with hdead | ⟨hd, _⟩ | ⟨hdec, herr⟩
      · have := runPeer_keeps cap es _ (encodeBlock c.dec.tbl e.cs e.hs).2 hdead
        omega
      · exact absurd hd hdef
      · obtain ⟨_, htbl, hwf'⟩ := decodeBlock_encodeBlock_weak cap c.dec e.cs e.hs hwf herr
        rw [← hdec] at htbl hwf'
        exact ih _ _ htbl (by rw [← htbl]; exact hwf') hg

/-! ### table size updates stay within what the peer allowed -/

theorem settings_size (g : EncGlue) (v : Nat) : (g.settings v).size = peerTableSize v := by
  unfold EncGlue.settings
  simp only
  split
  · rename_i h; exact h.symm
  · rfl

theorem updates_le_size (t0 : Table) (g : EncGlue) (te : Table) (h : GlueInv t0 g te) :
    ∀ u ∈ g.updates, u ≤ g.size := by
  obtain ⟨_, _, hcase⟩ := h
  unfold EncGlue.updates
  intro u hu
  by_cases hp : g.pending = true
  · simp only [hp, if_true] at hcase hu
    split at hu
    · simp at hu; omega
    · simp at hu; rcases hu with rfl | rfl
      · exact hcase.2
      · exact Nat.le_refl _
  · have hp' : g.pending = false := by simpa using hp
    simp [hp'] at hu

/-- every update announced after the peer's SETTINGS values `vs` is at most the
    last of them (the limit the peer's decoder enforces) -/
theorem updates_le_last (t0 : Table) (hwf : t0.WF) (vs : List Nat) (v : Nat)
    (hlast : vs.getLast? = some v) :
    ∀ u ∈ (vs.foldl EncGlue.settings ({ size := t0.curMax } : EncGlue)).updates, u ≤ v := by
  have h0 : GlueInv t0 ({ size := t0.curMax } : EncGlue) t0 := ⟨rfl, hwf.size_le, by simp⟩
  have h := glueInv_fold t0 vs _ _ h0
  have hle := updates_le_size t0 _ _ h
  obtain ⟨init, rfl⟩ := List.getLast?_eq_some_iff.mp hlast
  intro u hu
  have := hle u hu
  rw [List.foldl_append] at this
  simp only [List.foldl_cons, List.foldl_nil, settings_size, peerTableSize] at this
  omega

/-! ### h2_parse_headers_frame(): a refused field does not stop the decoder -/

theorem decodeBlockAux_acc (cap : Nat) : ∀ (fuel : Nat) (d : Dec) (bs : Bytes) (acc acc' : List Field),
    (decodeBlockAux cap fuel d bs acc).dec = (decodeBlockAux cap fuel d bs acc').dec ∧
    (decodeBlockAux cap fuel d bs acc).err = (decodeBlockAux cap fuel d bs acc').err := by
  intro fuel
  induction fuel with
  | zero => intro d bs acc acc'; exact ⟨rfl, rfl⟩
  | succ k ih =>
    intro d bs acc acc'
    rw [decodeBlockAux_succ, decodeBlockAux_succ]
    split
    · exact ⟨rfl, rfl⟩
    · split
      · exact ⟨rfl, rfl⟩
      · exact ih _ _ _ _
      · exact ih _ _ _ _

theorem parseFrameAux_state (cap : Nat) (accept : Field → Bool) :
    ∀ (fuel : Nat) (d : Dec) (bs : Bytes) (acc acc' : List Field),
    (parseFrameAux cap accept fuel d bs acc).dec = (decodeBlockAux cap fuel d bs acc').dec ∧
    (parseFrameAux cap accept fuel d bs acc).err = (decodeBlockAux cap fuel d bs acc').err := by
  intro fuel
  induction fuel with
  | zero => intro d bs acc acc'; exact ⟨rfl, rfl⟩
  | succ k ih =>
    intro d bs acc acc'
    rw [decodeBlockAux_succ]
    unfold parseFrameAux
    by_cases hb : bs = []
    · simp only [hb, if_true]; exact ⟨trivial, trivial⟩
    · simp only [hb, if_false]
      cases h : decodeItem cap d bs with
      | err e d' => exact ⟨rfl, rfl⟩
      | upd rest d' => exact ih _ _ _ _
      | fld f rest d' =>
        by_cases ha : accept f = true
        · simp only [ha, if_true]; exact ih _ _ _ _
        · simp only [ha]; exact decodeBlockAux_acc cap k _ _ _ _

theorem parseFrame_state (cap : Nat) (accept : Field → Bool) (d : Dec) (bs : Bytes) :
    (parseFrame cap accept d bs).dec = (decodeBlock cap d bs).dec ∧
    (parseFrame cap accept d bs).err = (decodeBlock cap d bs).err :=
  parseFrameAux_state cap accept _ d bs [] []

end LtVerif.H2Headers
