/-
  HPACK (C07): the static-table hint (`lsxpack_header.hpack_index`) the decoder
  hands to h2.c with every field names that very field — for arbitrary input.
  h2.c turns the hint into a header id (`lshpack_idx_http_header[]`) and
  http_request_parse_header() then skips its own look-up and validation of the
  name, so the hint has to be right.
-/
import LtVerif.Proofs.Hpack
namespace LtVerif.Hpack
open LtVerif B

/-- `hint` is 0 (no hint) or a static-table index whose entry has the name `name` -/
def HintOk (hint : Nat) (name : Bytes) : Prop :=
  hint = 0 ∨ (hint ≤ Extracted.hpackStaticTableSize ∧ (staticTable[hint - 1]?).map (·.1) = some name)

/-- `hints` and `dyn` run in parallel and every hint names its entry -/
def ZipOk (hints : List Nat) (dyn : List Header) : Prop :=
  hints.length = dyn.length ∧ ∀ p ∈ hints.zip dyn, HintOk p.1 p.2.1

/-- invariant of the decoder state (`dte_name_idx` of every dynamic entry) -/
def HintsOk (d : Dec) : Prop := ZipOk d.hints d.tbl.dyn

theorem evict_prefix (cap : Nat) (l : List Header) :
    ∃ k, evict cap l = l.take k ∧ k ≤ l.length := by
  induction l generalizing cap with
  | nil => exact ⟨0, rfl, Nat.le_refl _⟩
  | cons h t ih =>
    simp only [evict]
    split
    · obtain ⟨k, hk, hle⟩ := ih (cap - entrySize h)
      exact ⟨k + 1, by simp [hk], by simp; omega⟩
    · exact ⟨0, rfl, Nat.zero_le _⟩

theorem mem_zip_take {α β : Type} : ∀ (k : Nat) (a : List α) (b : List β) (p : α × β),
    p ∈ (a.take k).zip (b.take k) → p ∈ a.zip b := by
  intro k
  induction k with
  | zero => intro a b p h; simp at h
  | succ k ih =>
    intro a b p h
    cases a with
    | nil => simp at h
    | cons x xs =>
      cases b with
      | nil => simp at h
      | cons y ys =>
        simp only [List.take_succ_cons, List.zip_cons_cons, List.mem_cons] at h ⊢
        rcases h with h | h
        · exact Or.inl h
        · exact Or.inr (ih xs ys p h)

theorem ZipOk.take {hints : List Nat} {dyn : List Header} (h : ZipOk hints dyn) (k : Nat) :
    ZipOk (hints.take k) (dyn.take k) :=
  ⟨by simp [List.length_take, h.1], fun p hp => h.2 p (mem_zip_take k _ _ p hp)⟩

theorem ZipOk.cons {hints : List Nat} {dyn : List Header} (h : ZipOk hints dyn) {hint : Nat} {e : Header}
    (he : HintOk hint e.1) : ZipOk (hint :: hints) (e :: dyn) := by
  refine ⟨by simp [h.1], ?_⟩
  intro p hp
  simp only [List.zip_cons_cons, List.mem_cons] at hp
  rcases hp with hp | hp
  · subst hp; exact he
  · exact h.2 p hp

theorem HintsOk.updateMax {d : Dec} (h : HintsOk d) (n : Nat) : HintsOk (d.updateMax n) := by
  obtain ⟨k, hk, hle⟩ := evict_prefix n d.tbl.dyn
  unfold HintsOk Dec.updateMax Table.updateMax
  simp only [hk, List.length_take, Nat.min_eq_left hle]
  exact ZipOk.take h k

theorem HintsOk.push {d : Dec} (h : HintsOk d) {e : Header} {hint : Nat} (he : HintOk hint e.1) :
    HintsOk (d.push e hint) := by
  obtain ⟨k, hk, hle⟩ := evict_prefix d.tbl.curMax (e :: d.tbl.dyn)
  unfold HintsOk Dec.push Table.push
  simp only [hk, List.length_take, Nat.min_eq_left hle]
  exact ZipOk.take (ZipOk.cons h he) k

theorem HintsOk.init : HintsOk Dec.init := ⟨rfl, by intro p hp; simp [Dec.init] at hp⟩

theorem Dec.lookup_hint {d : Dec} (h : HintsOk d) {idx : Nat} {n v : Bytes} {hint : Nat}
    (hl : d.lookup idx = some ((n, v), hint)) : HintOk hint n := by
  unfold Dec.lookup at hl
  cases ht : d.tbl.lookup idx with
  | none => simp [ht] at hl
  | some e =>
    simp only [ht] at hl
    unfold Table.lookup at ht
    by_cases h0 : idx = 0
    · simp [h0] at ht
    · simp only [h0, if_false] at ht
      by_cases h1 : idx ≤ Extracted.hpackStaticTableSize
      · simp only [h1, if_true, Option.some.injEq, Prod.mk.injEq] at hl ht
        obtain ⟨he, hh⟩ := hl
        subst hh
        exact Or.inr ⟨h1, by rw [ht, he]; rfl⟩
      · simp only [h1, if_false, Option.some.injEq, Prod.mk.injEq] at hl ht
        obtain ⟨he, hh⟩ := hl
        generalize idx - Extracted.hpackStaticTableSize - 1 = j at ht hh
        obtain ⟨hj, hget⟩ := List.getElem?_eq_some_iff.mp ht
        have hj' : j < d.hints.length := by rw [h.1]; exact hj
        have hz : j < (d.hints.zip d.tbl.dyn).length := by simp [List.length_zip]; omega
        have hmem : (d.hints.zip d.tbl.dyn)[j] ∈ d.hints.zip d.tbl.dyn := List.getElem_mem hz
        rw [List.getElem_zip] at hmem
        have := h.2 _ hmem
        simp only [hget, he] at this
        have hg : d.hints.getD j 0 = d.hints[j] := by simp [List.getD_eq_getElem?_getD, hj']
        rw [← hh, hg]
        exact this

/-- what one decoder call leaves behind -/
def ItemRes.HintGood : ItemRes → Prop
  | .err _ d => HintsOk d
  | .upd _ d => HintsOk d
  | .fld f _ d => HintsOk d ∧ HintOk f.hint f.name

theorem decodeValue_hint (cap : Nat) (d : Dec) (kind : Kind) (n : Bytes) (hint : Nat) (rest : Bytes)
    (hd : HintsOk d) (hh : HintOk hint n) : (decodeValue cap d kind n hint rest).HintGood := by
  unfold decodeValue
  split
  · exact hd
  · split
    · exact hd
    · refine ⟨?_, hh⟩
      split
      · exact hd.push hh
      · exact hd

theorem decodeItem_hint (cap : Nat) (d : Dec) (bs : Bytes) (hd : HintsOk d) :
    (decodeItem cap d bs).HintGood := by
  unfold decodeItem
  repeat' first
    | exact hd
    | exact hd.updateMax _
    | exact ⟨hd, Dec.lookup_hint hd (by assumption)⟩
    | exact decodeValue_hint _ _ _ _ _ _ hd (Or.inl rfl)
    | exact decodeValue_hint _ _ _ _ _ _ hd (Dec.lookup_hint hd (by assumption))
    | split
    | simp only []

theorem decodeBlockAux_hint (cap : Nat) : ∀ (fuel : Nat) (d : Dec) (bs : Bytes) (acc : List Field),
    HintsOk d → (∀ f ∈ acc, HintOk f.hint f.name) →
    HintsOk (decodeBlockAux cap fuel d bs acc).dec ∧
      ∀ f ∈ (decodeBlockAux cap fuel d bs acc).fields, HintOk f.hint f.name := by
  intro fuel
  induction fuel with
  | zero => intro d bs acc hd hacc; exact ⟨hd, fun f hf => hacc f (by simpa [decodeBlockAux] using hf)⟩
  | succ k ih =>
    intro d bs acc hd hacc
    rw [decodeBlockAux_succ]
    split
    · exact ⟨hd, fun f hf => hacc f (by simpa using hf)⟩
    · have h := decodeItem_hint cap d bs hd
      split <;> rename_i heq <;> rw [heq] at h
      · exact ⟨h, fun f hf => hacc f (by simpa using hf)⟩
      · exact ih _ _ _ h hacc
      · refine ih _ _ _ h.1 ?_
        intro f hf
        simp only [List.mem_cons] at hf
        rcases hf with hf | hf
        · subst hf; exact h.2
        · exact hacc f hf

/-- the hints stay right whatever octets arrive -/
theorem decodeBlock_hint (cap : Nat) (d : Dec) (bs : Bytes) (hd : HintsOk d) :
    HintsOk (decodeBlock cap d bs).dec ∧ ∀ f ∈ (decodeBlock cap d bs).fields, HintOk f.hint f.name :=
  decodeBlockAux_hint cap _ d bs [] hd (by simp)

end LtVerif.Hpack
