/-
  Huffman (C07), part 1: the bit-level decoder over the code tree of
  `encode_table[]`, and the two finite certificates checked by the kernel:

    cert_ok   `decode_tables[256][16]` is exactly the 4-bit unrolling of the
              bit-level tree walk (every state = one inner node of the tree,
              FAIL / SYM / ACCEPTED flags and emitted symbols as the walk says)
    codes_ok  every code of `encode_table[0..255]` leads from the root to the
              leaf of its own symbol, and is 5..30 bits long

  Tree and state paths are *data* produced by the extractor; nothing about
  them is trusted, the checks below fail if they (or the C tables) are off.
-/
import LtVerif.Model.HpackHuffman
namespace LtVerif.Hpack
open LtVerif B
open LtVerif.Extracted

/-! ### bit-level decoder over the code tree -/

def _root_.LtVerif.Extracted.HuffTree.child : HuffTree → Bool → HuffTree
  | .node l r, b => if b then r else l
  | _, _ => .none

def descend (t : HuffTree) (p : List Bool) : HuffTree := p.foldl HuffTree.child t

/-- one bit: new subtree, bits since the last symbol boundary, emitted symbol -/
def tstep (t : HuffTree) (p : List Bool) (b : Bool) : Option (HuffTree × List Bool × Option Nat) :=
  match t.child b with
  | .leaf s => if s < 256 then some (hpackHuffTree, [], some s) else none
  | .node l r => some (.node l r, p ++ [b], none)
  | .none => none

def pushNat (o : Option Nat) (out : List Nat) : List Nat :=
  match o with
  | some s => s :: out
  | none => out

def trun : HuffTree → List Bool → List Bool → List Nat → Option (HuffTree × List Bool × List Nat)
  | t, p, [], out => some (t, p, out)
  | t, p, b :: bs, out =>
    match tstep t p b with
    | none => none
    | some (t', p', o) => trun t' p' bs (pushNat o out)

def pathOf (q : Nat) : List Bool :=
  (Extracted.hpackHuffStatePath.getD (q / 16) []).getD (q % 16) [false]

def accepting (p : List Bool) : Bool := p.length < 8 && p.all id

def bits4 (x : Nat) : List Bool := [x.testBit 3, x.testBit 2, x.testBit 1, x.testBit 0]

def symNat (fl sym : Nat) : List Nat := if fl &&& Extracted.hpackHuffSym ≠ 0 then [sym] else []

/-! ### certificate: decode_tables[][] is the 4-bit unrolling of the tree walk -/

def certCheck (t : HuffTree) (q x : Nat) : Bool :=
  match huffEntry q x with
  | (st', fl, sym) =>
    match trun t (pathOf q) (bits4 x) [] with
    | none => fl &&& Extracted.hpackHuffFail ≠ 0
    | some (_, p', o) =>
      fl &&& Extracted.hpackHuffFail = 0 && pathOf st' == p' &&
        (decide (fl &&& Extracted.hpackHuffAccepted ≠ 0) == accepting p') && o == symNat fl sym &&
        decide (st' < 256) && decide (sym < 256)

def certRow (q : Nat) : Bool :=
  match descend hpackHuffTree (pathOf q) with
  | .node l r => (List.range 16).all fun x => certCheck (.node l r) q x
  | _ => false

def certAll : Bool := (List.range 256).all certRow

theorem cert_ok : certAll = true := by decide +kernel

/-- every code of encode_table[] leads from the root to its own leaf -/
def codeNat (i : Nat) : List Bool :=
  match Extracted.hpackHuffEnc[i]? with
  | some (c, n) => bitsOf c n
  | none => []

def codesAll : Bool :=
  (List.range 256).all fun i =>
    match trun hpackHuffTree [] (codeNat i) [] with
    | some (_, [], [s]) => s == i && (codeNat i).length ≤ 30 && 5 ≤ (codeNat i).length
    | _ => false

theorem codes_ok : codesAll = true := by decide +kernel


end LtVerif.Hpack
