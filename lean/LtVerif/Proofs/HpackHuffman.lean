/-
  Huffman (C07), part 2: lshpack's table-driven Huffman decoder
  (`huffDecode`, the 4-bit automaton over the extracted `decode_tables`) reads
  back everything its encoder (`huffEncode`, over the extracted
  `encode_table`) writes.  Built on the two kernel-checked certificates of
  Proofs/HpackHuffCert.lean: the automaton is simulated, nibble by nibble, by
  the bit-level walk over the code tree, and every code leads to its own leaf.
-/
import LtVerif.Proofs.HpackHuffCert
namespace LtVerif.Hpack
open LtVerif B
open LtVerif.Extracted

/-! ### generic facts about the tree walk -/

theorem descend_append (t : HuffTree) (p q : List Bool) :
    descend t (p ++ q) = descend (descend t p) q := by
  simp [descend, List.foldl_append]

theorem tstep_inv {t : HuffTree} {p : List Bool} {b : Bool} {t' : HuffTree} {p' : List Bool}
    {o : Option Nat} (h : tstep t p b = some (t', p', o)) (ht : t = descend hpackHuffTree p) :
    t' = descend hpackHuffTree p' := by
  unfold tstep at h
  split at h
  · split at h
    · simp only [Option.some.injEq, Prod.mk.injEq] at h
      obtain ⟨rfl, rfl, _⟩ := h
      rfl
    · cases h
  · rename_i l r hc
    simp only [Option.some.injEq, Prod.mk.injEq] at h
    obtain ⟨rfl, rfl, _⟩ := h
    rw [descend_append, ← ht]
    simp [descend, hc]
  · cases h

theorem trun_inv : ∀ (bits : List Bool) {t : HuffTree} {p : List Bool} {out : List Nat}
    {t' : HuffTree} {p' : List Bool} {out' : List Nat},
    trun t p bits out = some (t', p', out') → t = descend hpackHuffTree p →
    t' = descend hpackHuffTree p' := by
  intro bits
  induction bits with
  | nil =>
    intro t p out t' p' out' h ht
    simp only [trun, Option.some.injEq, Prod.mk.injEq] at h
    obtain ⟨rfl, rfl, _⟩ := h
    exact ht
  | cons b bs ih =>
    intro t p out t' p' out' h ht
    simp only [trun] at h
    split at h
    · cases h
    · rename_i t1 p1 o hs
      exact ih h (tstep_inv hs ht)

/-- the accumulated output only grows at the front -/
theorem trun_out : ∀ (bits : List Bool) (t : HuffTree) (p : List Bool) (out : List Nat),
    trun t p bits out = (trun t p bits []).map fun r => (r.1, r.2.1, r.2.2 ++ out) := by
  intro bits
  induction bits with
  | nil => intro t p out; simp [trun]
  | cons b bs ih =>
    intro t p out
    simp only [trun]
    split
    · simp
    · rename_i t1 p1 o hs
      rw [ih t1 p1 (pushNat o out), ih t1 p1 (pushNat o [])]
      cases o <;> simp [pushNat, Option.map_map, Function.comp_def]

theorem trun_append : ∀ (a b : List Bool) (t : HuffTree) (p : List Bool) (out : List Nat),
    trun t p (a ++ b) out =
      match trun t p a out with
      | none => none
      | some (t', p', out') => trun t' p' b out' := by
  intro a
  induction a with
  | nil => intro b t p out; simp [trun]
  | cons x xs ih =>
    intro b t p out
    simp only [List.cons_append, trun]
    split
    · rfl
    · rename_i t1 p1 o hs
      exact ih b t1 p1 _


/-! ### consequences of the certificates -/

theorem huffCode_eq (x : UInt8) : huffCode x = codeNat x.toNat := rfl

theorem code_walk (x : UInt8) :
    trun hpackHuffTree [] (huffCode x) [] = some (hpackHuffTree, [], [x.toNat]) ∧
      (huffCode x).length ≤ 30 ∧ 5 ≤ (huffCode x).length := by
  have h := codes_ok
  unfold codesAll at h
  rw [List.all_eq_true] at h
  have hx := h x.toNat (by simp [List.mem_range]; exact x.toNat_lt)
  rw [huffCode_eq]
  generalize hi : x.toNat = i at hx ⊢
  cases hr : trun hpackHuffTree [] (codeNat i) [] with
  | none => simp [hr] at hx
  | some r =>
    obtain ⟨t', p', o⟩ := r
    have hinv := trun_inv (codeNat i) hr rfl
    simp only [hr] at hx
    split at hx
    · rename_i t'' s heq
      simp only [Option.some.injEq, Prod.mk.injEq] at heq
      obtain ⟨rfl, rfl, rfl⟩ := heq
      simp only [Bool.and_eq_true, beq_iff_eq, decide_eq_true_eq] at hx
      obtain ⟨⟨rfl, h30⟩, h5⟩ := hx
      refine ⟨?_, h30, h5⟩
      rw [hinv]; rfl
    · cases hx


theorem code_walk_out (x : UInt8) (out : List Nat) :
    trun hpackHuffTree [] (huffCode x) out = some (hpackHuffTree, [], x.toNat :: out) := by
  rw [trun_out, (code_walk x).1]; rfl

/-- the bit-level decoder reads back the concatenated codes -/
theorem huffBits_walk (s : Bytes) (out : List Nat) :
    trun hpackHuffTree [] (huffBits s) out =
      some (hpackHuffTree, [], (s.map UInt8.toNat).reverse ++ out) := by
  induction s generalizing out with
  | nil => simp [huffBits, trun]
  | cons x xs ih =>
    have : huffBits (x :: xs) = huffCode x ++ huffBits xs := by simp [huffBits]
    rw [this, trun_append, code_walk_out]
    simp only
    rw [ih]; simp

theorem huffBits_length_le (s : Bytes) : (huffBits s).length ≤ 30 * s.length := by
  induction s with
  | nil => simp [huffBits]
  | cons x xs ih =>
    have : huffBits (x :: xs) = huffCode x ++ huffBits xs := by simp [huffBits]
    rw [this, List.length_append, List.length_cons]
    have := (code_walk x).2.1
    omega

def padAll : Bool :=
  (List.range 8).all fun k =>
    match trun hpackHuffTree [] (List.replicate k true) [] with
    | some (_, p, []) => p == List.replicate k true
    | _ => false

theorem pad_ok : padAll = true := by decide +kernel

theorem pad_walk (k : Nat) (hk : k < 8) (out : List Nat) :
    ∃ t, trun hpackHuffTree [] (List.replicate k true) out = some (t, List.replicate k true, out) := by
  have h := pad_ok
  unfold padAll at h
  rw [List.all_eq_true] at h
  have hk' := h k (by simp [List.mem_range]; exact hk)
  rw [trun_out]
  cases hr : trun hpackHuffTree [] (List.replicate k true) [] with
  | none => simp [hr] at hk'
  | some r =>
    obtain ⟨t', p', o⟩ := r
    simp only [hr] at hk'
    split at hk'
    · rename_i t'' p'' heq
      simp only [Option.some.injEq, Prod.mk.injEq] at heq
      obtain ⟨rfl, rfl, rfl⟩ := heq
      simp only [beq_iff_eq] at hk'
      exact ⟨t', by simp [hk']⟩
    · cases hk'


theorem toUInt8_toNat_lt' (n : Nat) (h : n < 256) : n.toUInt8.toNat = n := by
  simp [Nat.toUInt8, UInt8.toNat_ofNat']
  omega

/-- one nibble of the C automaton = four steps of the tree walk -/
theorem nibble_sim (q x : Nat) (hq : q < 256) (hx : x < 16) {t' : HuffTree} {p' : List Bool}
    {o : List Nat}
    (h : trun (descend hpackHuffTree (pathOf q)) (pathOf q) (bits4 x) [] = some (t', p', o)) :
    ∃ st' sym, st' < 256 ∧ huffStep q x = some (st', accepting p', sym) ∧ pathOf st' = p' ∧
      o = (pushSym sym []).map UInt8.toNat := by
  have hc := cert_ok
  unfold certAll at hc
  rw [List.all_eq_true] at hc
  have hrow := hc q (by simp [List.mem_range]; exact hq)
  unfold certRow at hrow
  split at hrow
  · rename_i l r hd
    rw [List.all_eq_true] at hrow
    have hchk := hrow x (by simp [List.mem_range]; exact hx)
    rw [← hd] at hchk
    unfold certCheck at hchk
    rw [h] at hchk
    rcases he : huffEntry q x with ⟨st', fl, sym⟩
    simp only [he] at hchk
    simp only [Bool.and_eq_true, beq_iff_eq, decide_eq_true_eq] at hchk
    obtain ⟨⟨⟨⟨⟨hfail, hpath⟩, hacc⟩, ho⟩, hst⟩, hsym⟩ := hchk
    refine ⟨st', if fl &&& hpackHuffSym ≠ 0 then some sym.toUInt8 else none, hst, ?_, hpath, ?_⟩
    · unfold huffStep
      simp only [he]
      rw [if_neg (by simp [hfail])]
      simp only [Option.some.injEq, Prod.mk.injEq, true_and, and_true]
      exact hacc
    · rw [ho]; unfold symNat
      split <;> simp [pushSym, toUInt8_toNat_lt' sym hsym]
  · cases hrow


def bitsOfByte (b : UInt8) : List Bool := bits4 (b.toNat / 16) ++ bits4 (b.toNat % 16)

theorem pushSym_eq (s : Option UInt8) (out : Bytes) : pushSym s out = pushSym s [] ++ out := by
  cases s <;> simp [pushSym]

theorem symLen_eq (s : Option UInt8) : symLen s = (pushSym s []).length := by
  cases s <;> simp [pushSym, symLen]

/-- the byte-oriented C loop follows the bit-level tree walk -/
theorem huffDecodeAux_sim (bytes : Bytes) : ∀ (q room : Nat) (out : Bytes) (t' : HuffTree)
    (p' : List Bool) (o' : List Nat), q < 256 →
    trun (descend hpackHuffTree (pathOf q)) (pathOf q) (bytes.flatMap bitsOfByte) [] =
      some (t', p', o') →
    o'.length < room → accepting p' = true →
    ∃ res : Bytes, huffDecodeAux bytes q (accepting (pathOf q)) room out = .ok (out.reverse ++ res) ∧
      res.map UInt8.toNat = o'.reverse := by
  induction bytes with
  | nil =>
    intro q room out t' p' o' hq h hroom hacc
    simp only [List.flatMap_nil, trun, Option.some.injEq, Prod.mk.injEq] at h
    obtain ⟨_, rfl, rfl⟩ := h
    exact ⟨[], by simp [huffDecodeAux, hacc], rfl⟩
  | cons b rest ih =>
    intro q room out t' p' o' hq h hroom hacc
    have hhi : b.toNat / 16 < 16 := by have := b.toNat_lt; omega
    have hlo : b.toNat % 16 < 16 := by omega
    simp only [List.flatMap_cons, bitsOfByte, List.append_assoc] at h
    -- high nibble
    rw [trun_append] at h
    cases h1 : trun (descend hpackHuffTree (pathOf q)) (pathOf q) (bits4 (b.toNat / 16)) [] with
    | none => simp [h1] at h
    | some r1 =>
      obtain ⟨t1, p1, o1⟩ := r1
      simp only [h1] at h
      obtain ⟨st1, s1, hst1, hstep1, hp1, ho1⟩ := nibble_sim q _ hq hhi h1
      have ht1 : t1 = descend hpackHuffTree (pathOf st1) := by rw [hp1]; exact trun_inv _ h1 rfl
      -- low nibble
      rw [trun_append, trun_out] at h
      cases h2 : trun t1 p1 (bits4 (b.toNat % 16)) [] with
      | none => simp [h2] at h
      | some r2 =>
        obtain ⟨t2, p2, o2⟩ := r2
        simp only [h2, Option.map_some] at h
        have h2' := h2
        rw [ht1, ← hp1] at h2'
        obtain ⟨st2, s2, hst2, hstep2, hp2, ho2⟩ := nibble_sim st1 _ hst1 hlo h2'
        have ht2 : t2 = descend hpackHuffTree (pathOf st2) := by
          rw [hp2]; exact trun_inv _ h2 (by rw [ht1, hp1])
        -- the rest
        rw [trun_out] at h
        cases h3 : trun t2 p2 (rest.flatMap bitsOfByte) [] with
        | none => simp [h3] at h
        | some r3 =>
          obtain ⟨t3, p3, o3⟩ := r3
          simp only [h3, Option.map_some, Option.some.injEq, Prod.mk.injEq] at h
          obtain ⟨rfl, rfl, rfl⟩ := h
          have h3' := h3
          rw [ht2, ← hp2] at h3'
          have hl1 : o1.length = symLen s1 := by rw [ho1, symLen_eq]; simp
          have hl2 : o2.length = symLen s2 := by rw [ho2, symLen_eq]; simp
          simp only [List.length_append] at hroom
          obtain ⟨res', hrec, hres'⟩ := ih st2 (room - symLen s1 - symLen s2)
            (pushSym s2 (pushSym s1 out)) t3 p3 o3 hst2 h3' (by omega) hacc
          refine ⟨(pushSym s1 []).reverse ++ (pushSym s2 []).reverse ++ res', ?_, ?_⟩
          · unfold huffDecodeAux
            rw [if_neg (by omega), hstep1]
            simp only
            rw [if_neg (by omega), hstep2]
            simp only
            rw [hp2] at hrec
            rw [hrec, pushSym_eq s2, pushSym_eq s1 out]
            simp [List.append_assoc]
          · simp only [List.map_append, List.map_reverse, hres', ← ho1, ← ho2, List.reverse_append]


theorem bitsOfByte_byteOfBits (a b c d e f g h : Bool) :
    bitsOfByte (byteOfBits [a, b, c, d, e, f, g, h]) = [a, b, c, d, e, f, g, h] := by
  revert a b c d e f g h
  decide

theorem bitsToBytes_bits (B : List Bool) :
    ∃ k, k < 8 ∧ (bitsToBytes B).flatMap bitsOfByte = B ++ List.replicate k true := by
  induction B using bitsToBytes.induct with
  | case1 a b c d e f g h rest ih =>
    obtain ⟨k, hk, he⟩ := ih
    refine ⟨k, hk, ?_⟩
    simp only [bitsToBytes, List.flatMap_cons, bitsOfByte_byteOfBits, he]
    simp
  | case2 => exact ⟨0, by decide, by simp [bitsToBytes]⟩
  | case3 l hne hnot =>
    rcases l with _ | ⟨a, _ | ⟨b, _ | ⟨c, _ | ⟨d, _ | ⟨e, _ | ⟨f, _ | ⟨g, _ | ⟨h, rest⟩⟩⟩⟩⟩⟩⟩⟩
    · exact absurd rfl hnot
    · exact ⟨7, by decide, by simp [bitsToBytes, List.replicate, bitsOfByte_byteOfBits]⟩
    · exact ⟨6, by decide, by simp [bitsToBytes, List.replicate, bitsOfByte_byteOfBits]⟩
    · exact ⟨5, by decide, by simp [bitsToBytes, List.replicate, bitsOfByte_byteOfBits]⟩
    · exact ⟨4, by decide, by simp [bitsToBytes, List.replicate, bitsOfByte_byteOfBits]⟩
    · exact ⟨3, by decide, by simp [bitsToBytes, List.replicate, bitsOfByte_byteOfBits]⟩
    · exact ⟨2, by decide, by simp [bitsToBytes, List.replicate, bitsOfByte_byteOfBits]⟩
    · exact ⟨1, by decide, by simp [bitsToBytes, List.replicate, bitsOfByte_byteOfBits]⟩
    · exact absurd rfl (hne a b c d e f g h rest)


theorem pathOf_zero : pathOf 0 = [] := by decide

theorem accepting_replicate (k : Nat) (hk : k < 8) : accepting (List.replicate k true) = true := by
  simp [accepting, hk]

theorem map_toNat_injective {a b : Bytes} (h : a.map UInt8.toNat = b.map UInt8.toNat) : a = b := by
  induction a generalizing b with
  | nil => cases b <;> simp_all
  | cons x xs ih =>
    cases b with
    | nil => simp at h
    | cons y ys =>
      simp only [List.map_cons, List.cons.injEq] at h
      rw [UInt8.toNat_inj.mp h.1, ih h.2]

/-- lshpack's Huffman decoder reads back what its encoder wrote (output buffer
    strictly larger than the string: the C reports MORE_BUF when the buffer is
    exactly full and an input nibble is left) -/
theorem huffDecode_huffEncode (cap : Nat) (s : Bytes) (h : s.length < cap) :
    huffDecode cap (huffEncode s) = .ok s := by
  unfold huffDecode huffEncode
  obtain ⟨k, hk, hbits⟩ := bitsToBytes_bits (huffBits s)
  obtain ⟨t, hpad⟩ := pad_walk k hk ((s.map UInt8.toNat).reverse ++ [])
  have hwalk : trun (descend hpackHuffTree (pathOf 0)) (pathOf 0)
      ((bitsToBytes (huffBits s)).flatMap bitsOfByte) [] =
      some (t, List.replicate k true, (s.map UInt8.toNat).reverse ++ []) := by
    rw [pathOf_zero, hbits, trun_append]
    show (match trun hpackHuffTree [] (huffBits s) [] with
      | none => none
      | some (t', p', out') => trun t' p' (List.replicate k true) out') = _
    rw [huffBits_walk]
    exact hpad
  obtain ⟨res, hres, hmap⟩ := huffDecodeAux_sim (bitsToBytes (huffBits s)) 0 cap [] t
    (List.replicate k true) _ (by decide) hwalk (by simpa using h) (accepting_replicate k hk)
  have hacc0 : accepting (pathOf 0) = true := by rw [pathOf_zero]; rfl
  rw [hacc0] at hres
  rw [hres]
  have : res = s := map_toNat_injective (by simpa using hmap)
  simp [this]

theorem bitsToBytes_length (B : List Bool) : (bitsToBytes B).length = (B.length + 7) / 8 := by
  induction B using bitsToBytes.induct with
  | case1 a b c d e f g h rest ih => simp only [bitsToBytes, List.length_cons, ih]; omega
  | case2 => rfl
  | case3 l hne hnot =>
    rcases l with _ | ⟨a, _ | ⟨b, _ | ⟨c, _ | ⟨d, _ | ⟨e, _ | ⟨f, _ | ⟨g, _ | ⟨h, rest⟩⟩⟩⟩⟩⟩⟩⟩ <;>
      first
      | exact absurd rfl hnot
      | exact absurd rfl (hne _ _ _ _ _ _ _ _ _)
      | simp [bitsToBytes]

theorem huffEncode_length_le (s : Bytes) : (huffEncode s).length ≤ 4 * s.length := by
  unfold huffEncode
  rw [bitsToBytes_length]
  have := huffBits_length_le s
  omega

/-! ### soundness: whatever the automaton accepts is a walk of the code tree -/

theorem nibble_sim_rev (q x : Nat) (hq : q < 256) (hx : x < 16) {st' : Nat} {acc : Bool}
    {sym : Option UInt8} (h : huffStep q x = some (st', acc, sym)) :
    ∃ t' p' o, trun (descend hpackHuffTree (pathOf q)) (pathOf q) (bits4 x) [] = some (t', p', o) ∧
      st' < 256 ∧ pathOf st' = p' ∧ acc = accepting p' ∧ o = (pushSym sym []).map UInt8.toNat := by
  have hc := cert_ok
  unfold certAll at hc
  rw [List.all_eq_true] at hc
  have hrow := hc q (by simp [List.mem_range]; exact hq)
  unfold certRow at hrow
  split at hrow
  · rename_i l r hd
    rw [List.all_eq_true] at hrow
    have hchk := hrow x (by simp [List.mem_range]; exact hx)
    rw [← hd] at hchk
    unfold certCheck at hchk
    rcases he : huffEntry q x with ⟨st0, fl, sy⟩
    simp only [he] at hchk
    unfold huffStep at h
    simp only [he] at h
    cases ht : trun (descend hpackHuffTree (pathOf q)) (pathOf q) (bits4 x) [] with
    | none =>
      simp only [ht, ne_eq, decide_not, Bool.not_eq_eq_eq_not, Bool.not_true, decide_eq_false_iff_not] at hchk
      simp [hchk] at h
    | some r =>
      obtain ⟨t', p', o⟩ := r
      simp only [ht, Bool.and_eq_true, beq_iff_eq, decide_eq_true_eq] at hchk
      obtain ⟨⟨⟨⟨⟨hfail, hpath⟩, hacc⟩, ho⟩, hst⟩, hsym⟩ := hchk
      rw [if_neg (by simp [hfail])] at h
      simp only [Option.some.injEq, Prod.mk.injEq] at h
      obtain ⟨rfl, rfl, rfl⟩ := h
      refine ⟨t', p', o, rfl, hst, hpath, hacc, ?_⟩
      rw [ho]; unfold symNat
      split <;> simp [pushSym, toUInt8_toNat_lt' sy hsym]
  · cases hrow


theorem trun_chain {t t1 t2 : HuffTree} {p p1 p2 a b : List Bool} {o1 o2 : List Nat}
    (h1 : trun t p a [] = some (t1, p1, o1)) (h2 : trun t1 p1 b [] = some (t2, p2, o2)) :
    trun t p (a ++ b) [] = some (t2, p2, o2 ++ o1) := by
  rw [trun_append, h1]
  simp only
  rw [trun_out, h2]
  rfl

theorem huffDecodeAux_sound (bytes : Bytes) : ∀ (q room : Nat) (out res : Bytes), q < 256 →
    huffDecodeAux bytes q (accepting (pathOf q)) room out = .ok res →
    ∃ t' p' o', trun (descend hpackHuffTree (pathOf q)) (pathOf q) (bytes.flatMap bitsOfByte) [] =
        some (t', p', o') ∧ accepting p' = true ∧
      ∃ r : Bytes, res = out.reverse ++ r ∧ r.map UInt8.toNat = o'.reverse := by
  induction bytes with
  | nil =>
    intro q room out res hq h
    simp only [huffDecodeAux] at h
    split at h
    · rename_i hacc
      simp only [Except.ok.injEq] at h
      exact ⟨descend hpackHuffTree (pathOf q), pathOf q, [], by simp [trun], hacc, [], by simp [h], rfl⟩
    · cases h
  | cons b rest ih =>
    intro q room out res hq h
    have hhi : b.toNat / 16 < 16 := by have := b.toNat_lt; omega
    have hlo : b.toNat % 16 < 16 := by omega
    unfold huffDecodeAux at h
    split at h
    · cases h
    · cases h1 : huffStep q (b.toNat / 16) with
      | none => simp [h1] at h
      | some r1 =>
        obtain ⟨st1, a1, s1⟩ := r1
        simp only [h1] at h
        split at h
        · cases h
        · cases h2 : huffStep st1 (b.toNat % 16) with
          | none => simp [h2] at h
          | some r2 =>
            obtain ⟨st2, a2, s2⟩ := r2
            simp only [h2] at h
            obtain ⟨t1, p1, o1, ht1, hst1, hp1, _, ho1⟩ := nibble_sim_rev q _ hq hhi h1
            have hinv1 : t1 = descend hpackHuffTree (pathOf st1) := by
              rw [hp1]; exact trun_inv _ ht1 rfl
            obtain ⟨t2, p2, o2, ht2, hst2, hp2, ha2, ho2⟩ := nibble_sim_rev st1 _ hst1 hlo h2
            have hinv2 : t2 = descend hpackHuffTree (pathOf st2) := by
              rw [hp2]; exact trun_inv _ ht2 rfl
            rw [ha2, ← hp2] at h
            obtain ⟨t3, p3, o3, ht3, hacc3, r, hres, hr⟩ := ih st2 _ _ res hst2 h
            refine ⟨t3, p3, o3 ++ (o2 ++ o1), ?_, hacc3,
              (pushSym s1 []).reverse ++ (pushSym s2 []).reverse ++ r, ?_, ?_⟩
            · simp only [List.flatMap_cons, bitsOfByte, List.append_assoc]
              subst hp1 hp2
              rw [hinv1] at ht1
              rw [hinv2] at ht2
              have := trun_chain ht1 (trun_chain ht2 ht3)
              simpa [List.append_assoc] using this
            · rw [hres, pushSym_eq s2, pushSym_eq s1 out]
              simp [List.append_assoc]
            · simp only [List.map_append, List.map_reverse, hr, ← ho1, ← ho2, List.reverse_append,
                List.append_assoc]


/-! ### the tree walk determines the bit string -/

/-- all leaves with their paths -/
def leaves : HuffTree → List (List Bool × Nat)
  | .leaf s => [([], s)]
  | .node l r => (leaves l).map (fun e => (false :: e.1, e.2)) ++ (leaves r).map (fun e => (true :: e.1, e.2))
  | .none => []

theorem descend_none (p : List Bool) : descend .none p = .none := by
  induction p with
  | nil => rfl
  | cons b ps ih => simpa [descend, HuffTree.child] using ih

theorem descend_leaf_cons (s : Nat) (b : Bool) (ps : List Bool) : descend (.leaf s) (b :: ps) = .none := by
  simpa [descend, HuffTree.child] using descend_none ps

theorem mem_leaves_of_descend : ∀ (p : List Bool) (t : HuffTree) (s : Nat),
    descend t p = .leaf s → (p, s) ∈ leaves t := by
  intro p
  induction p with
  | nil => intro t s h; simp only [descend, List.foldl_nil] at h; subst h; simp [leaves]
  | cons b ps ih =>
    intro t s h
    cases t with
    | leaf s' => rw [descend_leaf_cons] at h; cases h
    | none => rw [descend_none] at h; cases h
    | node l r =>
      have hd : descend (HuffTree.node l r) (b :: ps) = descend (if b then r else l) ps := by
        simp [descend, HuffTree.child]
      rw [hd] at h
      cases b with
      | false =>
        have := ih l s (by simpa using h)
        simp only [leaves, List.mem_append, List.mem_map]
        exact Or.inl ⟨(ps, s), this, rfl⟩
      | true =>
        have := ih r s (by simpa using h)
        simp only [leaves, List.mem_append, List.mem_map]
        exact Or.inr ⟨(ps, s), this, rfl⟩

def leavesAll : Bool := (leaves hpackHuffTree).all fun e => decide (256 ≤ e.2) || codeNat e.2 == e.1

theorem leaves_ok : leavesAll = true := by decide +kernel

/-- a path that ends at the leaf of an octet is that octet's code -/
theorem path_of_leaf (p : List Bool) (s : Nat) (h : descend hpackHuffTree p = .leaf s) (hs : s < 256) :
    p = codeNat s := by
  have hm := mem_leaves_of_descend p hpackHuffTree s h
  have hall := leaves_ok
  unfold leavesAll at hall
  rw [List.all_eq_true] at hall
  have := hall (p, s) hm
  simp only [Bool.or_eq_true, decide_eq_true_eq, beq_iff_eq] at this
  rcases this with h1 | h1
  · omega
  · exact h1.symm

theorem trun_bits : ∀ (bits : List Bool) (t : HuffTree) (p : List Bool) (out : List Nat)
    (t' : HuffTree) (p' : List Bool) (out' : List Nat), t = descend hpackHuffTree p →
    trun t p bits out = some (t', p', out') →
    ∃ syms : List Nat, out' = syms.reverse ++ out ∧ p ++ bits = syms.flatMap codeNat ++ p' ∧
      ∀ x ∈ syms, x < 256 := by
  intro bits
  induction bits with
  | nil =>
    intro t p out t' p' out' _ h
    simp only [trun, Option.some.injEq, Prod.mk.injEq] at h
    obtain ⟨_, rfl, rfl⟩ := h
    exact ⟨[], by simp, by simp, by simp⟩
  | cons b bs ih =>
    intro t p out t' p' out' ht h
    simp only [trun] at h
    cases hs : tstep t p b with
    | none => simp [hs] at h
    | some r =>
      obtain ⟨t1, p1, o⟩ := r
      simp only [hs] at h
      have hinv := tstep_inv hs ht
      obtain ⟨syms, hout, hbits, hlt⟩ := ih t1 p1 _ t' p' out' hinv h
      -- what did this step do?
      unfold tstep at hs
      split at hs
      · rename_i s hc
        split at hs
        · rename_i hs256
          simp only [Option.some.injEq, Prod.mk.injEq] at hs
          obtain ⟨_, rfl, rfl⟩ := hs
          have hleaf : descend hpackHuffTree (p ++ [b]) = .leaf s := by
            rw [descend_append, ← ht]; simpa [descend] using hc
          have hcode := path_of_leaf _ s hleaf hs256
          refine ⟨s :: syms, ?_, ?_, ?_⟩
          · simp [hout, pushNat]
          · simp only [List.nil_append] at hbits
            rw [List.flatMap_cons, ← hcode, hbits]
            simp [List.append_assoc]
          · intro x hx
            rcases List.mem_cons.mp hx with rfl | hx
            · exact hs256
            · exact hlt x hx
        · cases hs
      · rename_i l r hc
        simp only [Option.some.injEq, Prod.mk.injEq] at hs
        obtain ⟨_, rfl, rfl⟩ := hs
        exact ⟨syms, by simpa [pushNat] using hout, by simpa [List.append_assoc] using hbits, hlt⟩
      · cases hs


/-! ### packing is injective: the octets are determined by the bit string -/

theorem byteOfBits_bitsOfByte_nat : ∀ n, n < 256 → byteOfBits (bitsOfByte n.toUInt8) = n.toUInt8 := by
  decide +kernel

theorem byteOfBits_bitsOfByte (b : UInt8) : byteOfBits (bitsOfByte b) = b := by
  have := byteOfBits_bitsOfByte_nat b.toNat b.toNat_lt
  simpa using this

theorem bitsOfByte_length (b : UInt8) : (bitsOfByte b).length = 8 := by simp [bitsOfByte, bits4]

theorem bitsOfByte_eq (b : UInt8) : ∃ a0 a1 a2 a3 a4 a5 a6 a7,
    bitsOfByte b = [a0, a1, a2, a3, a4, a5, a6, a7] := ⟨_, _, _, _, _, _, _, _, rfl⟩

theorem flatMap_bits_length (src : Bytes) : (src.flatMap bitsOfByte).length = 8 * src.length := by
  induction src with
  | nil => rfl
  | cons b rest ih => simp [List.flatMap_cons, bitsOfByte_length, ih]; omega

theorem bitsToBytes_unique : ∀ (src : Bytes) (B : List Bool) (k : Nat), k < 8 →
    src.flatMap bitsOfByte = B ++ List.replicate k true → bitsToBytes B = src := by
  intro src
  induction src with
  | nil =>
    intro B k _ h
    have : B = [] := by
      have := congrArg List.length h
      simp at this
      exact List.length_eq_zero_iff.mp (by omega)
    subst this; rfl
  | cons b rest ih =>
    intro B k hk h
    obtain ⟨a0, a1, a2, a3, a4, a5, a6, a7, hb⟩ := bitsOfByte_eq b
    have hlen := congrArg List.length h
    simp only [List.flatMap_cons, List.length_append, bitsOfByte_length, flatMap_bits_length,
      List.length_replicate] at hlen
    simp only [List.flatMap_cons, hb] at h
    by_cases h8 : 8 ≤ B.length
    · -- a full octet of B
      rcases B with _ | ⟨c0, _ | ⟨c1, _ | ⟨c2, _ | ⟨c3, _ | ⟨c4, _ | ⟨c5, _ | ⟨c6, _ | ⟨c7, B'⟩⟩⟩⟩⟩⟩⟩⟩ <;>
        simp at h8
      simp only [List.cons_append, List.cons.injEq] at h
      obtain ⟨rfl, rfl, rfl, rfl, rfl, rfl, rfl, rfl, hrest⟩ := h
      simp only [bitsToBytes]
      rw [ih B' k hk hrest, ← hb, byteOfBits_bitsOfByte]
    · -- the last, partial octet
      have hrest : rest = [] := by
        have : rest.length = 0 := by omega
        exact List.length_eq_zero_iff.mp this
      subst hrest
      simp only [List.flatMap_nil, List.append_nil] at h
      have hk8 : k = 8 - B.length := by simp at hlen; omega
      have hBpos : 0 < B.length := by simp at hlen; omega
      have hcore : bitsToBytes B = [byteOfBits (B ++ List.replicate (8 - B.length) true)] := by
        rcases B with _ | ⟨c0, _ | ⟨c1, _ | ⟨c2, _ | ⟨c3, _ | ⟨c4, _ | ⟨c5, _ | ⟨c6, _ | ⟨c7, B'⟩⟩⟩⟩⟩⟩⟩⟩ <;>
          first
          | rfl
          | exact absurd hBpos (by decide)
          | exact absurd (by simp : 8 ≤ _) h8
      rw [hcore, ← hk8, ← h, ← hb, byteOfBits_bitsOfByte]


theorem accepting_replicate' (p : List Bool) (h : accepting p = true) :
    p.length < 8 ∧ p = List.replicate p.length true := by
  simp only [accepting, Bool.and_eq_true, decide_eq_true_eq, List.all_eq_true, id_eq] at h
  refine ⟨h.1, ?_⟩
  exact List.eq_replicate_iff.mpr ⟨rfl, h.2⟩

theorem flatMap_codeNat (r : Bytes) : (r.map UInt8.toNat).flatMap codeNat = huffBits r := by
  simp only [huffBits, List.flatMap_map]
  rfl

/-- Whatever lshpack's Huffman decoder accepts is the canonical encoding of what
    it returns: exactly the codes of the output octets followed by fewer than 8
    one-bits.  (So a string with EOS inside, with padding of 8 bits or more, or
    with a 0 bit in the padding is never accepted, and no two different inputs
    decode to the same string.) -/
theorem huffDecode_canonical (cap : Nat) (src s : Bytes) (h : huffDecode cap src = .ok s) :
    src = huffEncode s := by
  unfold huffDecode at h
  have hacc0 : accepting (pathOf 0) = true := by rw [pathOf_zero]; rfl
  rw [← hacc0] at h
  obtain ⟨t', p', o', hwalk, hacc, r, hres, hr⟩ :=
    huffDecodeAux_sound src 0 cap [] s (by decide) h
  simp only [List.reverse_nil, List.nil_append] at hres
  subst hres
  rw [pathOf_zero] at hwalk
  obtain ⟨syms, hout, hbits, _⟩ := trun_bits _ _ _ _ _ _ _ rfl hwalk
  simp only [List.append_nil, List.nil_append] at hout hbits
  obtain ⟨hlen, hp⟩ := accepting_replicate' p' hacc
  have hsyms : syms = s.map UInt8.toNat := by
    have : syms.reverse = o' := hout.symm
    rw [← this, List.reverse_reverse] at hr
    exact hr.symm
  rw [hsyms, flatMap_codeNat, hp] at hbits
  unfold huffEncode
  exact (bitsToBytes_unique src (huffBits s) p'.length hlen hbits).symm

end LtVerif.Hpack
