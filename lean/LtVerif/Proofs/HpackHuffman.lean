/-
  Huffman (C07), part 2: lshpack's table-driven Huffman decoder
  (`huffDecode`, the 4-bit automaton over the extracted `decode_tables`) reads
  back everything its encoder (`huffEncode`, over the extracted
  `encode_table`) writes.  Built on the two kernel-checked certificates of
  Proofs/HpackHuffCert.lean: the automaton is simulated, nibble by nibble, by
  the bit-level walk over the code tree, and every code leads to its own leaf.
-/
import LtVerif.Proofs.HpackHuffCert
namespace LtVerif.Hpack
open LtVerif B
open LtVerif.Extracted

/-! ### generic facts about the tree walk -/

theorem descend_append (t : HuffTree) (p q : List Bool) :
    descend t (p ++ q) = descend (descend t p) q := by
  simp [descend, List.foldl_append]

theorem tstep_inv {t : HuffTree} {p : List Bool} {b : Bool} {t' : HuffTree} {p' : List Bool}
    {o : Option Nat} (h : tstep t p b = some (t', p', o)) (ht : t = descend hpackHuffTree p) :
    t' = descend hpackHuffTree p' := by
  unfold tstep at h
  split at h
  · split at h
    · simp only [Option.some.injEq, Prod.mk.injEq] at h
      obtain ⟨rfl, rfl, _⟩ := h
      rfl
    · cases h
  · rename_i l r hc
    simp only [Option.some.injEq, Prod.mk.injEq] at h
    obtain ⟨rfl, rfl, _⟩ := h
    rw [descend_append, ← ht]
    simp [descend, hc]
  · cases h

theorem trun_inv : ∀ (bits : List Bool) {t : HuffTree} {p : List Bool} {out : List Nat}
    {t' : HuffTree} {p' : List Bool} {out' : List Nat},
    trun t p bits out = some (t', p', out') → t = descend hpackHuffTree p →
    t' = descend hpackHuffTree p' := by
  intro bits
  induction bits with
  | nil =>
    intro t p out t' p' out' h ht
    simp only [trun, Option.some.injEq, Prod.mk.injEq] at h
    obtain ⟨rfl, rfl, _⟩ := h
    exact ht
  | cons b bs ih =>
    intro t p out t' p' out' h ht
    simp only [trun] at h
    split at h
    · cases h
    · rename_i t1 p1 o hs
      exact ih h (tstep_inv hs ht)

/-- the accumulated output only grows at the front -/
theorem trun_out : ∀ (bits : List Bool) (t : HuffTree) (p : List Bool) (out : List Nat),
    trun t p bits out = (trun t p bits []).map fun r => (r.1, r.2.1, r.2.2 ++ out) := by
  intro bits
  induction bits with
  | nil => intro t p out; simp [trun]
  | cons b bs ih =>
    intro t p out
    simp only [trun]
    split
    · simp
    · rename_i t1 p1 o hs
      rw [ih t1 p1 (pushNat o out), ih t1 p1 (pushNat o [])]
      cases o <;> simp [pushNat, Option.map_map, Function.comp_def]

theorem trun_append : ∀ (a b : List Bool) (t : HuffTree) (p : List Bool) (out : List Nat),
    trun t p (a ++ b) out =
      match trun t p a out with
      | none => none
      | some (t', p', out') => trun t' p' b out' := by
  intro a
  induction a with
  | nil => intro b t p out; simp [trun]
  | cons x xs ih =>
    intro b t p out
    simp only [List.cons_append, trun]
    split
    · rfl
    · rename_i t1 p1 o hs
      exact ih b t1 p1 _


/-! ### consequences of the certificates -/

theorem huffCode_eq (x : UInt8) : huffCode x = codeNat x.toNat := rfl

theorem code_walk (x : UInt8) :
    trun hpackHuffTree [] (huffCode x) [] = some (hpackHuffTree, [], [x.toNat]) ∧
      (huffCode x).length ≤ 30 ∧ 5 ≤ (huffCode x).length := by
  have h := codes_ok
  unfold codesAll at h
  rw [List.all_eq_true] at h
  have hx := h x.toNat (by simp [List.mem_range]; exact x.toNat_lt)
  rw [huffCode_eq]
  generalize hi : x.toNat = i at hx ⊢
  cases hr : trun hpackHuffTree [] (codeNat i) [] with
  | none => simp [hr] at hx
  | some r =>
    obtain ⟨t', p', o⟩ := r
    have hinv := trun_inv (codeNat i) hr rfl
    simp only [hr] at hx
    split at hx
    · rename_i t'' s heq
      simp only [Option.some.injEq, Prod.mk.injEq] at heq
      obtain ⟨rfl, rfl, rfl⟩ := heq
      simp only [Bool.and_eq_true, beq_iff_eq, decide_eq_true_eq] at hx
      obtain ⟨⟨rfl, h30⟩, h5⟩ := hx
      refine ⟨?_, h30, h5⟩
      rw [hinv]; rfl
    · cases hx


theorem code_walk_out (x : UInt8) (out : List Nat) :
    trun hpackHuffTree [] (huffCode x) out = some (hpackHuffTree, [], x.toNat :: out) := by
  rw [trun_out, (code_walk x).1]; rfl

/-- the bit-level decoder reads back the concatenated codes -/
theorem huffBits_walk (s : Bytes) (out : List Nat) :
    trun hpackHuffTree [] (huffBits s) out =
      some (hpackHuffTree, [], (s.map UInt8.toNat).reverse ++ out) := by
  induction s generalizing out with
  | nil => simp [huffBits, trun]
  | cons x xs ih =>
    have : huffBits (x :: xs) = huffCode x ++ huffBits xs := by simp [huffBits]
    rw [this, trun_append, code_walk_out]
    simp only
    rw [ih]; simp

theorem huffBits_length_le (s : Bytes) : (huffBits s).length ≤ 30 * s.length := by
  induction s with
  | nil => simp [huffBits]
  | cons x xs ih =>
    have : huffBits (x :: xs) = huffCode x ++ huffBits xs := by simp [huffBits]
    rw [this, List.length_append, List.length_cons]
    have := (code_walk x).2.1
    omega

def padAll : Bool :=
  (List.range 8).all fun k =>
    match trun hpackHuffTree [] (List.replicate k true) [] with
    | some (_, p, []) => p == List.replicate k true
    | _ => false

theorem pad_ok : padAll = true := by decide +kernel

theorem pad_walk (k : Nat) (hk : k < 8) (out : List Nat) :
    ∃ t, trun hpackHuffTree [] (List.replicate k true) out = some (t, List.replicate k true, out) := by
  have h := pad_ok
  unfold padAll at h
  rw [List.all_eq_true] at h
  have hk' := h k (by simp [List.mem_range]; exact hk)
  rw [trun_out]
  cases hr : trun hpackHuffTree [] (List.replicate k true) [] with
  | none => simp [hr] at hk'
  | some r =>
    obtain ⟨t', p', o⟩ := r
    simp only [hr] at hk'
    split at hk'
    · rename_i t'' p'' heq
      simp only [Option.some.injEq, Prod.mk.injEq] at heq
      obtain ⟨rfl, rfl, rfl⟩ := heq
      simp only [beq_iff_eq] at hk'
      exact ⟨t', by simp [hk']⟩
    · cases hk'


theorem toUInt8_toNat_lt' (n : Nat) (h : n < 256) : n.toUInt8.toNat = n := by
  simp [Nat.toUInt8, UInt8.toNat_ofNat']
  omega

/-- one nibble of the C automaton = four steps of the tree walk -/
theorem nibble_sim (q x : Nat) (hq : q < 256) (hx : x < 16) {t' : HuffTree} {p' : List Bool}
    {o : List Nat}
    (h : trun (descend hpackHuffTree (pathOf q)) (pathOf q) (bits4 x) [] = some (t', p', o)) :
    ∃ st' sym, st' < 256 ∧ huffStep q x = some (st', accepting p', sym) ∧ pathOf st' = p' ∧
      o = (pushSym sym []).map UInt8.toNat := by
  have hc := cert_ok
  unfold certAll at hc
  rw [List.all_eq_true] at hc
  have hrow := hc q (by simp [List.mem_range]; exact hq)
  unfold certRow at hrow
  split at hrow
  · rename_i l r hd
    rw [List.all_eq_true] at hrow
    have hchk := hrow x (by simp [List.mem_range]; exact hx)
    rw [← hd] at hchk
    unfold certCheck at hchk
    rw [h] at hchk
    rcases he : huffEntry q x with ⟨st', fl, sym⟩
    simp only [he] at hchk
    simp only [Bool.and_eq_true, beq_iff_eq, decide_eq_true_eq] at hchk
    obtain ⟨⟨⟨⟨⟨hfail, hpath⟩, hacc⟩, ho⟩, hst⟩, hsym⟩ := hchk
    refine ⟨st', if fl &&& hpackHuffSym ≠ 0 then some sym.toUInt8 else none, hst, ?_, hpath, ?_⟩
    · unfold huffStep
      simp only [he]
      rw [if_neg (by simp [hfail])]
      simp only [Option.some.injEq, Prod.mk.injEq, true_and, and_true]
      exact hacc
    · rw [ho]; unfold symNat
      split <;> simp [pushSym, toUInt8_toNat_lt' sym hsym]
  · cases hrow


def bitsOfByte (b : UInt8) : List Bool := bits4 (b.toNat / 16) ++ bits4 (b.toNat % 16)

theorem pushSym_eq (s : Option UInt8) (out : Bytes) : pushSym s out = pushSym s [] ++ out := by
  cases s <;> simp [pushSym]

theorem symLen_eq (s : Option UInt8) : symLen s = (pushSym s []).length := by
  cases s <;> simp [pushSym, symLen]

/-- the byte-oriented C loop follows the bit-level tree walk -/
theorem huffDecodeAux_sim (bytes : Bytes) : ∀ (q room : Nat) (out : Bytes) (t' : HuffTree)
    (p' : List Bool) (o' : List Nat), q < 256 →
    trun (descend hpackHuffTree (pathOf q)) (pathOf q) (bytes.flatMap bitsOfByte) [] =
      some (t', p', o') →
    o'.length < room → accepting p' = true →
    ∃ res : Bytes, huffDecodeAux bytes q (accepting (pathOf q)) room out = .ok (out.reverse ++ res) ∧
      res.map UInt8.toNat = o'.reverse := by
  induction bytes with
  | nil =>
    intro q room out t' p' o' hq h hroom hacc
    simp only [List.flatMap_nil, trun, Option.some.injEq, Prod.mk.injEq] at h
    obtain ⟨_, rfl, rfl⟩ := h
    exact ⟨[], by simp [huffDecodeAux, hacc], rfl⟩
  | cons b rest ih =>
    intro q room out t' p' o' hq h hroom hacc
    have hhi : b.toNat / 16 < 16 := by have := b.toNat_lt; omega
    have hlo : b.toNat % 16 < 16 := by omega
    simp only [List.flatMap_cons, bitsOfByte, List.append_assoc] at h
    -- high nibble
    rw [trun_append] at h
    cases h1 : trun (descend hpackHuffTree (pathOf q)) (pathOf q) (bits4 (b.toNat / 16)) [] with
    | none => simp [h1] at h
    | some r1 =>
      obtain ⟨t1, p1, o1⟩ := r1
      simp only [h1] at h
      obtain ⟨st1, s1, hst1, hstep1, hp1, ho1⟩ := nibble_sim q _ hq hhi h1
      have ht1 : t1 = descend hpackHuffTree (pathOf st1) := by rw [hp1]; exact trun_inv _ h1 rfl
      -- low nibble
      rw [trun_append, trun_out] at h
      cases h2 : trun t1 p1 (bits4 (b.toNat % 16)) [] with
      | none => simp [h2] at h
      | some r2 =>
        obtain ⟨t2, p2, o2⟩ := r2
        simp only [h2, Option.map_some] at h
        have h2' := h2
        rw [ht1, ← hp1] at h2'
        obtain ⟨st2, s2, hst2, hstep2, hp2, ho2⟩ := nibble_sim st1 _ hst1 hlo h2'
        have ht2 : t2 = descend hpackHuffTree (pathOf st2) := by
          rw [hp2]; exact trun_inv _ h2 (by rw [ht1, hp1])
        -- the rest
        rw [trun_out] at h
        cases h3 : trun t2 p2 (rest.flatMap bitsOfByte) [] with
        | none => simp [h3] at h
        | some r3 =>
          obtain ⟨t3, p3, o3⟩ := r3
          simp only [h3, Option.map_some, Option.some.injEq, Prod.mk.injEq] at h
          obtain ⟨rfl, rfl, rfl⟩ := h
          have h3' := h3
          rw [ht2, ← hp2] at h3'
          have hl1 : o1.length = symLen s1 := by rw [ho1, symLen_eq]; simp
          have hl2 : o2.length = symLen s2 := by rw [ho2, symLen_eq]; simp
          simp only [List.length_append] at hroom
          obtain ⟨res', hrec, hres'⟩ := ih st2 (room - symLen s1 - symLen s2)
            (pushSym s2 (pushSym s1 out)) t3 p3 o3 hst2 h3' (by omega) hacc
          refine ⟨(pushSym s1 []).reverse ++ (pushSym s2 []).reverse ++ res', ?_, ?_⟩
          · unfold huffDecodeAux
            rw [if_neg (by omega), hstep1]
            simp only
            rw [if_neg (by omega), hstep2]
            simp only
            rw [hp2] at hrec
            rw [hrec, pushSym_eq s2, pushSym_eq s1 out]
            simp [List.append_assoc]
          · simp only [List.map_append, List.map_reverse, hres', ← ho1, ← ho2, List.reverse_append]


theorem bitsOfByte_byteOfBits (a b c d e f g h : Bool) :
    bitsOfByte (byteOfBits [a, b, c, d, e, f, g, h]) = [a, b, c, d, e, f, g, h] := by
  revert a b c d e f g h
  decide

theorem bitsToBytes_bits (B : List Bool) :
    ∃ k, k < 8 ∧ (bitsToBytes B).flatMap bitsOfByte = B ++ List.replicate k true := by
  induction B using bitsToBytes.induct with
  | case1 a b c d e f g h rest ih =>
    obtain ⟨k, hk, he⟩ := ih
    refine ⟨k, hk, ?_⟩
    simp only [bitsToBytes, List.flatMap_cons, bitsOfByte_byteOfBits, he]
    simp
  | case2 => exact ⟨0, by decide, by simp [bitsToBytes]⟩
  | case3 l hne hnot =>
    rcases l with _ | ⟨a, _ | ⟨b, _ | ⟨c, _ | ⟨d, _ | ⟨e, _ | ⟨f, _ | ⟨g, _ | ⟨h, rest⟩⟩⟩⟩⟩⟩⟩⟩
    · exact absurd rfl hnot
    · exact ⟨7, by decide, by simp [bitsToBytes, List.replicate, bitsOfByte_byteOfBits]⟩
    · exact ⟨6, by decide, by simp [bitsToBytes, List.replicate, bitsOfByte_byteOfBits]⟩
    · exact ⟨5, by decide, by simp [bitsToBytes, List.replicate, bitsOfByte_byteOfBits]⟩
    · exact ⟨4, by decide, by simp [bitsToBytes, List.replicate, bitsOfByte_byteOfBits]⟩
    · exact ⟨3, by decide, by simp [bitsToBytes, List.replicate, bitsOfByte_byteOfBits]⟩
    · exact ⟨2, by decide, by simp [bitsToBytes, List.replicate, bitsOfByte_byteOfBits]⟩
    · exact ⟨1, by decide, by simp [bitsToBytes, List.replicate, bitsOfByte_byteOfBits]⟩
    · exact absurd rfl (hne a b c d e f g h rest)


theorem pathOf_zero : pathOf 0 = [] := by decide

theorem accepting_replicate (k : Nat) (hk : k < 8) : accepting (List.replicate k true) = true := by
  simp [accepting, hk]

theorem map_toNat_injective {a b : Bytes} (h : a.map UInt8.toNat = b.map UInt8.toNat) : a = b := by
  induction a generalizing b with
  | nil => cases b <;> simp_all
  | cons x xs ih =>
    cases b with
    | nil => simp at h
    | cons y ys =>
      simp only [List.map_cons, List.cons.injEq] at h
      rw [UInt8.toNat_inj.mp h.1, ih h.2]

/-- lshpack's Huffman decoder reads back what its encoder wrote (output buffer
    strictly larger than the string: the C reports MORE_BUF when the buffer is
    exactly full and an input nibble is left) -/
theorem huffDecode_huffEncode (cap : Nat) (s : Bytes) (h : s.length < cap) :
    huffDecode cap (huffEncode s) = .ok s := by
  unfold huffDecode huffEncode
  obtain ⟨k, hk, hbits⟩ := bitsToBytes_bits (huffBits s)
  obtain ⟨t, hpad⟩ := pad_walk k hk ((s.map UInt8.toNat).reverse ++ [])
  have hwalk : trun (descend hpackHuffTree (pathOf 0)) (pathOf 0)
      ((bitsToBytes (huffBits s)).flatMap bitsOfByte) [] =
      some (t, List.replicate k true, (s.map UInt8.toNat).reverse ++ []) := by
    rw [pathOf_zero, hbits, trun_append]
    show (match trun hpackHuffTree [] (huffBits s) [] with
      | none => none
      | some (t', p', out') => trun t' p' (List.replicate k true) out') = _
    rw [huffBits_walk]
    exact hpad
  obtain ⟨res, hres, hmap⟩ := huffDecodeAux_sim (bitsToBytes (huffBits s)) 0 cap [] t
    (List.replicate k true) _ (by decide) hwalk (by simpa using h) (accepting_replicate k hk)
  have hacc0 : accepting (pathOf 0) = true := by rw [pathOf_zero]; rfl
  rw [hacc0] at hres
  rw [hres]
  have : res = s := map_toNat_injective (by simpa using hmap)
  simp [this]

theorem bitsToBytes_length (B : List Bool) : (bitsToBytes B).length = (B.length + 7) / 8 := by
  induction B using bitsToBytes.induct with
  | case1 a b c d e f g h rest ih => simp only [bitsToBytes, List.length_cons, ih]; omega
  | case2 => rfl
  | case3 l hne hnot =>
    rcases l with _ | ⟨a, _ | ⟨b, _ | ⟨c, _ | ⟨d, _ | ⟨e, _ | ⟨f, _ | ⟨g, _ | ⟨h, rest⟩⟩⟩⟩⟩⟩⟩⟩ <;>
      first
      | exact absurd rfl hnot
      | exact absurd rfl (hne _ _ _ _ _ _ _ _ _)
      | simp [bitsToBytes]

theorem huffEncode_length_le (s : Bytes) : (huffEncode s).length ≤ 4 * s.length := by
  unfold huffEncode
  rw [bitsToBytes_length]
  have := huffBits_length_le s
  omega

end LtVerif.Hpack
