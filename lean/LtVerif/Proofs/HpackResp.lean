/-
  HPACK (C07), response direction: what h2_send_headers() hands to the HPACK
  encoder, stated against an independent description of "the fields the server
  meant to send" (the response header array built through
  http_header_response_set/insert/append).
-/
import LtVerif.Proofs.H2Headers
namespace LtVerif.H2Headers
open LtVerif B Hpack

/-! ### response header arrays built through the API -/

inductive RespOp where
  | set (k v : Bytes)
  | insert (k v : Bytes)
  | append (k v : Bytes)

def Resp.apply (r : Resp) : RespOp → Resp
  | .set k v => r.set k v
  | .insert k v => r.insert k v
  | .append k v => r.append k v

/-- every element is filed under the id of its own name -/
def Resp.Keyed (r : Resp) : Prop := ∀ e ∈ r.arr, e.id = hkeyGet e.key

theorem update_keyed (r : Resp) (k : Bytes) (f : Bytes → Bytes) (h : r.Keyed) :
    ∀ e ∈ (r.update (hkeyGet k) k f).arr, e.id = hkeyGet e.key := by
  unfold Resp.update
  split
  · intro e he
    simp only [List.mem_map] at he
    obtain ⟨x, hx, rfl⟩ := he
    split
    · exact h x hx
    · exact h x hx
  · intro e he
    simp only [List.mem_append, List.mem_singleton] at he
    rcases he with he | rfl
    · exact h e he
    · rfl

theorem apply_keyed (r : Resp) (op : RespOp) (h : r.Keyed) : (r.apply op).Keyed := by
  cases op with
  | set k v =>
    show (r.set k v).Keyed
    exact update_keyed r k _ h
  | insert k v =>
    show (r.insert k v).Keyed
    unfold Resp.insert
    split
    · exact h
    · exact update_keyed r k _ h
  | append k v =>
    show (r.append k v).Keyed
    unfold Resp.append
    split
    · exact h
    · exact update_keyed r k _ h

theorem ops_keyed (ops : List RespOp) : ∀ r : Resp, r.Keyed → (ops.foldl Resp.apply r).Keyed := by
  induction ops with
  | nil => intro r h; exact h
  | cons op rest ih => intro r h; exact ih _ (apply_keyed r op h)

theorem empty_keyed : ({} : Resp).Keyed := by intro e he; simp at he

theorem emitName_keyed (e : RespHdr) (h : e.id = hkeyGet e.key) : emitName e = lower e.key := by
  obtain ⟨id, k, v⟩ := e
  simp only at h
  subst h
  exact emitName_eq_lower k v

/-! ### lower case -/

theorem toLower_idem_fin : ∀ n : Fin 256, toLower (toLower (UInt8.ofNat n.val)) = toLower (UInt8.ofNat n.val) := by
  decide +kernel

theorem toLower_idem (b : UInt8) : toLower (toLower b) = toLower b := by
  have := toLower_idem_fin ⟨b.toNat, b.toNat_lt⟩
  simpa using this

theorem lower_idem (s : Bytes) : lower (lower s) = lower s := by
  simp [lower, List.map_map, Function.comp_def, toLower_idem]

/-! ### internal headers never leave -/

theorem x_first_fin : ∀ n : Fin 256, toLower (UInt8.ofNat n.val) = 120 → (UInt8.ofNat n.val &&& 0xdf) = 88 := by
  decide +kernel

theorem x_first (b : UInt8) (h : toLower b = 120) : (b &&& 0xdf) = 88 := by
  have := x_first_fin ⟨b.toNat, b.toNat_lt⟩
  simp only [UInt8.ofNat_toNat] at this
  exact this h

theorem known_not_omitted : ∀ e ∈ Extracted.httpHeaders, e.1 ≠ 0 → omitHeader e.2 = false := by
  decide

theorem omitHeader_lower (k : Bytes) : omitHeader (lower k) = omitHeader k := by
  simp [omitHeader, lower_idem]

/-- X-Sendfile / X-LIGHTTPD-*: unknown id and first letter x/X (the shortcut the C takes) -/
theorem omit_shortcut (k : Bytes) (h : omitHeader k = true) :
    hkeyGet k = 0 ∧ (k.headD 0 &&& 0xdf) = 88 := by
  constructor
  · unfold hkeyGet
    cases hf : Extracted.httpHeaders.find? (fun e => e.2.length == k.length && e.2 == lower k) with
    | none => rfl
    | some e =>
      obtain ⟨id, name⟩ := e
      have hp := List.find?_some hf
      have hmem := List.mem_of_find?_eq_some hf
      simp only [Bool.and_eq_true, beq_iff_eq] at hp
      by_cases h0 : id = 0
      · subst h0; rfl
      · have := known_not_omitted (id, name) hmem h0
        simp only at this
        rw [hp.2, omitHeader_lower, h] at this
        cases this
  · cases k with
    | nil => simp [omitHeader, lower, ofString] at h
    | cons b rest =>
      simp only [List.headD_cons]
      apply x_first
      have hx : (lower (b :: rest)).headD 0 = 120 := by
        unfold omitHeader at h
        simp only [Bool.or_eq_true, beq_iff_eq] at h
        rcases h with h | h
        · rw [h]; decide
        · have : ((lower (b :: rest)).take 11).headD 0 = 120 := by rw [h]; decide
          simpa [lower] using this
      simpa [lower] using hx

/-! ### h2_send_headers(): single-valued responses -/

/-- the field a response header element stands for: none for blank elements and
    for lighttpd-internal headers, else the lower-cased name with the value -/
def wantField (e : RespHdr) : Option Header :=
  if e.key = [] ∨ e.value = [] ∨ omitHeader e.key = true then none else some (lower e.key, e.value)

/-- size h2_send_headers() computes before it touches the encoder -/
def fieldCost (e : RespHdr) : Nat :=
  if e.key = [] ∨ e.value = [] then 0 else e.key.length + e.value.length + 4

def respSize (r : Resp) (serverTag : Option Bytes) : Nat :=
  14 + 37 + serverCost serverTag + (r.arr.map fieldCost).sum

theorem prepass_eq (arr : List RespHdr) (a : Nat) :
    arr.foldl (fun a e => if e.key = [] ∨ e.value = [] then a
                          else a + e.key.length + e.value.length + 4) a = a + (arr.map fieldCost).sum := by
  induction arr generalizing a with
  | nil => simp
  | cons e rest ih =>
    simp only [List.foldl_cons, List.map_cons, List.sum_cons, ih, fieldCost]
    split <;> omega

theorem bodyFields_single (arr : List RespHdr) : ∀ alen : Nat,
    (∀ e ∈ arr, e.id = hkeyGet e.key) → alen + (arr.map fieldCost).sum ≤ 65535 →
    ∃ a, bodyFields false arr alen = some (arr.filterMap wantField, a) := by
  induction arr with
  | nil => intro alen _ _; exact ⟨alen, rfl⟩
  | cons e rest ih =>
    intro alen hk hsz
    have hke := hk e (by simp)
    have hkr : ∀ x ∈ rest, x.id = hkeyGet x.key := fun x hx => hk x (by simp [hx])
    simp only [List.map_cons, List.sum_cons] at hsz
    unfold bodyFields
    by_cases hb : e.key = [] ∨ e.value = []
    · have hw : wantField e = none := by
        unfold wantField; rcases hb with h | h <;> simp [h]
      simp only [hb, if_true, List.filterMap_cons, hw]
      exact ih alen hkr (by omega)
    · have hc : fieldCost e = e.key.length + e.value.length + 4 := by simp [fieldCost, hb]
      simp only [hb, if_false]
      rw [if_neg (by omega)]
      by_cases ho : omitHeader e.key = true
      · have hs := omit_shortcut e.key ho
        have hw : wantField e = none := by unfold wantField; simp [ho]
        have hcond : e.id = 0 ∧ (e.key.headD 0 &&& 0xdf) = 88 ∧ omitHeader e.key = true :=
          ⟨by rw [hke]; exact hs.1, hs.2, ho⟩
        simp only [hcond, and_self, if_true, List.filterMap_cons, hw]
        exact ih alen hkr (by omega)
      · have hw : wantField e = some (lower e.key, e.value) := by
          unfold wantField
          have h1 : ¬ e.key = [] := fun h => hb (Or.inl h)
          have h2 : ¬ e.value = [] := fun h => hb (Or.inr h)
          simp [h1, h2, ho]
        have hcond : ¬ (e.id = 0 ∧ (e.key.headD 0 &&& 0xdf) = 88 ∧ omitHeader e.key = true) :=
          fun h => ho h.2.2
        obtain ⟨a, ha⟩ := ih (alen + e.key.length + e.value.length + 4) hkr (by omega)
        refine ⟨a, ?_⟩
        simp only [hcond, if_false, Bool.false_eq_true, ha, List.filterMap_cons, hw, emitName_keyed e hke,
          List.map_cons, List.map_nil, List.cons_append, List.nil_append]

/-- "date" and "server", which h2_send_headers() adds unless the response has its own -/
def autoFields (r : Resp) (tag : Option Bytes) : List Header :=
  (if r.tags.contains Extracted.hdrDate then [] else [(ofString "date", autoDate)]) ++
  (match tag with
   | some t => if r.tags.contains Extracted.hdrServer then [] else [(ofString "server", t)]
   | none => [])

/-- h2_send_headers() for a response whose fields were each sent once: the list
    given to the encoder is ":status", then one field per non-blank, non-internal
    element, in order, under the lower-cased name, then "date" / "server" unless
    the response has its own -/
theorem respFields_single (status : Nat) (r : Resp) (tag : Option Bytes) (hk : r.Keyed)
    (hrep : r.repeated = false) (hsize : respSize r tag ≤ 65535)
    (h304 : ¬ (status = 304 ∧ r.tags.contains Extracted.hdrContentEncoding = true)) :
    respFields status r tag =
      some ((ofString ":status", statusBytes status) :: r.arr.filterMap wantField ++ autoFields r tag) := by
  unfold respFields
  unfold respSize at hsize
  simp only [h304, if_false, prepass_eq]
  rw [if_neg (by omega), hrep]
  obtain ⟨a, ha⟩ := bodyFields_single r.arr 14 hk (by omega)
  rw [ha]
  cases tag <;> simp [autoFields]

/-- over the limit: nothing is sent (RST_STREAM), the encoder is not touched -/
theorem respFields_oversize (status : Nat) (r : Resp) (tag : Option Bytes)
    (h304 : ¬ (status = 304 ∧ r.tags.contains Extracted.hdrContentEncoding = true))
    (hsize : 65535 < respSize r tag) : respFields status r tag = none := by
  unfold respFields
  simp only [h304, if_false, prepass_eq]
  unfold respSize at hsize
  rw [if_pos (by omega)]

end LtVerif.H2Headers
