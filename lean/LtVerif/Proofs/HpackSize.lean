/-
  HPACK (C07), response direction: the header list h2_send_headers() accepts
  (size pre-pass ≤ 65535) always fits the 128 KiB buffer it is encoded into,
  whatever lshpack's encoder chooses per field (indexed, name reference or
  literal; Huffman only where that is not longer; no size updates of its own):
  the encoder cannot fail half way through a block.
-/
import LtVerif.Proofs.HpackWeak
import LtVerif.Proofs.HpackResp
namespace LtVerif.Hpack
open LtVerif B

theorem encIntTailF_length (k : Nat) : ∀ (f n : Nat), n < 128 ^ (k + 1) →
    (encIntTailF f n).length ≤ k + 1 := by
  induction k with
  | zero =>
    intro f n hn
    cases f with
    | zero => simp [encIntTailF]
    | succ f => simp only [encIntTailF]; rw [if_pos (by simpa using hn)]; simp
  | succ k ih =>
    intro f n hn
    cases f with
    | zero => simp [encIntTailF]
    | succ f =>
      simp only [encIntTailF]
      split
      · simp
      · have : n / 128 < 128 ^ (k + 1) := by
          apply Nat.div_lt_of_lt_mul
          rw [Nat.pow_succ] at hn
          omega
        have := ih f (n / 128) this
        simp only [List.length_cons]; omega

theorem encInt_length_le (pbits hi n k : Nat) (hn : n < 128 ^ (k + 1)) :
    (encInt pbits hi n).length ≤ k + 2 := by
  unfold encInt
  split
  · simp
  · simp only [List.length_cons, encIntTail]
    have := encIntTailF_length k (n - (2 ^ pbits - 1)) (n - (2 ^ pbits - 1)) (by omega)
    omega

/-- Huffman is used only where it is not longer than the raw string -/
def NoExpand (huff : Bool) (s : Bytes) : Prop := huff = true → (huffEncode s).length ≤ s.length

theorem encStr_length_le (huff : Bool) (s : Bytes) (hs : s.length < 128 ^ 3) (hx : NoExpand huff s) :
    (encStr huff s).length ≤ 4 + s.length := by
  unfold encStr
  cases huff with
  | false =>
    simp only [Bool.false_eq_true, if_false, List.length_append]
    have := encInt_length_le 7 0 s.length 2 hs
    omega
  | true =>
    have hl := hx rfl
    simp only [if_true, List.length_append]
    have := encInt_length_le 7 128 (huffEncode s).length 2 (by omega)
    omega

theorem encodeFieldCore_length_le (t : Table) (c : Choice) (h : Header) (hwf : t.WF)
    (hn : h.1 ≠ []) (h1 : h.1.length < 128 ^ 3) (h2 : h.2.length < 128 ^ 3)
    (hx1 : NoExpand c.huffName h.1) (hx2 : NoExpand c.huffValue h.2) :
    (encodeFieldCore t c h).1.length ≤ h.1.length + h.2.length + 9 := by
  have hpos : 0 < h.1.length := List.length_pos_iff.mpr hn
  unfold encodeFieldCore
  split
  · rename_i hix
    obtain ⟨_, hlt⟩ := Table.lookup_lt hwf hix.2
    have := encInt_length_le 7 128 c.idx 3 (by simpa using hlt)
    simp only []
    omega
  · simp only [List.length_append]
    have hv := encStr_length_le c.huffValue h.2 h2 hx2
    by_cases hnr : (t.lookup c.idx).map (·.1) = some h.1
    · have hne : c.idx ≠ 0 := by
        intro h0; rw [h0, Table.lookup_zero] at hnr; simp at hnr
      obtain ⟨e, hl, _⟩ := Option.map_eq_some_iff.mp hnr
      obtain ⟨_, hlt⟩ := Table.lookup_lt hwf hl
      have hidx : ∀ pb fl, (encInt pb fl c.idx).length ≤ 5 :=
        fun pb fl => encInt_length_le pb fl c.idx 3 (by simpa using hlt)
      simp only [hnr, if_true, hne, ne_eq, not_false_eq_true]
      exact Nat.le_trans (Nat.add_le_add (hidx _ _) hv) (by omega)
    · have hnm := encStr_length_le c.huffName h.1 h1 hx1
      simp only [hnr, if_false, ne_eq, not_true_eq_false, List.length_cons]
      omega

/-- per field: no size update of its own, Huffman only where not longer
    (lshpack_enc_enc_str(): `encStrLs`) -/
def LsLike : List Choice → List Header → Prop
  | _, [] => True
  | cs, h :: hs =>
    (cs.headD {}).resize = [] ∧ NoExpand (cs.headD {}).huffName h.1 ∧
      NoExpand (cs.headD {}).huffValue h.2 ∧ LsLike cs.tail hs

def cost9 (h : Header) : Nat := h.1.length + h.2.length + 9
def cost4 (h : Header) : Nat := h.1.length + h.2.length + 4

theorem encodeBlock_length_le : ∀ (hs : List Header) (cs : List Choice) (t : Table), t.WF →
    LsLike cs hs → (∀ h ∈ hs, h.1 ≠ [] ∧ h.1.length < 128 ^ 3 ∧ h.2.length < 128 ^ 3) →
    (encodeBlock t cs hs).1.length ≤ (hs.map cost9).sum := by
  intro hs
  induction hs with
  | nil => intro cs t _ _ _; simp [encodeBlock]
  | cons h hs ih =>
    intro cs t hwf hls hok
    obtain ⟨hr, hx1, hx2, hrest⟩ := hls
    obtain ⟨hn, h1, h2⟩ := hok h (by simp)
    simp only [encodeBlock, encodeField, hr, encResize, List.nil_append, List.length_append,
      List.map_cons, List.sum_cons]
    have hc := encodeFieldCore_length_le t (cs.headD {}) h hwf hn h1 h2 hx1 hx2
    have := ih cs.tail _ (encodeFieldCore_WF t (cs.headD {}) h hwf) hrest
      (fun x hx => hok x (by simp [hx]))
    have hc9 : cost9 h = h.1.length + h.2.length + 9 := rfl
    omega

theorem cost_sum (fs : List Header) (h : ∀ f ∈ fs, 6 ≤ cost4 f) :
    6 * (fs.map cost9).sum ≤ 11 * (fs.map cost4).sum := by
  induction fs with
  | nil => simp
  | cons f fs ih =>
    have h1 := h f (by simp)
    have h2 := ih (fun x hx => h x (by simp [hx]))
    simp only [List.map_cons, List.sum_cons]
    unfold cost9 cost4 at *
    omega

theorem le_sum_of_mem {α : Type} (g : α → Nat) (l : List α) (x : α) (hx : x ∈ l) :
    g x ≤ (l.map g).sum := by
  induction l with
  | nil => cases hx
  | cons y ys ih =>
    simp only [List.map_cons, List.sum_cons]
    rcases List.mem_cons.mp hx with rfl | h
    · omega
    · have := ih h; omega

end LtVerif.Hpack

namespace LtVerif.H2Headers
open LtVerif B Hpack

theorem len_status : (ofString ":status").length = 7 := by decide
theorem len_date : (ofString "date").length = 4 := by decide
theorem len_server : (ofString "server").length = 6 := by decide
theorem len_autoDate : autoDate.length = 4 := by decide

theorem wanted_cost (arr : List RespHdr) :
    ((arr.filterMap wantField).map cost4).sum ≤ (arr.map fieldCost).sum ∧
      ∀ f ∈ arr.filterMap wantField, f.1 ≠ [] ∧ 6 ≤ cost4 f := by
  induction arr with
  | nil => simp
  | cons e rest ih =>
    by_cases hw : e.key = [] ∨ e.value = [] ∨ omitHeader e.key = true
    · have hwn : wantField e = none := by simp [wantField, hw]
      simp only [List.filterMap_cons, hwn, List.map_cons, List.sum_cons]
      exact ⟨by omega, ih.2⟩
    · have hws : wantField e = some (lower e.key, e.value) := by simp [wantField, hw]
      have hk : e.key ≠ [] := fun h => hw (Or.inl h)
      have hv : e.value ≠ [] := fun h => hw (Or.inr (Or.inl h))
      have hkl : 0 < e.key.length := List.length_pos_iff.mpr hk
      have hvl : 0 < e.value.length := List.length_pos_iff.mpr hv
      have hf : fieldCost e = e.key.length + e.value.length + 4 := by simp [fieldCost, hk, hv]
      have hc : cost4 (lower e.key, e.value) = e.key.length + e.value.length + 4 := by
        simp [cost4, lower_length]
      simp only [List.filterMap_cons, hws, List.map_cons, List.sum_cons]
      refine ⟨by omega, ?_⟩
      intro f hf'
      rcases List.mem_cons.mp hf' with rfl | hf'
      · refine ⟨?_, by omega⟩
        intro h
        have : (lower e.key).length = 0 := by simp only [] at h; rw [h]; rfl
        rw [lower_length] at this; omega
      · exact ih.2 f hf'

theorem auto_cost (r : Resp) (tag : Option Bytes) :
    ((autoFields r tag).map cost4).sum ≤ 37 + serverCost tag ∧
      ∀ f ∈ autoFields r tag, f.1 ≠ [] ∧ 6 ≤ cost4 f := by
  have hd : cost4 (ofString "date", autoDate) = 12 := by simp [cost4, len_date, len_autoDate]
  have hs : ∀ t, cost4 (ofString "server", t) = 6 + t.length + 4 := by
    intro t; simp [cost4, len_server]
  have hdn : (ofString "date") ≠ [] := by decide
  have hsn : (ofString "server") ≠ [] := by decide
  have hD : ∀ b : Bool,
      (((if b = true then [] else [(ofString "date", autoDate)] : List Header)).map cost4).sum ≤ 37 ∧
      ∀ f ∈ (if b = true then [] else [(ofString "date", autoDate)] : List Header), f.1 ≠ [] ∧ 6 ≤ cost4 f := by
    intro b; cases b
    · simp only [Bool.false_eq_true, if_false, List.map_cons, List.map_nil, List.sum_cons, List.sum_nil,
        List.mem_singleton, hd]
      exact ⟨by omega, fun f hf => by subst hf; exact ⟨hdn, by rw [hd]; omega⟩⟩
    · simp
  have hS : ∀ (b : Bool) (t : Bytes),
      (((if b = true then [] else [(ofString "server", t)] : List Header)).map cost4).sum ≤ 6 + t.length + 4 ∧
      ∀ f ∈ (if b = true then [] else [(ofString "server", t)] : List Header), f.1 ≠ [] ∧ 6 ≤ cost4 f := by
    intro b t; cases b
    · simp only [Bool.false_eq_true, if_false, List.map_cons, List.map_nil, List.sum_cons, List.sum_nil,
        List.mem_singleton, hs]
      exact ⟨by omega, fun f hf => by subst hf; exact ⟨hsn, by rw [hs]; omega⟩⟩
    · simp
  unfold autoFields serverCost
  cases tag with
  | none =>
    simp only [List.append_nil]
    exact ⟨by have := (hD (r.tags.contains Extracted.hdrDate)).1; omega, (hD _).2⟩
  | some t =>
    simp only [List.map_append, List.sum_append, List.mem_append]
    refine ⟨?_, ?_⟩
    · have h1 := (hD (r.tags.contains Extracted.hdrDate)).1
      have h2 := (hS (r.tags.contains Extracted.hdrServer) t).1
      omega
    · intro f hf
      rcases hf with hf | hf
      · exact (hD _).2 f hf
      · exact (hS _ t).2 f hf

/-- E.1: an accepted response always fits the encoding buffer (tmp_buf, 128 KiB),
    with room for the ≤ 6 octets of table size updates in front of it -/
theorem respFields_fits (status : Nat) (r : Resp) (tag : Option Bytes) (hk : r.Keyed)
    (hrep : r.repeated = false)
    (h304 : ¬ (status = 304 ∧ r.tags.contains Extracted.hdrContentEncoding = true))
    (fs : List Header) (h : respFields status r tag = some fs)
    (t : Table) (hwf : t.WF) (cs : List Choice) (hls : LsLike cs fs) :
    (encodeBlock t cs fs).1.length + 6 ≤ 131072 := by
  have hsize : respSize r tag ≤ 65535 := Nat.le_of_not_lt (fun hc => by
    rw [respFields_oversize status r tag h304 hc] at h
    cases h)
  rw [respFields_single status r tag hk hrep hsize h304] at h
  simp only [Option.some.injEq] at h
  have hw := wanted_cost r.arr
  have ha := auto_cost r tag
  have hst : cost4 (ofString ":status", statusBytes status) = 14 := by
    simp [cost4, statusBytes, len_status]
  have hsum : (fs.map cost4).sum ≤ 65535 := by
    rw [← h]
    simp only [List.map_cons, List.sum_cons, List.map_append, List.sum_append, hst]
    unfold respSize at hsize
    omega
  have hall : ∀ f ∈ fs, f.1 ≠ [] ∧ 6 ≤ cost4 f := by
    rw [← h]
    intro f hf
    simp only [List.mem_cons, List.mem_append] at hf
    rcases hf with (rfl | hf) | hf
    · exact ⟨(by decide : ofString ":status" ≠ []), by rw [hst]; omega⟩
    · exact hw.2 f hf
    · exact ha.2 f hf
  have hbound := cost_sum fs (fun f hf => (hall f hf).2)
  have hlen := encodeBlock_length_le fs cs t hwf hls (by
    intro f hf
    have := le_sum_of_mem cost4 fs f hf
    have hc4 : cost4 f = f.1.length + f.2.length + 4 := rfl
    have hp : (128 : Nat) ^ 3 = 2097152 := by decide
    refine ⟨(hall f hf).1, ?_, ?_⟩ <;> (rw [hp]; omega))
  omega

end LtVerif.H2Headers
