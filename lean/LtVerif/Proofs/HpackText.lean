/-
  HPACK (C07), response direction: h2_send_headers_block() — interim (1xx)
  responses and response trailers travel as a text block that h2.c cuts back
  into name / value pairs before HPACK-encoding them.  For every list of
  fields that can be written as lines at all, cutting the written block gives
  back exactly that list (trailers: with lower-cased names).
-/
import LtVerif.Proofs.HpackResp
namespace LtVerif.H2Headers
open LtVerif B Hpack

/-- "name: value\r\n" -/
def fieldLine (f : Header) : Bytes := f.1 ++ [colon, sp] ++ f.2 ++ [cr, lf]

/-- the lines, then the empty line -/
def renderBlock (fs : List Header) : Bytes := fs.flatMap fieldLine ++ [cr, lf]

/-- a field that can be written as a line: non-empty name without ':' and LF,
    non-empty value without LF that does not start with white space -/
structure LineOk (f : Header) : Prop where
  name_ne : f.1 ≠ []
  name_colon : colon ∉ f.1
  name_lf : lf ∉ f.1
  value_ne : f.2 ≠ []
  value_lf : lf ∉ f.2
  value_ws : ∀ b rest, f.2 = b :: rest → b ≠ sp ∧ b ≠ ht

theorem idxOf?_append_self (a : UInt8) (v rest : Bytes) (h : a ∉ v) :
    (v ++ a :: rest).idxOf? a = some v.length := by
  induction v with
  | nil => simp [List.idxOf?, List.findIdx?_cons]
  | cons x xs ih =>
    have hx : x ≠ a := fun e => h (by simp [e])
    have hxs : a ∉ xs := fun e => h (by simp [e])
    have := ih hxs
    simp only [List.idxOf?] at this ⊢
    simp only [List.cons_append, List.findIdx?_cons, beq_iff_eq, hx, if_false, this]
    simp

theorem fieldLine_body_lf (f : Header) (h1 : lf ∉ f.1) (h2 : lf ∉ f.2) :
    lf ∉ f.1 ++ [colon, sp] ++ f.2 := by
  simp only [List.mem_append, List.mem_cons, List.not_mem_nil, or_false, not_or]
  exact ⟨⟨h1, by decide, by decide⟩, h2⟩

theorem go_step (fuel : Nat) (v rest : Bytes) (acc : List Bytes) (hv : lf ∉ v) (hlen : 2 ≤ v.length) :
    headLines.go (fuel + 1) (v ++ [cr, lf] ++ rest) acc = headLines.go fuel rest ((v ++ [cr, lf]) :: acc) := by
  have hidx : (v ++ [cr, lf] ++ rest).idxOf? lf = some (v.length + 1) := by
    have := idxOf?_lf_append v rest hv
    simpa [List.append_assoc] using this
  have htake : (v ++ [cr, lf] ++ rest).take (v.length + 1 + 1) = v ++ [cr, lf] := by
    rw [show v.length + 1 + 1 = (v ++ [cr, lf]).length by simp, List.take_left]
  have hdrop : (v ++ [cr, lf] ++ rest).drop (v.length + 1 + 1) = rest := by
    rw [show v.length + 1 + 1 = (v ++ [cr, lf]).length by simp, List.drop_left]
  have hne1 : v ++ [cr, lf] ≠ [lf] := by
    intro h; have := congrArg List.length h
    simp only [List.length_append, List.length_cons, List.length_nil] at this; omega
  have hne2 : v ++ [cr, lf] ≠ [cr, lf] := by
    intro h; have := congrArg List.length h
    simp only [List.length_append, List.length_cons, List.length_nil] at this; omega
  simp only [headLines.go, hidx, htake, hdrop, hne1, hne2, or_self, if_false]

theorem go_end (fuel : Nat) (acc : List Bytes) (hacc : acc ≠ []) :
    headLines.go (fuel + 1) [cr, lf] acc = some acc.reverse := by
  have hidx : ([cr, lf] : Bytes).idxOf? lf = some 1 := by decide
  simp [headLines.go, hidx, hacc]

theorem go_lines : ∀ (fs : List Header) (fuel : Nat) (acc : List Bytes),
    (∀ f ∈ fs, lf ∉ f.1 ∧ lf ∉ f.2) → fs.length < fuel → (acc ≠ [] ∨ fs ≠ []) →
    headLines.go fuel (renderBlock fs) acc = some (acc.reverse ++ fs.map fieldLine) := by
  intro fs
  induction fs with
  | nil =>
    intro fuel acc _ hf hne
    obtain ⟨k, rfl⟩ : ∃ k, fuel = k + 1 := ⟨fuel - 1, by simp at hf; omega⟩
    have hacc : acc ≠ [] := by rcases hne with h | h; exact h; exact absurd rfl h
    simp [renderBlock, go_end k acc hacc]
  | cons f fs ih =>
    intro fuel acc hok hf _
    obtain ⟨k, rfl⟩ : ∃ k, fuel = k + 1 := ⟨fuel - 1, by simp at hf; omega⟩
    have hfo := hok f (by simp)
    have hbody := fieldLine_body_lf f hfo.1 hfo.2
    have hshape : renderBlock (f :: fs) = (f.1 ++ [colon, sp] ++ f.2) ++ [cr, lf] ++ renderBlock fs := by
      simp [renderBlock, fieldLine, List.append_assoc]
    rw [hshape, go_step k _ _ acc hbody (by simp; omega)]
    rw [ih k _ (fun x hx => hok x (by simp [hx])) (by simp at hf; omega) (Or.inl (by simp))]
    simp [fieldLine, List.append_assoc]

theorem lineField_fieldLine (f : Header) (h : LineOk f) : lineField (fieldLine f) = some f := by
  obtain ⟨n, v⟩ := f
  have hn := h.name_ne; have hc := h.name_colon; have hvn := h.value_ne; have hws := h.value_ws
  simp only at hn hc hvn hws
  unfold lineField
  have hlen : (fieldLine (n, v)).length = (n ++ [colon, sp] ++ v).length + 2 := by
    simp [fieldLine]; omega
  have hsplit : fieldLine (n, v) = (n ++ [colon, sp] ++ v) ++ [cr, lf] := by simp [fieldLine]
  have h1 : ¬ ((fieldLine (n, v)).length < 2 ∨
      (fieldLine (n, v)).drop ((fieldLine (n, v)).length - 2) ≠ [cr, lf]) := by
    rw [hlen, Nat.add_sub_cancel, hsplit, List.drop_left]
    simp
  rw [if_neg h1]
  have hcontent : (fieldLine (n, v)).take ((fieldLine (n, v)).length - 2) = n ++ colon :: sp :: v := by
    rw [hlen, Nat.add_sub_cancel, hsplit, List.take_left]; simp
  simp only [hcontent]
  rw [idxOf?_append_self colon n (sp :: v) hc]
  obtain ⟨b, rest, rfl⟩ : ∃ b rest, v = b :: rest := by
    cases v with
    | nil => exact absurd rfl hvn
    | cons b rest => exact ⟨b, rest, rfl⟩
  obtain ⟨hb1, hb2⟩ := hws b rest rfl
  cases hnl : n.length with
  | zero => exact absurd (List.length_eq_zero_iff.mp hnl) hn
  | succ k =>
    simp only
    have hdrop : (n ++ colon :: sp :: b :: rest).drop (k + 1 + 1) = sp :: b :: rest := by
      rw [show k + 1 + 1 = (n ++ [colon]).length by simp [hnl]]
      rw [show n ++ colon :: sp :: b :: rest = (n ++ [colon]) ++ (sp :: b :: rest) by simp, List.drop_left]
    have htake : (n ++ colon :: sp :: b :: rest).take (k + 1) = n := by
      rw [← hnl, List.take_left]
    rw [hdrop, htake]
    simp [List.dropWhile, hb1, hb2]

theorem render_len (fs : List Header) : fs.length ≤ (fs.flatMap fieldLine).length := by
  induction fs with
  | nil => simp
  | cons f fs ih => simp only [List.flatMap_cons, List.length_append, List.length_cons, fieldLine]; omega

theorem filterMap_lines (fs : List Header) (hok : ∀ f ∈ fs, LineOk f) :
    (fs.map fieldLine).filterMap lineField = fs := by
  induction fs with
  | nil => rfl
  | cons f fs ih =>
    simp only [List.map_cons, List.filterMap_cons, lineField_fieldLine f (hok f (by simp))]
    rw [ih (fun x hx => hok x (by simp [hx]))]

theorem render_head (fs : List Header) (hne : fs ≠ []) (hok : ∀ f ∈ fs, LineOk f) :
    (renderBlock fs).headD 0 ≠ colon := by
  cases fs with
  | nil => exact absurd rfl hne
  | cons f rest =>
    have h := hok f (by simp)
    obtain ⟨n, v⟩ := f
    cases n with
    | nil => exact absurd rfl h.name_ne
    | cons b bs =>
      have hb : b ≠ colon := fun e => h.name_colon (by simp [e])
      simpa [renderBlock, fieldLine] using hb

/-- h2_send_headers_block() on a block of written lines (no ":status" line):
    exactly the fields that were written -/
theorem blockFields_render (fs : List Header) (hne : fs ≠ []) (hok : ∀ f ∈ fs, LineOk f)
    (hlen : (renderBlock fs).length ≤ 65535) : blockFields (renderBlock fs) = fs := by
  unfold blockFields headLines
  rw [if_neg (by omega)]
  rw [go_lines fs _ [] (fun f hf => ⟨(hok f hf).name_lf, (hok f hf).value_lf⟩)
    (by have := render_len fs; simp only [renderBlock, List.length_append]; omega) (Or.inr hne)]
  simp only [List.reverse_nil, List.nil_append]
  rw [if_neg (render_head fs hne hok)]
  exact filterMap_lines fs hok

/-- ... with a ":status: NNN" line in front (what h2_send_1xx() builds) -/
theorem blockFields_status (d3 : Bytes) (fs : List Header) (hd : d3.length = 3) (hdl : lf ∉ d3)
    (hok : ∀ f ∈ fs, LineOk f)
    (hlen : (ofString ":status: " ++ d3 ++ [cr, lf] ++ renderBlock fs).length ≤ 65535) :
    blockFields (ofString ":status: " ++ d3 ++ [cr, lf] ++ renderBlock fs) =
      (ofString ":status", d3) :: fs := by
  have hv : lf ∉ ofString ":status: " ++ d3 := by
    simp only [List.mem_append, not_or]; exact ⟨by decide, hdl⟩
  unfold blockFields headLines
  rw [if_neg (by omega)]
  have hfuel : ∃ k, (ofString ":status: " ++ d3 ++ [cr, lf] ++ renderBlock fs).length + 1 = k + 1 ∧
      fs.length < k := by
    refine ⟨_, rfl, ?_⟩
    have := render_len fs
    simp only [renderBlock, List.length_append]; omega
  obtain ⟨k, hk, hkl⟩ := hfuel
  rw [hk, go_step k _ _ [] hv (by simp [hd]),
    go_lines fs k _ (fun f hf => ⟨(hok f hf).name_lf, (hok f hf).value_lf⟩) hkl (Or.inl (by simp))]
  have hhead : (ofString ":status: " ++ d3 ++ [cr, lf] ++ renderBlock fs).headD 0 = colon := by
    have : ofString ":status: " = colon :: ofString "status: " := by decide
    rw [this]; rfl
  simp only [hhead, if_true, List.reverse_cons, List.reverse_nil, List.nil_append, List.singleton_append,
    List.drop_succ_cons, List.drop_zero]
  rw [filterMap_lines fs hok]
  have hdrop : (ofString ":status: " ++ d3 ++ [cr, lf] ++ renderBlock fs).drop 9 =
      d3 ++ ([cr, lf] ++ renderBlock fs) := by
    have h9 : (ofString ":status: ").length = 9 := by decide
    rw [List.append_assoc, List.append_assoc, ← h9, List.drop_left]
  rw [hdrop, ← hd, List.take_left]

/-! ### trailers: names are lower-cased in place first -/

theorem toLower_special_fin : ∀ n : Fin 256,
    (toLower (UInt8.ofNat n.val) = colon → UInt8.ofNat n.val = colon) ∧
    (toLower (UInt8.ofNat n.val) = lf → UInt8.ofNat n.val = lf) := by
  decide +kernel

theorem toLower_special (b : UInt8) : (toLower b = colon → b = colon) ∧ (toLower b = lf → b = lf) := by
  have := toLower_special_fin ⟨b.toNat, b.toNat_lt⟩
  simpa using this

theorem lower_not_mem (a : UInt8) (s : Bytes) (ha : ∀ b, toLower b = a → b = a) (h : a ∉ s) : a ∉ lower s := by
  intro hm
  simp only [lower, List.mem_map] at hm
  obtain ⟨b, hb, hba⟩ := hm
  rw [ha b hba] at hb
  exact h hb

theorem LineOk.lower {f : Header} (h : LineOk f) : LineOk (lower f.1, f.2) where
  name_ne := by
    intro e
    have : (H2Headers.lower f.1).length = 0 := by simp only [] at e; rw [e]; rfl
    rw [lower_length] at this
    exact h.name_ne (List.length_eq_zero_iff.mp this)
  name_colon := lower_not_mem colon f.1 (fun b => (toLower_special b).1) h.name_colon
  name_lf := lower_not_mem lf f.1 (fun b => (toLower_special b).2) h.name_lf
  value_ne := h.value_ne
  value_lf := h.value_lf
  value_ws := h.value_ws

theorem lower_line (f : Header) (h : LineOk f) :
    (match (fieldLine f).idxOf? colon with
     | some i => lower ((fieldLine f).take i) ++ (fieldLine f).drop i
     | none => fieldLine f) = fieldLine (lower f.1, f.2) := by
  have hs : fieldLine f = f.1 ++ colon :: (sp :: f.2 ++ [cr, lf]) := by simp [fieldLine]
  rw [hs, idxOf?_append_self colon f.1 _ h.name_colon]
  simp only [List.take_left, List.drop_left]
  simp [fieldLine]

/-- h2_send_end_stream_trailers(): the trailer fields that were written, under
    lower-cased names -/
theorem trailerFields_render (fs : List Header) (hne : fs ≠ []) (hok : ∀ f ∈ fs, LineOk f)
    (hlen : (renderBlock fs).length ≤ 65535) :
    trailerFields (renderBlock fs) = some (fs.map fun f => (lower f.1, f.2)) := by
  unfold trailerFields headLines
  rw [if_neg (by omega)]
  rw [go_lines fs _ [] (fun f hf => ⟨(hok f hf).name_lf, (hok f hf).value_lf⟩)
    (by have := render_len fs; simp only [renderBlock, List.length_append]; omega) (Or.inr hne)]
  simp only [List.reverse_nil, List.nil_append]
  have hany : (fs.map fieldLine).any (fun l => l.headD 0 = colon) = false := by
    rw [List.any_eq_false]
    intro l hl
    simp only [List.mem_map] at hl
    obtain ⟨f, hf, rfl⟩ := hl
    have h := hok f hf
    obtain ⟨n, v⟩ := f
    cases n with
    | nil => exact absurd rfl h.name_ne
    | cons b bs =>
      have hb : b ≠ colon := fun e => h.name_colon (by simp [e])
      simpa [fieldLine] using hb
  simp only [hany, Bool.false_eq_true, if_false, List.map_map]
  have hmap : ∀ g : Bytes → Bytes, (∀ f ∈ fs, g (fieldLine f) = fieldLine (lower f.1, f.2)) →
      fs.map (g ∘ fieldLine) = (fs.map fun f => (lower f.1, f.2)).map fieldLine := by
    intro g hg
    rw [List.map_map]
    apply List.map_congr_left
    intro f hf
    exact hg f hf
  rw [hmap _ (fun f hf => lower_line f (hok f hf)), filterMap_lines _ (by
    intro g hg
    simp only [List.mem_map] at hg
    obtain ⟨f, hf, rfl⟩ := hg
    exact (hok f hf).lower)]

/-! ### h2_send_1xx(): the text is built from the response headers, then cut again -/

theorem regroup {α : Type} (L : α → Bytes) : ∀ (es : List α) (X : Bytes),
    X ++ es.flatMap (fun e => [cr, lf] ++ L e) ++ [cr, lf, cr, lf] =
      X ++ [cr, lf] ++ (es.flatMap (fun e => L e ++ [cr, lf]) ++ [cr, lf]) := by
  intro es
  induction es with
  | nil => intro X; simp
  | cons e es ih =>
    intro X
    have := ih (X ++ [cr, lf] ++ L e)
    simp only [List.flatMap_cons, List.append_assoc] at this ⊢
    rw [this]

theorem flatMap_congr' {α : Type} (f g : α → Bytes) : ∀ es : List α, (∀ e ∈ es, f e = g e) →
    es.flatMap f = es.flatMap g := by
  intro es
  induction es with
  | nil => intro _; rfl
  | cons e es ih =>
    intro h
    simp only [List.flatMap_cons]
    rw [h e (by simp), ih (fun x hx => h x (by simp [hx]))]

theorem lcRow_take (k : Bytes) (h : hkeyGet k ≠ 0) :
    ((Extracted.httpHeaderLc.getD (hkeyGet k) []) ++
      List.replicate (32 - (Extracted.httpHeaderLc.getD (hkeyGet k) []).length) 0).take k.length = lower k := by
  unfold hkeyGet at h ⊢
  cases hf : Extracted.httpHeaders.find? (fun e => e.2.length == k.length && e.2 == lower k) with
  | none => simp [hf] at h
  | some e =>
    obtain ⟨id, name⟩ := e
    simp only [hf] at h ⊢
    have hp := List.find?_some hf
    have hmem := List.mem_of_find?_eq_some hf
    simp only [Bool.and_eq_true, beq_iff_eq] at hp
    have h0 : id ≠ 0 := by intro e0; subst e0; simp at h
    obtain ⟨_, _, hlc⟩ := hkey_table_names (id, name) hmem h0
    simp only [] at hlc
    have hrow : Extracted.httpHeaderLc.getD id.toNat [] = lower k := by rw [← hp.2, ← hlc]; rfl
    rw [hrow, List.take_left' (lower_length k)]

/-- the fields of an interim response: every non-blank element, lower-cased name -/
def interimWant (r : Resp) : List Header :=
  (r.arr.filter fun e => e.key ≠ [] ∧ e.value ≠ []).map fun e => (lower e.key, e.value)

theorem interimText_eq (status : Nat) (r : Resp) (hk : r.Keyed) :
    interimText status r =
      ofString ":status: " ++ natToDec status ++ [cr, lf] ++ renderBlock (interimWant r) := by
  unfold interimText interimWant renderBlock
  have hfm : ∀ es : List RespHdr, (∀ e ∈ es, e ∈ r.arr) →
      es.flatMap (fun e =>
        let name := if e.id ≠ 0 then
            let row := Extracted.httpHeaderLc.getD e.id []
            (row ++ List.replicate (32 - row.length) 0).take e.key.length
          else lower e.key
        [cr, lf] ++ name ++ [colon, sp] ++ e.value) =
      es.flatMap (fun e => [cr, lf] ++ (lower e.key ++ [colon, sp] ++ e.value)) := by
    intro es hes
    apply flatMap_congr'
    intro e he
    have hid := hk e (hes e he)
    by_cases h0 : e.id = 0
    · simp [h0, List.append_assoc]
    · have := lcRow_take e.key (by rw [← hid]; exact h0)
      rw [← hid] at this
      simp only [ne_eq, h0, not_false_eq_true, if_true, this, List.append_assoc]
  rw [hfm _ (fun e he => (List.mem_filter.mp he).1),
    regroup (fun e : RespHdr => lower e.key ++ [colon, sp] ++ e.value)]
  simp [fieldLine, List.flatMap_map, List.append_assoc]

theorem status_digits_fin : ∀ n : Fin 900,
    (natToDec (n.val + 100)).length = 3 ∧ lf ∉ natToDec (n.val + 100) := by
  decide +kernel

theorem status_digits (status : Nat) (h1 : 100 ≤ status) (h2 : status ≤ 999) :
    (natToDec status).length = 3 ∧ lf ∉ natToDec status := by
  have := status_digits_fin ⟨status - 100, by omega⟩
  simp only [] at this
  rwa [Nat.sub_add_cancel h1] at this

/-- h2_send_1xx(): an interim response carries ":status" and exactly the
    non-blank response headers present at that moment, lower-cased names -/
theorem interimFields_spec (status : Nat) (r : Resp) (hk : r.Keyed) (h1 : 100 ≤ status) (h2 : status ≤ 999)
    (hok : ∀ f ∈ interimWant r, LineOk f) (hlen : (interimText status r).length ≤ 65535) :
    interimFields status r = (ofString ":status", natToDec status) :: interimWant r := by
  unfold interimFields
  rw [interimText_eq status r hk] at hlen ⊢
  obtain ⟨hd, hdl⟩ := status_digits status h1 h2
  exact blockFields_status (natToDec status) (interimWant r) hd hdl hok hlen

end LtVerif.H2Headers
