/-
  HPACK (C07): the round trip WITHOUT any size assumption.  Whatever header
  list a peer encodes (names / values of any length, empty names, any choice
  sequence), lshpack's decoder either reports an error or returns exactly that
  list and ends with the encoder's table — it never returns something else.
  Also: the block lemma with arbitrary octets after the encoded fields
  (`decodeBlockAux_encodeBlock_tail`), used for "valid prefix, then an invalid
  item".
-/
import LtVerif.Proofs.Hpack
namespace LtVerif.Hpack
open LtVerif B

/-! ### integers that do not fit uint32 are refused -/

theorem decIntTail_far (f : Nat) : ∀ (n sh acc : Nat) (rest : Bytes), n ≤ f → 35 ≤ sh →
    decIntTail (encIntTailF f n ++ rest) sh acc = none := by
  induction f with
  | zero =>
    intro n sh acc rest hn hsh
    have : n = 0 := by omega
    subst this
    simp only [encIntTailF, List.singleton_append, decIntTail]
    rw [toUInt8_toNat_lt 0 (by omega)]
    rw [if_neg (by omega), if_neg (by omega), if_neg (by omega)]
  | succ f ih =>
    intro n sh acc rest hn hsh
    unfold encIntTailF
    by_cases hlt : n < 128
    · simp only [hlt, if_true, List.singleton_append, decIntTail]
      rw [toUInt8_toNat_lt n (by omega)]
      rw [if_neg (by omega), if_neg (by omega), if_neg (by omega)]
    · simp only [hlt, if_false, List.cons_append, decIntTail]
      rw [toUInt8_toNat_lt (n % 128 + 128) (by omega)]
      rw [if_pos (by omega)]
      exact ih (n / 128) (sh + 7) _ rest (by omega) (by omega)

theorem decIntTail_big (f : Nat) : ∀ (n sh acc : Nat) (rest : Bytes), n ≤ f → ShiftOk sh →
    acc < 2 ^ (sh + 8) → 2 ^ 32 ≤ acc + n * 2 ^ sh →
    decIntTail (encIntTailF f n ++ rest) sh acc = none := by
  induction f with
  | zero =>
    intro n sh acc rest hn hsh hacc hbig
    have : n = 0 := by omega
    subst this
    simp only [encIntTailF, List.singleton_append, decIntTail]
    rw [toUInt8_toNat_lt 0 (by omega)]
    rcases hsh with h | h | h | h | h <;> subst h <;> simp at * <;> omega
  | succ f ih =>
    intro n sh acc rest hn hsh hacc hbig
    unfold encIntTailF
    by_cases hlt : n < 128
    · simp only [hlt, if_true, List.singleton_append, decIntTail]
      rw [toUInt8_toNat_lt n (by omega)]
      have hmod : n % 128 = n := Nat.mod_eq_of_lt hlt
      rw [hmod, if_neg (by omega)]
      rcases hsh with h | h | h | h | h <;> subst h <;> simp at * <;> omega
    · simp only [hlt, if_false, List.cons_append, decIntTail]
      rw [toUInt8_toNat_lt (n % 128 + 128) (by omega)]
      have h2 : (n % 128 + 128) % 128 = n % 128 := by omega
      rw [if_pos (by omega), h2]
      have key : acc + n % 128 * 2 ^ sh + n / 128 * 2 ^ (sh + 7) = acc + n * 2 ^ sh := by
        rw [Nat.pow_add]
        have : n = n % 128 + 128 * (n / 128) := (Nat.mod_add_div n 128).symm
        generalize 2 ^ sh = p at *
        have e : n * p = (n % 128 + 128 * (n / 128)) * p := by rw [← this]
        rw [e, Nat.add_mul]
        simp [Nat.mul_comm, Nat.mul_left_comm, Nat.add_assoc]
      by_cases h28 : sh = 28
      · subst h28
        exact decIntTail_far f (n / 128) 35 _ rest (by omega) (by omega)
      · have hsh' : ShiftOk (sh + 7) := by
          rcases hsh with h | h | h | h | h <;> subst h <;> simp [ShiftOk] at *
        refine ih (n / 128) (sh + 7) _ rest (by omega) hsh' ?_ (by rw [key]; exact hbig)
        have hp : 2 ^ (sh + 7 + 8) = 128 * 2 ^ (sh + 8) := by
          rw [show sh + 7 + 8 = (sh + 8) + 7 by omega, Nat.pow_add]; omega
        have hq : 2 ^ (sh + 8) = 256 * 2 ^ sh := by rw [Nat.pow_add]; omega
        have hm : n % 128 * 2 ^ sh ≤ 127 * 2 ^ sh := Nat.mul_le_mul_right _ (by omega)
        omega

theorem decInt_encInt_weak (pbits hi n : Nat) (rest : Bytes)
    (hhi : hi % 2 ^ pbits = 0) (hfit : hi + 2 ^ pbits ≤ 256) :
    decInt pbits (encInt pbits hi n ++ rest) = some (n, rest) ∨
      decInt pbits (encInt pbits hi n ++ rest) = none := by
  by_cases hn : n < 2 ^ 32
  · exact Or.inl (decInt_encInt pbits hi n rest hhi hfit hn)
  · right
    have hP : 0 < 2 ^ pbits := Nat.pow_pos (by decide)
    obtain ⟨k, hk⟩ := Nat.dvd_of_mod_eq_zero hhi
    unfold encInt
    have hlt : ¬ n < 2 ^ pbits - 1 := by omega
    simp only [hlt, if_false, List.cons_append, decInt]
    rw [toUInt8_toNat_lt (hi + (2 ^ pbits - 1)) (by omega)]
    have : (hi + (2 ^ pbits - 1)) % 2 ^ pbits = 2 ^ pbits - 1 := by
      rw [hk, Nat.mul_add_mod]; exact Nat.mod_eq_of_lt (by omega)
    simp only [this, Nat.lt_irrefl, if_false]
    unfold encIntTail
    exact decIntTail_big _ _ 0 (2 ^ pbits - 1) rest (Nat.le_refl _) (Or.inl rfl)
      (by simp; omega) (by simp; omega)

/-! ### strings -/

theorem huffEncode_injective {a b : Bytes} (h : huffEncode a = huffEncode b) : a = b := by
  have ha := huffDecode_huffEncode (a.length + b.length + 1) a (by omega)
  have hb := huffDecode_huffEncode (a.length + b.length + 1) b (by omega)
  rw [h, hb] at ha
  exact (Except.ok.inj ha).symm

theorem decStr_encStr_weak (cap : Nat) (huff : Bool) (s rest : Bytes) :
    decStr cap (encStr huff s ++ rest) = .ok (s, rest) ∨
      ∃ e, decStr cap (encStr huff s ++ rest) = .error e := by
  unfold encStr
  cases huff with
  | false =>
    simp only [Bool.false_eq_true, if_false]
    obtain ⟨b, tl, he, hb⟩ := encInt_cons 7 0 s.length (by decide)
    rw [List.append_assoc]
    rcases decInt_encInt_weak 7 0 s.length (s ++ rest) (by decide) (by decide) with hd | hd
    · rw [he] at hd ⊢
      simp only [List.cons_append] at hd ⊢
      unfold decStr
      simp only [hd]
      have h2 : ¬ 128 ≤ b.toNat := by rw [hb]; simp; omega
      by_cases h3 : cap < s.length
      · right; exact ⟨.moreBuf, by simp [h2, h3]⟩
      · left; simp [h2, h3]
    · right
      rw [he] at hd ⊢
      simp only [List.cons_append] at hd ⊢
      exact ⟨.badData, by simp [decStr, hd]⟩
  | true =>
    simp only [if_true]
    obtain ⟨b, tl, he, hb⟩ := encInt_cons 7 128 (huffEncode s).length (by decide)
    rw [List.append_assoc]
    rcases decInt_encInt_weak 7 128 (huffEncode s).length (huffEncode s ++ rest) (by decide) (by decide)
      with hd | hd
    · rw [he] at hd ⊢
      simp only [List.cons_append] at hd ⊢
      unfold decStr
      simp only [hd]
      have h2 : 128 ≤ b.toNat := by rw [hb]; omega
      cases hh : huffDecode cap (huffEncode s) with
      | error e => right; exact ⟨e, by simp [h2, hh]; intro h; omega⟩
      | ok s' =>
        have := huffEncode_injective (huffDecode_canonical cap _ _ hh)
        subst this
        left; simp [h2, hh]
    · right
      rw [he] at hd ⊢
      simp only [List.cons_append] at hd ⊢
      exact ⟨.badData, by simp [decStr, hd]⟩

/-! ### one representation -/

theorem decodeValue_encStr_weak (cap : Nat) (d : Dec) (kind : Kind) (n v : Bytes) (hint : Nat)
    (huff : Bool) (rest : Bytes) :
    decodeValue cap d kind n hint (encStr huff v ++ rest) =
        .fld ⟨n, v, hint, decide (kind = .never)⟩ rest
          (if kind = .incr then d.push (n, v) hint else d) ∨
      ∃ e, decodeValue cap d kind n hint (encStr huff v ++ rest) = .err e d := by
  unfold decodeValue
  rw [if_neg (by simp [encStr_ne_nil])]
  rcases decStr_encStr_weak (cap - n.length) huff v rest with h | ⟨e, h⟩
  · left; rw [h]
  · right; rw [h]; exact ⟨e, rfl⟩

/-- what one call of the decoder may answer for one encoded field: an error, or
    that field (and the encoder's table) -/
def ItemGood (r : ItemRes) (h : Header) (rest : Bytes) (t' : Table) : Prop :=
  (∃ e d', r = .err e d') ∨ ∃ f d', r = .fld f rest d' ∧ f.header = h ∧ d'.tbl = t'

theorem decodeItem_indexed_weak (cap : Nat) (d : Dec) (idx : Nat) (h : Header) (rest : Bytes)
    (hwf : d.tbl.WF) (hl : d.tbl.lookup idx = some h) :
    ItemGood (decodeItem cap d (encInt 7 128 idx ++ rest)) h rest d.tbl := by
  obtain ⟨hpos, hlt⟩ := Table.lookup_lt hwf hl
  obtain ⟨hint, hdl⟩ := d.lookup_of_tbl hl
  obtain ⟨b, tl, he, hb⟩ := encInt_cons 7 128 idx (by decide)
  have hd := decInt_encInt 7 128 idx rest (by decide) (by decide) (by omega)
  rw [he] at hd ⊢
  simp only [List.cons_append] at hd ⊢
  have hb128 : 128 ≤ b.toNat := by omega
  have hnot : ¬ (32 ≤ b.toNat ∧ b.toNat < 64) := by omega
  have hrepr : reprOf b.toNat = (.indexed, some 7) := by simp [reprOf, hb128]
  have hidx : idx ≠ 0 := by omega
  obtain ⟨n, v⟩ := h
  by_cases h1 : cap < n.length
  · exact Or.inl ⟨.moreBufName, d, by simp [decodeItem, hnot, hrepr, hd, hidx, hdl, h1]⟩
  · by_cases h2 : cap - n.length < v.length
    · exact Or.inl ⟨.moreBuf, d, by simp [decodeItem, hnot, hrepr, hd, hidx, hdl, h1, h2]⟩
    · exact Or.inr ⟨⟨n, v, hint, false⟩, d, by simp [decodeItem, hnot, hrepr, hd, hidx, hdl, h1, h2],
        rfl, rfl⟩

theorem decodeItem_nameRef_weak (cap : Nat) (d : Dec) (kind : Kind) (pbits flag idx : Nat)
    (n v0 v : Bytes) (huff : Bool) (rest : Bytes)
    (hmod : flag % 2 ^ pbits = 0) (hfl : flag + 2 ^ pbits ≤ 256) (hp2 : 2 ≤ 2 ^ pbits)
    (hrepr : ∀ b, flag + 1 ≤ b → b ≤ flag + (2 ^ pbits - 1) →
      ¬ (32 ≤ b ∧ b < 64) ∧ reprOf b = (kind, some pbits))
    (hkind : kind ≠ .indexed)
    (hwf : d.tbl.WF) (hl : d.tbl.lookup idx = some (n, v0)) :
    ItemGood (decodeItem cap d (encInt pbits flag idx ++ encStr huff v ++ rest)) (n, v) rest
      (if kind = .incr then d.tbl.push (n, v) else d.tbl) := by
  obtain ⟨hpos, hlt⟩ := Table.lookup_lt hwf hl
  obtain ⟨hint, hdl⟩ := d.lookup_of_tbl hl
  obtain ⟨b, tl, he, hb⟩ := encInt_cons pbits flag idx hfl
  have hd := decInt_encInt pbits flag idx (encStr huff v ++ rest) hmod hfl (by omega)
  rw [List.append_assoc]
  rw [he] at hd ⊢
  simp only [List.cons_append] at hd ⊢
  have hP : 0 < 2 ^ pbits := Nat.pow_pos (by decide)
  have hb1 : flag + 1 ≤ b.toNat := by
    rw [hb]; have : 1 ≤ min idx (2 ^ pbits - 1) := by
      generalize 2 ^ pbits = P at *
      rcases Nat.lt_or_ge idx (P - 1) with h | h
      · rw [Nat.min_eq_left (by omega)]; omega
      · rw [Nat.min_eq_right h]; omega
    omega
  have hb2 : b.toNat ≤ flag + (2 ^ pbits - 1) := by
    rw [hb]; have := Nat.min_le_right idx (2 ^ pbits - 1); omega
  obtain ⟨hnot, hr⟩ := hrepr b.toNat hb1 hb2
  have hidx : idx ≠ 0 := by omega
  by_cases h1 : cap < n.length
  · exact Or.inl ⟨.moreBufName, d, by simp only [decodeItem, hnot, if_false, hr, hd, hidx, hdl, h1, if_true]⟩
  · have hstep : decodeItem cap d (b :: (tl ++ (encStr huff v ++ rest))) =
        decodeValue cap d kind n hint (encStr huff v ++ rest) := by
      simp only [decodeItem, hnot, if_false, hr, hd, hidx, hdl, h1, hkind]
    rw [hstep]
    rcases decodeValue_encStr_weak cap d kind n v hint huff rest with h | ⟨e, h⟩
    · refine Or.inr ⟨_, _, h, rfl, ?_⟩
      by_cases hk : kind = .incr <;> simp [hk, Dec.push_tbl]
    · exact Or.inl ⟨e, d, h⟩

theorem decodeItem_literal_weak (cap : Nat) (d : Dec) (kind : Kind) (flag : Nat)
    (n v : Bytes) (hn hv : Bool) (rest : Bytes) (hfl : flag < 256)
    (hrepr : ¬ (32 ≤ flag ∧ flag < 64) ∧ reprOf flag = (kind, none))
    (hkind : kind ≠ .indexed) :
    ItemGood (decodeItem cap d (flag.toUInt8 :: encStr hn n ++ encStr hv v ++ rest)) (n, v) rest
      (if kind = .incr then d.tbl.push (n, v) else d.tbl) := by
  have hne : encStr hn n ++ (encStr hv v ++ rest) ≠ [] := by
    simp [encStr_ne_nil]
  rcases decStr_encStr_weak cap hn n (encStr hv v ++ rest) with hs | ⟨e, hs⟩
  · by_cases hnn : n = []
    · subst hnn
      exact Or.inl ⟨.badData, d, by
        simp only [List.cons_append, List.append_assoc, decodeItem, toUInt8_toNat_lt flag hfl, hrepr.1,
          if_false, hrepr.2, hkind, hne, hs, if_true]⟩
    · have hstep : decodeItem cap d (flag.toUInt8 :: encStr hn n ++ encStr hv v ++ rest) =
          decodeValue cap d kind n 0 (encStr hv v ++ rest) := by
        simp only [List.cons_append, List.append_assoc, decodeItem, toUInt8_toNat_lt flag hfl, hrepr.1,
          if_false, hrepr.2, hkind, hne, hs, hnn, if_true]
      rw [hstep]
      rcases decodeValue_encStr_weak cap d kind n v 0 hv rest with h | ⟨e, h⟩
      · refine Or.inr ⟨_, _, h, rfl, ?_⟩
        by_cases hk : kind = .incr <;> simp [hk, Dec.push_tbl]
      · exact Or.inl ⟨e, d, h⟩
  · exact Or.inl ⟨if e = .moreBuf then .moreBufName else e, d, by
      simp only [List.cons_append, List.append_assoc, decodeItem, toUInt8_toNat_lt flag hfl, hrepr.1,
        if_false, hrepr.2, hkind, hne, hs, if_true]⟩

theorem decodeItem_encodeFieldCore_weak (cap : Nat) (d : Dec) (c : Choice) (h : Header) (rest : Bytes)
    (hwf : d.tbl.WF) :
    ItemGood (decodeItem cap d ((encodeFieldCore d.tbl c h).1 ++ rest)) h rest
      (encodeFieldCore d.tbl c h).2 := by
  obtain ⟨n, v⟩ := h
  unfold encodeFieldCore
  by_cases hix : c.mode = .indexed ∧ d.tbl.lookup c.idx = some (n, v)
  · simp only [hix, and_self, if_true]
    exact decodeItem_indexed_weak cap d c.idx (n, v) rest hwf hix.2
  · simp only [hix, if_false]
    by_cases hnr : (d.tbl.lookup c.idx).map (·.1) = some n
    · have hne : c.idx ≠ 0 := by
        intro h0; rw [h0, Table.lookup_zero] at hnr; simp at hnr
      obtain ⟨⟨n', v0⟩, hl, hn'⟩ := Option.map_eq_some_iff.mp hnr
      simp only at hn'; subst hn'
      simp only [hnr, if_true, hne, ne_eq, not_false_eq_true]
      cases hm : c.mode with
      | incr =>
        simpa using decodeItem_nameRef_weak cap d .incr 6 64 c.idx n' v0 v c.huffValue rest
          (by decide) (by decide) (by decide) reprOf_incr (by decide) hwf hl
      | never =>
        simpa using decodeItem_nameRef_weak cap d .never 4 16 c.idx n' v0 v c.huffValue rest
          (by decide) (by decide) (by decide) reprOf_never (by decide) hwf hl
      | without =>
        simpa using decodeItem_nameRef_weak cap d .without 4 0 c.idx n' v0 v c.huffValue rest
          (by decide) (by decide) (by decide) reprOf_without (by decide) hwf hl
      | indexed =>
        simpa using decodeItem_nameRef_weak cap d .without 4 0 c.idx n' v0 v c.huffValue rest
          (by decide) (by decide) (by decide) reprOf_without (by decide) hwf hl
    · simp only [hnr, if_false, ne_eq, not_true_eq_false]
      cases hm : c.mode with
      | incr =>
        simpa using decodeItem_literal_weak cap d .incr 64 n v c.huffName c.huffValue rest (by decide)
          (by simp [reprOf]) (by decide)
      | never =>
        simpa using decodeItem_literal_weak cap d .never 16 n v c.huffName c.huffValue rest (by decide)
          (by simp [reprOf]) (by decide)
      | without =>
        simpa using decodeItem_literal_weak cap d .without 0 n v c.huffName c.huffValue rest (by decide)
          (by simp [reprOf]) (by decide)
      | indexed =>
        simpa using decodeItem_literal_weak cap d .without 0 n v c.huffName c.huffValue rest (by decide)
          (by simp [reprOf]) (by decide)

/-! ### block and connection level -/

theorem encodeFieldCore_WF (t : Table) (c : Choice) (h : Header) (hwf : t.WF) :
    (encodeFieldCore t c h).2.WF := by
  unfold encodeFieldCore
  split
  · exact hwf
  · simp only; split
    · exact hwf.push _
    · exact hwf

theorem decodeBlockAux_encodeBlock_weak (cap : Nat) :
    ∀ (hs : List Header) (cs : List Choice) (d : Dec) (acc : List Field) (fuel : Nat) (R : BlockRes),
    d.tbl.WF → itemCount cs hs < fuel →
    R = decodeBlockAux cap fuel d (encodeBlock d.tbl cs hs).1 acc → R.err = none →
    ∃ fs, R.fields = acc.reverse ++ fs ∧ fs.map Field.header = hs ∧
      R.dec.tbl = (encodeBlock d.tbl cs hs).2 ∧ R.dec.tbl.WF := by
  intro hs
  induction hs with
  | nil =>
    intro cs d acc fuel R hwf hf hR _
    obtain ⟨k, rfl⟩ : ∃ k, fuel = k + 1 := ⟨fuel - 1, by simp [itemCount] at hf; omega⟩
    simp only [encodeBlock, decodeBlockAux_succ, if_true] at hR
    subst hR
    exact ⟨[], by simp, rfl, rfl, hwf⟩
  | cons h hs ih =>
    intro cs d acc fuel R hwf hf hR herr
    simp only [itemCount] at hf
    simp only [encodeBlock, encodeField, List.append_assoc] at hR ⊢
    generalize hc : cs.headD {} = c at hf hR ⊢
    obtain ⟨k, hk⟩ : ∃ k, fuel = (k + 1) + c.resize.length :=
      ⟨fuel - c.resize.length - 1, by omega⟩
    subst hk
    have hcore_ne : ∀ (t1 : Table) (rest : Bytes), (encodeFieldCore t1 c h).1 ++ rest ≠ [] := by
      intro t1 rest hnil
      have := encodeFieldCore_length_pos t1 c h
      rw [List.append_eq_nil_iff] at hnil
      rw [hnil.1] at this
      simp at this
    obtain ⟨d1, ht1, hwf1, hres⟩ := decodeBlockAux_resize cap c.resize d (k + 1)
      ((encodeFieldCore (encResize d.tbl c.resize).2 c h).1 ++
        (encodeBlock (encodeFieldCore (encResize d.tbl c.resize).2 c h).2 cs.tail hs).1) acc hwf
      (hcore_ne _ _)
    rw [hres, ← ht1] at hR
    rw [← ht1]
    rw [decodeBlockAux_succ, if_neg (hcore_ne _ _)] at hR
    rcases decodeItem_encodeFieldCore_weak cap d1 c h
      (encodeBlock (encodeFieldCore d1.tbl c h).2 cs.tail hs).1 hwf1 with ⟨e, d', hd⟩ | ⟨f, d2, hd, hfh, ht2⟩
    · rw [hd] at hR
      simp only at hR
      rw [hR] at herr
      cases herr
    · rw [hd] at hR
      simp only at hR
      have hwf2 : d2.tbl.WF := by rw [ht2]; exact encodeFieldCore_WF _ _ _ hwf1
      rw [← ht2] at hR ⊢
      obtain ⟨fs, hfields, hmap, ht3, hwf3⟩ := ih cs.tail d2 (f :: acc) k R hwf2 (by omega) hR herr
      exact ⟨f :: fs, by rw [hfields]; simp, by simp [hmap, hfh], ht3, hwf3⟩

/-- one block, no size assumption: no error ⇒ exactly the encoded list, tables equal -/
theorem decodeBlock_encodeBlock_weak (cap : Nat) (d : Dec) (cs : List Choice) (hs : List Header)
    (hwf : d.tbl.WF) (herr : (decodeBlock cap d (encodeBlock d.tbl cs hs).1).err = none) :
    (decodeBlock cap d (encodeBlock d.tbl cs hs).1).fields.map Field.header = hs ∧
      (decodeBlock cap d (encodeBlock d.tbl cs hs).1).dec.tbl = (encodeBlock d.tbl cs hs).2 ∧
      (decodeBlock cap d (encodeBlock d.tbl cs hs).1).dec.tbl.WF := by
  have hlen := itemCount_le_length d.tbl cs hs
  obtain ⟨fs, hf, hm, ht, hw⟩ := decodeBlockAux_encodeBlock_weak cap hs cs d []
    ((encodeBlock d.tbl cs hs).1.length + 1) _ hwf (by omega) rfl herr
  refine ⟨?_, ht, hw⟩
  simp only [List.reverse_nil, List.nil_append] at hf
  unfold decodeBlock
  rw [hf, hm]

/-- whole connection, no size assumption: while the connection is alive the
    served lists are the encoded ones and the tables are equal -/
theorem recvConn_encodeConn_weak (cap : Nat) : ∀ (items : List ConnItem) (d : Dec), d.tbl.WF →
    (recvConn cap d (encodeConn d.tbl items).1).2.2 = true →
    (recvConn cap d (encodeConn d.tbl items).1).1.map (·.map Field.header) = servedLists items ∧
      (recvConn cap d (encodeConn d.tbl items).1).2.1.tbl = (encodeConn d.tbl items).2 := by
  intro items
  induction items with
  | nil => intro d _ _; exact ⟨rfl, rfl⟩
  | cons it items ih =>
    intro d hwf halive
    simp only [encodeConn, recvConn] at halive ⊢
    cases herr : (decodeBlock cap d (encodeBlock d.tbl it.cs it.hs).1).err with
    | some e => rw [herr] at halive; simp at halive
    | none =>
      rw [herr] at halive
      simp only at halive ⊢
      obtain ⟨hm, ht, hw⟩ := decodeBlock_encodeBlock_weak cap d it.cs it.hs hwf herr
      rw [← ht] at halive ⊢
      obtain ⟨ihm, iht⟩ := ih _ hw halive
      refine ⟨?_, iht⟩
      by_cases hdisp : it.disp = .serve
      · simp [servedLists, hdisp, hm, ihm]
      · simp [servedLists, hdisp, ihm]

/-! ### encoded fields followed by arbitrary octets -/

theorem decodeBlockAux_encodeBlock_tail (cap : Nat) (hcap : cap ≤ 2 ^ 28) :
    ∀ (hs : List Header) (cs : List Choice) (d : Dec) (acc : List Field) (k : Nat) (tail : Bytes),
    d.tbl.WF → (∀ h ∈ hs, HeaderOk cap h) →
    ∃ (fs : List Field) (d' : Dec),
      decodeBlockAux cap (itemCount cs hs + k) d ((encodeBlock d.tbl cs hs).1 ++ tail) acc =
        decodeBlockAux cap k d' tail (fs.reverse ++ acc) ∧
      fs.map Field.header = hs ∧ d'.tbl = (encodeBlock d.tbl cs hs).2 ∧ d'.tbl.WF := by
  intro hs
  induction hs with
  | nil =>
    intro cs d acc k tail hwf _
    exact ⟨[], d, by simp [encodeBlock, itemCount], rfl, rfl, hwf⟩
  | cons h hs ih =>
    intro cs d acc k tail hwf hok
    have hokh : HeaderOk cap h := hok h (by simp)
    have hoks : ∀ x ∈ hs, HeaderOk cap x := fun x hx => hok x (by simp [hx])
    simp only [itemCount, encodeBlock, encodeField, List.append_assoc]
    generalize hc : cs.headD {} = c
    have hcore_ne : ∀ (t1 : Table) (rest : Bytes), (encodeFieldCore t1 c h).1 ++ rest ≠ [] := by
      intro t1 rest hnil
      have := encodeFieldCore_length_pos t1 c h
      rw [List.append_eq_nil_iff] at hnil
      rw [hnil.1] at this
      simp at this
    have hfuel : c.resize.length + 1 + itemCount cs.tail hs + k =
        ((itemCount cs.tail hs + k) + 1) + c.resize.length := by omega
    rw [hfuel]
    obtain ⟨d1, ht1, hwf1, hres⟩ := decodeBlockAux_resize cap c.resize d (itemCount cs.tail hs + k + 1)
      ((encodeFieldCore (encResize d.tbl c.resize).2 c h).1 ++
        ((encodeBlock (encodeFieldCore (encResize d.tbl c.resize).2 c h).2 cs.tail hs).1 ++ tail)) acc hwf
      (hcore_ne _ _)
    rw [hres, ← ht1]
    obtain ⟨f, d2, hd, hfh, ht2⟩ := decodeItem_encodeFieldCore cap d1 c h
      ((encodeBlock (encodeFieldCore d1.tbl c h).2 cs.tail hs).1 ++ tail) hwf1 hokh hcap
    have hwf2 : d2.tbl.WF := by rw [ht2]; exact encodeFieldCore_WF _ _ _ hwf1
    rw [decodeBlockAux_succ, if_neg (hcore_ne _ _), hd]
    simp only
    rw [← ht2]
    obtain ⟨fs, d3, hrec, hmap, ht3, hwf3⟩ := ih cs.tail d2 (f :: acc) k tail hwf2 hoks
    refine ⟨f :: fs, d3, ?_, by simp [hmap, hfh], ht3, hwf3⟩
    rw [hrec]; simp

/-- a valid prefix, then an item the decoder refuses: the prefix is delivered, the
    error is reported, nothing after it is looked at -/
theorem decodeBlock_prefix_then_error (cap : Nat) (hcap : cap ≤ 2 ^ 28) (d : Dec) (cs : List Choice)
    (hs : List Header) (bad : Bytes) (e : Err) (hwf : d.tbl.WF) (hok : ∀ h ∈ hs, HeaderOk cap h)
    (hbad : bad ≠ [])
    (hitem : ∀ d' : Dec, d'.tbl = (encodeBlock d.tbl cs hs).2 → ∃ d'', decodeItem cap d' bad = .err e d'') :
    (decodeBlock cap d ((encodeBlock d.tbl cs hs).1 ++ bad)).err = some e ∧
      (decodeBlock cap d ((encodeBlock d.tbl cs hs).1 ++ bad)).fields.map Field.header = hs := by
  have hlen := itemCount_le_length d.tbl cs hs
  obtain ⟨k, hk⟩ : ∃ k, ((encodeBlock d.tbl cs hs).1 ++ bad).length + 1 = itemCount cs hs + (k + 1) :=
    ⟨((encodeBlock d.tbl cs hs).1 ++ bad).length - itemCount cs hs, by simp only [List.length_append]; omega⟩
  obtain ⟨fs, d', hrun, hmap, ht, _⟩ := decodeBlockAux_encodeBlock_tail cap hcap hs cs d [] (k + 1) bad hwf hok
  obtain ⟨d'', hd⟩ := hitem d' ht
  unfold decodeBlock
  rw [hk, hrun, decodeBlockAux_succ, if_neg hbad, hd]
  simp [hmap]

/-! ### items the decoder refuses in every state -/

theorem decodeItem_bad_index (cap : Nat) (d : Dec) (idx : Nat) (rest : Bytes)
    (hidx : idx < 2 ^ 32) (hnone : d.tbl.lookup idx = none) :
    decodeItem cap d (encInt 7 128 idx ++ rest) = .err .badData d := by
  obtain ⟨b, tl, he, hb⟩ := encInt_cons 7 128 idx (by decide)
  have hd := decInt_encInt 7 128 idx rest (by decide) (by decide) hidx
  rw [he] at hd ⊢
  simp only [List.cons_append] at hd ⊢
  have hb128 : 128 ≤ b.toNat := by omega
  have hnot : ¬ (32 ≤ b.toNat ∧ b.toNat < 64) := by omega
  have hrepr : reprOf b.toNat = (.indexed, some 7) := by simp [reprOf, hb128]
  have hl : d.lookup idx = none := by simp [Dec.lookup, hnone]
  by_cases h0 : idx = 0
  · simp [decodeItem, hnot, hrepr, hd, h0]
  · simp [decodeItem, hnot, hrepr, hd, h0, hl]

theorem decodeItem_oversize_update (cap : Nat) (d : Dec) (n : Nat) (rest : Bytes)
    (hn : n < 2 ^ 32) (hbig : d.tbl.maxCap < n) :
    decodeItem cap d (encInt 5 32 n ++ rest) = .err .badData d := by
  obtain ⟨b, tl, he, hb⟩ := encInt_cons 5 32 n (by decide)
  have hd := decInt_encInt 5 32 n rest (by decide) (by decide) hn
  rw [he] at hd ⊢
  simp only [List.cons_append] at hd ⊢
  have hin : 32 ≤ b.toNat ∧ b.toNat < 64 := by
    have := Nat.min_le_right n (2 ^ 5 - 1); omega
  simp [decodeItem, hin, hd, hbig]

theorem encInt_ne_nil (pbits hi n : Nat) (hfit : hi + 2 ^ pbits ≤ 256) : encInt pbits hi n ≠ [] := by
  obtain ⟨b, tl, he, _⟩ := encInt_cons pbits hi n hfit
  simp [he]

theorem decStr_truncated (cap : Nat) (huff : Nat) (len : Nat) (avail : Bytes)
    (hh : huff = 0 ∨ huff = 128) (hlen : len < 2 ^ 32) (hshort : avail.length < len) :
    decStr cap (encInt 7 huff len ++ avail) = .error .badData := by
  obtain ⟨b, tl, he, _⟩ := encInt_cons 7 huff len (by rcases hh with h | h <;> subst h <;> decide)
  have hd := decInt_encInt 7 huff len avail (by rcases hh with h | h <;> subst h <;> decide)
    (by rcases hh with h | h <;> subst h <;> decide) hlen
  rw [he] at hd ⊢
  simp only [List.cons_append] at hd ⊢
  simp [decStr, hd, hshort]

/-- a literal field whose name string announces more octets than the block holds -/
theorem decodeItem_truncated_name (cap : Nat) (d : Dec) (flag huff len : Nat) (avail : Bytes)
    (hf : flag = 0 ∨ flag = 16 ∨ flag = 64) (hh : huff = 0 ∨ huff = 128) (hlen : len < 2 ^ 32)
    (hshort : avail.length < len) :
    decodeItem cap d (flag.toUInt8 :: (encInt 7 huff len ++ avail)) = .err .badData d := by
  have hs := decStr_truncated cap huff len avail hh hlen hshort
  have hne : encInt 7 huff len ++ avail ≠ [] := by
    have := encInt_ne_nil 7 huff len (by rcases hh with h | h <;> subst h <;> decide)
    simp [this]
  rcases hf with rfl | rfl | rfl
  · simp [decodeItem, reprOf, hne, hs]
  · simp [decodeItem, reprOf, hne, hs]
  · simp [decodeItem, reprOf, hne, hs]

end LtVerif.Hpack
