/-
  Helper lemmas for the response-side chunked encoder (Model/HttpChunkEnc.lean): the chunk-size
  lines it writes are accepted by the decoder automaton of Model/H1Chunked.lean with the right
  value, hence whole encoded bodies decode to what was put in.
-/
import LtVerif.Model.HttpChunkEnc
import LtVerif.Proofs.H1Chunked
namespace LtVerif
open B

/-- hex digits (values < 16) rendered in lower case -/
def renderHex (ds : List Nat) : Bytes := ds.map fun d => hexDigitLC d.toUInt8

def hexValue (ds : List Nat) (v : Nat) : Nat := ds.foldl (fun a d => a * 16 + d) v

theorem hexDigit_facts : ∀ d, d < 16 →
    hexVal (hexDigitLC d.toUInt8) = some d.toUInt8 ∧ d.toUInt8.toNat = d ∧
    hexDigitLC d.toUInt8 ≠ lf ∧ hexDigitLC d.toUInt8 ≠ 0 ∧ hexDigitLC d.toUInt8 ≠ cr := by
  decide

theorem hexValue_ge (ds : List Nat) : ∀ v, v ≤ hexValue ds v := by
  induction ds with
  | nil => intro v; simp [hexValue]
  | cons d ds ih =>
    intro v
    have := ih (v * 16 + d)
    simp only [hexValue, List.foldl_cons] at this ⊢
    omega

theorem hexValue_append (a b : List Nat) (v : Nat) : hexValue (a ++ b) v = hexValue b (hexValue a v) := by
  simp [hexValue, List.foldl_append]

/-- the decoder's hex scanner reads a rendered number completely and exactly -/
theorem ckHex_render (rest : Bytes) (hrest : rest.head?.bind hexVal = none) : ∀ (ds : List Nat) (v k : Nat),
    (∀ d ∈ ds, d < 16) → hexValue ds v / 16 ≤ ckSizeLimit →
    ckHex (renderHex ds ++ rest) v k = some (hexValue ds v, k + ds.length) := by
  intro ds
  induction ds with
  | nil =>
    intro v k _ _
    cases rest with
    | nil => simp [renderHex, ckHex, hexValue]
    | cons b r =>
      simp only [List.head?_cons, Option.bind_some] at hrest
      simp [renderHex, ckHex, hexValue, hrest]
  | cons d ds ih =>
    intro v k hd hv
    have hd16 : d < 16 := hd d (by simp)
    obtain ⟨h1, h2, _⟩ := hexDigit_facts d hd16
    have hge := hexValue_ge ds (v * 16 + d)
    have hval : hexValue (d :: ds) v = hexValue ds (v * 16 + d) := by simp [hexValue]
    rw [hval] at hv
    have hv' : ¬ v > ckSizeLimit := by omega
    have := ih (v * 16 + d) (k + 1) (fun x hx => hd x (by simp [hx])) hv
    simp only [renderHex, List.map_cons, List.cons_append, ckHex, h1, h2, hv', if_false] at this ⊢
    rw [this, hval]
    simp only [List.length_cons]
    congr 2
    omega

/-- a rendered number followed by CRLF is a chunk-size line the decoder accepts with that value -/
theorem goodLine_render (ds : List Nat) (n : Nat) (hd : ∀ d ∈ ds, d < 16) (hne : ds ≠ [])
    (hval : hexValue ds 0 = n) (hn : n / 16 ≤ ckSizeLimit) (hlen : ds.length < 1000) :
    GoodLine (renderHex ds ++ [cr, lf]) n := by
  have hck := ckHex_render [cr, lf] (by decide) ds 0 0 hd (by rw [hval]; exact hn)
  have hl : (renderHex ds).length = ds.length := by simp [renderHex]
  have hpos : 0 < ds.length := List.length_pos_iff.mpr hne
  refine ⟨?_, ⟨renderHex ds ++ [cr], by simp, ?_, ?_⟩, by simp [hl]; omega⟩
  · unfold ckParseLine
    rw [hck, hval]
    have hget : (renderHex ds ++ [cr, lf]).getD ((renderHex ds ++ [cr, lf]).length - 2) 0 = cr := by
      simp [List.getD_eq_getElem?_getD, hl]
    simp only [Nat.zero_add, hget]
    have h0 : ¬ ds.length = 0 := by omega
    have hk : ds.length = (renderHex ds ++ [cr, lf]).length - 2 := by simp [hl]
    have hs : ¬ (renderHex ds ++ [cr, lf]).length ≥ 1024 := by simp [hl]; omega
    have hs2 : ¬ 1022 ≤ (renderHex ds).length := by rw [hl]; omega
    simp [h0, hl]
    omega
  · intro hmem
    rcases List.mem_append.mp hmem with h | h
    · simp only [renderHex, List.mem_map] at h
      obtain ⟨d, hdm, he⟩ := h
      exact (hexDigit_facts d (hd d hdm)).2.2.1 he
    · simp [cr, lf] at h
  · intro hmem
    rcases List.mem_append.mp hmem with h | h
    · simp only [renderHex, List.mem_map] at h
      obtain ⟨d, hdm, he⟩ := h
      exact (hexDigit_facts d (hd d hdm)).2.2.2.1 he
    · simp [cr] at h

/-- http_chunk_len_append(): digits of `n`, most significant first -/
theorem hexDigits_spec : ∀ (fuel n : Nat), 0 < fuel → n < 16 ^ fuel →
    ∃ ds, hexDigits fuel n = renderHex ds ∧ (∀ d ∈ ds, d < 16) ∧ hexValue ds 0 = n ∧ ds ≠ [] ∧
      ds.length ≤ fuel := by
  intro fuel
  induction fuel with
  | zero => intro n h; omega
  | succ f ih =>
    intro n _ hn
    unfold hexDigits
    split
    · rename_i hlt
      exact ⟨[n], by simp [renderHex], by simpa using hlt, by simp [hexValue], by simp, by simp⟩
    · rename_i hge
      have hf : 0 < f := by
        rcases Nat.eq_zero_or_pos f with h0 | h0
        · subst h0; simp at hn; omega
        · exact h0
      have hdiv : n / 16 < 16 ^ f := by
        rw [Nat.pow_succ] at hn
        exact Nat.div_lt_of_lt_mul (by omega)
      obtain ⟨ds, h1, h2, h3, _, h5⟩ := ih (n / 16) hf hdiv
      refine ⟨ds ++ [n % 16], by simp [renderHex, h1], ?_, ?_, by simp, by simp; omega⟩
      · intro d hd
        rcases List.mem_append.mp hd with h | h
        · exact h2 d h
        · simp at h; omega
      · rw [hexValue_append, h3]
        simp only [hexValue, List.foldl_cons, List.foldl_nil]
        omega

/-- buffer_append_uint_hex_lc(): base-256 digits, two hex digits each -/
theorem hexBytesGo_spec : ∀ (fuel n : Nat), 0 < fuel → n < 256 ^ fuel →
    ∃ ds, hexBytesGo fuel n = renderHex ds ∧ (∀ d ∈ ds, d < 16) ∧ hexValue ds 0 = n ∧ ds ≠ [] ∧
      ds.length ≤ 2 * fuel := by
  intro fuel
  induction fuel with
  | zero => intro n h; omega
  | succ f ih =>
    intro n _ hn
    unfold hexBytesGo
    simp only []
    split
    · rename_i hlt
      refine ⟨[n % 256 / 16, n % 16], by simp [renderHex], ?_, ?_, by simp, by simp; omega⟩
      · intro d hd
        simp at hd
        omega
      · simp only [hexValue, List.foldl_cons, List.foldl_nil]
        omega
    · rename_i hge
      have hf : 0 < f := by
        rcases Nat.eq_zero_or_pos f with h0 | h0
        · subst h0; simp at hn; omega
        · exact h0
      have hdiv : n / 256 < 256 ^ f := by
        rw [Nat.pow_succ] at hn
        exact Nat.div_lt_of_lt_mul (by omega)
      obtain ⟨ds, h1, h2, h3, _, h5⟩ := ih (n / 256) hf hdiv
      refine ⟨ds ++ [n % 256 / 16, n % 16], by simp [renderHex, h1], ?_, ?_, by simp, by simp; omega⟩
      · intro d hd
        rcases List.mem_append.mp hd with h | h
        · exact h2 d h
        · simp at h; omega
      · rw [hexValue_append, h3]
        simp only [hexValue, List.foldl_cons, List.foldl_nil]
        omega

theorem chunkSizeOk_div {n : Nat} (h : chunkSizeOk n) : n / 16 ≤ ckSizeLimit := by
  unfold chunkSizeOk at h
  unfold ckSizeLimit
  omega

theorem goodLine_chunkLenLine (n : Nat) (h : chunkSizeOk n) : GoodLine (chunkLenLine n) n := by
  have hlt : n < 16 ^ 64 := by
    unfold chunkSizeOk at h
    calc n < 2 ^ 62 := h
      _ ≤ 16 ^ 64 := by decide
  obtain ⟨ds, h1, h2, h3, h4, h5⟩ := hexDigits_spec 64 n (by decide) hlt
  unfold chunkLenLine encHex
  rw [h1]
  exact goodLine_render ds n h2 h4 h3 (chunkSizeOk_div h) (by omega)

theorem goodLine_hexBytes (n : Nat) (h : chunkSizeOk n) : GoodLine (hexBytesLc n ++ [cr, lf]) n := by
  have hlt : n < 256 ^ 64 := by
    unfold chunkSizeOk at h
    calc n < 2 ^ 62 := h
      _ ≤ 256 ^ 64 := by decide
  obtain ⟨ds, h1, h2, h3, h4, h5⟩ := hexBytesGo_spec 64 n (by decide) hlt
  unfold hexBytesLc
  rw [h1]
  exact goodLine_render ds n h2 h4 h3 (chunkSizeOk_div h) (by omega)

theorem goodLine_last : GoodLine [48, cr, lf] 0 :=
  ⟨by rfl, ⟨[48, cr], by decide, by decide, by decide⟩, by decide⟩

theorem ckFeed_done (cfg : CkCfg) (out : Bytes) (ka : Bool) : ∀ (next : Bytes) (k : Nat),
    ckFeed cfg { mode := .done, out := out, ka := ka, after := k } next
      = { mode := .done, out := out, ka := ka, after := k + next.length } := by
  intro next
  induction next with
  | nil => intro k; simp [ckFeed_nil]
  | cons b rest ih =>
    intro k
    rw [ckFeed_cons]
    simp only [ckStep, ih, List.length_cons]
    congr 1
    omega

/-- the decoder over what http_chunk_append_*() wrote for `pieces`, http_chunk_close() and whatever
    follows on the connection -/
theorem ckFeed_chunkStream (cfg : CkCfg) (hcfg : cfg.maxSize = 0) (hmf : cfg.maxField ≥ 1026)
    (next : Bytes) : ∀ (pieces : List Bytes) (out : Bytes), (∀ p ∈ pieces, chunkSizeOk p.length) →
    ckFeed cfg { mode := .hdr [] false, out := out, ka := true, after := 0 }
        (chunkStream true pieces true ++ next)
      = { mode := .done, out := out ++ pieces.flatten, ka := true, after := next.length } := by
  intro pieces
  induction pieces with
  | nil =>
    intro out _
    have hfin := ckFeed_final cfg hmf goodLine_last out true 0
    simp only [chunkStream, chunkClose, List.flatMap_nil, List.nil_append, if_true, List.flatten_nil,
      List.append_nil]
    have : ([48, cr, lf, cr, lf] : Bytes) = [48, cr, lf] ++ [cr, lf] := rfl
    rw [this, ckFeed_append, hfin, ckFeed_done]
    simp
  | cons p rest ih =>
    intro out hp
    have hrest : ∀ q ∈ rest, chunkSizeOk q.length := fun q hq => hp q (by simp [hq])
    have hsplit : chunkStream true (p :: rest) true ++ next
        = chunkAppend true p ++ (chunkStream true rest true ++ next) := by
      simp [chunkStream]
    rw [hsplit]
    by_cases hemp : p = []
    · subst hemp
      simp only [chunkAppend, List.isEmpty_nil, if_true, List.nil_append, List.flatten_cons]
      exact ih out hrest
    · have hne : p.isEmpty = false := by
        cases p with
        | nil => exact absurd rfl hemp
        | cons _ _ => rfl
      have hgl := goodLine_chunkLenLine p.length (hp p (by simp))
      simp only [chunkAppend, hne, if_true, Bool.false_eq_true, if_false]
      rw [ckFeed_append, ckFeed_chunk cfg hcfg hgl hemp, ih (out ++ p) hrest]
      simp

end LtVerif
