/-
  Helper lemmas for C20 (Model/BurlAppend.lean, Model/KeyValue.lean).
-/
import LtVerif.Model.KeyValue
namespace LtVerif
open B

/-- a statement about all bytes follows from its 256 instances -/
theorem forall_uint8 {P : UInt8 → Prop} (h : ∀ n : Fin 256, P (UInt8.ofNat n.val)) : ∀ b, P b := by
  intro b
  have := h ⟨b.toNat, b.toNat_lt⟩
  simpa using this

/-! ### base64url round trip -/

theorem b64u_tables_inverse :
    ∀ n : Fin 64, b64uRev (b64uChar n.val) = (n.val : Int) ∧ b64uChar n.val ≠ 0 := by decide

/-- one decoder step on a digit of the alphabet -/
theorem b64uDecGo_digit (n : Nat) (hn : n < 64) (rest : Bytes) (acc i : Nat) (out : Bytes) :
    b64uDecGo (b64uChar n :: rest) acc i out =
      if i = 3 then
        b64uDecGo rest 0 0
          (out ++ [((acc * 64 + n) / 65536 % 256).toUInt8, ((acc * 64 + n) / 256 % 256).toUInt8,
                   ((acc * 64 + n) % 256).toUInt8])
      else b64uDecGo rest (acc * 64 + n) (i + 1) out := by
  obtain ⟨h1, h2⟩ := b64u_tables_inverse ⟨n, hn⟩
  simp only at h1 h2
  rw [b64uDecGo]
  simp only [h1]
  have e1 : ((n : Int) = -2) = False := eq_false (by omega)
  have e2 : ((n : Int) = -3) = False := eq_false (by omega)
  have e3 : ((n : Int) < 0) = False := eq_false (by omega)
  simp [e1, e2, e3, h2]

theorem toUInt8_toNat (x : UInt8) : (x.toNat).toUInt8 = x := by simp

theorem b64uDecGo_enc (x : Bytes) : ∀ out : Bytes, b64uDecGo (b64uEnc x) 0 0 out = out ++ x := by
  induction x using b64uEnc.induct with
  | case1 => intro out; simp [b64uEnc, b64uDecGo, b64Finish]
  | case2 a =>
    intro out
    have ha := a.toNat_lt
    simp only [b64uEnc]
    rw [b64uDecGo_digit _ (by omega), if_neg (by omega), b64uDecGo_digit _ (by omega), if_neg (by omega)]
    simp only [b64uDecGo, b64Finish]
    have : (0 * 64 + a.toNat * 16 / 64 % 64) * 64 + a.toNat * 16 % 64 = a.toNat * 16 := by omega
    simp only [this]
    have : a.toNat * 16 / 16 % 256 = a.toNat := by omega
    simp
  | case3 a b =>
    intro out
    have ha := a.toNat_lt
    have hb := b.toNat_lt
    simp only [b64uEnc]
    rw [b64uDecGo_digit _ (by omega), if_neg (by omega), b64uDecGo_digit _ (by omega), if_neg (by omega),
        b64uDecGo_digit _ (by omega), if_neg (by omega)]
    simp only [b64uDecGo, b64Finish]
    have : ((0 * 64 + (a.toNat * 1024 + b.toNat * 4) / 4096 % 64) * 64 +
              (a.toNat * 1024 + b.toNat * 4) / 64 % 64) * 64 + (a.toNat * 1024 + b.toNat * 4) % 64
            = a.toNat * 1024 + b.toNat * 4 := by omega
    simp only [this]
    have e1 : (a.toNat * 1024 + b.toNat * 4) / 1024 % 256 = a.toNat := by omega
    have e2 : (a.toNat * 1024 + b.toNat * 4) / 4 % 256 = b.toNat := by omega
    simp [e1, e2]
  | case4 a b c rest ih =>
    intro out
    have ha := a.toNat_lt
    have hb := b.toNat_lt
    have hc := c.toNat_lt
    simp only [b64uEnc]
    rw [b64uDecGo_digit _ (by omega), if_neg (by omega), b64uDecGo_digit _ (by omega), if_neg (by omega),
        b64uDecGo_digit _ (by omega), if_neg (by omega), b64uDecGo_digit _ (by omega), if_pos (by omega)]
    have : (((0 * 64 + (a.toNat * 65536 + b.toNat * 256 + c.toNat) / 262144 % 64) * 64 +
              (a.toNat * 65536 + b.toNat * 256 + c.toNat) / 4096 % 64) * 64 +
              (a.toNat * 65536 + b.toNat * 256 + c.toNat) / 64 % 64) * 64 +
              (a.toNat * 65536 + b.toNat * 256 + c.toNat) % 64
            = a.toNat * 65536 + b.toNat * 256 + c.toNat := by omega
    simp only [this]
    have e1 : (a.toNat * 65536 + b.toNat * 256 + c.toNat) / 65536 % 256 = a.toNat := by omega
    have e2 : (a.toNat * 65536 + b.toNat * 256 + c.toNat) / 256 % 256 = b.toNat := by omega
    have e3 : (a.toNat * 65536 + b.toNat * 256 + c.toNat) % 256 = c.toNat := by omega
    rw [ih]
    simp [e1, e2, e3]

/-! ### percent-encoding -/

def isUCHex (b : UInt8) : Bool := isDigit b || ((65 : UInt8) ≤ b && b ≤ (70 : UInt8))

/-- a string made of unreserved characters and %HH triplets (upper-case hex) only -/
inductive PctSafe : Bytes → Prop
  | nil : PctSafe []
  | unres {b : UInt8} {rest : Bytes} : isUnreserved b = true → PctSafe rest → PctSafe (b :: rest)
  | enc {h l : UInt8} {rest : Bytes} :
      isUCHex h = true → isUCHex l = true → PctSafe rest → PctSafe (pct :: h :: l :: rest)

theorem hexDigitUC_isUCHex :
    ∀ b : UInt8, isUCHex (hexDigitUC (b >>> 4)) = true ∧ isUCHex (hexDigitUC (b &&& 0xf)) = true := by
  apply forall_uint8; set_option maxRecDepth 100000 in decide

theorem encAll_cons (b : UInt8) (s : Bytes) :
    encAll (b :: s) = (if isUnreserved b then [b] else pctEnc b) ++ encAll s := by
  simp [encAll]

theorem encAll_safe (s : Bytes) : PctSafe (encAll s) := by
  induction s with
  | nil => exact .nil
  | cons b s ih =>
    rw [encAll_cons]
    by_cases hb : isUnreserved b = true
    · simp only [hb, if_true, List.singleton_append]; exact .unres hb ih
    · simp only [hb, pctEnc]
      exact .enc (hexDigitUC_isUCHex b).1 (hexDigitUC_isUCHex b).2 ih

/-! ### case mapping -/

/-- no upper-case ASCII letter outside %XX triplets -/
inductive NoUpperOutsidePct : Bytes → Prop
  | nil : NoUpperOutsidePct []
  | byte {b : UInt8} {rest : Bytes} : isUpper b = false → NoUpperOutsidePct rest → NoUpperOutsidePct (b :: rest)
  | triplet {h l : UInt8} {rest : Bytes} :
      isXDigit h = true → isXDigit l = true → NoUpperOutsidePct rest → NoUpperOutsidePct (pct :: h :: l :: rest)

/-- no lower-case ASCII letter outside %XX triplets -/
inductive NoLowerOutsidePct : Bytes → Prop
  | nil : NoLowerOutsidePct []
  | byte {b : UInt8} {rest : Bytes} : isLower b = false → NoLowerOutsidePct rest → NoLowerOutsidePct (b :: rest)
  | triplet {h l : UInt8} {rest : Bytes} :
      isXDigit h = true → isXDigit l = true → NoLowerOutsidePct rest → NoLowerOutsidePct (pct :: h :: l :: rest)

theorem lower_facts : ∀ b : UInt8,
    (isUpper b = true → isUpper (b ||| 0x20) = false ∧ toLower (b ||| 0x20) = toLower b) ∧
    (isLower b = true → isLower (b &&& 0xdf) = false ∧ toLower (b &&& 0xdf) = toLower b) ∧
    (b = pct → isUpper b = false ∧ isLower b = false) := by
  apply forall_uint8; set_option maxRecDepth 100000 in decide

theorem xdigit2_true {rest : Bytes} (h : xdigit2 rest = true) :
    ∃ x y rest', rest = x :: y :: rest' ∧ isXDigit x = true ∧ isXDigit y = true := by
  match rest, h with
  | x :: y :: rest', h =>
    simp only [xdigit2, Bool.and_eq_true] at h
    exact ⟨x, y, rest', rfl, h.1, h.2⟩

theorem lowerSkipPct_noUpper : ∀ s : Bytes, (0 : UInt8) ∉ s → NoUpperOutsidePct (lowerSkipPct s 0)
  | [], _ => by simp [lowerSkipPct]; exact .nil
  | b :: rest, h => by
    have hb : b ≠ 0 := fun e => h (by simp [e])
    have hrest : (0 : UInt8) ∉ rest := fun e => h (by simp [e])
    rw [lowerSkipPct]
    simp only [hb, if_false]
    by_cases hu : isUpper b = true
    · simp only [hu, if_true]
      exact .byte ((lower_facts b).1 hu).1 (lowerSkipPct_noUpper rest hrest)
    · have hu' : isUpper b = false := by simpa using hu
      simp only [hu', Bool.false_eq_true, if_false]
      by_cases hp : (b = pct && xdigit2 rest) = true
      · simp only [hp, if_true]
        simp only [Bool.and_eq_true, decide_eq_true_eq] at hp
        obtain ⟨x, y, rest', hr, hx, hy⟩ := xdigit2_true hp.2
        subst hr
        have hr' : (0 : UInt8) ∉ rest' := fun e => hrest (by simp [e])
        simp only [lowerSkipPct, hp.1]
        exact .triplet hx hy (lowerSkipPct_noUpper rest' hr')
      · simp only [hp, Bool.false_eq_true, if_false]
        exact .byte hu' (lowerSkipPct_noUpper rest hrest)
termination_by s => s.length

theorem upperSkipPct_noLower : ∀ s : Bytes, (0 : UInt8) ∉ s → NoLowerOutsidePct (upperSkipPct s 0)
  | [], _ => by simp [upperSkipPct]; exact .nil
  | b :: rest, h => by
    have hb : b ≠ 0 := fun e => h (by simp [e])
    have hrest : (0 : UInt8) ∉ rest := fun e => h (by simp [e])
    rw [upperSkipPct]
    simp only [hb, if_false]
    by_cases hu : isLower b = true
    · simp only [hu, if_true]
      exact .byte ((lower_facts b).2.1 hu).1 (upperSkipPct_noLower rest hrest)
    · have hu' : isLower b = false := by simpa using hu
      simp only [hu', Bool.false_eq_true, if_false]
      by_cases hp : (b = pct && xdigit2 rest) = true
      · simp only [hp, if_true]
        simp only [Bool.and_eq_true, decide_eq_true_eq] at hp
        obtain ⟨x, y, rest', hr, hx, hy⟩ := xdigit2_true hp.2
        subst hr
        have hr' : (0 : UInt8) ∉ rest' := fun e => hrest (by simp [e])
        simp only [upperSkipPct, hp.1]
        exact .triplet hx hy (upperSkipPct_noLower rest' hr')
      · simp only [hp, Bool.false_eq_true, if_false]
        exact .byte hu' (upperSkipPct_noLower rest hrest)
termination_by s => s.length

/-- case mapping changes nothing but the case of ASCII letters -/
theorem lowerSkipPct_caseOnly (s : Bytes) : ∀ skip, (lowerSkipPct s skip).map toLower = s.map toLower := by
  induction s with
  | nil => intro skip; simp [lowerSkipPct]
  | cons b rest ih =>
    intro skip
    cases skip with
    | succ k => simp [lowerSkipPct, ih]
    | zero =>
      rw [lowerSkipPct]
      by_cases hb : b = 0
      · simp [hb]
      · simp only [hb, if_false]
        by_cases hu : isUpper b = true
        · simp only [hu, if_true, List.map_cons, ih, ((lower_facts b).1 hu).2]
        · simp [hu, ih]

theorem upperSkipPct_caseOnly (s : Bytes) : ∀ skip, (upperSkipPct s skip).map toLower = s.map toLower := by
  induction s with
  | nil => intro skip; simp [upperSkipPct]
  | cons b rest ih =>
    intro skip
    cases skip with
    | succ k => simp [upperSkipPct, ih]
    | zero =>
      rw [upperSkipPct]
      by_cases hb : b = 0
      · simp [hb]
      · simp only [hb, if_false]
        by_cases hu : isLower b = true
        · simp only [hu, if_true, List.map_cons, ih, ((lower_facts b).2.1 hu).2]
        · simp [hu, ih]

/-! ### burl_append -/

theorem burlAppend_zero (s look : Bytes) : burlAppend 0 s look = s := by
  unfold burlAppend
  by_cases h : s = [] <;> simp [h]

theorem burlAppend_nil (flags : Nat) (look : Bytes) : burlAppend flags [] look = [] := by
  simp [burlAppend]

theorem cstr_eq_self : ∀ (b : Bytes), (0 : UInt8) ∉ b → cstr b = b
  | [], _ => rfl
  | x :: rest, h => by
    have hx : x ≠ 0 := fun e => h (by simp [e])
    have hr : (0 : UInt8) ∉ rest := fun e => h (by simp [e])
    simp [cstr, hx, cstr_eq_self rest hr]

/-! ### template substitution -/

def isSigil (c : UInt8) : Bool := c = dollar || c = pct

theorem substGo_skip (env : Env) : ∀ (l : Bytes) (k : Nat) (out : Bytes),
    substGo env l k out = substGo env (l.drop k) 0 out := by
  intro l
  induction l with
  | nil => intro k out; simp [substGo]
  | cons c rest ih =>
    intro k out
    cases k with
    | zero => simp
    | succ k => simp [substGo, ih]

theorem substGo_plain (env : Env) (c : UInt8) (t out : Bytes) (hc : isSigil c = false) :
    substGo env (c :: t) 0 out = substGo env t 0 (out ++ [c]) := by
  conv => lhs; unfold substGo
  simp only [isSigil, Bool.or_eq_false_iff, decide_eq_false_iff_not] at hc
  simp [hc]

theorem substGo_literal (env : Env) (lit : Bytes) : ∀ (t out : Bytes), (∀ c ∈ lit, isSigil c = false) →
    substGo env (lit ++ t) 0 out = substGo env t 0 (out ++ lit) := by
  induction lit with
  | nil => intro t out _; simp
  | cons c rest ih =>
    intro t out h
    rw [List.cons_append, substGo_plain env c _ _ (h c (by simp)), ih t _ (fun x hx => h x (by simp [hx]))]
    simp

theorem substGo_brace (env : Env) (c : UInt8) (hc : isSigil c = true) (p out : Bytes) :
    substGo env (c :: lbrace :: p) 0 out =
      match substExt env c out p with
      | none => out
      | some (out', k) => substGo env (p.drop k) 0 out' := by
  conv => lhs; unfold substGo
  simp only [isSigil] at hc
  simp only [hc, if_true, List.drop_one, List.tail_cons]
  cases substExt env c out p with
  | none => rfl
  | some r => obtain ⟨out', k⟩ := r; simp [substGo_skip env (lbrace :: p) (k + 1)]

/-! ### first match -/

theorem processFrom_skip (cond : Option Caps) (url : UrlParts) (subject : Bytes) :
    ∀ (pre rest : List (Bytes × MatchRes)) (base : Nat), (∀ r ∈ pre, r.2 = .nomatch) →
    processFrom cond url subject (pre ++ rest) base = processFrom cond url subject rest (base + pre.length) := by
  intro pre
  induction pre with
  | nil => intro rest base _; simp
  | cons r pre ih =>
    intro rest base h
    obtain ⟨t, m⟩ := r
    have hm : m = .nomatch := h (t, m) (by simp)
    subst hm
    rw [List.cons_append, processFrom, ih rest (base + 1) (fun r hr => h r (by simp [hr]))]
    simp only [List.length_cons]
    congr 1
    omega

/-! ### rewrite loop -/

/-- calls of process_rewrite_rules that can still happen from a state -/
def rwBudget : Option RwState → Nat
  | none => 102
  | some st => 101 - st.count

/-- rewrites that can still happen from a state -/
def rwRewritesLeft : Option RwState → Nat
  | none => 101
  | some st => 100 - st.count

theorem rwCall_body_comeback {ridx : Nat} {cond : Option Caps} {url : UrlParts}
    {rules : List (Bytes × MatchRes)} {h1 h' : Option RwState} {t' : Bytes}
    (h : rwCall.body ridx cond url rules h1 = (.comeback t', h')) :
    t'.head? = some slash ∧
    ∃ m f, process cond url url.path rules = .finished m t' ∧
      h' = some { count := (h1.getD { count := 0, finished := false }).count, finished := f } ∧
      (m < ridx → f = true) := by
  unfold rwCall.body at h
  split at h
  · rename_i m res hp
    split at h
    · rename_i hs
      simp only [Prod.mk.injEq, RwRes.comeback.injEq] at h
      obtain ⟨h1e, h2e⟩ := h
      subst h1e
      refine ⟨hs, m, _, hp, h2e.symm, ?_⟩
      intro hm; simp [hm]
    · simp at h
  · simp at h
  · simp at h

theorem rwCall_comeback {ridx : Nat} {cond : Option Caps} {url : UrlParts}
    {rules : List (Bytes × MatchRes)} {h h' : Option RwState} {t' : Bytes}
    (hc : rwCall ridx cond url rules h = (.comeback t', h')) :
    (h = none ∧ ∃ f, h' = some { count := 0, finished := f }) ∨
    (∃ st f, h = some st ∧ st.count + 1 ≤ rwLoopLimit ∧ st.finished = false ∧
        h' = some { count := st.count + 1, finished := f }) := by
  unfold rwCall at hc
  cases h with
  | none =>
    left
    simp only [Option.map_none] at hc
    obtain ⟨_, m, f, _, hh, _⟩ := rwCall_body_comeback hc
    exact ⟨rfl, f, by simpa using hh⟩
  | some st =>
    right
    simp only [Option.map_some] at hc
    split at hc
    · simp at hc
    · rename_i hlim
      split at hc
      · simp at hc
      · rename_i hfin
        obtain ⟨_, m, f, _, hh, _⟩ := rwCall_body_comeback hc
        refine ⟨st, f, rfl, by omega, by simpa using hfin, ?_⟩
        simpa using hh

theorem rwBudget_pos (h : Option RwState) (hc : ∀ st, h = some st → st.count ≤ 100) : 1 ≤ rwBudget h := by
  cases h with
  | none => simp [rwBudget]
  | some st => have := hc st rfl; simp only [rwBudget]; omega

def RwFinal.rewrites : RwFinal → Nat
  | .served _ n => n
  | .status _ n => n
  | .failed _ n => n
  | .outOfFuel => 0

/-- with enough fuel for the remaining budget the loop terminates, more fuel changes nothing,
    and the number of rewrites stays within what is left -/
theorem rwRun_bounded (matcher : Bytes → List MatchRes) (templates : List Bytes) (ridx : Nat)
    (cond : Option Caps) (opts : Opts) (scheme authority serverName : Bytes) (port : Nat) :
    ∀ (fuel : Nat) (target : Bytes) (h : Option RwState) (n k : Nat),
      (∀ st, h = some st → st.count ≤ 100) → rwBudget h ≤ fuel →
      rwRun matcher templates ridx cond opts scheme authority serverName port (fuel + k) target h n =
        rwRun matcher templates ridx cond opts scheme authority serverName port fuel target h n ∧
      rwRun matcher templates ridx cond opts scheme authority serverName port fuel target h n ≠ .outOfFuel ∧
      (rwRun matcher templates ridx cond opts scheme authority serverName port fuel target h n).rewrites
        ≤ n + rwRewritesLeft h := by
  intro fuel
  induction fuel with
  | zero =>
    intro target h n k hc hb
    have := rwBudget_pos h hc
    omega
  | succ fuel ih =>
    intro target h n k hc hb
    have e : fuel + 1 + k = (fuel + k) + 1 := by omega
    rw [e]
    simp only [rwRun]
    generalize hr : rwCall ridx cond (requestUrl scheme authority serverName port target)
      (templates.zip (matcher target)) h = r
    obtain ⟨res, h'⟩ := r
    cases res with
    | goOn => simp [RwFinal.rewrites]
    | loopError => simp [RwFinal.rewrites]
    | invalidResult => simp [RwFinal.rewrites]
    | pcreError => simp [RwFinal.rewrites]
    | comeback t' =>
      simp only
      cases hp : parseTarget opts false t' with
      | error e =>
        simp only [RwFinal.rewrites, ne_eq, reduceCtorEq, not_false_eq_true, true_and]
        rcases rwCall_comeback hr with ⟨hn, f, _⟩ | ⟨st, f, hs, hl, _, _⟩
        · subst hn; simp [rwRewritesLeft]
        · subst hs; simp only [rwRewritesLeft, rwLoopLimit] at *; omega
      | ok tg =>
        simp only
        rcases rwCall_comeback hr with ⟨hn, f, hh⟩ | ⟨st, f, hs, hl, _, hh⟩
        · subst hn; subst hh
          have := ih tg.target (some { count := 0, finished := f }) (n + 1) k
            (by intro st hst; simp only [Option.some.injEq] at hst; subst hst; simp)
            (by simp only [rwBudget] at hb ⊢; omega)
          refine ⟨this.1, this.2.1, ?_⟩
          have h3 := this.2.2
          simp only [rwRewritesLeft] at h3 ⊢
          omega
        · subst hs; subst hh
          simp only [rwLoopLimit] at hl
          have := ih tg.target (some { count := st.count + 1, finished := f }) (n + 1) k
            (by intro st' hst; simp only [Option.some.injEq] at hst; subst hst; simp; omega)
            (by simp only [rwBudget] at hb ⊢; omega)
          refine ⟨this.1, this.2.1, ?_⟩
          have h3 := this.2.2
          simp only [rwRewritesLeft] at h3 ⊢
          omega

theorem rwCall_goOn {ridx : Nat} {cond : Option Caps} {url : UrlParts}
    {rules : List (Bytes × MatchRes)} {h h1 : Option RwState}
    (hc : rwCall ridx cond url rules h = (.goOn, h1)) :
    h1 = h.map fun st => { st with count := st.count + 1 } := by
  unfold rwCall at hc
  cases h with
  | none =>
    simp only [Option.map_none] at hc ⊢
    unfold rwCall.body at hc
    split at hc
    · split at hc <;> simp at hc
    · simp at hc
    · simp only [Prod.mk.injEq, true_and] at hc; exact hc.symm
  | some st =>
    simp only [Option.map_some] at hc ⊢
    split at hc
    · simp at hc
    · split at hc
      · simp only [Prod.mk.injEq, true_and] at hc; exact hc.symm
      · unfold rwCall.body at hc
        split at hc
        · split at hc <;> simp at hc
        · simp at hc
        · simp only [Prod.mk.injEq, true_and] at hc; exact hc.symm

/-- state after the uri hook returned GO_ON: unchanged, or the counter advanced by one -/
theorem rwUri_goOn {ridx : Nat} {cond : Option Caps} {url : UrlParts}
    {rules : List (Bytes × MatchRes)} {h h1 : Option RwState}
    (hc : rwUri ridx cond url rules h = (.goOn, h1)) :
    h1 = h ∨ h1 = h.map fun st => { st with count := st.count + 1 } := by
  unfold rwUri at hc
  split at hc
  · left; simp only [Prod.mk.injEq, true_and] at hc; exact hc.symm
  · right; exact rwCall_goOn hc

theorem rwUri_comeback {ridx : Nat} {cond : Option Caps} {url : UrlParts}
    {rules : List (Bytes × MatchRes)} {h h' : Option RwState} {t' : Bytes}
    (hc : rwUri ridx cond url rules h = (.comeback t', h')) :
    (h = none ∧ ∃ f, h' = some { count := 0, finished := f }) ∨
    (∃ st f, h = some st ∧ st.count + 1 ≤ rwLoopLimit ∧ st.finished = false ∧
        h' = some { count := st.count + 1, finished := f }) := by
  unfold rwUri at hc
  split at hc
  · simp at hc
  · exact rwCall_comeback hc

theorem rwPhysical_comeback {hs : Bool} {kind : FsKind} {ridx : Nat} {cond : Option Caps} {url : UrlParts}
    {rules : List (Bytes × MatchRes)} {h h' : Option RwState} {t' : Bytes}
    (hc : rwPhysical hs kind ridx cond url rules h = (.comeback t', h')) :
    (h = none ∧ ∃ f, h' = some { count := 0, finished := f }) ∨
    (∃ st f, h = some st ∧ st.count + 1 ≤ rwLoopLimit ∧ st.finished = false ∧
        h' = some { count := st.count + 1, finished := f }) := by
  unfold rwPhysical at hc
  split at hc
  · simp at hc
  · split at hc
    · simp at hc
    · split at hc
      · simp at hc
      · exact rwCall_comeback hc

/-- a COMEBACK from either hook strictly lowers the budget and keeps the counter within the limit -/
theorem comeback_budget {h h' : Option RwState}
    (hcb : (h = none ∧ ∃ f, h' = some { count := 0, finished := f }) ∨
      (∃ st f, h = some st ∧ st.count + 1 ≤ rwLoopLimit ∧ st.finished = false ∧
        h' = some { count := st.count + 1, finished := f })) :
    rwBudget h' + 1 ≤ rwBudget h ∧ rwRewritesLeft h' + 1 ≤ rwRewritesLeft h ∧
    (∀ st, h' = some st → st.count ≤ 100) := by
  rcases hcb with ⟨hn, f, hh⟩ | ⟨st, f, hs, hl, _, hh⟩
  · subst hn; subst hh
    refine ⟨by simp [rwBudget], by simp [rwRewritesLeft], ?_⟩
    intro st hst; simp only [Option.some.injEq] at hst; subst hst; simp
  · subst hs; subst hh
    simp only [rwLoopLimit] at hl
    refine ⟨by simp only [rwBudget]; omega, by simp only [rwRewritesLeft]; omega, ?_⟩
    intro st' hst; simp only [Option.some.injEq] at hst; subst hst; simp; omega

/-- the budget after the uri hook returned GO_ON is not larger than before -/
theorem goOn_budget {h h1 : Option RwState}
    (hg : h1 = h ∨ h1 = h.map fun st => { st with count := st.count + 1 }) :
    rwBudget h1 ≤ rwBudget h ∧ rwRewritesLeft h1 ≤ rwRewritesLeft h := by
  rcases hg with hg | hg
  · subst hg; simp
  · subst hg
    cases h with
    | none => simp
    | some st => simp only [Option.map_some, rwBudget, rwRewritesLeft]; omega

/-- the whole rewrite stage (both hooks, any per-pass configuration and filesystem) is bounded -/
theorem rwRunG_bounded (pass : Bytes → RwPass) (opts : Opts) (scheme authority serverName : Bytes) (port : Nat) :
    ∀ (fuel : Nat) (target : Bytes) (h : Option RwState) (n k : Nat),
      (∀ st, h = some st → st.count ≤ 100) → rwBudget h ≤ fuel →
      rwRunG pass opts scheme authority serverName port (fuel + k) target h n =
        rwRunG pass opts scheme authority serverName port fuel target h n ∧
      rwRunG pass opts scheme authority serverName port fuel target h n ≠ .outOfFuel ∧
      (rwRunG pass opts scheme authority serverName port fuel target h n).rewrites ≤ n + rwRewritesLeft h := by
  intro fuel
  induction fuel with
  | zero =>
    intro target h n k hc hb
    have := rwBudget_pos h hc
    omega
  | succ fuel ih =>
    intro target h n k hc hb
    have e : fuel + 1 + k = (fuel + k) + 1 := by omega
    rw [e]
    simp only [rwRunG]
    generalize hu : rwUri (pass target).uriIdx (pass target).cond
      (requestUrl scheme authority serverName port target) (pass target).uriRules h = ru
    obtain ⟨res, h1⟩ := ru
    -- what happens after a COMEBACK with state h' whose budget is below h's
    have again : ∀ (t' : Bytes) (h' : Option RwState),
        rwBudget h' + 1 ≤ rwBudget h → rwRewritesLeft h' + 1 ≤ rwRewritesLeft h →
        (∀ st, h' = some st → st.count ≤ 100) →
        (match parseTarget opts false t' with
         | .error e => RwFinal.status e (n + 1)
         | .ok tg => rwRunG pass opts scheme authority serverName port (fuel + k) tg.target h' (n + 1)) =
        (match parseTarget opts false t' with
         | .error e => RwFinal.status e (n + 1)
         | .ok tg => rwRunG pass opts scheme authority serverName port fuel tg.target h' (n + 1)) ∧
        (match parseTarget opts false t' with
         | .error e => RwFinal.status e (n + 1)
         | .ok tg => rwRunG pass opts scheme authority serverName port fuel tg.target h' (n + 1)) ≠ .outOfFuel ∧
        (match parseTarget opts false t' with
         | .error e => RwFinal.status e (n + 1)
         | .ok tg => rwRunG pass opts scheme authority serverName port fuel tg.target h' (n + 1)).rewrites
          ≤ n + rwRewritesLeft h := by
      intro t' h' hb' hr' hc'
      cases parseTarget opts false t' with
      | error e => simp only [RwFinal.rewrites, ne_eq, reduceCtorEq, not_false_eq_true, true_and]; omega
      | ok tg =>
        simp only
        have := ih tg.target h' (n + 1) k hc' (by omega)
        exact ⟨this.1, this.2.1, by have := this.2.2; omega⟩
    cases res with
    | comeback t' =>
      simp only
      obtain ⟨b1, b2, b3⟩ := comeback_budget (rwUri_comeback hu)
      exact again t' _ b1 b2 b3
    | goOn =>
      simp only
      obtain ⟨g1, g2⟩ := goOn_budget (rwUri_goOn hu)
      generalize hp : rwPhysical (pass target).handlerSet (pass target).kind (pass target).nfIdx (pass target).cond
        (requestUrl scheme authority serverName port target) (pass target).nfRules h1 = rp
      obtain ⟨res2, h2⟩ := rp
      cases res2 with
      | comeback t' =>
        simp only
        obtain ⟨b1, b2, b3⟩ := comeback_budget (rwPhysical_comeback hp)
        exact again t' _ (by omega) (by omega) b3
      | goOn => simp [RwFinal.rewrites]
      | loopError => simp [RwFinal.rewrites]
      | invalidResult => simp [RwFinal.rewrites]
      | pcreError => simp [RwFinal.rewrites]
    | loopError => simp [RwFinal.rewrites]
    | invalidResult => simp [RwFinal.rewrites]
    | pcreError => simp [RwFinal.rewrites]

/-! ### evhost -/

theorem slice_infix (a : Bytes) (x y : Nat) : (a.drop x).take y <:+: a :=
  (List.take_prefix _ _).isInfix.trans (List.drop_suffix _ _).isInfix

theorem evScanLabels_infix (a : Bytes) : ∀ (i col k : Nat) (acc : List (Nat × Bytes)),
    (∀ e ∈ acc, e.2 <:+: a) → ∀ e ∈ evScanLabels a i col k acc, e.2 <:+: a := by
  intro i
  induction i with
  | zero =>
    intro col k acc h e he
    simp only [evScanLabels] at he
    split at he
    · simp only [List.mem_cons] at he
      rcases he with he | he
      · subst he; exact (List.take_prefix _ _).isInfix
      · exact h e he
    · exact h e he
  | succ i ih =>
    intro col k acc h e he
    simp only [evScanLabels] at he
    split at he
    · split at he
      · refine ih _ _ _ ?_ e he
        intro e' he'
        simp only [List.mem_cons] at he'
        rcases he' with he' | he'
        · subst he'; exact slice_infix a _ _
        · exact h e' he'
      · exact ih _ _ _ h e he
    · exact ih _ _ _ h e he

theorem evParseHost_infix (a : Bytes) : ∀ e ∈ evParseHost a, e.2 <:+: a := by
  intro e he
  unfold evParseHost at he
  simp only at he
  split at he
  · split at he
    · simp only [List.mem_singleton] at he; subst he; exact List.infix_refl _
    · split at he
      · simp only [List.mem_singleton] at he; subst he; exact (List.take_prefix _ _).isInfix
      · simp at he
  · generalize evScanDomain a a.length a.length true = pc at he
    obtain ⟨ptr, col⟩ := pc
    simp only at he
    split at he
    · simp only [List.mem_cons, List.mem_reverse] at he
      rcases he with he | he
      · subst he; exact slice_infix a _ _
      · exact evScanLabels_infix a _ _ _ [] (by simp) e he
    · simp only [List.mem_singleton] at he; subst he; exact slice_infix a _ _

theorem evLookup_mem {tbl : List (Nat × Bytes)} {n : Nat} {v : Bytes} (h : evLookup tbl n = some v) :
    ∃ e ∈ tbl, e.2 = v := by
  unfold evLookup at h
  simp only [Option.map_eq_some_iff] at h
  obtain ⟨e, he, hv⟩ := h
  exact ⟨e, by simpa using List.mem_of_find?_eq_some he, hv⟩

theorem mem_takeWhile_imp {p : UInt8 → Bool} {x : UInt8} : ∀ {l : List UInt8}, x ∈ l.takeWhile p → p x = true
  | [], h => by simp at h
  | a :: l, h => by
    rw [List.takeWhile_cons] at h
    split at h
    · simp only [List.mem_cons] at h
      rcases h with h | h
      · subst h; assumption
      · exact mem_takeWhile_imp h
    · simp at h

theorem getD_zero_or_mem (v : List UInt8) (i : Nat) : v.getD i 0 = 0 ∨ v.getD i 0 ∈ v := by
  rw [List.getD_eq_getElem?_getD]
  cases h : v[i]? with
  | none => left; simp
  | some x => right; simp only [Option.getD_some]; exact List.mem_of_getElem? h

theorem not_mem_of_infix {x : UInt8} {v a : Bytes} (h : v <:+: a) (hx : x ∉ a) : x ∉ v :=
  fun hv => hx (h.subset hv)

/-! ### reference interpreter of substitution templates (specification level) -/

/-- the documented modifiers of `${...}` / `%{...}` -/
inductive Modifier
  | esc | escape | escnde | escpsnde | noesc | noescape | tolower | toupper | encb64u | decb64u
deriving Repr, DecidableEq

/-- how a modifier is written (including the ':' that ends it) -/
def Modifier.name : Modifier → Bytes
  | .esc => ofString "esc:" | .escape => ofString "escape:" | .escnde => ofString "escnde:"
  | .escpsnde => ofString "escpsnde:" | .noesc => ofString "noesc:" | .noescape => ofString "noescape:"
  | .tolower => ofString "tolower:" | .toupper => ofString "toupper:" | .encb64u => ofString "encb64u:"
  | .decb64u => ofString "decb64u:"

/-- the recoding a modifier is documented to select (burl.h flag) -/
def Modifier.flag : Modifier → Nat
  | .esc => Extracted.burlEncodeAll | .escape => Extracted.burlEncodeAll | .escnde => Extracted.burlEncodeNde
  | .escpsnde => Extracted.burlEncodePsnde | .noesc => Extracted.burlEncodeNone
  | .noescape => Extracted.burlEncodeNone | .tolower => Extracted.burlToLower
  | .toupper => Extracted.burlToUpper | .encb64u => Extracted.burlEncodeB64u
  | .decb64u => Extracted.burlDecodeB64u

/-- the recoding keyvalue.c selects for the modifier: the flag *extracted from the C function* -/
def Modifier.kvFlag : Modifier → Nat
  | .esc => Extracted.kvMod_esc | .escape => Extracted.kvMod_escape | .escnde => Extracted.kvMod_escnde
  | .escpsnde => Extracted.kvMod_escpsnde | .noesc => Extracted.kvMod_noesc
  | .noescape => Extracted.kvMod_noescape | .tolower => Extracted.kvMod_tolower
  | .toupper => Extracted.kvMod_toupper | .encb64u => Extracted.kvMod_encb64u
  | .decb64u => Extracted.kvMod_decb64u

/-- keyvalue.c's modifier -> recoding map is the documented one (and captures default to escpsnde) -/
def ModifierMapAsDocumented : Prop :=
  (∀ m : Modifier, m.kvFlag = m.flag) ∧ Extracted.kvMod_default = Extracted.burlEncodePsnde ∧
  -- a case modifier on its own does not suppress the default encoding of a capture
  Extracted.kvMod_bare_tolower = Extracted.burlToLower ||| Extracted.burlEncodePsnde ∧
  Extracted.kvMod_bare_toupper = Extracted.burlToUpper ||| Extracted.burlEncodePsnde

/-- the documented modifiers as (name, flag) pairs -/
def documentedModifiers : List (Bytes × Nat) :=
  [Modifier.esc, .escape, .escnde, .escpsnde, .noesc, .noescape, .tolower, .toupper, .encb64u, .decb64u].map
    fun m => (m.name, m.flag)

/-- what a `${...}` placeholder inserts -/
inductive Item
  | cap (d : UInt8)             -- capture N, one digit
  | cap2 (d1 d2 : UInt8)        -- capture NN, two digits
  | scheme | authority | port | path | query | qsa
deriving Repr, DecidableEq

def Item.render : Item → Bytes
  | .cap d => [d]
  | .cap2 d1 d2 => [d1, d2]
  | .scheme => ofString "url.scheme" | .authority => ofString "url.authority" | .port => ofString "url.port"
  | .path => ofString "url.path" | .query => ofString "url.query" | .qsa => ofString "qsa"

/-- tokens of a well-formed template -/
inductive Tok
  | lit (s : Bytes)                                        -- text without '$' and '%'
  | sigil (c : UInt8)                                      -- "$$" / "%%": a literal '$' / '%'
  | raw (c d : UInt8)                                      -- $N / %N
  | ext (c : UInt8) (mods : List Modifier) (item : Item)   -- ${mod:...:item} / %{mod:...:item}
deriving Repr, DecidableEq

def Tok.render : Tok → Bytes
  | .lit s => s
  | .sigil c => [c, c]
  | .raw c d => [c, d]
  | .ext c mods item => c :: lbrace :: (mods.flatMap Modifier.name ++ item.render ++ [rbrace])

def Item.WF : Item → Prop
  | .cap d => isDigit d = true
  | .cap2 d1 d2 => isDigit d1 = true ∧ isDigit d2 = true
  | _ => True

def Tok.WF : Tok → Prop
  | .lit s => ∀ c ∈ s, isSigil c = false
  | .sigil c => isSigil c = true
  | .raw c d => isSigil c = true ∧ isDigit d = true
  | .ext c _ item => isSigil c = true ∧ item.WF

/-- capture N of the rule (`$`) or of the enclosing condition (`%`), with the bytes behind it -/
def capOf (env : Env) (c : UInt8) (n : Nat) : Bytes × Bytes :=
  if c = dollar then env.rule.get n
  else match env.cond with
    | some cd => cd.get n
    | none => ([], [])

/-- what an item appends, given the recoding flags `fl` selected by the modifiers before it -/
def Item.apply (env : Env) (c : UInt8) (fl : Nat) : Item → Bytes → Bytes
  | .cap d, out =>
    -- captures get the default encoding unless an encoding modifier was given (`capFlags`)
    out ++ burlAppend (capFlags fl) (capOf env c (d.toNat - 48)).1 (capOf env c (d.toNat - 48)).2
  | .cap2 d1 d2, out =>
    out ++ burlAppend (capFlags fl) (capOf env c ((d1.toNat - 48) * 10 + (d2.toNat - 48))).1
             (capOf env c ((d1.toNat - 48) * 10 + (d2.toNat - 48))).2
  | .scheme, out => out ++ burlAppend fl (env.url.scheme.getD []) []
  | .authority, out => out ++ burlAppend fl (env.url.authority.getD []) []
  | .port, out => out ++ natToDec env.url.port
  | .path, out =>
    out ++ burlAppend fl (env.url.path.takeWhile (· ≠ qmark))
             (env.url.path.drop (env.url.path.takeWhile (· ≠ qmark)).length)
  | .query, out => out ++ burlAppend fl (env.url.query.getD []) []
  | .qsa, out => qsaAppend env.url fl out

/-- the reference semantics of one token: the result so far ↦ the result after the token -/
def Tok.interp (env : Env) : Tok → Bytes → Bytes
  | .lit s, out => out ++ s
  | .sigil c, out => out ++ [c]
  | .raw c d, out => out ++ (capOf env c (d.toNat - 48)).1
  | .ext c mods item, out => item.apply env c (mods.foldl (fun f m => f ||| m.flag) 0) out

/-- the reference interpreter: expand a token list -/
def interpret (env : Env) (toks : List Tok) (out : Bytes) : Bytes :=
  toks.foldl (fun o tk => tk.interp env o) out

theorem capAppend_eq (env : Env) (c : UInt8) (n fl : Nat) :
    capAppend env c n fl = burlAppend fl (capOf env c n).1 (capOf env c n).2 := by
  unfold capAppend capOf
  by_cases hc : c = dollar
  · simp [hc]
  · simp only [hc, if_false]
    cases env.cond with
    | none => simp [burlAppend_nil]
    | some cd => simp

/-- pcre_keyvalue_buffer_subst_ext() recognises every documented modifier name and ORs in the flag
    keyvalue.c associates with it -/
theorem extGo_modifier (m : Modifier) (env : Env) (sigil : UInt8) (out p : Bytes) (pos fl : Nat) :
    extGo env sigil out (m.name ++ p) 0 pos fl = extGo env sigil out p 0 (pos + m.name.length) (fl ||| m.kvFlag) := by
  have e1 : ofString "esc:" = [101, 115, 99, 58] := by decide
  have e2 : ofString "escape:" = [101, 115, 99, 97, 112, 101, 58] := by decide
  have e3 : ofString "escnde:" = [101, 115, 99, 110, 100, 101, 58] := by decide
  have e4 : ofString "escpsnde:" = [101, 115, 99, 112, 115, 110, 100, 101, 58] := by decide
  have e5 : ofString "noesc:" = [110, 111, 101, 115, 99, 58] := by decide
  have e6 : ofString "noescape:" = [110, 111, 101, 115, 99, 97, 112, 101, 58] := by decide
  have e7 : ofString "tolower:" = [116, 111, 108, 111, 119, 101, 114, 58] := by decide
  have e8 : ofString "toupper:" = [116, 111, 117, 112, 112, 101, 114, 58] := by decide
  have e9 : ofString "encb64u:" = [101, 110, 99, 98, 54, 52, 117, 58] := by decide
  have e10 : ofString "decb64u:" = [100, 101, 99, 98, 54, 52, 117, 58] := by decide
  cases m <;> simp only [Modifier.name, Modifier.kvFlag, e1, e2, e3, e4, e5, e6, e7, e8, e9, e10] <;>
    simp [extGo, startsWith, sEsc, sApe, sNde, sPsnde, sNo, sEscC, sEscapeC, sTo, sLowerC, sUpperC,
          sUrlDot, sQsa, sEncB64, sDecB64, ofString, isDigit, rbrace, colon]

theorem extGo_modifiers (env : Env) (sigil : UInt8) (out p : Bytes) :
    ∀ (mods : List Modifier) (pos fl : Nat),
      extGo env sigil out (mods.flatMap Modifier.name ++ p) 0 pos fl =
        extGo env sigil out p 0 (pos + (mods.flatMap Modifier.name).length)
          (mods.foldl (fun f m => f ||| m.kvFlag) fl) := by
  intro mods
  induction mods with
  | nil => intro pos fl; simp
  | cons m ms ih =>
    intro pos fl
    simp only [List.flatMap_cons, List.append_assoc, List.foldl_cons, List.length_append]
    rw [extGo_modifier, ih]
    congr 1
    omega

/-- the item that ends a placeholder, after any modifiers (`fl` = flags selected so far) -/
theorem extGo_item (env : Env) (c : UInt8) (out t : Bytes) (pos fl : Nat) (item : Item) (hw : item.WF) :
    extGo env c out (item.render ++ rbrace :: t) 0 pos fl =
      some (item.apply env c fl out, pos + item.render.length + 1) := by
  have e1 : ofString "url.scheme" = [117, 114, 108, 46, 115, 99, 104, 101, 109, 101] := by decide
  have e2 : ofString "url.authority" = [117, 114, 108, 46, 97, 117, 116, 104, 111, 114, 105, 116, 121] := by decide
  have e3 : ofString "url.port" = [117, 114, 108, 46, 112, 111, 114, 116] := by decide
  have e4 : ofString "url.path" = [117, 114, 108, 46, 112, 97, 116, 104] := by decide
  have e5 : ofString "url.query" = [117, 114, 108, 46, 113, 117, 101, 114, 121] := by decide
  have e6 : ofString "qsa" = [113, 115, 97] := by decide
  cases item with
  | cap d =>
    simp only [Item.WF] at hw
    simp only [Item.render, List.cons_append, List.nil_append, extGo, hw, if_true]
    simp [extNumber, isDigit, rbrace, idxOf?, capAppend_eq, Item.apply]
  | cap2 d1 d2 =>
    simp only [Item.WF] at hw
    simp only [Item.render, List.cons_append, List.nil_append, extGo, hw.1, if_true]
    simp [extNumber, hw.2, rbrace, idxOf?, capAppend_eq, Item.apply]
  | scheme =>
    simp only [Item.render, e1, List.cons_append, List.nil_append]
    simp only [extGo, startsWith, sEsc, sNo, sTo, sUrlDot, sScheme, ofString, isDigit, rbrace]
    cases h : env.url.scheme <;> simp [Item.apply, h, burlAppend_nil]
  | authority =>
    simp only [Item.render, e2, List.cons_append, List.nil_append]
    simp only [extGo, startsWith, sEsc, sNo, sTo, sUrlDot, sScheme, sAuthority, ofString, isDigit, rbrace]
    cases h : env.url.authority <;> simp [Item.apply, h, burlAppend_nil]
  | port =>
    simp only [Item.render, e3, List.cons_append, List.nil_append]
    simp only [extGo, startsWith, sEsc, sNo, sTo, sUrlDot, sScheme, sAuthority, sPort, ofString, isDigit, rbrace]
    simp [Item.apply]
  | path =>
    simp only [Item.render, e4, List.cons_append, List.nil_append]
    simp only [extGo, startsWith, sEsc, sNo, sTo, sUrlDot, sScheme, sAuthority, sPort, sPath, ofString, isDigit, rbrace]
    simp [Item.apply]
  | query =>
    simp only [Item.render, e5, List.cons_append, List.nil_append]
    simp only [extGo, startsWith, sEsc, sNo, sTo, sUrlDot, sScheme, sAuthority, sPort, sPath, sQuery, ofString,
               isDigit, rbrace]
    cases h : env.url.query <;> simp [Item.apply, h, burlAppend_nil]
  | qsa =>
    simp only [Item.render, e6, List.cons_append, List.nil_append]
    simp only [extGo, startsWith, sEsc, sNo, sTo, sUrlDot, sQsa, ofString, isDigit, rbrace]
    simp [Item.apply]

/-- one token of a well-formed template is expanded by pcre_keyvalue_buffer_subst() exactly as the
    reference semantics says -/
theorem substGo_tok (hmap : ModifierMapAsDocumented) (env : Env) (tk : Tok) (hw : tk.WF) (t out : Bytes) :
    substGo env (tk.render ++ t) 0 out = substGo env t 0 (tk.interp env out) := by
  cases tk with
  | lit s => exact substGo_literal env s t out hw
  | sigil c =>
    simp only [Tok.WF, isSigil] at hw
    simp only [Tok.render, List.cons_append, List.nil_append, Tok.interp]
    conv => lhs; unfold substGo
    have hb : c ≠ lbrace := by
      intro e; subst e; simp [lbrace, dollar, pct] at hw
    have hd : isDigit c = false := by
      rcases Bool.or_eq_true _ _ ▸ hw with h | h <;> simp at h <;> subst h <;> decide
    simp only [hw, if_true, hb, hd, if_false, Bool.false_eq_true]
    rw [substGo_skip]; simp
  | raw c d =>
    simp only [Tok.WF, isSigil] at hw
    obtain ⟨hc, hd⟩ := hw
    have hb : d ≠ lbrace := by
      intro e; subst e; simp [isDigit, lbrace] at hd
    simp only [Tok.render, List.cons_append, List.nil_append, Tok.interp]
    conv => lhs; unfold substGo
    simp only [hc, if_true, hb, hd, if_false]
    rw [substGo_skip, capAppend_eq, burlAppend_zero]; simp
  | ext c mods item =>
    simp only [Tok.WF] at hw
    obtain ⟨hc, hi⟩ := hw
    simp only [Tok.render, List.cons_append, List.append_assoc, Tok.interp]
    rw [substGo_brace env c hc]
    simp only [substExt, List.nil_append]
    rw [extGo_modifiers, extGo_item env c out t _ _ item hi]
    simp only [hmap.1]
    have hl : (mods.flatMap Modifier.name ++ item.render ++ [rbrace]).length =
        0 + (mods.flatMap Modifier.name).length + item.render.length + 1 := by
      simp only [List.length_append, List.length_cons, List.length_nil]; omega
    have hs : mods.flatMap Modifier.name ++ (item.render ++ rbrace :: t) =
        (mods.flatMap Modifier.name ++ item.render ++ [rbrace]) ++ t := by simp
    rw [hs, ← hl, List.drop_left]

/-- pcre_keyvalue_buffer_subst() on a well-formed template = the reference interpreter -/
theorem substGo_interpret (hmap : ModifierMapAsDocumented) (env : Env) :
    ∀ (toks : List Tok), (∀ tk ∈ toks, tk.WF) → ∀ (t out : Bytes),
    substGo env (toks.flatMap Tok.render ++ t) 0 out = substGo env t 0 (interpret env toks out) := by
  intro toks
  induction toks with
  | nil => intro _ t out; simp [interpret]
  | cons tk rest ih =>
    intro hw t out
    simp only [List.flatMap_cons, List.append_assoc, interpret, List.foldl_cons]
    rw [substGo_tok hmap env tk (hw tk (by simp))]
    exact ih (fun x hx => hw x (by simp [hx])) t _

end LtVerif
