/-
  Helper lemmas for C20 (Model/BurlAppend.lean, Model/KeyValue.lean).
-/
import LtVerif.Model.KeyValue
namespace LtVerif
open B

/-- a statement about all bytes follows from its 256 instances -/
theorem forall_uint8 {P : UInt8 → Prop} (h : ∀ n : Fin 256, P (UInt8.ofNat n.val)) : ∀ b, P b := by
  intro b
  have := h ⟨b.toNat, b.toNat_lt⟩
  simpa using this

/-! ### base64url round trip -/

theorem b64u_tables_inverse :
    ∀ n : Fin 64, b64uRev (b64uChar n.val) = (n.val : Int) ∧ b64uChar n.val ≠ 0 := by decide

/-- one decoder step on a digit of the alphabet -/
theorem b64uDecGo_digit (n : Nat) (hn : n < 64) (rest : Bytes) (acc i : Nat) (out : Bytes) :
    b64uDecGo (b64uChar n :: rest) acc i out =
      if i = 3 then
        b64uDecGo rest 0 0
          (out ++ [((acc * 64 + n) / 65536 % 256).toUInt8, ((acc * 64 + n) / 256 % 256).toUInt8,
                   ((acc * 64 + n) % 256).toUInt8])
      else b64uDecGo rest (acc * 64 + n) (i + 1) out := by
  obtain ⟨h1, h2⟩ := b64u_tables_inverse ⟨n, hn⟩
  simp only at h1 h2
  rw [b64uDecGo]
  simp only [h1]
  have e1 : ((n : Int) = -2) = False := eq_false (by omega)
  have e2 : ((n : Int) = -3) = False := eq_false (by omega)
  have e3 : ((n : Int) < 0) = False := eq_false (by omega)
  simp [e1, e2, e3, h2]

theorem toUInt8_toNat (x : UInt8) : (x.toNat).toUInt8 = x := by simp

theorem b64uDecGo_enc (x : Bytes) : ∀ out : Bytes, b64uDecGo (b64uEnc x) 0 0 out = out ++ x := by
  induction x using b64uEnc.induct with
  | case1 => intro out; simp [b64uEnc, b64uDecGo, b64Finish]
  | case2 a =>
    intro out
    have ha := a.toNat_lt
    simp only [b64uEnc]
    rw [b64uDecGo_digit _ (by omega), if_neg (by omega), b64uDecGo_digit _ (by omega), if_neg (by omega)]
    simp only [b64uDecGo, b64Finish]
    have : (0 * 64 + a.toNat * 16 / 64 % 64) * 64 + a.toNat * 16 % 64 = a.toNat * 16 := by omega
    simp only [this]
    have : a.toNat * 16 / 16 % 256 = a.toNat := by omega
    simp
  | case3 a b =>
    intro out
    have ha := a.toNat_lt
    have hb := b.toNat_lt
    simp only [b64uEnc]
    rw [b64uDecGo_digit _ (by omega), if_neg (by omega), b64uDecGo_digit _ (by omega), if_neg (by omega),
        b64uDecGo_digit _ (by omega), if_neg (by omega)]
    simp only [b64uDecGo, b64Finish]
    have : ((0 * 64 + (a.toNat * 1024 + b.toNat * 4) / 4096 % 64) * 64 +
              (a.toNat * 1024 + b.toNat * 4) / 64 % 64) * 64 + (a.toNat * 1024 + b.toNat * 4) % 64
            = a.toNat * 1024 + b.toNat * 4 := by omega
    simp only [this]
    have e1 : (a.toNat * 1024 + b.toNat * 4) / 1024 % 256 = a.toNat := by omega
    have e2 : (a.toNat * 1024 + b.toNat * 4) / 4 % 256 = b.toNat := by omega
    simp [e1, e2]
  | case4 a b c rest ih =>
    intro out
    have ha := a.toNat_lt
    have hb := b.toNat_lt
    have hc := c.toNat_lt
    simp only [b64uEnc]
    rw [b64uDecGo_digit _ (by omega), if_neg (by omega), b64uDecGo_digit _ (by omega), if_neg (by omega),
        b64uDecGo_digit _ (by omega), if_neg (by omega), b64uDecGo_digit _ (by omega), if_pos (by omega)]
    have : (((0 * 64 + (a.toNat * 65536 + b.toNat * 256 + c.toNat) / 262144 % 64) * 64 +
              (a.toNat * 65536 + b.toNat * 256 + c.toNat) / 4096 % 64) * 64 +
              (a.toNat * 65536 + b.toNat * 256 + c.toNat) / 64 % 64) * 64 +
              (a.toNat * 65536 + b.toNat * 256 + c.toNat) % 64
            = a.toNat * 65536 + b.toNat * 256 + c.toNat := by omega
    simp only [this]
    have e1 : (a.toNat * 65536 + b.toNat * 256 + c.toNat) / 65536 % 256 = a.toNat := by omega
    have e2 : (a.toNat * 65536 + b.toNat * 256 + c.toNat) / 256 % 256 = b.toNat := by omega
    have e3 : (a.toNat * 65536 + b.toNat * 256 + c.toNat) % 256 = c.toNat := by omega
    rw [ih]
    simp [e1, e2, e3]

/-! ### percent-encoding -/

def isUCHex (b : UInt8) : Bool := isDigit b || ((65 : UInt8) ≤ b && b ≤ (70 : UInt8))

/-- a string made of unreserved characters and %HH triplets (upper-case hex) only -/
inductive PctSafe : Bytes → Prop
  | nil : PctSafe []
  | unres {b : UInt8} {rest : Bytes} : isUnreserved b = true → PctSafe rest → PctSafe (b :: rest)
  | enc {h l : UInt8} {rest : Bytes} :
      isUCHex h = true → isUCHex l = true → PctSafe rest → PctSafe (pct :: h :: l :: rest)

theorem hexDigitUC_isUCHex :
    ∀ b : UInt8, isUCHex (hexDigitUC (b >>> 4)) = true ∧ isUCHex (hexDigitUC (b &&& 0xf)) = true := by
  apply forall_uint8; set_option maxRecDepth 100000 in decide

theorem encAll_cons (b : UInt8) (s : Bytes) :
    encAll (b :: s) = (if isUnreserved b then [b] else pctEnc b) ++ encAll s := by
  simp [encAll]

theorem encAll_safe (s : Bytes) : PctSafe (encAll s) := by
  induction s with
  | nil => exact .nil
  | cons b s ih =>
    rw [encAll_cons]
    by_cases hb : isUnreserved b = true
    · simp only [hb, if_true, List.singleton_append]; exact .unres hb ih
    · simp only [hb, pctEnc]
      exact .enc (hexDigitUC_isUCHex b).1 (hexDigitUC_isUCHex b).2 ih

/-! ### case mapping -/

/-- no upper-case ASCII letter outside %XX triplets -/
inductive NoUpperOutsidePct : Bytes → Prop
  | nil : NoUpperOutsidePct []
  | byte {b : UInt8} {rest : Bytes} : isUpper b = false → NoUpperOutsidePct rest → NoUpperOutsidePct (b :: rest)
  | triplet {h l : UInt8} {rest : Bytes} :
      isXDigit h = true → isXDigit l = true → NoUpperOutsidePct rest → NoUpperOutsidePct (pct :: h :: l :: rest)

/-- no lower-case ASCII letter outside %XX triplets -/
inductive NoLowerOutsidePct : Bytes → Prop
  | nil : NoLowerOutsidePct []
  | byte {b : UInt8} {rest : Bytes} : isLower b = false → NoLowerOutsidePct rest → NoLowerOutsidePct (b :: rest)
  | triplet {h l : UInt8} {rest : Bytes} :
      isXDigit h = true → isXDigit l = true → NoLowerOutsidePct rest → NoLowerOutsidePct (pct :: h :: l :: rest)

theorem lower_facts : ∀ b : UInt8,
    (isUpper b = true → isUpper (b ||| 0x20) = false ∧ toLower (b ||| 0x20) = toLower b) ∧
    (isLower b = true → isLower (b &&& 0xdf) = false ∧ toLower (b &&& 0xdf) = toLower b) ∧
    (b = pct → isUpper b = false ∧ isLower b = false) := by
  apply forall_uint8; set_option maxRecDepth 100000 in decide

theorem xdigit2_true {rest : Bytes} (h : xdigit2 rest = true) :
    ∃ x y rest', rest = x :: y :: rest' ∧ isXDigit x = true ∧ isXDigit y = true := by
  match rest, h with
  | x :: y :: rest', h =>
    simp only [xdigit2, Bool.and_eq_true] at h
    exact ⟨x, y, rest', rfl, h.1, h.2⟩

theorem lowerSkipPct_noUpper : ∀ s : Bytes, (0 : UInt8) ∉ s → NoUpperOutsidePct (lowerSkipPct s 0)
  | [], _ => by simp [lowerSkipPct]; exact .nil
  | b :: rest, h => by
    have hb : b ≠ 0 := fun e => h (by simp [e])
    have hrest : (0 : UInt8) ∉ rest := fun e => h (by simp [e])
    rw [lowerSkipPct]
    simp only [hb, if_false]
    by_cases hu : isUpper b = true
    · simp only [hu, if_true]
      exact .byte ((lower_facts b).1 hu).1 (lowerSkipPct_noUpper rest hrest)
    · have hu' : isUpper b = false := by simpa using hu
      simp only [hu', Bool.false_eq_true, if_false]
      by_cases hp : (b = pct && xdigit2 rest) = true
      · simp only [hp, if_true]
        simp only [Bool.and_eq_true, decide_eq_true_eq] at hp
        obtain ⟨x, y, rest', hr, hx, hy⟩ := xdigit2_true hp.2
        subst hr
        have hr' : (0 : UInt8) ∉ rest' := fun e => hrest (by simp [e])
        simp only [lowerSkipPct, hp.1]
        exact .triplet hx hy (lowerSkipPct_noUpper rest' hr')
      · simp only [hp, Bool.false_eq_true, if_false]
        exact .byte hu' (lowerSkipPct_noUpper rest hrest)
termination_by s => s.length

theorem upperSkipPct_noLower : ∀ s : Bytes, (0 : UInt8) ∉ s → NoLowerOutsidePct (upperSkipPct s 0)
  | [], _ => by simp [upperSkipPct]; exact .nil
  | b :: rest, h => by
    have hb : b ≠ 0 := fun e => h (by simp [e])
    have hrest : (0 : UInt8) ∉ rest := fun e => h (by simp [e])
    rw [upperSkipPct]
    simp only [hb, if_false]
    by_cases hu : isLower b = true
    · simp only [hu, if_true]
      exact .byte ((lower_facts b).2.1 hu).1 (upperSkipPct_noLower rest hrest)
    · have hu' : isLower b = false := by simpa using hu
      simp only [hu', Bool.false_eq_true, if_false]
      by_cases hp : (b = pct && xdigit2 rest) = true
      · simp only [hp, if_true]
        simp only [Bool.and_eq_true, decide_eq_true_eq] at hp
        obtain ⟨x, y, rest', hr, hx, hy⟩ := xdigit2_true hp.2
        subst hr
        have hr' : (0 : UInt8) ∉ rest' := fun e => hrest (by simp [e])
        simp only [upperSkipPct, hp.1]
        exact .triplet hx hy (upperSkipPct_noLower rest' hr')
      · simp only [hp, Bool.false_eq_true, if_false]
        exact .byte hu' (upperSkipPct_noLower rest hrest)
termination_by s => s.length

/-- case mapping changes nothing but the case of ASCII letters -/
theorem lowerSkipPct_caseOnly (s : Bytes) : ∀ skip, (lowerSkipPct s skip).map toLower = s.map toLower := by
  induction s with
  | nil => intro skip; simp [lowerSkipPct]
  | cons b rest ih =>
    intro skip
    cases skip with
    | succ k => simp [lowerSkipPct, ih]
    | zero =>
      rw [lowerSkipPct]
      by_cases hb : b = 0
      · simp [hb]
      · simp only [hb, if_false]
        by_cases hu : isUpper b = true
        · simp only [hu, if_true, List.map_cons, ih, ((lower_facts b).1 hu).2]
        · simp [hu, ih]

theorem upperSkipPct_caseOnly (s : Bytes) : ∀ skip, (upperSkipPct s skip).map toLower = s.map toLower := by
  induction s with
  | nil => intro skip; simp [upperSkipPct]
  | cons b rest ih =>
    intro skip
    cases skip with
    | succ k => simp [upperSkipPct, ih]
    | zero =>
      rw [upperSkipPct]
      by_cases hb : b = 0
      · simp [hb]
      · simp only [hb, if_false]
        by_cases hu : isLower b = true
        · simp only [hu, if_true, List.map_cons, ih, ((lower_facts b).2.1 hu).2]
        · simp [hu, ih]

/-! ### burl_append -/

theorem burlAppend_zero (s look : Bytes) : burlAppend 0 s look = s := by
  unfold burlAppend
  by_cases h : s = [] <;> simp [h]

theorem burlAppend_nil (flags : Nat) (look : Bytes) : burlAppend flags [] look = [] := by
  simp [burlAppend]

theorem cstr_eq_self : ∀ (b : Bytes), (0 : UInt8) ∉ b → cstr b = b
  | [], _ => rfl
  | x :: rest, h => by
    have hx : x ≠ 0 := fun e => h (by simp [e])
    have hr : (0 : UInt8) ∉ rest := fun e => h (by simp [e])
    simp [cstr, hx, cstr_eq_self rest hr]

/-! ### template substitution -/

def isSigil (c : UInt8) : Bool := c = dollar || c = pct

theorem substGo_skip (env : Env) : ∀ (l : Bytes) (k : Nat) (out : Bytes),
    substGo env l k out = substGo env (l.drop k) 0 out := by
  intro l
  induction l with
  | nil => intro k out; simp [substGo]
  | cons c rest ih =>
    intro k out
    cases k with
    | zero => simp
    | succ k => simp [substGo, ih]

theorem substGo_plain (env : Env) (c : UInt8) (t out : Bytes) (hc : isSigil c = false) :
    substGo env (c :: t) 0 out = substGo env t 0 (out ++ [c]) := by
  conv => lhs; unfold substGo
  simp only [isSigil, Bool.or_eq_false_iff, decide_eq_false_iff_not] at hc
  simp [hc]

theorem substGo_literal (env : Env) (lit : Bytes) : ∀ (t out : Bytes), (∀ c ∈ lit, isSigil c = false) →
    substGo env (lit ++ t) 0 out = substGo env t 0 (out ++ lit) := by
  induction lit with
  | nil => intro t out _; simp
  | cons c rest ih =>
    intro t out h
    rw [List.cons_append, substGo_plain env c _ _ (h c (by simp)), ih t _ (fun x hx => h x (by simp [hx]))]
    simp

theorem substGo_brace (env : Env) (c : UInt8) (hc : isSigil c = true) (p out : Bytes) :
    substGo env (c :: lbrace :: p) 0 out =
      match substExt env c out p with
      | none => out
      | some (out', k) => substGo env (p.drop k) 0 out' := by
  conv => lhs; unfold substGo
  simp only [isSigil] at hc
  simp only [hc, if_true, List.drop_one, List.tail_cons]
  cases substExt env c out p with
  | none => rfl
  | some r => obtain ⟨out', k⟩ := r; simp [substGo_skip env (lbrace :: p) (k + 1)]

/-! ### first match -/

theorem processFrom_skip (cond : Option Caps) (url : UrlParts) (subject : Bytes) :
    ∀ (pre rest : List (Bytes × MatchRes)) (base : Nat), (∀ r ∈ pre, r.2 = .nomatch) →
    processFrom cond url subject (pre ++ rest) base = processFrom cond url subject rest (base + pre.length) := by
  intro pre
  induction pre with
  | nil => intro rest base _; simp
  | cons r pre ih =>
    intro rest base h
    obtain ⟨t, m⟩ := r
    have hm : m = .nomatch := h (t, m) (by simp)
    subst hm
    rw [List.cons_append, processFrom, ih rest (base + 1) (fun r hr => h r (by simp [hr]))]
    simp only [List.length_cons]
    congr 1
    omega

/-! ### rewrite loop -/

/-- calls of process_rewrite_rules that can still happen from a state -/
def rwBudget : Option RwState → Nat
  | none => 102
  | some st => 101 - st.count

/-- rewrites that can still happen from a state -/
def rwRewritesLeft : Option RwState → Nat
  | none => 101
  | some st => 100 - st.count

theorem rwCall_body_comeback {ridx : Nat} {cond : Option Caps} {url : UrlParts}
    {rules : List (Bytes × MatchRes)} {h1 h' : Option RwState} {t' : Bytes}
    (h : rwCall.body ridx cond url rules h1 = (.comeback t', h')) :
    t'.head? = some slash ∧
    ∃ m f, process cond url url.path rules = .finished m t' ∧
      h' = some { count := (h1.getD { count := 0, finished := false }).count, finished := f } ∧
      (m < ridx → f = true) := by
  unfold rwCall.body at h
  split at h
  · rename_i m res hp
    split at h
    · rename_i hs
      simp only [Prod.mk.injEq, RwRes.comeback.injEq] at h
      obtain ⟨h1e, h2e⟩ := h
      subst h1e
      refine ⟨hs, m, _, hp, h2e.symm, ?_⟩
      intro hm; simp [hm]
    · simp at h
  · simp at h
  · simp at h

theorem rwCall_comeback {ridx : Nat} {cond : Option Caps} {url : UrlParts}
    {rules : List (Bytes × MatchRes)} {h h' : Option RwState} {t' : Bytes}
    (hc : rwCall ridx cond url rules h = (.comeback t', h')) :
    (h = none ∧ ∃ f, h' = some { count := 0, finished := f }) ∨
    (∃ st f, h = some st ∧ st.count + 1 ≤ rwLoopLimit ∧ st.finished = false ∧
        h' = some { count := st.count + 1, finished := f }) := by
  unfold rwCall at hc
  cases h with
  | none =>
    left
    simp only [Option.map_none] at hc
    obtain ⟨_, m, f, _, hh, _⟩ := rwCall_body_comeback hc
    exact ⟨rfl, f, by simpa using hh⟩
  | some st =>
    right
    simp only [Option.map_some] at hc
    split at hc
    · simp at hc
    · rename_i hlim
      split at hc
      · simp at hc
      · rename_i hfin
        obtain ⟨_, m, f, _, hh, _⟩ := rwCall_body_comeback hc
        refine ⟨st, f, rfl, by omega, by simpa using hfin, ?_⟩
        simpa using hh

theorem rwBudget_pos (h : Option RwState) (hc : ∀ st, h = some st → st.count ≤ 100) : 1 ≤ rwBudget h := by
  cases h with
  | none => simp [rwBudget]
  | some st => have := hc st rfl; simp only [rwBudget]; omega

def RwFinal.rewrites : RwFinal → Nat
  | .served _ n => n
  | .status _ n => n
  | .failed _ n => n
  | .outOfFuel => 0

/-- with enough fuel for the remaining budget the loop terminates, more fuel changes nothing,
    and the number of rewrites stays within what is left -/
theorem rwRun_bounded (matcher : Bytes → List MatchRes) (templates : List Bytes) (ridx : Nat)
    (cond : Option Caps) (opts : Opts) (scheme authority : Option Bytes) (port : Nat) :
    ∀ (fuel : Nat) (target : Bytes) (h : Option RwState) (n k : Nat),
      (∀ st, h = some st → st.count ≤ 100) → rwBudget h ≤ fuel →
      rwRun matcher templates ridx cond opts scheme authority port (fuel + k) target h n =
        rwRun matcher templates ridx cond opts scheme authority port fuel target h n ∧
      rwRun matcher templates ridx cond opts scheme authority port fuel target h n ≠ .outOfFuel ∧
      (rwRun matcher templates ridx cond opts scheme authority port fuel target h n).rewrites
        ≤ n + rwRewritesLeft h := by
  intro fuel
  induction fuel with
  | zero =>
    intro target h n k hc hb
    have := rwBudget_pos h hc
    omega
  | succ fuel ih =>
    intro target h n k hc hb
    have e : fuel + 1 + k = (fuel + k) + 1 := by omega
    rw [e]
    simp only [rwRun]
    generalize hr : rwCall ridx cond
      { scheme := scheme, authority := authority, port := port, path := target, query := targetQuery target }
      (templates.zip (matcher target)) h = r
    obtain ⟨res, h'⟩ := r
    cases res with
    | goOn => simp [RwFinal.rewrites]
    | loopError => simp [RwFinal.rewrites]
    | invalidResult => simp [RwFinal.rewrites]
    | pcreError => simp [RwFinal.rewrites]
    | comeback t' =>
      simp only
      cases hp : parseTarget opts false t' with
      | error e =>
        simp only [RwFinal.rewrites, ne_eq, reduceCtorEq, not_false_eq_true, true_and]
        rcases rwCall_comeback hr with ⟨hn, f, _⟩ | ⟨st, f, hs, hl, _, _⟩
        · subst hn; simp [rwRewritesLeft]
        · subst hs; simp only [rwRewritesLeft, rwLoopLimit] at *; omega
      | ok tg =>
        simp only
        rcases rwCall_comeback hr with ⟨hn, f, hh⟩ | ⟨st, f, hs, hl, _, hh⟩
        · subst hn; subst hh
          have := ih tg.target (some { count := 0, finished := f }) (n + 1) k
            (by intro st hst; simp only [Option.some.injEq] at hst; subst hst; simp)
            (by simp only [rwBudget] at hb ⊢; omega)
          refine ⟨this.1, this.2.1, ?_⟩
          have h3 := this.2.2
          simp only [rwRewritesLeft] at h3 ⊢
          omega
        · subst hs; subst hh
          simp only [rwLoopLimit] at hl
          have := ih tg.target (some { count := st.count + 1, finished := f }) (n + 1) k
            (by intro st' hst; simp only [Option.some.injEq] at hst; subst hst; simp; omega)
            (by simp only [rwBudget] at hb ⊢; omega)
          refine ⟨this.1, this.2.1, ?_⟩
          have h3 := this.2.2
          simp only [rwRewritesLeft] at h3 ⊢
          omega

/-! ### evhost -/

theorem slice_infix (a : Bytes) (x y : Nat) : (a.drop x).take y <:+: a :=
  (List.take_prefix _ _).isInfix.trans (List.drop_suffix _ _).isInfix

theorem evScanLabels_infix (a : Bytes) : ∀ (i col k : Nat) (acc : List (Nat × Bytes)),
    (∀ e ∈ acc, e.2 <:+: a) → ∀ e ∈ evScanLabels a i col k acc, e.2 <:+: a := by
  intro i
  induction i with
  | zero =>
    intro col k acc h e he
    simp only [evScanLabels] at he
    split at he
    · simp only [List.mem_cons] at he
      rcases he with he | he
      · subst he; exact (List.take_prefix _ _).isInfix
      · exact h e he
    · exact h e he
  | succ i ih =>
    intro col k acc h e he
    simp only [evScanLabels] at he
    split at he
    · split at he
      · refine ih _ _ _ ?_ e he
        intro e' he'
        simp only [List.mem_cons] at he'
        rcases he' with he' | he'
        · subst he'; exact slice_infix a _ _
        · exact h e' he'
      · exact ih _ _ _ h e he
    · exact ih _ _ _ h e he

theorem evParseHost_infix (a : Bytes) : ∀ e ∈ evParseHost a, e.2 <:+: a := by
  intro e he
  unfold evParseHost at he
  simp only at he
  split at he
  · split at he
    · simp only [List.mem_singleton] at he; subst he; exact List.infix_refl _
    · split at he
      · simp only [List.mem_singleton] at he; subst he; exact (List.take_prefix _ _).isInfix
      · simp at he
  · generalize evScanDomain a a.length a.length true = pc at he
    obtain ⟨ptr, col⟩ := pc
    simp only at he
    split at he
    · simp only [List.mem_cons, List.mem_reverse] at he
      rcases he with he | he
      · subst he; exact slice_infix a _ _
      · exact evScanLabels_infix a _ _ _ [] (by simp) e he
    · simp only [List.mem_singleton] at he; subst he; exact slice_infix a _ _

theorem evLookup_mem {tbl : List (Nat × Bytes)} {n : Nat} {v : Bytes} (h : evLookup tbl n = some v) :
    ∃ e ∈ tbl, e.2 = v := by
  unfold evLookup at h
  simp only [Option.map_eq_some_iff] at h
  obtain ⟨e, he, hv⟩ := h
  exact ⟨e, by simpa using List.mem_of_find?_eq_some he, hv⟩

theorem mem_takeWhile_imp {p : UInt8 → Bool} {x : UInt8} : ∀ {l : List UInt8}, x ∈ l.takeWhile p → p x = true
  | [], h => by simp at h
  | a :: l, h => by
    rw [List.takeWhile_cons] at h
    split at h
    · simp only [List.mem_cons] at h
      rcases h with h | h
      · subst h; assumption
      · exact mem_takeWhile_imp h
    · simp at h

theorem getD_zero_or_mem (v : List UInt8) (i : Nat) : v.getD i 0 = 0 ∨ v.getD i 0 ∈ v := by
  rw [List.getD_eq_getElem?_getD]
  cases h : v[i]? with
  | none => left; simp
  | some x => right; simp only [Option.getD_some]; exact List.mem_of_getElem? h

theorem not_mem_of_infix {x : UInt8} {v a : Bytes} (h : v <:+: a) (hx : x ∉ a) : x ∉ v :=
  fun hv => hx (h.subset hv)

end LtVerif
