/-
  Helper lemmas for C20 (Model/BurlAppend.lean, Model/KeyValue.lean).
-/
import LtVerif.Model.KeyValue
namespace LtVerif
open B

/-- a statement about all bytes follows from its 256 instances -/
theorem forall_uint8 {P : UInt8 → Prop} (h : ∀ n : Fin 256, P (UInt8.ofNat n.val)) : ∀ b, P b := by
  intro b
  have := h ⟨b.toNat, b.toNat_lt⟩
  simpa using this

/-! ### base64url round trip -/

theorem b64u_tables_inverse :
    ∀ n : Fin 64, b64uRev (b64uChar n.val) = (n.val : Int) ∧ b64uChar n.val ≠ 0 := by decide

/-- one decoder step on a digit of the alphabet -/
theorem b64uDecGo_digit (n : Nat) (hn : n < 64) (rest : Bytes) (acc i : Nat) (out : Bytes) :
    b64uDecGo (b64uChar n :: rest) acc i out =
      if i = 3 then
        b64uDecGo rest 0 0
          (out ++ [((acc * 64 + n) / 65536 % 256).toUInt8, ((acc * 64 + n) / 256 % 256).toUInt8,
                   ((acc * 64 + n) % 256).toUInt8])
      else b64uDecGo rest (acc * 64 + n) (i + 1) out := by
  obtain ⟨h1, h2⟩ := b64u_tables_inverse ⟨n, hn⟩
  simp only at h1 h2
  rw [b64uDecGo]
  simp only [h1]
  have e1 : ((n : Int) = -2) = False := eq_false (by omega)
  have e2 : ((n : Int) = -3) = False := eq_false (by omega)
  have e3 : ((n : Int) < 0) = False := eq_false (by omega)
  simp [e1, e2, e3, h2]

theorem toUInt8_toNat (x : UInt8) : (x.toNat).toUInt8 = x := by simp

theorem b64uDecGo_enc (x : Bytes) : ∀ out : Bytes, b64uDecGo (b64uEnc x) 0 0 out = out ++ x := by
  induction x using b64uEnc.induct with
  | case1 => intro out; simp [b64uEnc, b64uDecGo, b64Finish]
  | case2 a =>
    intro out
    have ha := a.toNat_lt
    simp only [b64uEnc]
    rw [b64uDecGo_digit _ (by omega), if_neg (by omega), b64uDecGo_digit _ (by omega), if_neg (by omega)]
    simp only [b64uDecGo, b64Finish]
    have : (0 * 64 + a.toNat * 16 / 64 % 64) * 64 + a.toNat * 16 % 64 = a.toNat * 16 := by omega
    simp only [this]
    have : a.toNat * 16 / 16 % 256 = a.toNat := by omega
    simp
  | case3 a b =>
    intro out
    have ha := a.toNat_lt
    have hb := b.toNat_lt
    simp only [b64uEnc]
    rw [b64uDecGo_digit _ (by omega), if_neg (by omega), b64uDecGo_digit _ (by omega), if_neg (by omega),
        b64uDecGo_digit _ (by omega), if_neg (by omega)]
    simp only [b64uDecGo, b64Finish]
    have : ((0 * 64 + (a.toNat * 1024 + b.toNat * 4) / 4096 % 64) * 64 +
              (a.toNat * 1024 + b.toNat * 4) / 64 % 64) * 64 + (a.toNat * 1024 + b.toNat * 4) % 64
            = a.toNat * 1024 + b.toNat * 4 := by omega
    simp only [this]
    have e1 : (a.toNat * 1024 + b.toNat * 4) / 1024 % 256 = a.toNat := by omega
    have e2 : (a.toNat * 1024 + b.toNat * 4) / 4 % 256 = b.toNat := by omega
    simp [e1, e2]
  | case4 a b c rest ih =>
    intro out
    have ha := a.toNat_lt
    have hb := b.toNat_lt
    have hc := c.toNat_lt
    simp only [b64uEnc]
    rw [b64uDecGo_digit _ (by omega), if_neg (by omega), b64uDecGo_digit _ (by omega), if_neg (by omega),
        b64uDecGo_digit _ (by omega), if_neg (by omega), b64uDecGo_digit _ (by omega), if_pos (by omega)]
    have : (((0 * 64 + (a.toNat * 65536 + b.toNat * 256 + c.toNat) / 262144 % 64) * 64 +
              (a.toNat * 65536 + b.toNat * 256 + c.toNat) / 4096 % 64) * 64 +
              (a.toNat * 65536 + b.toNat * 256 + c.toNat) / 64 % 64) * 64 +
              (a.toNat * 65536 + b.toNat * 256 + c.toNat) % 64
            = a.toNat * 65536 + b.toNat * 256 + c.toNat := by omega
    simp only [this]
    have e1 : (a.toNat * 65536 + b.toNat * 256 + c.toNat) / 65536 % 256 = a.toNat := by omega
    have e2 : (a.toNat * 65536 + b.toNat * 256 + c.toNat) / 256 % 256 = b.toNat := by omega
    have e3 : (a.toNat * 65536 + b.toNat * 256 + c.toNat) % 256 = c.toNat := by omega
    rw [ih]
    simp [e1, e2, e3]

end LtVerif
