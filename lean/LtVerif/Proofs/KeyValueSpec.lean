/-
  C20: the DOCUMENTED semantics of substitution templates, written independently of the code
  structure of the model (no flags, no skip counters): percent-escapes are
  recognised by a tokeniser, every recoding is a per-token map, modifiers are looked up by name.
  The lemmas of this file prove the model (Model/BurlAppend.lean, Model/KeyValue.lean) equal to it.
-/
import LtVerif.Proofs.KeyValue
namespace LtVerif
open B

namespace Spec

/-! ### percent-escapes -/

/-- a string is a sequence of percent-escapes "%XX" (two hex digits) and plain bytes -/
inductive PctTok
  | byte (b : UInt8)
  | esc (h l : UInt8)          -- "%hl", h and l hex digits
deriving Repr, DecidableEq

/-- greedy left-to-right tokenisation -/
def tokens : Bytes → List PctTok
  | a :: h :: l :: rest =>
    if a = pct && isXDigit h && isXDigit l then .esc h l :: tokens rest
    else .byte a :: tokens (h :: l :: rest)
  | [a, b] => [.byte a, .byte b]
  | [a] => [.byte a]
  | [] => []

def hexNib (b : UInt8) : UInt8 := (hexVal b).getD 0

/-- the byte a token stands for -/
def PctTok.value : PctTok → UInt8
  | .byte b => b
  | .esc h l => (hexNib h <<< 4) ||| hexNib l

/-- plain percent-decoding: what a recoded value means -/
def decode (s : Bytes) : Bytes := (tokens s).map PctTok.value

/-- esc / escape: every byte that is not unreserved becomes %HH (upper-case hex) — also '%' -/
def escByte (b : UInt8) : Bytes := if isUnreserved b then [b] else pctEnc b
def escAll (s : Bytes) : Bytes := s.flatMap escByte

/-- escnde (`keepSlash = false`) / escpsnde (`true`): like esc, but an existing percent-escape is not
    encoded again (it is decoded if it stands for an unreserved character, else kept as written);
    escpsnde also keeps '/' -/
def ndeTok (keepSlash : Bool) : PctTok → Bytes
  | .esc h l =>
    if isUnreserved (PctTok.value (.esc h l)) then [PctTok.value (.esc h l)] else [pct, h, l]
  | .byte b => if isUnreserved b || (keepSlash && b = slash) then [b] else pctEnc b
def escNde (keepSlash : Bool) (s : Bytes) : Bytes := (tokens s).flatMap (ndeTok keepSlash)

/-- tolower / toupper: ASCII letters outside percent-escapes -/
def caseTok (f : UInt8 → UInt8) : PctTok → Bytes
  | .esc h l => [pct, h, l]
  | .byte b => [f b]
def lower (s : Bytes) : Bytes := (tokens s).flatMap (caseTok toLower)
def upper (s : Bytes) : Bytes := (tokens s).flatMap (caseTok toUpper)

end Spec

/-! ### the model's recoders are the specified ones -/

theorem hex_facts : ∀ b : UInt8,
    ((hexVal b).isSome = isXDigit b) ∧ (isXDigit b = true → b ≠ 0) ∧
    (isUnreserved b = true → b ≠ pct ∧ b ≠ 0) ∧ (b = slash → b ≠ pct) ∧
    (toLower b = if isUpper b then b ||| 0x20 else b) ∧ (toUpper b = if isLower b then b &&& 0xdf else b) := by
  apply forall_uint8; set_option maxRecDepth 100000 in decide

theorem hex2_cons (h l : UInt8) (rest : Bytes) :
    hex2 (h :: l :: rest) = if isXDigit h && isXDigit l then some (Spec.hexNib h, Spec.hexNib l) else none := by
  have h1 := (hex_facts h).1
  have h2 := (hex_facts l).1
  unfold hex2 Spec.hexNib
  cases hh : hexVal h <;> cases hl : hexVal l <;> simp_all

theorem encNde_go_skip (k : Bool) : ∀ (s : Bytes) (n : Nat),
    encNde.go k s n = encNde.go k (s.drop n) 0 := by
  intro s
  induction s with
  | nil => intro n; simp [encNde.go]
  | cons b rest ih =>
    intro n
    cases n with
    | zero => simp
    | succ n => simp [encNde.go, ih]

theorem pct_not_unreserved : isUnreserved pct = false := by decide
theorem pct37_not_unreserved : isUnreserved (37 : UInt8) = false := by decide

/-- burl_append_encode_nde / _psnde = escnde / escpsnde of the specification; the bytes behind the
    string play no role -/
theorem encNde_spec (k : Bool) (look : Bytes) : ∀ s : Bytes, encNde k s look = Spec.escNde k s
  | [] => by simp [encNde, encNde.go, Spec.escNde, Spec.tokens]
  | [a] => by
    simp only [encNde, encNde.go, Spec.escNde, Spec.tokens, List.flatMap_cons, List.flatMap_nil,
               List.append_nil, Spec.ndeTok]
    by_cases ha : a = pct
    · simp [ha, hex2, pct37_not_unreserved, slash, pct]
    · simp [ha]
  | [a, b] => by
    have ih := encNde_spec k look [b]
    simp only [encNde] at ih ⊢
    simp only [Spec.escNde, Spec.tokens, List.flatMap_cons, List.flatMap_nil, List.append_nil] at ih ⊢
    rw [encNde.go]
    by_cases ha : a = pct
    · have hl : hex2 [b] = none := by simp [hex2]
      simp only [ha, if_true, hl, ih, Spec.ndeTok, pct_not_unreserved]
      simp [slash, pct]
    · simp only [ha, if_false, ih, Spec.ndeTok]
      split <;> simp
  | a :: x :: y :: rest => by
    simp only [encNde, Spec.escNde, Spec.tokens]
    rw [encNde.go]
    by_cases ht : (a = pct && isXDigit x && isXDigit y) = true
    · simp only [ht, if_true]
      have ih := encNde_spec k look rest
      simp only [encNde, Spec.escNde] at ih
      simp only [Bool.and_eq_true, decide_eq_true_eq] at ht
      obtain ⟨⟨ha, hx⟩, hy⟩ := ht
      simp only [ha, if_true, hex2_cons, hx, hy, Bool.and_self]
      rw [encNde_go_skip k (x :: y :: rest) 2]
      simp only [List.drop_succ_cons, List.drop_zero, ih, List.flatMap_cons, Spec.ndeTok, Spec.PctTok.value,
                 List.take_succ_cons, List.take_zero]
      split <;> simp [*]
    · simp only [ht, Bool.false_eq_true, if_false]
      have ih := encNde_spec k look (x :: y :: rest)
      simp only [encNde, Spec.escNde] at ih
      simp only [List.flatMap_cons, ← ih, Spec.ndeTok]
      by_cases ha : a = pct
      · have hxy : (isXDigit x && isXDigit y) = false := by simpa [ha] using ht
        simp [ha, hex2_cons, hxy, pct37_not_unreserved, slash, pct]
      · simp only [ha, if_false]
        split <;> simp

theorem encAll_spec (s : Bytes) : encAll s = Spec.escAll s := rfl

theorem xdigit2_cons (x y : UInt8) (rest : Bytes) : xdigit2 (x :: y :: rest) = (isXDigit x && isXDigit y) := rfl

theorem lowerSkipPct_skip : ∀ (s : Bytes) (n : Nat), lowerSkipPct s n = s.take n ++ lowerSkipPct (s.drop n) 0 := by
  intro s
  induction s with
  | nil => intro n; simp [lowerSkipPct]
  | cons b rest ih =>
    intro n
    cases n with
    | zero => simp
    | succ n => simp [lowerSkipPct, ih]

theorem upperSkipPct_skip : ∀ (s : Bytes) (n : Nat), upperSkipPct s n = s.take n ++ upperSkipPct (s.drop n) 0 := by
  intro s
  induction s with
  | nil => intro n; simp [upperSkipPct]
  | cons b rest ih =>
    intro n
    cases n with
    | zero => simp
    | succ n => simp [upperSkipPct, ih]

/-- burl_offset_tolower = tolower of the specification (NUL-free strings) -/
theorem lowerSkipPct_spec : ∀ s : Bytes, (0 : UInt8) ∉ s → lowerSkipPct s 0 = Spec.lower s
  | [], _ => by simp [lowerSkipPct, Spec.lower, Spec.tokens]
  | [a], h => by
    have ha : a ≠ 0 := fun e => h (by simp [e])
    simp only [lowerSkipPct, ha, if_false, Spec.lower, Spec.tokens, List.flatMap_cons, List.flatMap_nil,
               List.append_nil, Spec.caseTok, (hex_facts a).2.2.2.2.1]
    by_cases hu : isUpper a = true <;> simp [hu, xdigit2, lowerSkipPct]
  | [a, b], h => by
    have ha : a ≠ 0 := fun e => h (by simp [e])
    have ih := lowerSkipPct_spec [b] (fun e => h (by simp at e; simp [e]))
    simp only [Spec.lower, Spec.tokens, List.flatMap_cons, List.flatMap_nil, List.append_nil, Spec.caseTok] at ih ⊢
    rw [lowerSkipPct]
    simp only [ha, if_false, (hex_facts a).2.2.2.2.1]
    by_cases hu : isUpper a = true
    · simp [hu, ih]
    · simp [hu, xdigit2, ih]
  | a :: x :: y :: rest, h => by
    have ha : a ≠ 0 := fun e => h (by simp [e])
    simp only [Spec.lower, Spec.tokens]
    rw [lowerSkipPct]
    simp only [ha, if_false]
    by_cases ht : (a = pct && isXDigit x && isXDigit y) = true
    · simp only [ht, if_true, List.flatMap_cons, Spec.caseTok]
      simp only [Bool.and_eq_true, decide_eq_true_eq] at ht
      obtain ⟨⟨hap, hx⟩, hy⟩ := ht
      have hr : (0 : UInt8) ∉ rest := fun e => h (by simp [e])
      have ih := lowerSkipPct_spec rest hr
      simp only [Spec.lower] at ih
      subst hap
      have hu : isUpper pct = false := by decide
      simp only [hu, Bool.false_eq_true, if_false, xdigit2_cons, hx, hy, Bool.and_self, decide_true, if_true]
      rw [lowerSkipPct_skip]
      simp [ih]
    · simp only [ht, Bool.false_eq_true, if_false, List.flatMap_cons, Spec.caseTok]
      have hr : (0 : UInt8) ∉ (x :: y :: rest) := fun e => h (List.mem_cons_of_mem _ e)
      have ih := lowerSkipPct_spec (x :: y :: rest) hr
      simp only [Spec.lower] at ih
      simp only [(hex_facts a).2.2.2.2.1]
      by_cases hu : isUpper a = true
      · simp [hu, ih]
      · have hc : (decide (a = pct) && xdigit2 (x :: y :: rest)) = false := by
          simpa [xdigit2_cons, Bool.and_assoc] using ht
        simp [hu, hc, ih]

theorem upperSkipPct_spec : ∀ s : Bytes, (0 : UInt8) ∉ s → upperSkipPct s 0 = Spec.upper s
  | [], _ => by simp [upperSkipPct, Spec.upper, Spec.tokens]
  | [a], h => by
    have ha : a ≠ 0 := fun e => h (by simp [e])
    simp only [upperSkipPct, ha, if_false, Spec.upper, Spec.tokens, List.flatMap_cons, List.flatMap_nil,
               List.append_nil, Spec.caseTok, (hex_facts a).2.2.2.2.2]
    by_cases hu : isLower a = true <;> simp [hu, xdigit2, upperSkipPct]
  | [a, b], h => by
    have ha : a ≠ 0 := fun e => h (by simp [e])
    have ih := upperSkipPct_spec [b] (fun e => h (by simp at e; simp [e]))
    simp only [Spec.upper, Spec.tokens, List.flatMap_cons, List.flatMap_nil, List.append_nil, Spec.caseTok] at ih ⊢
    rw [upperSkipPct]
    simp only [ha, if_false, (hex_facts a).2.2.2.2.2]
    by_cases hu : isLower a = true
    · simp [hu, ih]
    · simp [hu, xdigit2, ih]
  | a :: x :: y :: rest, h => by
    have ha : a ≠ 0 := fun e => h (by simp [e])
    simp only [Spec.upper, Spec.tokens]
    rw [upperSkipPct]
    simp only [ha, if_false]
    by_cases ht : (a = pct && isXDigit x && isXDigit y) = true
    · simp only [ht, if_true, List.flatMap_cons, Spec.caseTok]
      simp only [Bool.and_eq_true, decide_eq_true_eq] at ht
      obtain ⟨⟨hap, hx⟩, hy⟩ := ht
      have hr : (0 : UInt8) ∉ rest := fun e => h (by simp [e])
      have ih := upperSkipPct_spec rest hr
      simp only [Spec.upper] at ih
      subst hap
      have hu : isLower pct = false := by decide
      simp only [hu, Bool.false_eq_true, if_false, xdigit2_cons, hx, hy, Bool.and_self, decide_true, if_true]
      rw [upperSkipPct_skip]
      simp [ih]
    · simp only [ht, Bool.false_eq_true, if_false, List.flatMap_cons, Spec.caseTok]
      have hr : (0 : UInt8) ∉ (x :: y :: rest) := fun e => h (List.mem_cons_of_mem _ e)
      have ih := upperSkipPct_spec (x :: y :: rest) hr
      simp only [Spec.upper] at ih
      simp only [(hex_facts a).2.2.2.2.2]
      by_cases hu : isLower a = true
      · simp [hu, ih]
      · have hc : (decide (a = pct) && xdigit2 (x :: y :: rest)) = false := by
          simpa [xdigit2_cons, Bool.and_assoc] using ht
        simp [hu, hc, ih]

/-! ### what the recodings preserve -/

theorem tokens_cons_ne (x : UInt8) (Y : Bytes) (hx : x ≠ pct) :
    Spec.tokens (x :: Y) = .byte x :: Spec.tokens Y := by
  match Y with
  | [] => simp [Spec.tokens]
  | [y] => simp [Spec.tokens]
  | y :: z :: rest => simp [Spec.tokens, hx]

theorem tokens_esc (h l : UInt8) (Y : Bytes) (hh : isXDigit h = true) (hl : isXDigit l = true) :
    Spec.tokens (pct :: h :: l :: Y) = .esc h l :: Spec.tokens Y := by
  simp [Spec.tokens, hh, hl]

theorem pctEnc_facts : ∀ b : UInt8,
    isXDigit (hexDigitUC (b >>> 4)) = true ∧ isXDigit (hexDigitUC (b &&& 0xf)) = true ∧
    (Spec.hexNib (hexDigitUC (b >>> 4)) <<< 4 ||| Spec.hexNib (hexDigitUC (b &&& 0xf))) = b := by
  apply forall_uint8; set_option maxRecDepth 100000 in decide

theorem decode_cons_ne (x : UInt8) (Y : Bytes) (hx : x ≠ pct) : Spec.decode (x :: Y) = x :: Spec.decode Y := by
  simp [Spec.decode, tokens_cons_ne x Y hx, Spec.PctTok.value]

theorem decode_esc (h l : UInt8) (Y : Bytes) (hh : isXDigit h = true) (hl : isXDigit l = true) :
    Spec.decode (pct :: h :: l :: Y) = Spec.PctTok.value (.esc h l) :: Spec.decode Y := by
  simp [Spec.decode, tokens_esc h l Y hh hl]

theorem decode_pctEnc (b : UInt8) (Y : Bytes) : Spec.decode (pctEnc b ++ Y) = b :: Spec.decode Y := by
  obtain ⟨h1, h2, h3⟩ := pctEnc_facts b
  simp only [pctEnc, List.cons_append, List.nil_append]
  rw [decode_esc _ _ _ h1 h2]
  simp [Spec.PctTok.value, h3]

/-- esc / escape lose nothing: percent-decoding the result gives the value back -/
theorem decode_escAll (s : Bytes) : Spec.decode (Spec.escAll s) = s := by
  induction s with
  | nil => simp [Spec.escAll, Spec.decode, Spec.tokens]
  | cons b s ih =>
    have e : Spec.escAll (b :: s) = Spec.escByte b ++ Spec.escAll s := by simp [Spec.escAll]
    rw [e, Spec.escByte]
    by_cases hb : isUnreserved b = true
    · simp only [hb, if_true, List.singleton_append]
      rw [decode_cons_ne _ _ ((hex_facts b).2.2.1 hb).1, ih]
    · simp only [hb, Bool.false_eq_true, if_false]
      rw [decode_pctEnc, ih]

theorem decode_ndeTok_byte (k : Bool) (b : UInt8) (Y : Bytes) :
    Spec.decode (Spec.ndeTok k (.byte b) ++ Y) = b :: Spec.decode Y := by
  simp only [Spec.ndeTok]
  by_cases hb : (isUnreserved b || (k && b = slash)) = true
  · simp only [hb, if_true, List.singleton_append]
    have hne : b ≠ pct := by
      simp only [Bool.or_eq_true, Bool.and_eq_true, decide_eq_true_eq] at hb
      rcases hb with h | ⟨_, h⟩
      · exact ((hex_facts b).2.2.1 h).1
      · exact (hex_facts b).2.2.2.1 h
    exact decode_cons_ne _ _ hne
  · simp only [hb, Bool.false_eq_true, if_false]
    exact decode_pctEnc b Y

theorem decode_ndeTok_esc (k : Bool) (h l : UInt8) (Y : Bytes) (hh : isXDigit h = true) (hl : isXDigit l = true) :
    Spec.decode (Spec.ndeTok k (.esc h l) ++ Y) = Spec.PctTok.value (.esc h l) :: Spec.decode Y := by
  simp only [Spec.ndeTok]
  by_cases hu : isUnreserved (Spec.PctTok.value (.esc h l)) = true
  · simp only [hu, if_true, List.singleton_append]
    exact decode_cons_ne _ _ ((hex_facts _).2.2.1 hu).1
  · simp only [hu, Bool.false_eq_true, if_false, List.cons_append, List.nil_append]
    exact decode_esc h l Y hh hl

/-- escnde / escpsnde do not encode twice: the result percent-decodes to what the value itself
    percent-decodes to -/
theorem decode_escNde (k : Bool) : ∀ s : Bytes, Spec.decode (Spec.escNde k s) = Spec.decode s
  | [] => by simp [Spec.escNde, Spec.tokens]
  | [a] => by
    have := decode_ndeTok_byte k a []
    simpa [Spec.escNde, Spec.tokens, Spec.decode, Spec.PctTok.value] using this
  | [a, b] => by
    have h1 := decode_ndeTok_byte k a (Spec.ndeTok k (.byte b))
    have h2 := decode_ndeTok_byte k b []
    simp only [List.append_nil] at h2
    simp only [Spec.escNde, Spec.tokens, List.flatMap_cons, List.flatMap_nil, List.append_nil]
    rw [h1, h2]
    simp [Spec.decode, Spec.tokens, Spec.PctTok.value]
  | a :: x :: y :: rest => by
    by_cases ht : (a = pct && isXDigit x && isXDigit y) = true
    · have ih := decode_escNde k rest
      simp only [Bool.and_eq_true, decide_eq_true_eq] at ht
      obtain ⟨⟨ha, hx⟩, hy⟩ := ht
      subst ha
      have e : Spec.escNde k (pct :: x :: y :: rest) = Spec.ndeTok k (.esc x y) ++ Spec.escNde k rest := by
        simp [Spec.escNde, Spec.tokens, hx, hy]
      rw [e, decode_ndeTok_esc k x y _ hx hy, ih, decode_esc x y rest hx hy]
    · have ih := decode_escNde k (x :: y :: rest)
      have e : Spec.escNde k (a :: x :: y :: rest) = Spec.ndeTok k (.byte a) ++ Spec.escNde k (x :: y :: rest) := by
        simp [Spec.escNde, Spec.tokens, ht]
      have e2 : Spec.decode (a :: x :: y :: rest) = a :: Spec.decode (x :: y :: rest) := by
        simp [Spec.decode, Spec.tokens, ht, Spec.PctTok.value]
      rw [e, decode_ndeTok_byte, ih, e2]

theorem pctEnc_nul_free (b : UInt8) : (0 : UInt8) ∉ pctEnc b := by
  obtain ⟨h1, h2, _⟩ := pctEnc_facts b
  simp only [pctEnc, List.mem_cons, List.not_mem_nil, or_false, not_or]
  exact ⟨by decide, fun e => (hex_facts _).2.1 h1 e.symm, fun e => (hex_facts _).2.1 h2 e.symm⟩

theorem ndeTok_byte_nul_free (k : Bool) (b : UInt8) : (0 : UInt8) ∉ Spec.ndeTok k (.byte b) := by
  simp only [Spec.ndeTok]
  split
  · rename_i hb
    simp only [List.mem_singleton]
    intro e
    simp only [Bool.or_eq_true, Bool.and_eq_true, decide_eq_true_eq] at hb
    rcases hb with h | ⟨_, h⟩
    · exact ((hex_facts b).2.2.1 h).2 e.symm
    · subst h; exact absurd e (by decide)
  · exact pctEnc_nul_free b

theorem ndeTok_esc_nul_free (k : Bool) (h l : UInt8) (hh : isXDigit h = true) (hl : isXDigit l = true) :
    (0 : UInt8) ∉ Spec.ndeTok k (.esc h l) := by
  simp only [Spec.ndeTok]
  split
  · rename_i hu
    simp only [List.mem_singleton]
    intro e
    exact ((hex_facts _).2.2.1 hu).2 e.symm
  · simp only [List.mem_cons, List.not_mem_nil, or_false, not_or]
    exact ⟨by decide, fun e => (hex_facts _).2.1 hh e.symm, fun e => (hex_facts _).2.1 hl e.symm⟩

/-- escnde / escpsnde never produce a NUL byte (NUL is encoded as %00) -/
theorem escNde_nul_free (k : Bool) : ∀ s : Bytes, (0 : UInt8) ∉ Spec.escNde k s
  | [] => by simp [Spec.escNde, Spec.tokens]
  | [a] => by
    simpa [Spec.escNde, Spec.tokens] using ndeTok_byte_nul_free k a
  | [a, b] => by
    have h1 := ndeTok_byte_nul_free k a
    have h2 := ndeTok_byte_nul_free k b
    simp only [Spec.escNde, Spec.tokens, List.flatMap_cons, List.flatMap_nil, List.append_nil, List.mem_append,
               not_or]
    exact ⟨h1, h2⟩
  | a :: x :: y :: rest => by
    by_cases ht : (a = pct && isXDigit x && isXDigit y) = true
    · have ih := escNde_nul_free k rest
      simp only [Bool.and_eq_true, decide_eq_true_eq] at ht
      obtain ⟨⟨ha, hx⟩, hy⟩ := ht
      subst ha
      have e : Spec.escNde k (pct :: x :: y :: rest) = Spec.ndeTok k (.esc x y) ++ Spec.escNde k rest := by
        simp [Spec.escNde, Spec.tokens, hx, hy]
      rw [e, List.mem_append, not_or]
      exact ⟨ndeTok_esc_nul_free k x y hx hy, ih⟩
    · have ih := escNde_nul_free k (x :: y :: rest)
      have e : Spec.escNde k (a :: x :: y :: rest) = Spec.ndeTok k (.byte a) ++ Spec.escNde k (x :: y :: rest) := by
        simp [Spec.escNde, Spec.tokens, ht]
      rw [e, List.mem_append, not_or]
      exact ⟨ndeTok_byte_nul_free k a, ih⟩

/-! ### modifiers by name -/

namespace Spec

/-- the modifier `a` occurs in the modifier list -/
def has (mods : List Modifier) (a : Modifier) : Bool := mods.any fun m => m == a

/-- the value after the encoding modifiers (the first applicable line; `dflt` if no encoding modifier) -/
def encode (dflt : Bytes → Bytes) (mods : List Modifier) (s : Bytes) : Bytes :=
  if has mods .noesc || has mods .noescape then s
  else if has mods .esc || has mods .escape then escAll s
  else if has mods .escnde then escNde false s
  else if has mods .escpsnde then escNde true s
  else if has mods .encb64u then b64uEnc s
  else if has mods .decb64u then b64uDec s
  else dflt s

/-- tolower / toupper apply to the encoded value -/
def caseMap (mods : List Modifier) (x : Bytes) : Bytes :=
  if has mods .tolower then lower x else if has mods .toupper then upper x else x

def recode (dflt : Bytes → Bytes) (mods : List Modifier) (s : Bytes) : Bytes := caseMap mods (encode dflt mods s)

/-- side condition of the case modifiers: the C code maps C strings, i.e. up to the first NUL -/
def caseOk (mods : List Modifier) (v : Bytes) : Prop :=
  (has mods .tolower || has mods .toupper) = true → (0 : UInt8) ∉ v

end Spec

def flagsOf (mods : List Modifier) : Nat := mods.foldl (fun f m => f ||| m.flag) 0

theorem foldl_flags (mods : List Modifier) : ∀ a : Nat,
    mods.foldl (fun f m => f ||| m.flag) a = a ||| flagsOf mods := by
  induction mods with
  | nil => intro a; simp [flagsOf]
  | cons m ms ih =>
    intro a
    simp only [List.foldl_cons, flagsOf]
    rw [ih, ih (0 ||| m.flag), Nat.zero_or, Nat.or_assoc]

theorem flagsOf_cons (m : Modifier) (ms : List Modifier) : flagsOf (m :: ms) = m.flag ||| flagsOf ms := by
  simp only [flagsOf, List.foldl_cons]
  rw [foldl_flags, Nat.zero_or]
  rfl

theorem flagSet_or (a b c : Nat) : flagSet (a ||| b) c = (flagSet a c || flagSet b c) := by
  simp only [flagSet, Nat.and_or_distrib_right]
  by_cases h1 : a &&& c = 0
  · by_cases h2 : b &&& c = 0
    · simp [h1, h2]
    · simp [h1, h2]
  · have : (a &&& c ||| b &&& c) ≠ 0 := fun h => h1 (Nat.or_eq_zero_iff.mp h).1
    have e1 : (a &&& c != 0) = true := by simpa using h1
    have e2 : ((a &&& c ||| b &&& c) != 0) = true := by simpa using this
    rw [e1, e2]; simp

theorem flagSet_flagsOf (mods : List Modifier) (bit : Nat) :
    flagSet (flagsOf mods) bit = mods.any fun m => flagSet m.flag bit := by
  induction mods with
  | nil => simp [flagsOf, flagSet]
  | cons m ms ih => rw [flagsOf_cons, flagSet_or, ih]; simp

theorem any_or {α : Type} (l : List α) (p q : α → Bool) :
    (l.any fun m => p m || q m) = (l.any p || l.any q) := by
  induction l with
  | nil => simp
  | cons a l ih => simp only [List.any_cons, ih]; cases p a <;> cases q a <;> simp

theorem flag_bits :
    (fun m : Modifier => flagSet m.flag Extracted.burlEncodeNone) = (fun m => m == .noesc || m == .noescape) ∧
    (fun m : Modifier => flagSet m.flag Extracted.burlEncodeAll) = (fun m => m == .esc || m == .escape) ∧
    (fun m : Modifier => flagSet m.flag Extracted.burlEncodeNde) = (fun m => m == .escnde) ∧
    (fun m : Modifier => flagSet m.flag Extracted.burlEncodePsnde) = (fun m => m == .escpsnde) ∧
    (fun m : Modifier => flagSet m.flag Extracted.burlEncodeB64u) = (fun m => m == .encb64u) ∧
    (fun m : Modifier => flagSet m.flag Extracted.burlDecodeB64u) = (fun m => m == .decb64u) ∧
    (fun m : Modifier => flagSet m.flag Extracted.burlToLower) = (fun m => m == .tolower) ∧
    (fun m : Modifier => flagSet m.flag Extracted.burlToUpper) = (fun m => m == .toupper) := by
  refine ⟨?_, ?_, ?_, ?_, ?_, ?_, ?_, ?_⟩ <;> funext m <;> cases m <;> decide

/-- the bits of the OR of the modifiers' flags say which modifier names occur -/
theorem flags_has (mods : List Modifier) :
    flagSet (flagsOf mods) Extracted.burlEncodeNone = (Spec.has mods .noesc || Spec.has mods .noescape) ∧
    flagSet (flagsOf mods) Extracted.burlEncodeAll = (Spec.has mods .esc || Spec.has mods .escape) ∧
    flagSet (flagsOf mods) Extracted.burlEncodeNde = Spec.has mods .escnde ∧
    flagSet (flagsOf mods) Extracted.burlEncodePsnde = Spec.has mods .escpsnde ∧
    flagSet (flagsOf mods) Extracted.burlEncodeB64u = Spec.has mods .encb64u ∧
    flagSet (flagsOf mods) Extracted.burlDecodeB64u = Spec.has mods .decb64u ∧
    flagSet (flagsOf mods) Extracted.burlToLower = Spec.has mods .tolower ∧
    flagSet (flagsOf mods) Extracted.burlToUpper = Spec.has mods .toupper := by
  obtain ⟨b1, b2, b3, b4, b5, b6, b7, b8⟩ := flag_bits
  simp only [flagSet_flagsOf, b1, b2, b3, b4, b5, b6, b7, b8, any_or, Spec.has]
  simp

theorem flagsOf_lt (mods : List Modifier) : flagsOf mods < 2 ^ 8 := by
  induction mods with
  | nil => simp [flagsOf]
  | cons m ms ih =>
    rw [flagsOf_cons]
    exact Nat.or_lt_two_pow (by cases m <;> decide) ih

theorem flagsOf_eq_zero {mods : List Modifier} (h : flagsOf mods = 0) : mods = [] := by
  cases mods with
  | nil => rfl
  | cons m ms =>
    rw [flagsOf_cons, Nat.or_eq_zero_iff] at h
    exact absurd h.1 (by cases m <;> decide)

/-- for 8-bit flag sets: "only case flags" (`0 == (flags & ~(BURL_TOLOWER|BURL_TOUPPER))`) = no encoding flag -/
theorem only_case_bits : ∀ n : Fin 256,
    (n.val ||| (Extracted.burlToLower ||| Extracted.burlToUpper) = Extracted.burlToLower ||| Extracted.burlToUpper) =
    ((flagSet n.val Extracted.burlEncodeNone || flagSet n.val Extracted.burlEncodeAll ||
      flagSet n.val Extracted.burlEncodeNde || flagSet n.val Extracted.burlEncodePsnde ||
      flagSet n.val Extracted.burlEncodeB64u || flagSet n.val Extracted.burlDecodeB64u) = false) := by
  set_option maxRecDepth 100000 in decide

/-! ### burl_append = the specified recoding -/

theorem burlEncode_spec (mods : List Modifier) (s look : Bytes) :
    burlEncode (flagsOf mods) s look = Spec.encode id mods s := by
  obtain ⟨f1, f2, f3, f4, f5, f6, _, _⟩ := flags_has mods
  unfold burlEncode Spec.encode
  rw [f1, f2, f3, f4, f5, f6]
  simp only [encAll_spec, encNde_spec _ look s, id]

theorem encode_nil (dflt : Bytes → Bytes) (hd : dflt [] = []) (mods : List Modifier) :
    Spec.encode dflt mods [] = [] := by
  unfold Spec.encode
  have h1 : Spec.escAll [] = [] := rfl
  have h2 : ∀ k, Spec.escNde k [] = [] := fun k => rfl
  have h3 : b64uEnc [] = [] := rfl
  have h4 : b64uDec [] = [] := by decide
  simp only [h1, h2, h3, h4, hd, ite_self]

theorem caseMap_nil (mods : List Modifier) : Spec.caseMap mods [] = [] := by
  unfold Spec.caseMap
  have h1 : Spec.lower [] = [] := rfl
  have h2 : Spec.upper [] = [] := rfl
  simp only [h1, h2, ite_self]

theorem recode_nil (dflt : Bytes → Bytes) (hd : dflt [] = []) (mods : List Modifier) :
    Spec.recode dflt mods [] = [] := by
  simp [Spec.recode, encode_nil dflt hd, caseMap_nil]

/-- the case-mapping tail of burl_append -/
theorem burlAppend_tail (fl : Nat) (s look : Bytes) (hs : s ≠ []) (h0 : fl ≠ 0) :
    burlAppend fl s look =
      if flagSet fl Extracted.burlToLower then lowerSkipPct (burlEncode fl s look) 0
      else if flagSet fl Extracted.burlToUpper then upperSkipPct (burlEncode fl s look) 0
      else burlEncode fl s look := by
  simp [burlAppend, hs, h0]

theorem caseTail_spec (mods : List Modifier) (e : Bytes) (hok : Spec.caseOk mods e)
    (l u : Bool) (hl : l = Spec.has mods .tolower) (hu : u = Spec.has mods .toupper) :
    (if l then lowerSkipPct e 0 else if u then upperSkipPct e 0 else e) = Spec.caseMap mods e := by
  subst hl; subst hu
  unfold Spec.caseMap
  unfold Spec.caseOk at hok
  by_cases h1 : Spec.has mods .tolower = true
  · simp only [h1, if_true]
    exact lowerSkipPct_spec e (hok (by simp [h1]))
  · by_cases h2 : Spec.has mods .toupper = true
    · simp only [h1, h2, if_true, Bool.false_eq_true, if_false]
      exact upperSkipPct_spec e (hok (by simp [h2]))
    · simp [h1, h2]

/-- burl_append with the flags of a modifier list, for a URL part (no default encoding) -/
theorem burlAppend_spec_url (mods : List Modifier) (s look : Bytes)
    (hok : Spec.caseOk mods (Spec.encode id mods s)) :
    burlAppend (flagsOf mods) s look = Spec.recode id mods s := by
  by_cases he : s = []
  · subst he; rw [burlAppend_nil, recode_nil id rfl]
  · by_cases h0 : flagsOf mods = 0
    · have := flagsOf_eq_zero h0
      subst this
      simp [flagsOf, burlAppend_zero, Spec.recode, Spec.caseMap, Spec.encode, Spec.has]
    · obtain ⟨_, _, _, _, _, _, f7, f8⟩ := flags_has mods
      rw [burlAppend_tail _ _ _ he h0, burlEncode_spec mods s look, Spec.recode]
      exact caseTail_spec mods _ hok _ _ f7 f8

theorem encode_dflt_irrel (d1 d2 : Bytes → Bytes) (mods : List Modifier) (s : Bytes)
    (h : (Spec.has mods .noesc || Spec.has mods .noescape || (Spec.has mods .esc || Spec.has mods .escape) ||
          Spec.has mods .escnde || Spec.has mods .escpsnde || Spec.has mods .encb64u || Spec.has mods .decb64u) = true) :
    Spec.encode d1 mods s = Spec.encode d2 mods s := by
  unfold Spec.encode
  generalize Spec.has mods .noesc = b1 at *
  generalize Spec.has mods .noescape = b2 at *
  generalize Spec.has mods .esc = b3 at *
  generalize Spec.has mods .escape = b4 at *
  generalize Spec.has mods .escnde = b5 at *
  generalize Spec.has mods .escpsnde = b6 at *
  generalize Spec.has mods .encb64u = b7 at *
  generalize Spec.has mods .decb64u = b8 at *
  cases b1 <;> cases b2 <;> cases b3 <;> cases b4 <;> cases b5 <;> cases b6 <;> cases b7 <;> cases b8 <;> simp_all

theorem encode_dflt_none (d : Bytes → Bytes) (mods : List Modifier) (s : Bytes)
    (h : (Spec.has mods .noesc || Spec.has mods .noescape || (Spec.has mods .esc || Spec.has mods .escape) ||
          Spec.has mods .escnde || Spec.has mods .escpsnde || Spec.has mods .encb64u || Spec.has mods .decb64u) = false) :
    Spec.encode d mods s = d s := by
  unfold Spec.encode
  simp only [Bool.or_eq_false_iff] at h
  obtain ⟨⟨⟨⟨⟨⟨h1, h2⟩, h3, h4⟩, h5⟩, h6⟩, h7⟩, h8⟩ := h
  simp [h1, h2, h3, h4, h5, h6, h7, h8]

/-- burl_append with the flags pcre_keyvalue_buffer_subst_ext uses for a capture: escpsnde unless an
    encoding modifier is present; a lone case modifier keeps the default encoding -/
theorem burlAppend_spec_cap (hdef : Extracted.kvMod_default = Extracted.burlEncodePsnde)
    (mods : List Modifier) (s look : Bytes)
    (hok : Spec.caseOk mods (Spec.encode (Spec.escNde true) mods s)) :
    burlAppend (capFlags (flagsOf mods)) s look = Spec.recode (Spec.escNde true) mods s := by
  by_cases he : s = []
  · subst he; rw [burlAppend_nil, recode_nil _ rfl]
  · obtain ⟨f1, f2, f3, f4, f5, f6, f7, f8⟩ := flags_has mods
    have hbits := only_case_bits ⟨flagsOf mods, flagsOf_lt mods⟩
    simp only [f1, f2, f3, f4, f5, f6] at hbits
    by_cases hno : (Spec.has mods .noesc || Spec.has mods .noescape || (Spec.has mods .esc || Spec.has mods .escape) ||
          Spec.has mods .escnde || Spec.has mods .escpsnde || Spec.has mods .encb64u || Spec.has mods .decb64u) = false
    · -- no encoding modifier: the default is OR-ed in
      have hc : capFlags (flagsOf mods) = flagsOf mods ||| Extracted.burlEncodePsnde := by
        unfold capFlags
        rw [if_pos (by rw [hbits]; exact hno), hdef]
      have h0 : flagsOf mods ||| Extracted.burlEncodePsnde ≠ 0 := by
        intro h; exact absurd (Nat.or_eq_zero_iff.mp h).2 (by decide)
      simp only [Bool.or_eq_false_iff] at hno
      obtain ⟨⟨⟨⟨⟨⟨h1, h2⟩, h3, h4⟩, h5⟩, h6⟩, h7⟩, h8⟩ := hno
      rw [hc, burlAppend_tail _ _ _ he h0, Spec.recode,
          encode_dflt_none _ mods s (by simp [h1, h2, h3, h4, h5, h6, h7, h8])]
      have hE : burlEncode (flagsOf mods ||| Extracted.burlEncodePsnde) s look = Spec.escNde true s := by
        unfold burlEncode
        simp only [flagSet_or, f1, f2, f3, f4, h1, h2, h3, h4, h5, h6]
        simp [flagSet, Extracted.burlEncodePsnde, Extracted.burlEncodeNone, Extracted.burlEncodeAll,
              Extracted.burlEncodeNde, encNde_spec true look s]
      rw [hE]
      have hok' : Spec.caseOk mods (Spec.escNde true s) := by
        rw [encode_dflt_none _ mods s (by simp [h1, h2, h3, h4, h5, h6, h7, h8])] at hok; exact hok
      refine caseTail_spec mods _ hok' _ _ ?_ ?_
      · rw [flagSet_or, f7]; simp [flagSet, Extracted.burlEncodePsnde, Extracted.burlToLower]
      · rw [flagSet_or, f8]; simp [flagSet, Extracted.burlEncodePsnde, Extracted.burlToUpper]
    · have hyes : (Spec.has mods .noesc || Spec.has mods .noescape || (Spec.has mods .esc || Spec.has mods .escape) ||
          Spec.has mods .escnde || Spec.has mods .escpsnde || Spec.has mods .encb64u || Spec.has mods .decb64u) = true := by
        rcases Bool.eq_false_or_eq_true _ with h | h
        · exact h
        · exact absurd h hno
      have hc : capFlags (flagsOf mods) = flagsOf mods := by
        unfold capFlags
        rw [if_neg (by rw [hbits]; exact hno)]
      have h0 : flagsOf mods ≠ 0 := by
        intro h
        have := flagsOf_eq_zero h
        subst this
        simp [Spec.has] at hyes
      rw [hc, burlAppend_tail _ _ _ he h0, burlEncode_spec mods s look, Spec.recode,
          encode_dflt_irrel id (Spec.escNde true) mods s hyes]
      exact caseTail_spec mods _ hok _ _ f7 f8

/-! ### the reference interpreter -/

namespace Spec

/-- capture N: the bytes of the subject between the offsets PCRE2 reported for group N — of the
    matching rule for `$`, of the enclosing condition for `%`; empty if the group is unset or absent -/
def capture (env : Env) (c : UInt8) (n : Nat) : Bytes := (capOf env c n).1

/-- `${qsa}`: the (recoded) query string, introduced by '?' if the result so far has none, else by '&'
    (no '&' for an empty query string); nothing if the request has no query part -/
def qsa (mods : List Modifier) (q : Option Bytes) (out : Bytes) : Bytes :=
  match q with
  | none => out
  | some q =>
    (if (cstr out).contains qmark then (if q.isEmpty then out else out ++ [38]) else out ++ [qmark])
      ++ recode id mods q

/-- what `${mods…item}` appends: captures default to escpsnde, URL parts to no encoding -/
def itemSem (env : Env) (c : UInt8) (mods : List Modifier) : Item → Bytes → Bytes
  | .cap d, out => out ++ recode (escNde true) mods (capture env c (d.toNat - 48))
  | .cap2 d1 d2, out => out ++ recode (escNde true) mods (capture env c ((d1.toNat - 48) * 10 + (d2.toNat - 48)))
  | .scheme, out => out ++ recode id mods (env.url.scheme.getD [])
  | .authority, out => out ++ recode id mods (env.url.authority.getD [])
  | .port, out => out ++ natToDec env.url.port
  | .path, out => out ++ recode id mods (env.url.path.takeWhile (· ≠ qmark))
  | .query, out => out ++ recode id mods (env.url.query.getD [])
  | .qsa, out => qsa mods env.url.query out

/-- reference semantics of one template token -/
def tokSem (env : Env) : Tok → Bytes → Bytes
  | .lit s, out => out ++ s
  | .sigil c, out => out ++ [c]
  | .raw c d, out => out ++ capture env c (d.toNat - 48)
  | .ext c mods item, out => itemSem env c mods item out

/-- the reference interpreter of a template -/
def interpret (env : Env) (toks : List Tok) (out : Bytes) : Bytes :=
  toks.foldl (fun o tk => tokSem env tk o) out

/-- side condition under which the C code agrees with the documented semantics: a case modifier must
    not meet a NUL byte (`caseOk`; the C code maps C strings) -/
def itemOk (env : Env) (c : UInt8) (mods : List Modifier) : Item → Prop
  | .cap d => caseOk mods (encode (escNde true) mods (capture env c (d.toNat - 48)))
  | .cap2 d1 d2 => caseOk mods (encode (escNde true) mods (capture env c ((d1.toNat - 48) * 10 + (d2.toNat - 48))))
  | .scheme => caseOk mods (encode id mods (env.url.scheme.getD []))
  | .authority => caseOk mods (encode id mods (env.url.authority.getD []))
  | .port => True
  | .path => caseOk mods (encode id mods (env.url.path.takeWhile (· ≠ qmark)))
  | .query => caseOk mods (encode id mods (env.url.query.getD []))
  | .qsa => caseOk mods (encode id mods (env.url.query.getD []))

def tokOk (env : Env) : Tok → Prop
  | .ext c mods item => itemOk env c mods item
  | _ => True

end Spec

theorem flagsOf_def (mods : List Modifier) : mods.foldl (fun f m => f ||| m.flag) 0 = flagsOf mods := rfl

/-- an item appends what the documented semantics says -/
theorem item_spec (hdef : Extracted.kvMod_default = Extracted.burlEncodePsnde) (env : Env) (c : UInt8)
    (mods : List Modifier) (item : Item) (out : Bytes) (hok : Spec.itemOk env c mods item) :
    item.apply env c (flagsOf mods) out = Spec.itemSem env c mods item out := by
  cases item with
  | cap d =>
    simp only [Spec.itemOk] at hok
    simp only [Item.apply, Spec.itemSem, Spec.capture] at hok ⊢
    rw [burlAppend_spec_cap hdef mods _ _ hok]
  | cap2 d1 d2 =>
    simp only [Spec.itemOk] at hok
    simp only [Item.apply, Spec.itemSem, Spec.capture] at hok ⊢
    rw [burlAppend_spec_cap hdef mods _ _ hok]
  | scheme =>
    simp only [Spec.itemOk] at hok
    simp only [Item.apply, Spec.itemSem]
    rw [burlAppend_spec_url mods _ [] hok]
  | authority =>
    simp only [Spec.itemOk] at hok
    simp only [Item.apply, Spec.itemSem]
    rw [burlAppend_spec_url mods _ [] hok]
  | port => simp [Item.apply, Spec.itemSem]
  | path =>
    simp only [Spec.itemOk] at hok
    simp only [Item.apply, Spec.itemSem]
    rw [burlAppend_spec_url mods _ _ hok]
  | query =>
    simp only [Spec.itemOk] at hok
    simp only [Item.apply, Spec.itemSem]
    rw [burlAppend_spec_url mods _ [] hok]
  | qsa =>
    simp only [Spec.itemOk] at hok
    simp only [Item.apply, Spec.itemSem, qsaAppend, Spec.qsa]
    cases hq : env.url.query with
    | none => rfl
    | some q =>
      simp only [hq, Option.getD_some] at hok
      simp only
      rw [burlAppend_spec_url mods q [] hok]

theorem tok_spec (hdef : Extracted.kvMod_default = Extracted.burlEncodePsnde) (env : Env) (tk : Tok) (out : Bytes)
    (hok : Spec.tokOk env tk) : tk.interp env out = Spec.tokSem env tk out := by
  cases tk with
  | lit s => rfl
  | sigil c => rfl
  | raw c d => rfl
  | ext c mods item =>
    simp only [Tok.interp, Spec.tokSem, flagsOf_def]
    exact item_spec hdef env c mods item out hok

theorem interpret_spec (hdef : Extracted.kvMod_default = Extracted.burlEncodePsnde) (env : Env) :
    ∀ (toks : List Tok) (out : Bytes), (∀ tk ∈ toks, Spec.tokOk env tk) →
      interpret env toks out = Spec.interpret env toks out := by
  intro toks
  induction toks with
  | nil => intro out _; rfl
  | cons tk rest ih =>
    intro out hok
    simp only [interpret, Spec.interpret, List.foldl_cons] at ih ⊢
    rw [tok_spec hdef env tk out (hok tk (by simp))]
    exact ih _ (fun x hx => hok x (by simp [hx]))

end LtVerif
